//! S: direct oracles, written from bip.mediawiki and the property texts (not from the Coq model).
//! They work on the real blocks and real outpoints, not on the abstract ids.
use crate::chain::*;
use crate::World;
use bitcoin::{OutPoint, TxOut};
use std::collections::{BTreeMap, HashMap};

type Ranges = Vec<(u64, u64)>;

// ---- bip.mediawiki, "Specification" ------------------------------------------------------------

/// def subsidy(height): return 50 * 100_000_000 >> height // 210_000
pub fn subsidy(height: u64) -> u64 {
  let shift = height / 210_000;
  if shift >= 64 {
    0
  } else {
    (50 * 100_000_000u64) >> shift
  }
}

/// def first_ordinal(height)
pub fn first_ordinal(height: u64) -> u64 {
  let mut start = 0;
  for h in 0..height {
    start += subsidy(h);
  }
  start
}

/// ordinals[:n] / del ordinals[:n] on a list of sats kept as ranges
fn take(ordinals: &mut Ranges, mut n: u64) -> Ranges {
  let mut out = Vec::new();
  while n > 0 && !ordinals.is_empty() {
    let (a, b) = ordinals[0];
    if b - a <= n {
      out.push((a, b));
      n -= b - a;
      ordinals.remove(0);
    } else {
      out.push((a, a + n));
      ordinals[0] = (a + n, b);
      n = 0;
    }
  }
  out
}

pub fn total(r: &[(u64, u64)]) -> u64 {
  r.iter().map(|(a, b)| b - a).sum()
}

/// the same list of sats, written with as few ranges as possible
pub fn normalise(r: &[(u64, u64)]) -> Ranges {
  let mut out: Ranges = Vec::new();
  for (a, b) in r {
    if a == b {
      continue;
    }
    if let Some(last) = out.last_mut() {
      if last.1 == *a {
        last.1 = *b;
        continue;
      }
    }
    out.push((*a, *b));
  }
  out
}

#[derive(Default)]
pub struct Bip {
  pub utxo: HashMap<OutPoint, Ranges>,
  pub lost: Ranges,
  pub displaced: Ranges,
  pub short: bool, // some output could not be filled: the chain is not valid
}

impl Bip {
  fn put(&mut self, txid: bitcoin::Txid, outputs: Vec<Ranges>) {
    for (vout, r) in outputs.into_iter().enumerate() {
      // "the new transaction outputs displace the older UTXO set entries, destroying the sats"
      if let Some(old) = self.utxo.insert(OutPoint { txid, vout: vout as u32 }, r) {
        self.displaced.extend(old);
      }
    }
  }

  /// def assign_ordinals(block)
  pub fn assign_ordinals(&mut self, height: u64, block: &bitcoin::Block) {
    let first = first_ordinal(height);
    let last = first + subsidy(height);
    let mut coinbase_ordinals: Ranges = if last > first { vec![(first, last)] } else { Vec::new() };
    for transaction in &block.txdata[1..] {
      let mut ordinals: Ranges = Vec::new();
      for input in &transaction.input {
        match self.utxo.remove(&input.previous_output) {
          Some(r) => ordinals.extend(r),
          None => self.short = true,
        }
      }
      let mut outs = Vec::new();
      for output in &transaction.output {
        let r = take(&mut ordinals, output.value.to_sat());
        if total(&r) != output.value.to_sat() {
          self.short = true;
        }
        outs.push(r);
      }
      self.put(transaction.compute_txid(), outs);
      coinbase_ordinals.extend(ordinals);
    }
    let cb = &block.txdata[0];
    let mut outs = Vec::new();
    for output in &cb.output {
      let r = take(&mut coinbase_ordinals, output.value.to_sat());
      if total(&r) != output.value.to_sat() {
        self.short = true;
      }
      outs.push(r);
    }
    self.put(cb.compute_txid(), outs);
    // "sats not claimed by the coinbase are lost"
    self.lost.extend(coinbase_ordinals);
  }
}

pub fn bip_of(w: &World, nblocks: usize) -> Bip {
  let mut bip = Bip::default();
  for (h, b) in w.real.blocks.iter().enumerate().take(nblocks) {
    bip.assign_ordinals(h as u64, b);
  }
  bip
}

// ---- shape of the known finding ---------------------------------------------------------------

/// A duplicate txid whose displaced outputs were already committed to the table, and an output of
/// the duplicate spent before the next commit: the class of `dup-spent-before-commit`.
/// Decided on the input alone (chain + schedule is not needed: any schedule may batch).
pub fn has_spent_duplicate(case: &Case) -> bool {
  // an outpoint that is overwritten while unspent and later spent
  let mut live: HashMap<(u64, u32), bool> = HashMap::new(); // value: created by an overwriting insert
  for b in &case.chain {
    for t in b.iter().skip(1).chain(b.iter().take(1)) {
      if !std::ptr::eq(t, &b[0]) {
        for i in &t.ins {
          if let Some(true) = live.remove(i) {
            return true;
          }
        }
      }
      for vout in 0..t.outs.len() {
        let k = (t.id, vout as u32);
        let over = live.contains_key(&k);
        live.insert(k, over);
      }
    }
  }
  false
}

// ---- C01 ----------------------------------------------------------------------------------------

pub fn check_c01(case: &Case, w: &World) -> Result<(), String> {
  let bip = bip_of(w, w.real.blocks.len());
  if bip.short {
    return Err("[generator] the generated chain is not valid (an output could not be filled)".into());
  }
  let tag = if has_spent_duplicate(case) { "[dup-spent-before-commit] " } else { "" };
  let mut seen = 0;
  for e in &w.dump.outpoint_to_utxo_entry {
    if e.outpoint == OutPoint::null() {
      continue;
    }
    seen += 1;
    if !bip.utxo.contains_key(&e.outpoint) {
      return Err(format!("{tag}the index holds output {:?} (id {:?}) which is not unspent according to the BIP", e.outpoint, w.op(&e.outpoint)));
    }
  }
  for (o, want) in &bip.utxo {
    let got = w.index.list(*o).map_err(|e| format!("list: {e}"))?;
    match got {
      None => return Err(format!("{tag}Index::list has no entry for unspent output {:?}", w.op(o))),
      Some(got) => {
        if normalise(&got) != normalise(want) {
          return Err(format!("{tag}output {:?}: index lists {:?}, BIP assigns {:?}", w.op(o), normalise(&got), normalise(want)));
        }
      }
    }
  }
  if seen != bip.utxo.len() {
    return Err(format!("{tag}index holds {seen} outputs, BIP {}", bip.utxo.len()));
  }
  let got_lost = w.index.list(OutPoint::null()).map_err(|e| format!("list: {e}"))?.unwrap_or_default();
  if normalise(&got_lost) != normalise(&bip.lost) {
    return Err(format!("lost sats: index lists {:?}, BIP {:?}", normalise(&got_lost), normalise(&bip.lost)));
  }
  let lost_stat = w.dump.statistic_to_count.iter().find(|(k, _)| *k == 10).map(|(_, v)| *v).unwrap_or(0);
  if lost_stat != total(&bip.lost) {
    return Err(format!("Statistic::LostSats = {lost_stat}, BIP loses {} sats", total(&bip.lost)));
  }
  Ok(())
}

// ---- C02 ----------------------------------------------------------------------------------------

pub fn check_c02(case: &Case, w: &World) -> Result<(), String> {
  let height = w.dump.height_to_block_header.len() as u64;
  if height as usize != w.real.blocks.len() {
    return Err(format!("indexed {height} blocks of {}", w.real.blocks.len()));
  }
  let bip = bip_of(w, w.real.blocks.len());
  let tag = if has_spent_duplicate(case) { "[dup-spent-before-commit] " } else { "" };
  // 1. audit: all stored ranges + destroyed ranges tile [0, first_ordinal(height))
  let mut all: Vec<(u64, u64, OutPoint, u64)> = Vec::new(); // start, end, where, offset
  for e in &w.dump.outpoint_to_utxo_entry {
    let rs = e.sat_ranges.clone().ok_or("no sat ranges in dump")?;
    let mut off = 0;
    for (a, b) in &rs {
      if a >= b {
        return Err(format!("empty or inverted range ({a},{b}) in {:?}", w.op(&e.outpoint)));
      }
      all.push((*a, *b, e.outpoint, off));
      off += b - a;
    }
    if e.outpoint != OutPoint::null() {
      let id = w.id_of(&e.outpoint.txid);
      let tx = &w.real.tx_of[&id];
      let value = tx.output.get(e.outpoint.vout as usize).ok_or("vout out of range")?.value.to_sat();
      if off != value || e.value != value {
        return Err(format!("output {:?}: ranges add up to {off}, entry value {}, transaction output value {value}", w.op(&e.outpoint), e.value));
      }
    }
  }
  let mut tiles: Vec<(u64, u64)> = all.iter().map(|x| (x.0, x.1)).collect();
  tiles.extend(bip.displaced.iter().cloned().filter(|(a, b)| a < b));
  tiles.sort();
  let mut next = 0;
  for (a, b) in &tiles {
    if *a != next {
      return Err(format!("{tag}sats [{next},{a}) are {} (mined supply [0,{}))", if *a > next { "in no output" } else { "in two places" }, first_ordinal(height)));
    }
    next = *b;
  }
  if next != first_ordinal(height) {
    return Err(format!("{tag}stored and destroyed ranges end at {next}, mined supply ends at {}", first_ordinal(height)));
  }
  // 2. find on the boundaries of every range, on destroyed sats and beyond the tip
  all.sort();
  let find = |s: u64| w.index.find(ordinals::Sat(s)).map_err(|e| format!("find: {e}"));
  for (a, b, o, off) in &all {
    for (s, k) in [(*a, *off), (*b - 1, *off + (*b - 1 - *a))] {
      let got = find(s)?;
      if got != Some(ordinals::SatPoint { outpoint: *o, offset: k }) {
        return Err(format!("find({s}) = {got:?}, the table has it at {:?}:{k}", w.op(o)));
      }
    }
  }
  for (a, b) in &bip.displaced {
    if a < b {
      for s in [*a, *b - 1] {
        if let Some(sp) = find(s)? {
          return Err(format!("{tag}find({s}) = {sp:?} but the sat was destroyed by a duplicate txid"));
        }
      }
    }
  }
  for s in [first_ordinal(height), first_ordinal(height) + 1, first_ordinal(height + 1) - 1, first_ordinal(height + 3)] {
    if let Some(sp) = find(s)? {
      return Err(format!("find({s}) = {sp:?} for a sat of a block that is not indexed"));
    }
  }
  // 3. find_range: exactly the overlaps
  let mut windows: Vec<(u64, u64)> = Vec::new();
  for q in &case.queries {
    if let Query::FindRange(a, b) = q {
      if a < b && *b <= first_ordinal(height) {
        windows.push((*a, *b));
      }
    }
  }
  if let Some(x) = all.first() {
    windows.push((x.0, x.1));
  }
  if all.len() > 2 {
    let m = &all[all.len() / 2];
    windows.push((m.0.saturating_sub(3), (m.1 + 3).min(first_ordinal(height))));
  }
  windows.push((0, first_ordinal(height)));
  for (a, b) in windows {
    let mut want: Vec<(u64, u64, OutPoint, u64)> = Vec::new();
    for (s, e, o, off) in &all {
      if *e > a && *s < b {
        let os = (*s).max(a);
        let oe = (*e).min(b);
        want.push((os, oe - os, *o, off + os - s));
      }
    }
    let mut got = w.index.find_range(ordinals::Sat(a), ordinals::Sat(b)).map_err(|e| format!("find_range: {e}"))?.ok_or(format!("find_range({a},{b}) = None below the indexed supply"))?;
    got.sort_by_key(|x| x.start);
    let got: Vec<(u64, u64, OutPoint, u64)> = got.iter().map(|x| (x.start, x.size, x.satpoint.outpoint, x.satpoint.offset)).collect();
    if got != want {
      return Err(format!("find_range({a},{b}) returns {} pieces, the table overlaps in {}", got.len(), want.len()));
    }
  }
  if w.index.find_range(ordinals::Sat(first_ordinal(height)), ordinals::Sat(first_ordinal(height) + 1)).map_err(|e| format!("find_range: {e}"))?.is_some() {
    return Err("find_range of an unindexed block is not None".into());
  }
  // 4. rare-sat table
  let rare = w.index.rare_sat_satpoints().map_err(|e| format!("rare: {e}"))?;
  let rare_map: BTreeMap<u64, ordinals::SatPoint> = rare.iter().map(|(s, p)| (s.0, *p)).collect();
  for (a, _, o, off) in &all {
    if !ordinals::Sat(*a).common() {
      match rare_map.get(a) {
        Some(sp) if sp.outpoint == *o && sp.offset == *off => {}
        other => return Err(format!("rare sat {a} starts a range at {:?}:{off}, rare-sat table says {other:?}", w.op(o))),
      }
    }
  }
  let mut stale = None;
  for (s, sp) in &rare_map {
    let here = all.iter().any(|(a, b, o, off)| a <= s && s < b && *o == sp.outpoint && off + (s - a) == sp.offset);
    if !here {
      let destroyed = bip.displaced.iter().any(|(a, b)| a <= s && s < b);
      if destroyed {
        stale = Some(format!("[displaced-rare-sat] rare-sat table still reports sat {s} at {:?}:{} after a duplicate txid destroyed it", w.op(&sp.outpoint), sp.offset));
      } else {
        return Err(format!("{tag}rare-sat table reports sat {s} at {:?}:{} but it is not there", w.op(&sp.outpoint), sp.offset));
      }
    }
  }
  // 5. list agrees with the dump (both read the same table; list is the public API)
  for e in &w.dump.outpoint_to_utxo_entry {
    let got = w.index.list(e.outpoint).map_err(|e| format!("list: {e}"))?;
    if got != e.sat_ranges {
      return Err(format!("list({:?}) differs from the table entry", w.op(&e.outpoint)));
    }
  }
  // the BIP comparison of C01, so that a wrong partition member is seen here as well
  crate::oracle::check_c01(case, w)?;
  match stale {
    Some(m) => Err(m),
    None => Ok(()),
  }
}

// ---- C17 ----------------------------------------------------------------------------------------

pub fn check_c17(case: &Case, w: &World) -> Result<(), String> {
  let tag = if has_spent_duplicate(case) { "[dup-spent-before-commit] " } else { "" };
  // unspent outputs according to the chain
  let mut unspent: HashMap<OutPoint, TxOut> = HashMap::new();
  for b in &w.real.blocks {
    for (i, tx) in b.txdata.iter().enumerate() {
      if i > 0 {
        for input in &tx.input {
          unspent.remove(&input.previous_output);
        }
      }
      let txid = tx.compute_txid();
      for (vout, o) in tx.output.iter().enumerate() {
        unspent.insert(OutPoint { txid, vout: vout as u32 }, o.clone());
      }
    }
  }
  let mut want: BTreeMap<Vec<u8>, Vec<OutPoint>> = BTreeMap::new();
  for (o, out) in &unspent {
    want.entry(out.script_pubkey.as_bytes().to_vec()).or_default().push(*o);
  }
  for v in want.values_mut() {
    v.sort();
  }
  let mut got: BTreeMap<Vec<u8>, Vec<OutPoint>> = BTreeMap::new();
  for (script, ops) in &w.dump.script_pubkey_to_outpoint {
    for o in ops {
      if *o == OutPoint::null() {
        if !script.is_empty() {
          return Err("the null outpoint is listed under a non-empty script".into());
        }
        continue;
      }
      got.entry(script.clone()).or_default().push(*o);
    }
  }
  for v in got.values_mut() {
    v.sort();
  }
  if got != want {
    for (s, v) in &want {
      if got.get(s) != Some(v) {
        return Err(format!("{tag}script {:?}: index lists {:?}, unspent outputs paying to it are {:?}", script_id(s, &w.real), got.get(s).map(|x| x.iter().map(|o| w.op(o)).collect::<Vec<_>>()), v.iter().map(|o| w.op(o)).collect::<Vec<_>>()));
      }
    }
    for (s, v) in &got {
      if !want.contains_key(s) {
        return Err(format!("{tag}script {:?}: index lists {:?}, no unspent output pays to it", script_id(s, &w.real), v.iter().map(|o| w.op(o)).collect::<Vec<_>>()));
      }
    }
  }
  // recorded script and value = the creating transaction's output
  for e in &w.dump.outpoint_to_utxo_entry {
    if e.outpoint == OutPoint::null() {
      continue;
    }
    let id = w.id_of(&e.outpoint.txid);
    let out = &w.real.tx_of[&id].output[e.outpoint.vout as usize];
    if e.value != out.value.to_sat() || e.script_pubkey.as_deref() != Some(out.script_pubkey.as_bytes()) {
      return Err(format!("entry {:?} records value {} script {:?}, the transaction created value {} script {:?}", w.op(&e.outpoint), e.value, e.script_pubkey, out.value.to_sat(), out.script_pubkey.as_bytes()));
    }
    if !unspent.contains_key(&e.outpoint) {
      return Err(format!("{tag}table entry {:?} is not an unspent output", w.op(&e.outpoint)));
    }
  }
  // public API for scripts that are addresses
  for (s, v) in &want {
    let script = bitcoin::ScriptBuf::from_bytes(s.clone());
    if let Ok(address) = bitcoin::Address::from_script(&script, crate::chain::network_of(case.sched.flags)) {
      let mut listed = w.index.get_address_info(&address).map_err(|e| format!("get_address_info: {e}"))?;
      listed.sort();
      if listed != *v {
        return Err(format!("{tag}get_address_info({address}) lists {} outputs, {} are unspent", listed.len(), v.len()));
      }
    }
  }
  Ok(())
}
