//! Harness for the sat-index / address-index properties C01, C02, C17.
//!
//! A case is an abstract chain (same wire format as coq/Index/SatIndex.v read_chain):
//!   nsched sched...  nblocks blocks...  queries...
//!   sched  = commit_interval headers_far flags update_height...   (not modelled: how the real
//!            index is driven; flags bit0 = --index-addresses, bit1 = --no-index-inscriptions,
//!            bit2 = no --index-sats (C17 only))
//!   block  = ntx tx...          (transaction 0 is the coinbase; block 0 is the regtest genesis)
//!   tx     = id nin (id vout)... nout (value script)...
//!   query  = 1 s | 2 a b | 3 id vout | 4 s      (C02: find, find_range, list, rare_sat_satpoint)
//! Transaction ids are small integers; the harness builds one real transaction per id
//! (lock_time = id, so distinct ids give distinct txids and equal ids equal transactions),
//! installs the blocks in the mock node, indexes, and maps real txids back to ids.
use bitcoin::hashes::Hash;
use hxlib::*;
use std::collections::{BTreeMap, BTreeSet, HashMap, VecDeque};

mod chain;
mod oracle;
use chain::*;

pub const SUBSIDY: u64 = 50 * 100_000_000;
pub const NULL_VOUT: u32 = u32::MAX;

fn scratch_dir() -> tempfile::TempDir {
  if std::path::Path::new("/dev/shm").is_dir() {
    tempfile::tempdir_in("/dev/shm").unwrap()
  } else {
    tempfile::tempdir().unwrap()
  }
}

fn stat(dump: &ord::index::verif::Dump, key: u64) -> u64 {
  dump.statistic_to_count.iter().find(|(k, _)| *k == key).map(|(_, v)| *v).unwrap_or(0)
}

/// The real index after indexing the whole case, with the id <-> txid maps.
pub struct World {
  pub core: mockcore::Handle,
  pub _dir: tempfile::TempDir,
  pub index: ord::Index,
  pub real: RealChain,
  pub dump: ord::index::verif::Dump,
}

impl World {
  pub fn id_of(&self, txid: &bitcoin::Txid) -> u64 {
    if *txid == bitcoin::Txid::all_zeros() {
      0
    } else {
      *self.real.id_of.get(txid).expect("txid of the dump is not a transaction of the case")
    }
  }
  pub fn op(&self, o: &bitcoin::OutPoint) -> (u64, u32) {
    (self.id_of(&o.txid), o.vout)
  }
  pub fn real_op(&self, id: u64, vout: u32) -> Option<bitcoin::OutPoint> {
    if id == 0 {
      return Some(bitcoin::OutPoint { txid: bitcoin::Txid::all_zeros(), vout });
    }
    self.real.txid_of.get(&id).map(|t| bitcoin::OutPoint { txid: *t, vout })
  }
}

pub fn build_world(case: &Case) -> World {
  let network = network_of(case.sched.flags);
  let padded = case.sched.flags & FLAG_PADDED != 0;
  let core = mockcore::builder().network(network).build();
  let dir = scratch_dir();
  let real = realise(&case.chain, case.sched.flags);
  // a padded chain is always driven with far-ahead headers (no savepoint every 10 blocks over
  // 112k blocks) and a large commit interval; its wire schedule says "not far" so that the model
  // commits per block (generated padded chains are outside the schedule dependent known class)
  mockcore::VERIF_HEADERS.store(if case.sched.headers_far || padded { 1_000_000 } else { -1 }, std::sync::atomic::Ordering::SeqCst);
  let mut flags: Vec<String> = Vec::new();
  if network == bitcoin::Network::Signet {
    flags.push("--signet".into());
  }
  if case.sched.flags & 4 == 0 {
    flags.push("--index-sats".into());
  }
  if case.sched.flags & 1 != 0 {
    flags.push("--index-addresses".into());
  }
  if case.sched.flags & 2 != 0 {
    flags.push("--no-index-inscriptions".into());
  }
  flags.push("--commit-interval".into());
  flags.push(if padded { case.sched.commit_interval.max(5000) } else { case.sched.commit_interval.max(1) }.to_string());
  let refs: Vec<&str> = flags.iter().map(|s| s.as_str()).collect();
  let index = ordkit::open_index(&core, dir.path(), &refs);
  // install blocks up to each scheduled height, update, continue
  let mut installed = 1usize; // genesis is there
  let offset = if padded { PAD } else { 0 };
  let mut stops: Vec<usize> = case
    .sched
    .updates
    .iter()
    .map(|h| (if *h <= 1 { *h as usize } else { *h as usize + offset }).min(real.blocks.len()))
    .collect();
  stops.push(real.blocks.len());
  for stop in stops {
    if stop <= installed && stop != real.blocks.len() {
      continue;
    }
    while installed < stop {
      install_block(&core, &real.blocks[installed]);
      installed += 1;
    }
    index.update().expect("update");
  }
  let dump = index.verif_dump().expect("dump");
  World { core, _dir: dir, index, real, dump }
}

// ------------------------------------------------------------------ C01

fn emit_ranges(l: &mut L, rs: &[(u64, u64)]) {
  l.push(rs.len());
  for (a, b) in rs {
    l.push(*a);
    l.push(*b);
  }
}

fn observe_c01(w: &World) -> Line {
  let mut l = L::new();
  l.push(0u8);
  let mut ents: Vec<((u64, u32), Vec<(u64, u64)>)> = Vec::new();
  let mut lost: Vec<(u64, u64)> = Vec::new();
  for e in &w.dump.outpoint_to_utxo_entry {
    let rs = e.sat_ranges.clone().unwrap_or_default();
    if e.outpoint == bitcoin::OutPoint::null() {
      lost = rs;
    } else {
      ents.push((w.op(&e.outpoint), rs));
    }
  }
  ents.sort();
  l.push(ents.len());
  for ((id, vout), rs) in &ents {
    l.push(*id);
    l.push(*vout);
    emit_ranges(&mut l, rs);
  }
  emit_ranges(&mut l, &lost);
  l.push(stat(&w.dump, 10));
  l.push(w.dump.sat_to_satpoint.len());
  for (sat, sp) in &w.dump.sat_to_satpoint {
    let (id, vout) = w.op(&sp.outpoint);
    l.push(*sat);
    l.push(id);
    l.push(vout);
    l.push(sp.offset);
  }
  l.done()
}

fn run_c01(line: &Line) -> Outcome {
  let case = parse_case(line);
  let cat = categorise(&case, "C01");
  let w = build_world(&case);
  let obs = observe_c01(&w);
  let oracle = oracle::check_c01(&case, &w);
  Outcome { obs, oracle, cat }
}

// ------------------------------------------------------------------ C02

fn emit_find(l: &mut L, w: &World, sat: u64) -> Option<((u64, u32), u64)> {
  let r = std::panic::catch_unwind(std::panic::AssertUnwindSafe(|| w.index.find(ordinals::Sat(sat))));
  match r {
    Err(_) => {
      l.push(Z { neg: true, mag: 2 });
      None
    }
    Ok(Err(_)) => {
      l.push(Z { neg: true, mag: 1 });
      None
    }
    Ok(Ok(None)) => {
      l.push(0u8);
      None
    }
    Ok(Ok(Some(sp))) => {
      let (id, vout) = w.op(&sp.outpoint);
      l.push(1u8);
      l.push(id);
      l.push(vout);
      l.push(sp.offset);
      Some(((id, vout), sp.offset))
    }
  }
}

fn emit_find_range(l: &mut L, w: &World, a: u64, b: u64) {
  let r = std::panic::catch_unwind(std::panic::AssertUnwindSafe(|| w.index.find_range(ordinals::Sat(a), ordinals::Sat(b))));
  match r {
    Err(_) => l.push(Z { neg: true, mag: 2 }),
    Ok(Err(_)) => {
      l.push(2u8);
      l.push(0u8);
    }
    Ok(Ok(None)) => {
      l.push(0u8);
      l.push(0u8);
    }
    Ok(Ok(Some(mut v))) => {
      v.sort_by_key(|x| x.start);
      l.push(1u8);
      l.push(v.len());
      for x in v {
        let (id, vout) = w.op(&x.satpoint.outpoint);
        l.push(x.start);
        l.push(x.size);
        l.push(id);
        l.push(vout);
        l.push(x.satpoint.offset);
      }
    }
  }
}

fn run_c02(line: &Line) -> Outcome {
  let case = parse_case(line);
  let cat = categorise(&case, "C02");
  let w = build_world(&case);
  let mut l = L::new();
  l.push(0u8);
  l.push(w.dump.height_to_block_header.len());
  // find on the first and last sat of every stored range, entries in canonical order
  let mut ents: Vec<((u64, u32), Vec<(u64, u64)>)> = w
    .dump
    .outpoint_to_utxo_entry
    .iter()
    .map(|e| (w.op(&e.outpoint), e.sat_ranges.clone().unwrap_or_default()))
    .collect();
  ents.sort();
  for (_, rs) in &ents {
    for (a, b) in rs {
      emit_find(&mut l, &w, *a);
      emit_find(&mut l, &w, b.wrapping_sub(1));
    }
  }
  for q in &case.queries {
    match q {
      Query::Find(s) => {
        emit_find(&mut l, &w, *s);
      }
      Query::FindRange(a, b) => emit_find_range(&mut l, &w, *a, *b),
      Query::List(id, vout) => {
        let r = w.real_op(*id, *vout).and_then(|o| w.index.list(o).expect("list"));
        match r {
          None => l.push(0u8),
          Some(rs) => {
            l.push(1u8);
            emit_ranges(&mut l, &rs);
          }
        }
      }
      Query::Common(s) => {
        l.push(ordinals::Sat(*s).common());
        l.push(ordinals::Epoch::from(ordinals::Sat(*s)).0);
      }
      Query::Height(h) => {
        let hh = ordinals::Height(u32::try_from(*h).unwrap());
        l.push(hh.subsidy());
        l.push(hh.starting_sat().n());
      }
      Query::SatHeight(s) => match std::panic::catch_unwind(|| ordinals::Sat(*s).height().n()) {
        Ok(h) => l.push(h),
        Err(_) => l.push(Z { neg: true, mag: 2 }),
      },
      Query::Rare(s) => match w.index.rare_sat_satpoint(ordinals::Sat(*s)).expect("rare") {
        None => l.push(0u8),
        Some(sp) => {
          let (id, vout) = w.op(&sp.outpoint);
          l.push(1u8);
          l.push(id);
          l.push(vout);
          l.push(sp.offset);
        }
      },
    }
  }
  let oracle = oracle::check_c02(&case, &w);
  Outcome { obs: l.done(), oracle, cat }
}

// ------------------------------------------------------------------ C17

fn run_c17(line: &Line) -> Outcome {
  let case = parse_case(line);
  let cat = categorise(&case, "C17");
  let w = build_world(&case);
  // observation: table entries (id vout value script) in canonical order, then the multimap
  // as (script, id, vout) triples sorted; the null-outpoint pseudo entry is left out
  let mut l = L::new();
  l.push(0u8);
  let mut ents: Vec<((u64, u32), u64, u64)> = Vec::new();
  for e in &w.dump.outpoint_to_utxo_entry {
    if e.outpoint == bitcoin::OutPoint::null() {
      continue;
    }
    if w.id_of(&e.outpoint.txid) >= PAD_ID_BASE {
      continue;
    }
    let sid = script_id(e.script_pubkey.as_deref().unwrap_or(&[]), &w.real);
    ents.push((w.op(&e.outpoint), e.value, sid));
  }
  ents.sort();
  l.push(ents.len());
  for ((id, vout), value, sid) in &ents {
    l.push(*id);
    l.push(*vout);
    l.push(*value);
    l.push(*sid);
  }
  let mut pairs: Vec<(u64, u64, u32)> = Vec::new();
  for (script, ops) in &w.dump.script_pubkey_to_outpoint {
    let sid = script_id(script, &w.real);
    for o in ops {
      if *o == bitcoin::OutPoint::null() {
        continue;
      }
      let (id, vout) = w.op(o);
      if id >= PAD_ID_BASE {
        continue;
      }
      pairs.push((sid, id, vout));
    }
  }
  pairs.sort();
  l.push(pairs.len());
  for (s, id, vout) in &pairs {
    l.push(*s);
    l.push(*id);
    l.push(*vout);
  }
  let oracle = oracle::check_c17(&case, &w);
  Outcome { obs: l.done(), oracle, cat }
}

fn main() {
  let args = parse_args();
  let prop = args.prop.clone();
  match prop.as_str() {
    "C01" => drive(&args, |r, t| gen_cases(r, t, "C01"), |c| guarded("C01", || run_c01(c))),
    "C02" => drive(&args, |r, t| gen_cases(r, t, "C02"), |c| guarded("C02", || run_c02(c))),
    "C17" => drive(&args, |r, t| gen_cases(r, t, "C17"), |c| guarded("C17", || run_c17(c))),
    p => {
      eprintln!("unknown property {p}");
      std::process::exit(2);
    }
  }
  std::process::exit(0);
}

#[allow(dead_code)]
fn unused(_: BTreeMap<u8, u8>, _: BTreeSet<u8>, _: HashMap<u8, u8>, _: VecDeque<u8>) {}
