//! Abstract chains: wire format, generator, realisation as bitcoin blocks in the mock node.
use crate::SUBSIDY;
use bitcoin::hashes::Hash;
use hxlib::*;
use std::collections::{BTreeMap, HashMap};

#[derive(Clone, Debug, PartialEq)]
pub struct ATx {
  pub id: u64,
  pub ins: Vec<(u64, u32)>,
  pub outs: Vec<(u64, u64)>, // value, script id
}

pub type ABlock = Vec<ATx>;

#[derive(Clone, Debug, Default)]
pub struct Sched {
  pub commit_interval: u64,
  pub headers_far: bool,
  pub flags: u64,
  pub updates: Vec<u64>,
}

#[derive(Clone, Debug)]
pub enum Query {
  Find(u64),
  FindRange(u64, u64),
  List(u64, u32),
  Rare(u64),
  Common(u64),
  Height(u64),
  SatHeight(u64),
}

#[derive(Clone, Debug)]
pub struct Case {
  pub sched: Sched,
  pub chain: Vec<ABlock>,
  pub queries: Vec<Query>,
}

pub const GENESIS_ID: u64 = 1;
pub const SCRIPT_EMPTY: u64 = 0;
pub const SCRIPT_OP_RETURN: u64 = 1;
pub const SCRIPT_OP_RETURN_DATA: u64 = 2;
pub const SCRIPT_GENESIS: u64 = 3;

pub fn script_of(id: u64) -> bitcoin::ScriptBuf {
  use bitcoin::opcodes::all::*;
  use bitcoin::script::Builder;
  let b = id as u8;
  match id {
    SCRIPT_EMPTY => bitcoin::ScriptBuf::new(),
    SCRIPT_OP_RETURN => Builder::new().push_opcode(OP_RETURN).into_script(),
    SCRIPT_OP_RETURN_DATA => Builder::new().push_opcode(OP_RETURN).push_slice(b"ord").into_script(),
    SCRIPT_GENESIS => bitcoin::blockdata::constants::genesis_block(bitcoin::Network::Regtest).txdata[0].output[0]
      .script_pubkey
      .clone(),
    _ => match id % 5 {
      0 => Builder::new().push_int(0).push_slice([b; 20]).into_script(), // p2wpkh
      1 => Builder::new().push_opcode(OP_PUSHNUM_1).push_slice([b; 32]).into_script(), // p2tr shape
      2 => Builder::new()
        .push_opcode(OP_DUP)
        .push_opcode(OP_HASH160)
        .push_slice([b; 20])
        .push_opcode(OP_EQUALVERIFY)
        .push_opcode(OP_CHECKSIG)
        .into_script(), // p2pkh
      3 => Builder::new().push_opcode(OP_HASH160).push_slice([b; 20]).push_opcode(OP_EQUAL).into_script(), // p2sh
      _ => Builder::new().push_opcode(OP_PUSHNUM_1).push_int(id as i64).push_opcode(OP_DROP).into_script(), // non-standard
    },
  }
}

// ------------------------------------------------------------------ wire

pub fn case_line(c: &Case) -> Line {
  let mut l = L::new();
  l.push(3 + c.sched.updates.len());
  l.push(c.sched.commit_interval);
  l.push(c.sched.headers_far);
  l.push(c.sched.flags);
  for u in &c.sched.updates {
    l.push(*u);
  }
  l.push(c.chain.len());
  for b in &c.chain {
    l.push(b.len());
    for t in b {
      l.push(t.id);
      l.push(t.ins.len());
      for (i, v) in &t.ins {
        l.push(*i);
        l.push(*v);
      }
      l.push(t.outs.len());
      for (v, s) in &t.outs {
        l.push(*v);
        l.push(*s);
      }
    }
  }
  for q in &c.queries {
    match q {
      Query::Find(s) => {
        l.push(1u8);
        l.push(*s);
      }
      Query::FindRange(a, b) => {
        l.push(2u8);
        l.push(*a);
        l.push(*b);
      }
      Query::List(i, v) => {
        l.push(3u8);
        l.push(*i);
        l.push(*v);
      }
      Query::Rare(s) => {
        l.push(4u8);
        l.push(*s);
      }
      Query::Common(s) => {
        l.push(5u8);
        l.push(*s);
      }
      Query::Height(h) => {
        l.push(6u8);
        l.push(*h);
      }
      Query::SatHeight(s) => {
        l.push(7u8);
        l.push(*s);
      }
    }
  }
  l.done()
}

pub fn parse_case(line: &Line) -> Case {
  let mut c = Cur::new(line);
  let ns = c.usize();
  let mut sched = Sched::default();
  let mut raw = Vec::new();
  for _ in 0..ns {
    raw.push(c.u64());
  }
  if !raw.is_empty() {
    sched.commit_interval = raw[0];
  }
  if raw.len() > 1 {
    sched.headers_far = raw[1] != 0;
  }
  if raw.len() > 2 {
    sched.flags = raw[2];
  }
  if raw.len() > 3 {
    sched.updates = raw[3..].to_vec();
  }
  let nb = c.usize();
  let mut chain = Vec::new();
  for _ in 0..nb {
    let nt = c.usize();
    let mut b = Vec::new();
    for _ in 0..nt {
      let id = c.u64();
      let ni = c.usize();
      let mut ins = Vec::new();
      for _ in 0..ni {
        let i = c.u64();
        let v = c.u32();
        ins.push((i, v));
      }
      let no = c.usize();
      let mut outs = Vec::new();
      for _ in 0..no {
        let v = c.u64();
        let s = c.u64();
        outs.push((v, s));
      }
      b.push(ATx { id, ins, outs });
    }
    chain.push(b);
  }
  let mut queries = Vec::new();
  while !c.at_end() {
    match c.u64() {
      1 => queries.push(Query::Find(c.u64())),
      2 => {
        let a = c.u64();
        let b = c.u64();
        queries.push(Query::FindRange(a, b))
      }
      3 => {
        let i = c.u64();
        let v = c.u32();
        queries.push(Query::List(i, v))
      }
      4 => queries.push(Query::Rare(c.u64())),
      5 => queries.push(Query::Common(c.u64())),
      6 => queries.push(Query::Height(c.u64())),
      7 => queries.push(Query::SatHeight(c.u64())),
      _ => break,
    }
  }
  Case { sched, chain, queries }
}

// ------------------------------------------------------------------ realisation

pub struct RealChain {
  pub blocks: Vec<bitcoin::Block>, // blocks[0] = genesis (not installed)
  pub txid_of: HashMap<u64, bitcoin::Txid>,
  pub id_of: HashMap<bitcoin::Txid, u64>,
  pub tx_of: HashMap<u64, bitcoin::Transaction>,
  pub script_ids: HashMap<Vec<u8>, u64>,
}

pub fn script_id(bytes: &[u8], real: &RealChain) -> u64 {
  *real.script_ids.get(bytes).expect("script of the dump is not a script of the case")
}

/// bit 3 of the case flags: the chain lives on signet (first inscription height 112402, so the
/// index must not tie the address index to the inscription index); bit 4: signet with PAD empty
/// blocks inserted after the genesis block, so that abstract block i >= 1 has height PAD + i:
/// blocks 1..=11 are below the first inscription height, the others at or above it.
pub const FLAG_SIGNET: u64 = 8;
pub const FLAG_PADDED: u64 = 16;
pub const SIGNET_FIRST_INSCRIPTION_HEIGHT: usize = 112_402;
pub const PAD: usize = SIGNET_FIRST_INSCRIPTION_HEIGHT - 12;
/// ids of the padding coinbases (never part of an observation)
pub const PAD_ID_BASE: u64 = 0x4000_0000;

pub fn network_of(flags: u64) -> bitcoin::Network {
  if flags & (FLAG_SIGNET | FLAG_PADDED) != 0 {
    bitcoin::Network::Signet
  } else {
    bitcoin::Network::Regtest
  }
}

fn pad_coinbase(h: usize) -> bitcoin::Transaction {
  use bitcoin::{absolute::LockTime, transaction::Version, Amount, OutPoint, Sequence, Transaction, TxIn, TxOut, Witness};
  Transaction {
    version: Version(2),
    lock_time: LockTime::from_consensus(PAD_ID_BASE as u32 + h as u32),
    input: vec![TxIn {
      previous_output: OutPoint::null(),
      script_sig: bitcoin::script::Builder::new().push_int(h as i64).push_int(1).into_script(),
      sequence: Sequence::MAX,
      witness: Witness::new(),
    }],
    output: vec![TxOut { value: Amount::from_sat(SUBSIDY), script_pubkey: script_of(SCRIPT_EMPTY) }],
  }
}

/// The deterministic padding blocks (heights 1..=PAD on top of the signet genesis): one coinbase
/// paying the subsidy to the empty script.  Built once per process; the serialised blocks are cached
/// under <target>/hx-satsidx-cache (node data only: the index is always built fresh, so a run
/// against another source tree never sees an index made by this one).
pub fn padding() -> &'static Vec<bitcoin::Block> {
  static P: std::sync::OnceLock<Vec<bitcoin::Block>> = std::sync::OnceLock::new();
  P.get_or_init(|| {
    let exe = std::env::current_exe().unwrap();
    let dir = exe.parent().unwrap().parent().unwrap().join("hx-satsidx-cache").join("v1");
    let _ = std::fs::create_dir_all(&dir);
    let file = dir.join(format!("signet-pad-{PAD}.bin"));
    if let Ok(bytes) = std::fs::read(&file) {
      let mut v = Vec::with_capacity(PAD);
      let mut pos = 0;
      while pos < bytes.len() {
        let (b, used): (bitcoin::Block, usize) = bitcoin::consensus::deserialize_partial(&bytes[pos..]).unwrap();
        pos += used;
        v.push(b);
      }
      if v.len() == PAD {
        return v;
      }
    }
    let mut prev = bitcoin::blockdata::constants::genesis_block(bitcoin::Network::Signet).block_hash();
    let mut v = Vec::with_capacity(PAD);
    let mut out = Vec::new();
    for h in 1..=PAD {
      let b = bitcoin::Block {
        header: bitcoin::block::Header {
          version: bitcoin::block::Version::ONE,
          prev_blockhash: prev,
          merkle_root: bitcoin::TxMerkleNode::all_zeros(),
          time: h as u32,
          bits: bitcoin::CompactTarget::from_consensus(0),
          nonce: h as u32,
        },
        txdata: vec![pad_coinbase(h)],
      };
      prev = b.block_hash();
      out.extend(bitcoin::consensus::serialize(&b));
      v.push(b);
    }
    let _ = std::fs::write(&file, out);
    v
  })
}

pub fn realise(chain: &[ABlock], flags: u64) -> RealChain {
  use bitcoin::{absolute::LockTime, transaction::Version, Amount, OutPoint, ScriptBuf, Sequence, Transaction, TxIn, TxOut, Witness};
  let genesis = bitcoin::blockdata::constants::genesis_block(network_of(flags));
  let padded = flags & FLAG_PADDED != 0;
  let mut real = RealChain {
    blocks: vec![genesis.clone()],
    txid_of: HashMap::new(),
    id_of: HashMap::new(),
    tx_of: HashMap::new(),
    script_ids: HashMap::new(),
  };
  assert!(!chain.is_empty(), "a case starts with the genesis block");
  // block 0 must describe the genesis block
  let g = &chain[0];
  assert!(g.len() == 1 && g[0].id == GENESIS_ID && g[0].outs == vec![(SUBSIDY, SCRIPT_GENESIS)], "block 0 of a case is the regtest genesis block");
  let gtx = genesis.txdata[0].clone();
  real.txid_of.insert(GENESIS_ID, gtx.compute_txid());
  real.id_of.insert(gtx.compute_txid(), GENESIS_ID);
  real.tx_of.insert(GENESIS_ID, gtx);
  real.script_ids.insert(script_of(SCRIPT_GENESIS).into_bytes(), SCRIPT_GENESIS);
  real.script_ids.insert(Vec::new(), SCRIPT_EMPTY);
  let mut prev = genesis.block_hash();
  if padded {
    for (i, b) in padding().iter().enumerate() {
      let id = PAD_ID_BASE + 1 + i as u64;
      let tx = &b.txdata[0];
      let txid = tx.compute_txid();
      real.txid_of.insert(id, txid);
      real.id_of.insert(txid, id);
      real.tx_of.insert(id, tx.clone());
      real.blocks.push(b.clone());
    }
    prev = real.blocks.last().unwrap().block_hash();
  }
  let offset = if padded { PAD } else { 0 };
  for (h, b) in chain.iter().enumerate().skip(1) {
    let h = h + offset;
    let mut txdata = Vec::new();
    for (i, t) in b.iter().enumerate() {
      assert!(t.id != 0 && t.id < PAD_ID_BASE, "transaction ids are 1..2^30-1");
      let input = if i == 0 {
        vec![TxIn {
          previous_output: OutPoint::null(),
          script_sig: bitcoin::script::Builder::new().push_int(t.id as i64).push_int(0).into_script(),
          sequence: Sequence::MAX,
          witness: Witness::new(),
        }]
      } else {
        t.ins
          .iter()
          .map(|(id, vout)| TxIn {
            previous_output: OutPoint { txid: *real.txid_of.get(id).expect("input refers to an unknown transaction id"), vout: *vout },
            script_sig: ScriptBuf::new(),
            sequence: Sequence::MAX,
            witness: Witness::new(),
          })
          .collect()
      };
      let output = t
        .outs
        .iter()
        .map(|(v, s)| {
          let sc = script_of(*s);
          real.script_ids.insert(sc.clone().into_bytes(), *s);
          TxOut { value: Amount::from_sat(*v), script_pubkey: sc }
        })
        .collect();
      let tx = Transaction { version: Version(2), lock_time: LockTime::from_consensus(t.id as u32), input, output };
      let txid = tx.compute_txid();
      if let Some(old) = real.tx_of.get(&t.id) {
        assert!(*old == tx, "a repeated transaction id must repeat the transaction");
      }
      if let Some(other) = real.id_of.get(&txid) {
        assert!(*other == t.id, "two ids with one txid");
      }
      real.txid_of.insert(t.id, txid);
      real.id_of.insert(txid, t.id);
      real.tx_of.insert(t.id, tx.clone());
      txdata.push(tx);
    }
    let block = bitcoin::Block {
      header: bitcoin::block::Header {
        version: bitcoin::block::Version::ONE,
        prev_blockhash: prev,
        merkle_root: bitcoin::TxMerkleNode::all_zeros(),
        time: h as u32,
        bits: bitcoin::CompactTarget::from_consensus(0),
        nonce: h as u32,
      },
      txdata,
    };
    prev = block.block_hash();
    real.blocks.push(block);
  }
  real
}

pub fn install_block(core: &mockcore::Handle, block: &bitcoin::Block) {
  let mut st = core.state();
  assert_eq!(*st.hashes.last().unwrap(), block.header.prev_blockhash);
  for tx in &block.txdata {
    st.transactions.insert(tx.compute_txid(), tx.clone());
  }
  st.blocks.insert(block.block_hash(), block.clone());
  st.hashes.push(block.block_hash());
  st.nonce += 1;
}

// ------------------------------------------------------------------ generator

struct Gen<'a> {
  rng: &'a mut Rng,
  live: BTreeMap<(u64, u32), u64>, // abstract UTXO set: value
  next_id: u64,
  coinbases: Vec<ATx>, // earlier coinbases (candidates for a duplicate)
  dups: u64,
}

impl<'a> Gen<'a> {
  fn script(&mut self) -> u64 {
    match self.rng.below(12) {
      0 => SCRIPT_EMPTY,
      1 => SCRIPT_OP_RETURN,
      2 => SCRIPT_OP_RETURN_DATA,
      _ => self.rng.range(4, 13),
    }
  }

  fn out_values(&mut self, budget: u64, nout: usize, exact: bool) -> Vec<u64> {
    let mut rest = budget;
    let mut v = Vec::new();
    for k in 0..nout {
      let last = k + 1 == nout;
      let x = if last && exact {
        rest
      } else {
        let c = match self.rng.below(8) {
          0 => 0,
          1 => 1,
          2 => 546,
          3 => 10_000,
          4 => rest,
          5 => rest / 2,
          _ => self.rng.below(rest + 1),
        };
        c.min(rest)
      };
      v.push(x);
      rest -= x;
    }
    v
  }

  fn tx(&mut self) -> Option<ATx> {
    if self.live.is_empty() {
      return None;
    }
    let nin = self.rng.range(1, 3).min(self.live.len() as u64) as usize;
    let mut ins = Vec::new();
    let mut total = 0u64;
    for _ in 0..nin {
      let keys: Vec<(u64, u32)> = self.live.keys().cloned().collect();
      // prefer recent outputs (same-block spends, duplicates) half of the time
      let k = if self.rng.chance(1, 2) { keys[keys.len() - 1 - self.rng.below(keys.len().min(4) as u64) as usize] } else { *self.rng.pick(&keys) };
      total += self.live.remove(&k).unwrap();
      ins.push(k);
    }
    let nout = self.rng.below(5) as usize;
    let exact = self.rng.chance(1, 2); // fee-free
    let vals = self.out_values(total, nout, exact);
    let mut outs: Vec<(u64, u64)> = Vec::new();
    for v in vals {
      let s = self.script();
      outs.push((v, s));
    }
    let id = self.next_id;
    self.next_id += 1;
    for (vout, (v, _)) in outs.iter().enumerate() {
      self.live.insert((id, vout as u32), *v);
    }
    let sum_out: u64 = outs.iter().map(|o| o.0).sum();
    let _ = sum_out;
    Some(ATx { id, ins, outs })
  }

  fn block(&mut self, height: u64, max_tx: u64) -> ABlock {
    let _ = height;
    let mut fees = 0u64;
    let mut txs = Vec::new();
    let ntx = self.rng.below(max_tx + 1);
    for _ in 0..ntx {
      let before: u64 = self.live.values().sum();
      if let Some(t) = self.tx() {
        let after: u64 = self.live.values().sum();
        fees += before - after;
        txs.push(t);
      }
    }
    let budget = SUBSIDY + fees;
    // duplicate of an earlier coinbase (same id, same outputs) when it fits
    // a duplicate coinbase must not share its id with an input of this block: Bitcoin applies the
    // coinbase first (the inputs would then refer to the immature new outputs: invalid block), ord
    // and the BIP apply it last
    let spent_ids: Vec<u64> = txs.iter().flat_map(|t| t.ins.iter().map(|i| i.0)).collect();
    let cands: Vec<ATx> = self
      .coinbases
      .iter()
      .filter(|c| c.outs.iter().map(|o| o.0).sum::<u64>() <= budget && !spent_ids.contains(&c.id))
      .cloned()
      .collect();
    let cb = if !cands.is_empty() && self.rng.chance(1, 9) {
      self.dups += 1;
      self.rng.pick(&cands).clone()
    } else {
      let nout = self.rng.range(1, 3) as usize;
      let claim = match self.rng.below(5) {
        0 => 0,
        1 => self.rng.below(budget + 1),
        2 => SUBSIDY.min(budget),
        _ => budget,
      };
      let exact = self.rng.chance(3, 4);
      let vals = self.out_values(claim, nout, exact);
      let mut outs: Vec<(u64, u64)> = Vec::new();
      for v in vals {
        let s = self.script();
        outs.push((v, s));
      }
      let id = self.next_id;
      self.next_id += 1;
      ATx { id, ins: Vec::new(), outs }
    };
    for (vout, (v, _)) in cb.outs.iter().enumerate() {
      self.live.insert((cb.id, vout as u32), *v);
    }
    if !self.coinbases.iter().any(|c| c.id == cb.id) {
      self.coinbases.push(cb.clone());
    }
    let mut b = vec![cb];
    b.extend(txs);
    b
  }
}

pub fn genesis_block() -> ABlock {
  vec![ATx { id: GENESIS_ID, ins: Vec::new(), outs: vec![(SUBSIDY, SCRIPT_GENESIS)] }]
}

pub fn gen_chain(rng: &mut Rng, nblocks: u64, max_tx: u64) -> (Vec<ABlock>, u64) {
  let mut g = Gen { rng, live: BTreeMap::new(), next_id: 2, coinbases: Vec::new(), dups: 0 };
  g.live.insert((GENESIS_ID, 0), SUBSIDY);
  let mut chain = vec![genesis_block()];
  for h in 1..=nblocks {
    let b = g.block(h, max_tx);
    chain.push(b);
  }
  (chain, g.dups)
}

fn gen_sched(rng: &mut Rng, nblocks: u64, prop: &str) -> Sched {
  let commit_interval = *rng.pick(&[1u64, 2, 3, 5, 5000, 5000]);
  let headers_far = rng.chance(2, 3);
  let mut flags = 0;
  if prop == "C17" {
    flags |= 1;
    if rng.chance(1, 3) {
      flags |= 4;
    }
  } else if rng.chance(1, 3) {
    flags |= 1;
  }
  if rng.chance(1, 2) {
    flags |= 2;
  }
  if prop == "C17" && rng.chance(1, 4) {
    // signet: the first inscription height is not 0; the address index must not depend on it
    flags |= FLAG_SIGNET;
    if rng.chance(1, 2) {
      flags |= 4; // no sat index
      flags &= !2; // inscriptions indexed
    }
  }
  let mut updates = Vec::new();
  let n = rng.below(4);
  for _ in 0..n {
    updates.push(rng.range(1, nblocks + 1));
  }
  updates.sort();
  Sched { commit_interval, headers_far, flags, updates }
}

fn gen_queries(rng: &mut Rng, chain: &[ABlock]) -> Vec<Query> {
  let n = chain.len() as u64;
  let mut q = Vec::new();
  let supply = 2_099_999_997_690_000u64;
  for _ in 0..6 {
    let k = rng.below(n + 2);
    let base = k * SUBSIDY;
    let s = match rng.below(5) {
      0 => base,
      1 => base.saturating_sub(1),
      2 => base + 1,
      3 => base + rng.below(SUBSIDY),
      _ => rng.below(supply),
    };
    q.push(Query::Find(s));
    q.push(Query::Rare(if rng.chance(1, 2) { base } else { s }));
  }
  q.push(Query::Find(supply - 1));
  for _ in 0..4 {
    let k = rng.below(n + 1);
    let a = (k * SUBSIDY + rng.below(SUBSIDY)).saturating_sub(rng.below(3) * SUBSIDY);
    let len = match rng.below(4) {
      0 => 0,
      1 => 1,
      2 => rng.below(1000),
      _ => rng.below(3 * SUBSIDY),
    };
    let b = a + len;
    if b == 0 {
      continue;
    }
    q.push(Query::FindRange(a, b));
  }
  if rng.chance(1, 4) {
    let a = rng.range(1, n * SUBSIDY);
    q.push(Query::FindRange(a, rng.range(1, a)));
  }
  // list: existing and non-existing outpoints
  let ids: Vec<u64> = chain.iter().flat_map(|b| b.iter().map(|t| t.id)).collect();
  for _ in 0..4 {
    let id = *rng.pick(&ids);
    q.push(Query::List(id, rng.below(3) as u32));
  }
  q.push(Query::List(0, crate::NULL_VOUT));
  q.push(Query::List(ids.len() as u64 + 50, 0));
  // pure arithmetic over all epochs: epoch boundaries, block-first sats, random
  for _ in 0..8 {
    let e = rng.below(36);
    let hh = e * 210_000;
    let h = match rng.below(5) {
      0 => hh,
      1 => hh.saturating_sub(1),
      2 => hh + rng.below(210_000),
      3 => rng.below(7_500_000),
      _ => *rng.pick(&[0u64, 1, 6_929_999, 6_930_000, 6_930_001, u32::MAX as u64]),
    };
    q.push(Query::Height(h));
    // a sat derived from that height (below the supply), and its neighbours
    // (only to choose inputs: first sat and subsidy of that height as the crate computes them)
    let hq = ordinals::Height(h.min(6_929_999) as u32);
    let sub = hq.subsidy();
    let first = hq.starting_sat().n();
    let s = match rng.below(6) {
      0 => first,
      1 => first.saturating_sub(1),
      2 => first + 1,
      3 => first + rng.below(sub.max(1)),
      4 => rng.below(supply),
      _ => rng.below(supply / 9_765_625) * 9_765_625,
    }
    .min(supply - 1);
    q.push(Query::Common(s));
    q.push(Query::SatHeight(s));
  }
  q.push(Query::SatHeight(supply));
  q.push(Query::Common(supply));
  q
}

pub fn gen_cases(rng: &mut Rng, tier: &str, prop: &str) -> Vec<Line> {
  let (n, max_blocks) = match (tier, prop) {
    ("thorough", _) => (2500, 40),
    (_, _) => (120, 12),
  };
  let mut v = Vec::new();
  if prop == "C17" {
    // signet chains padded beyond the first inscription height: outputs (several scripts, some
    // reused) created and partly spent below height 112402, more created and spent above it
    let npad = if tier == "thorough" { 6 } else { 0 }; // quick: the padded corpus case only
    for k in 0..npad {
      let nblocks = rng.range(16, 24);
      let mut chain = gen_chain(rng, nblocks, 4).0;
      while crate::oracle::has_spent_duplicate(&Case { sched: Sched::default(), chain: chain.clone(), queries: Vec::new() }) {
        chain = gen_chain(rng, nblocks, 4).0;
      }
      // inscriptions indexed; without the sat index in the even cases
      let flags = 1 | FLAG_PADDED | if k % 2 == 0 { 4 } else { 0 };
      let updates = if rng.chance(1, 2) { vec![rng.range(3, 11)] } else { Vec::new() };
      let sched = Sched { commit_interval: 5000, headers_far: false, flags, updates };
      v.push(case_line(&Case { sched, chain, queries: Vec::new() }));
    }
  }
  for i in 0..n {
    let nblocks = if i % 10 == 0 { rng.range(1, 3) } else { rng.range(2, max_blocks) };
    let max_tx = *rng.pick(&[0u64, 2, 4, 6]);
    let (mut chain, _) = gen_chain(rng, nblocks, max_tx);
    let sched = gen_sched(rng, nblocks, prop);
    // C17's extracted model follows the real commit points only when the node reports far-ahead
    // headers (no savepoint commits); otherwise chains of the known class dup-spent-before-commit
    // (schedule dependent content) are left to C01/C02 and the corpus
    while prop == "C17" && !sched.headers_far && crate::oracle::has_spent_duplicate(&Case { sched: Sched::default(), chain: chain.clone(), queries: Vec::new() }) {
      chain = gen_chain(rng, nblocks, max_tx).0;
    }
    let queries = if prop == "C02" { gen_queries(rng, &chain) } else { Vec::new() };
    v.push(case_line(&Case { sched, chain, queries }));
  }
  v
}

// ------------------------------------------------------------------ categories

pub fn categorise(c: &Case, prop: &str) -> String {
  let mut tags: Vec<&str> = Vec::new();
  let mut seen: HashMap<u64, usize> = HashMap::new();
  let mut dup = false;
  let mut same_block = false;
  let mut multi_in = false;
  let mut fee = false;
  let mut zero = false;
  let mut opret = false;
  let mut multi_cb = false;
  let mut ntx = 0;
  let mut values: HashMap<(u64, u32), u64> = HashMap::new();
  for (h, b) in c.chain.iter().enumerate() {
    let ids: Vec<u64> = b.iter().map(|t| t.id).collect();
    for (i, t) in b.iter().enumerate() {
      if seen.contains_key(&t.id) {
        dup = true;
      }
      seen.insert(t.id, h);
      if i > 0 {
        ntx += 1;
        if t.ins.len() > 1 {
          multi_in = true;
        }
        if t.ins.iter().any(|(id, _)| ids.contains(id)) {
          same_block = true;
        }
        let si: u64 = t.ins.iter().map(|k| values.get(k).cloned().unwrap_or(0)).sum();
        let so: u64 = t.outs.iter().map(|o| o.0).sum();
        if si > so {
          fee = true;
        }
      } else if t.outs.len() > 1 {
        multi_cb = true;
      }
      for (vout, (v, s)) in t.outs.iter().enumerate() {
        values.insert((t.id, vout as u32), *v);
        if *v == 0 {
          zero = true;
        }
        if *s == SCRIPT_OP_RETURN || *s == SCRIPT_OP_RETURN_DATA {
          opret = true;
        }
      }
    }
  }
  if c.sched.flags & FLAG_PADDED != 0 {
    tags.push("signet-padded");
  } else if c.sched.flags & FLAG_SIGNET != 0 {
    tags.push("signet");
  }
  if ntx == 0 {
    return format!("trivial-{prop}/coinbases-only");
  }
  for (f, t) in [(dup, "dup"), (same_block, "sameblock"), (multi_in, "multiin"), (fee, "fee"), (zero, "zero"), (opret, "opret"), (multi_cb, "multicb")] {
    if f {
      tags.push(t);
    }
  }
  format!("{prop}/{}", if tags.is_empty() { "plain".to_string() } else { tags.join("+") })
}
