//! Chain-level harness (op 1 of the runes model): builds regtest chains of real transactions
//! inside mockcore, indexes them with a real `ord::Index` (`--index-runes`), and after every
//! block serialises the rune tables.  The case line carries, for every transaction, both what the
//! harness needs to rebuild it byte for byte (inputs, witnesses, output scripts) and what the
//! model consumes (the artifact produced by the real `Runestone::decipher`, the node's answers
//! about every spent output, the tapscript pushes); on replay the model-facing part is recomputed
//! from the rebuilt chain and must agree with the line.
//!
//! line: 1 first_rune_height start_height nblocks { time ntx { tx }* }*
//!   tx:   txnum nin { in }* nout { out }* artifact
//!   in:   prev_txnum vout nwit { len bytes }*  p2tr prev_height npush { len bytes }*
//!   out:  0 (p2wpkh) | 1 (p2tr) | 2 len script-bytes
//!   artifact: 0 | 1 nedicts {block tx amount output}* etching? mint? pointer? | 2 rune? mint?
//!   etching: div? premine? rune? spacers? symbol? terms? turbo      x? = 0 | 1 x
//!   terms:   amount? cap? h0? h1? o0? o1?
use bitcoin::{
  absolute::LockTime, blockdata::opcodes, blockdata::script, hashes::Hash, transaction::Version, Amount, OutPoint, ScriptBuf,
  Sequence, Transaction, TxIn, TxOut, Txid, Witness,
};
use hxlib::*;
use ord::index::verif::Dump;
use ordinals::{Artifact, Rune, RuneId, Runestone};
use std::collections::{BTreeSet, HashMap};

#[derive(Clone, Debug, PartialEq)]
pub struct InSpec {
  pub txnum: usize,
  pub vout: u32,
  pub witness: Vec<Vec<u8>>,
}

#[derive(Clone, Debug, PartialEq)]
pub enum OutSpec {
  P2wpkh,
  P2tr,
  Script(Vec<u8>),
}

#[derive(Clone, Debug, PartialEq)]
pub struct TxSpec {
  pub ins: Vec<InSpec>,
  pub outs: Vec<OutSpec>,
}

pub struct TxRec {
  pub txid: Txid,
  pub tx: Transaction,
  pub height: u32,
  pub index: u32,
  pub artifact: Option<Artifact>,
  pub spec: TxSpec,
}

pub struct BlockRec {
  pub height: u32,
  pub time: u32,
  pub txnums: Vec<usize>,
}

#[derive(Clone, Copy, Default)]
pub struct ChainOpts {
  /// index inscriptions too and attach an event receiver (C37)
  pub events: bool,
  /// C37 receiver mode: channel of capacity 1 drained by a consumer thread that sleeps a few
  /// milliseconds per event while `update()` runs on the main thread (line op 3)
  pub slow: bool,
}

/// the slow consumer: never blocks, so a blocking sender can always make progress
pub struct SlowConsumer {
  events: std::sync::Arc<std::sync::Mutex<Vec<ord::index::event::Event>>>,
  req: std::sync::Arc<std::sync::atomic::AtomicU64>,
  ack: std::sync::Arc<std::sync::atomic::AtomicU64>,
}

impl SlowConsumer {
  fn start(mut rx: tokio::sync::mpsc::Receiver<ord::index::event::Event>) -> SlowConsumer {
    use std::sync::atomic::Ordering::SeqCst;
    use tokio::sync::mpsc::error::TryRecvError;
    let c = SlowConsumer { events: Default::default(), req: Default::default(), ack: Default::default() };
    let (events, req, ack) = (c.events.clone(), c.req.clone(), c.ack.clone());
    std::thread::spawn(move || loop {
      // read the request number BEFORE looking at the channel: an Empty seen after a request
      // made after update() returned means everything sent has been taken
      let r = req.load(SeqCst);
      match rx.try_recv() {
        Ok(e) => {
          std::thread::sleep(std::time::Duration::from_millis(3));
          events.lock().unwrap().push(e);
        }
        Err(TryRecvError::Empty) => {
          ack.store(r, SeqCst);
          std::thread::sleep(std::time::Duration::from_micros(300));
        }
        Err(TryRecvError::Disconnected) => break,
      }
    });
    c
  }
  /// everything sent before this call, in order (call after `update()` returned)
  fn drain(&self) -> Vec<ord::index::event::Event> {
    use std::sync::atomic::Ordering::SeqCst;
    let r = self.req.fetch_add(1, SeqCst) + 1;
    while self.ack.load(SeqCst) < r {
      std::thread::sleep(std::time::Duration::from_micros(300));
    }
    std::mem::take(&mut *self.events.lock().unwrap())
  }
}

pub struct Chain {
  pub opts: ChainOpts,
  /// events drained after every `update()`, one list per block (only with `opts.events`)
  pub block_events: Vec<Vec<ord::index::event::Event>>,
  receiver: Option<tokio::sync::mpsc::Receiver<ord::index::event::Event>>,
  consumer: Option<SlowConsumer>,
  pub core: mockcore::Handle,
  pub index: ord::Index,
  _dir: tempfile::TempDir,
  pub txs: Vec<TxRec>,
  pub by_txid: HashMap<Txid, usize>,
  pub blocks: Vec<BlockRec>,
  pub live: BTreeSet<(usize, u32)>,
  pub dumps: Vec<Dump>,
}

pub fn p2wpkh_script() -> ScriptBuf {
  let mut v = vec![0x00, 0x14];
  v.extend_from_slice(&[0u8; 20]);
  ScriptBuf::from_bytes(v)
}

pub fn p2tr_script() -> ScriptBuf {
  let mut v = vec![0x51, 0x20];
  v.extend_from_slice(&[0x11u8; 32]);
  ScriptBuf::from_bytes(v)
}

impl OutSpec {
  pub fn script(&self) -> ScriptBuf {
    match self {
      OutSpec::P2wpkh => p2wpkh_script(),
      OutSpec::P2tr => p2tr_script(),
      OutSpec::Script(b) => ScriptBuf::from_bytes(b.clone()),
    }
  }
}

impl Chain {
  /// a fresh regtest node with the genesis block indexed
  pub fn new() -> Chain {
    Chain::with(ChainOpts::default())
  }

  pub fn with(opts: ChainOpts) -> Chain {
    let core = ordkit::regtest_core();
    // the index database is transient: keep it on tmpfs when there is one (redb commits with
    // Durability::Immediate, i.e. one fsync per block)
    let dir = if std::path::Path::new("/dev/shm").is_dir() {
      tempfile::Builder::new().prefix("hx-runes").tempdir_in("/dev/shm").unwrap()
    } else {
      tempfile::TempDir::new().unwrap()
    };
    let (index, receiver) = if opts.events {
      let settings = ordkit::settings(&core, dir.path(), &["--index-runes"]);
      let (sender, receiver) = tokio::sync::mpsc::channel(if opts.slow { 1 } else { 1 << 20 });
      (ord::Index::open_with_event_sender(&settings, Some(sender)).expect("open index"), Some(receiver))
    } else {
      (ordkit::open_index(&core, dir.path(), &["--index-runes", "--no-index-inscriptions"]), None)
    };
    let mut c = Chain {
      opts,
      block_events: Vec::new(),
      consumer: None,
      receiver,
      core,
      index,
      _dir: dir,
      txs: Vec::new(),
      by_txid: HashMap::new(),
      blocks: Vec::new(),
      live: BTreeSet::new(),
      dumps: Vec::new(),
    };
    let genesis = c.core.tx(0, 0);
    let time = {
      let st = c.core.state();
      st.blocks[&st.hashes[0]].header.time
    };
    c.record_block(0, time, vec![(genesis, TxSpec { ins: vec![], outs: vec![OutSpec::P2wpkh] })]);
    // the genesis coinbase output is not spendable in mockcore (not in utxos)
    c.live.clear();
    if c.opts.slow {
      // started before the first update(); ends when the index (the sender) is dropped
      c.consumer = c.receiver.take().map(SlowConsumer::start);
    }
    c.index.update().unwrap();
    c.drain_events();
    c.dumps.push(c.index.verif_dump().unwrap());
    c
  }

  fn drain_events(&mut self) {
    if let Some(c) = &self.consumer {
      let v = c.drain();
      self.block_events.push(v);
      return;
    }
    let mut v = Vec::new();
    if let Some(r) = self.receiver.as_mut() {
      while let Ok(e) = r.try_recv() {
        v.push(e);
      }
    }
    self.block_events.push(v);
  }

  pub fn height(&self) -> u32 {
    u32::try_from(self.blocks.len()).unwrap() - 1
  }

  fn record_block(&mut self, height: u32, time: u32, txs: Vec<(Transaction, TxSpec)>) {
    let mut txnums = Vec::new();
    for (i, (tx, spec)) in txs.into_iter().enumerate() {
      let txid = tx.compute_txid();
      let n = self.txs.len();
      for input in &tx.input {
        if let Some(p) = self.by_txid.get(&input.previous_output.txid) {
          self.live.remove(&(*p, input.previous_output.vout));
        }
      }
      for (v, o) in tx.output.iter().enumerate() {
        if !o.script_pubkey.is_op_return() {
          self.live.insert((n, v as u32));
        }
      }
      let artifact = Runestone::decipher(&tx);
      self.by_txid.insert(txid, n);
      self.txs.push(TxRec { txid, tx, height, index: i as u32, artifact, spec });
      txnums.push(n);
    }
    self.blocks.push(BlockRec { height, time, txnums });
  }

  pub fn build_tx(&self, spec: &TxSpec) -> Transaction {
    let mut total = 0u64;
    let input = spec
      .ins
      .iter()
      .map(|i| {
        let prev = &self.txs[i.txnum];
        total += prev.tx.output[i.vout as usize].value.to_sat();
        TxIn {
          previous_output: OutPoint { txid: prev.txid, vout: i.vout },
          script_sig: ScriptBuf::new(),
          sequence: Sequence::MAX,
          witness: Witness::from_slice(&i.witness),
        }
      })
      .collect();
    let scripts: Vec<ScriptBuf> = spec.outs.iter().map(|o| o.script()).collect();
    let payable = scripts.iter().filter(|s| !s.is_op_return()).count() as u64;
    let each = if payable > 0 { total / payable } else { 0 };
    let output = scripts
      .into_iter()
      .map(|s| TxOut { value: Amount::from_sat(if s.is_op_return() { 0 } else { each }), script_pubkey: s })
      .collect();
    Transaction { version: Version(2), lock_time: LockTime::ZERO, input, output }
  }

  /// mine one block holding `specs` (after the coinbase), index it, record the dump
  pub fn add_block(&mut self, specs: &[TxSpec]) {
    let mut built = Vec::new();
    {
      // build sequentially so that a transaction can spend outputs of an earlier one of the same block
      let mut pending: Vec<TxRec> = Vec::new();
      for spec in specs {
        let base = self.txs.len() + 1; // +1: the coinbase comes first
        // temporarily expose pending transactions under their future numbers
        let tx = {
          let lookup = |n: usize| -> &TxRec {
            if n < self.txs.len() {
              &self.txs[n]
            } else {
              &pending[n - base]
            }
          };
          let mut total = 0u64;
          let input = spec
            .ins
            .iter()
            .map(|i| {
              let prev = lookup(i.txnum);
              total += prev.tx.output[i.vout as usize].value.to_sat();
              TxIn {
                previous_output: OutPoint { txid: prev.txid, vout: i.vout },
                script_sig: ScriptBuf::new(),
                sequence: Sequence::MAX,
                witness: Witness::from_slice(&i.witness),
              }
            })
            .collect();
          let scripts: Vec<ScriptBuf> = spec.outs.iter().map(|o| o.script()).collect();
          // C37 chains: OP_RETURN outputs other than the runestone carry value too, so that
          // inscriptions can be created on / moved onto an OP_RETURN output
          let valued_opret = self.opts.events;
          let unpaid = move |s: &ScriptBuf| {
            let b = s.as_bytes();
            s.is_op_return() && (!valued_opret || (b.len() >= 2 && b[1] == 0x5d))
          };
          let payable = scripts.iter().filter(|s| !unpaid(s)).count() as u64;
          let each = if payable > 0 { total / payable } else { 0 };
          let output = scripts
            .into_iter()
            .map(|s| TxOut { value: Amount::from_sat(if unpaid(&s) { 0 } else { each }), script_pubkey: s })
            .collect();
          Transaction { version: Version(2), lock_time: LockTime::ZERO, input, output }
        };
        pending.push(TxRec {
          txid: tx.compute_txid(),
          tx: tx.clone(),
          height: 0,
          index: 0,
          artifact: None,
          spec: spec.clone(),
        });
        built.push((tx, spec.clone()));
      }
    }
    {
      let mut st = self.core.state();
      for (tx, _) in &built {
        st.mempool.push(tx.clone());
      }
    }
    let block = self.core.mine_blocks(1).pop().unwrap();
    let height = u32::try_from(self.blocks.len()).unwrap();
    assert_eq!(block.txdata.len(), built.len() + 1);
    let mut all = vec![(block.txdata[0].clone(), TxSpec { ins: vec![], outs: vec![OutSpec::P2wpkh] })];
    for (i, (tx, spec)) in built.into_iter().enumerate() {
      assert_eq!(block.txdata[i + 1].compute_txid(), tx.compute_txid());
      all.push((tx, spec));
    }
    self.record_block(height, block.header.time, all);
    self.index.update().unwrap();
    self.drain_events();
    self.dumps.push(self.index.verif_dump().unwrap());
  }

  pub fn txnum_of(&self, txid: &Txid) -> u128 {
    match self.by_txid.get(txid) {
      Some(n) => *n as u128,
      None => u128::MAX, // unknown txid: cannot agree with the model
    }
  }

  /// data pushes of the input's tapscript up to the first parse error (harness-side reading of
  /// the witness, with rust-bitcoin's own tapscript extraction)
  #[allow(deprecated)]
  pub fn tapscript_pushes(w: &Witness) -> Vec<Vec<u8>> {
    let mut v = Vec::new();
    if let Some(s) = w.tapscript() {
      for ins in s.instructions() {
        match ins {
          Ok(script::Instruction::PushBytes(b)) => v.push(b.as_bytes().to_vec()),
          Ok(_) => {}
          Err(_) => break,
        }
      }
    }
    v
  }

  /// the whole chain as a case line
  pub fn line(&self) -> Line {
    let mut l = L::new().p(if self.opts.slow { 3u8 } else if self.opts.events { 2u8 } else { 1u8 }).p(Rune::first_rune_height(bitcoin::Network::Regtest)).p(0u8).p(self.blocks.len());
    for b in &self.blocks {
      l.push(b.time);
      l.push(b.txnums.len());
      for &n in &b.txnums {
        let t = &self.txs[n];
        l.push(n);
        l.push(t.spec.ins.len());
        for (k, i) in t.spec.ins.iter().enumerate() {
          l.push(i.txnum);
          l.push(i.vout);
          l.push(i.witness.len());
          for w in &i.witness {
            l.bytes(w);
          }
          let prev = &self.txs[i.txnum];
          l.push(prev.tx.output[i.vout as usize].script_pubkey.is_p2tr());
          l.push(prev.height);
          let pushes = Self::tapscript_pushes(&t.tx.input[k].witness);
          l.push(pushes.len());
          for p in &pushes {
            l.bytes(p);
          }
        }
        l.push(t.spec.outs.len());
        for o in &t.spec.outs {
          match o {
            OutSpec::P2wpkh => l.push(0u8),
            OutSpec::P2tr => l.push(1u8),
            OutSpec::Script(b) => {
              l.push(2u8);
              l.bytes(b);
            }
          }
        }
        push_artifact(&mut l, &t.artifact);
      }
    }
    l.done()
  }

  /// the rune tables after block `h`, in the model's emission format
  pub fn obs_block(&self, h: usize, l: &mut L) {
    let d = &self.dumps[h];
    let stat = |k: u64| d.statistic_to_count.iter().find(|(a, _)| *a == k).map_or(0, |(_, v)| *v);
    l.push(stat(13));
    l.push(stat(12));
    let mut es: Vec<_> = d.rune_id_to_rune_entry.iter().collect();
    es.sort_by_key(|(id, _)| *id);
    l.push(es.len());
    for (id, e) in es {
      l.push(id.block);
      l.push(id.tx);
      l.push(e.block);
      l.push(e.burned);
      l.push(e.divisibility);
      l.push(self.txnum_of(&e.etching));
      l.push(e.mints);
      l.push(e.number);
      l.push(e.premine);
      l.push(e.spaced_rune.rune.0);
      l.push(e.spaced_rune.spacers);
      l.opt(e.symbol.map(|c| c as u32));
      crate::mintable::push_terms(l, &e.terms);
      l.push(e.timestamp);
      l.push(e.turbo);
    }
    let mut bs: Vec<(u128, u32, &Vec<(RuneId, u128)>)> =
      d.outpoint_to_rune_balances.iter().map(|(o, v)| (self.txnum_of(&o.txid), o.vout, v)).collect();
    bs.sort_by_key(|(a, b, _)| (*a, *b));
    l.push(bs.len());
    for (a, b, v) in bs {
      l.push(a);
      l.push(b);
      l.push(v.len());
      for (id, amt) in v {
        l.push(id.block);
        l.push(id.tx);
        l.push(*amt);
      }
    }
    let mut r2i = d.rune_to_rune_id.clone();
    r2i.sort();
    l.push(r2i.len());
    for (r, id) in r2i {
      l.push(r);
      l.push(id.block);
      l.push(id.tx);
    }
    let mut t2r: Vec<(u128, u128)> = d.transaction_id_to_rune.iter().map(|(t, r)| (self.txnum_of(t), *r)).collect();
    t2r.sort();
    l.push(t2r.len());
    for (t, r) in t2r {
      l.push(t);
      l.push(r);
    }
  }

  pub fn obs(&self) -> Line {
    let mut l = L::new();
    for h in 0..self.dumps.len() {
      self.obs_block(h, &mut l);
    }
    l.done()
  }
}

pub fn push_artifact(l: &mut L, a: &Option<Artifact>) {
  let push_id = |l: &mut L, id: &Option<RuneId>| match id {
    None => l.push(0u8),
    Some(id) => {
      l.push(1u8);
      l.push(id.block);
      l.push(id.tx);
    }
  };
  match a {
    None => l.push(0u8),
    Some(Artifact::Runestone(r)) => {
      l.push(1u8);
      l.push(r.edicts.len());
      for e in &r.edicts {
        l.push(e.id.block);
        l.push(e.id.tx);
        l.push(e.amount);
        l.push(e.output);
      }
      match &r.etching {
        None => l.push(0u8),
        Some(e) => {
          l.push(1u8);
          l.opt(e.divisibility);
          l.opt(e.premine);
          l.opt(e.rune.map(|r| r.0));
          l.opt(e.spacers);
          l.opt(e.symbol.map(|c| c as u32));
          crate::mintable::push_terms(l, &e.terms);
          l.push(e.turbo);
        }
      }
      push_id(l, &r.mint);
      l.opt(r.pointer);
    }
    Some(Artifact::Cenotaph(c)) => {
      l.push(2u8);
      l.opt(c.etching.map(|r| r.0));
      push_id(l, &c.mint);
    }
  }
}

/// parse the harness-facing part of a chain line (everything needed to rebuild the transactions);
/// block 0 (genesis) and every coinbase are skipped, they are produced by mockcore
pub fn parse_specs(c: &mut Cur) -> Vec<Vec<TxSpec>> {
  let _first = c.u64();
  let _start = c.u64();
  let nblocks = c.usize();
  let mut blocks = Vec::new();
  let skip_opt = |c: &mut Cur| {
    if c.bool() {
      c.z();
    }
  };
  let skip_terms = |c: &mut Cur| {
    if c.bool() {
      for _ in 0..6 {
        if c.bool() {
          c.z();
        }
      }
    }
  };
  for _ in 0..nblocks {
    let _time = c.u64();
    let ntx = c.usize();
    let mut txs = Vec::new();
    for t in 0..ntx {
      let _txnum = c.usize();
      let nin = c.usize();
      let mut ins = Vec::new();
      for _ in 0..nin {
        let txnum = c.usize();
        let vout = c.u32();
        let nwit = c.usize();
        let witness = (0..nwit).map(|_| c.bytes()).collect();
        let _p2tr = c.bool();
        let _h = c.u64();
        let npush = c.usize();
        for _ in 0..npush {
          c.bytes();
        }
        ins.push(InSpec { txnum, vout, witness });
      }
      let nout = c.usize();
      let mut outs = Vec::new();
      for _ in 0..nout {
        outs.push(match c.u8() {
          0 => OutSpec::P2wpkh,
          1 => OutSpec::P2tr,
          _ => OutSpec::Script(c.bytes()),
        });
      }
      // artifact (model-facing): skip
      match c.u8() {
        0 => {}
        1 => {
          let n = c.usize();
          for _ in 0..4 * n {
            c.z();
          }
          if c.bool() {
            for _ in 0..5 {
              skip_opt(c);
            }
            skip_terms(c);
            c.z();
          }
          if c.bool() {
            c.z();
            c.z();
          }
          skip_opt(c);
        }
        _ => {
          skip_opt(c);
          if c.bool() {
            c.z();
            c.z();
          }
        }
      }
      if t > 0 {
        txs.push(TxSpec { ins, outs });
      }
    }
    blocks.push(txs);
  }
  blocks
}

/// rebuild a chain from a case line; returns the chain and whether the line's model-facing part
/// agrees with what the rebuilt chain says
pub fn rebuild(case: &Line) -> (Chain, bool) {
  let mut c = Cur::new(case);
  let op = c.u8();
  let blocks = parse_specs(&mut c);
  let mut chain = Chain::with(ChainOpts { events: op == 2 || op == 3, slow: op == 3 });
  for b in blocks.iter().skip(1) {
    chain.add_block(b);
  }
  let same = chain.line() == *case;
  (chain, same)
}

// ------------------------------------------------------------------ runestone payloads

#[derive(Clone, Debug, Default)]
pub struct RsSpec {
  pub etching: Option<ordinals::Etching>,
  pub mint: Option<RuneId>,
  pub pointer: Option<u128>,
  pub edicts: Vec<(RuneId, u128, u128)>,
  /// 0 none, 1 cenotaph tag (unrecognised even tag), 2 unrecognised flag, 3 trailing integer in
  /// the body, 4 opcode in the script, 5 truncated varint
  pub flaw: u8,
}

fn enc(tag: u128, v: u128, p: &mut Vec<u8>) {
  ordinals::varint::encode_to_vec(tag, p);
  ordinals::varint::encode_to_vec(v, p);
}

pub fn runestone_script(s: &RsSpec) -> Vec<u8> {
  let mut p = Vec::new();
  if let Some(e) = &s.etching {
    let mut flags = 1u128;
    if e.terms.is_some() {
      flags |= 2;
    }
    if e.turbo {
      flags |= 4;
    }
    if s.flaw == 2 {
      flags |= 1 << 9;
    }
    enc(2, flags, &mut p);
    if let Some(r) = e.rune {
      enc(4, r.0, &mut p);
    }
    if let Some(d) = e.divisibility {
      enc(1, d.into(), &mut p);
    }
    if let Some(x) = e.spacers {
      enc(3, x.into(), &mut p);
    }
    if let Some(x) = e.symbol {
      enc(5, (x as u32).into(), &mut p);
    }
    if let Some(x) = e.premine {
      enc(6, x, &mut p);
    }
    if let Some(t) = e.terms {
      if let Some(x) = t.amount {
        enc(10, x, &mut p);
      }
      if let Some(x) = t.cap {
        enc(8, x, &mut p);
      }
      if let Some(x) = t.height.0 {
        enc(12, x.into(), &mut p);
      }
      if let Some(x) = t.height.1 {
        enc(14, x.into(), &mut p);
      }
      if let Some(x) = t.offset.0 {
        enc(16, x.into(), &mut p);
      }
      if let Some(x) = t.offset.1 {
        enc(18, x.into(), &mut p);
      }
    }
  } else if s.flaw == 2 {
    enc(2, 1 << 9, &mut p);
  }
  if let Some(id) = s.mint {
    enc(20, id.block.into(), &mut p);
    enc(20, id.tx.into(), &mut p);
  }
  if let Some(x) = s.pointer {
    enc(22, x, &mut p);
  }
  if s.flaw == 1 {
    enc(126, 0, &mut p);
  }
  if !s.edicts.is_empty() || s.flaw == 3 {
    ordinals::varint::encode_to_vec(0, &mut p);
    let mut eds = s.edicts.clone();
    eds.sort_by_key(|e| e.0);
    let mut prev = RuneId::default();
    for (id, amount, output) in eds {
      let (b, t) = prev.delta(id).unwrap();
      ordinals::varint::encode_to_vec(b, &mut p);
      ordinals::varint::encode_to_vec(t, &mut p);
      ordinals::varint::encode_to_vec(amount, &mut p);
      ordinals::varint::encode_to_vec(output, &mut p);
      prev = id;
    }
    if s.flaw == 3 {
      ordinals::varint::encode_to_vec(7, &mut p);
    }
  }
  if s.flaw == 5 {
    p.push(0x80);
  }
  let mut b = script::Builder::new().push_opcode(opcodes::all::OP_RETURN).push_opcode(opcodes::all::OP_PUSHNUM_13);
  for chunk in p.chunks(520) {
    let push: &script::PushBytes = chunk.try_into().unwrap();
    b = b.push_slice(push);
  }
  if s.flaw == 4 {
    b = b.push_opcode(opcodes::all::OP_VERIFY);
  }
  b.into_script().into_bytes()
}

/// witness revealing a tapscript that pushes `data` (script, empty control block)
pub fn commit_witness(data: &[u8]) -> Vec<Vec<u8>> {
  let push: &script::PushBytes = data.try_into().unwrap();
  let s = script::Builder::new().push_slice(push).into_script();
  vec![s.into_bytes(), vec![]]
}

pub fn all_zero_txid() -> Txid {
  Txid::all_zeros()
}
