//! C37 — index events replay to the indexed state.
//! op 2 = a chain (same line format as op 1) indexed with inscriptions and with an event receiver
//! attached through `Index::open_with_event_sender`.
//! obs: for every block, for every transaction: n, then the rune events of that transaction in
//!      emission order (RuneBurned sorted by id: the code iterates a HashMap there)
//!        0 idb idt amount (minted) | 1 idb idt (etched) | 2 vout idb idt amount (transferred)
//!        | 3 idb idt amount (burned)
//! S:   the harness replays the real event stream (rune and inscription events) block by block
//!      and compares the replayed view with `verif_dump()` after the block.
use crate::chain::*;
use hxlib::*;
use ord::index::event::Event;
use ord::InscriptionId;
use ordinals::SatPoint;
use ordinals::RuneId;
use std::collections::BTreeMap;

fn rune_txid(e: &Event) -> Option<bitcoin::Txid> {
  match e {
    Event::RuneBurned { txid, .. } | Event::RuneEtched { txid, .. } | Event::RuneMinted { txid, .. } | Event::RuneTransferred { txid, .. } => {
      Some(*txid)
    }
    _ => None,
  }
}

pub fn obs(chain: &Chain, problems: &mut Vec<String>) -> Line {
  let mut l = L::new();
  for (h, b) in chain.blocks.iter().enumerate() {
    let evs = &chain.block_events[h];
    let mut per_tx: BTreeMap<usize, Vec<&Event>> = BTreeMap::new();
    let mut last_tx: Option<usize> = None;
    for e in evs {
      let Some(txid) = rune_txid(e) else { continue };
      match chain.by_txid.get(&txid) {
        Some(n) if b.txnums.contains(n) => {
          if last_tx.map_or(false, |p| p > *n) {
            problems.push(format!("block {h}: rune events of tx {n} after those of tx {}", last_tx.unwrap()));
          }
          last_tx = Some(*n);
          per_tx.entry(*n).or_default().push(e);
        }
        _ => problems.push(format!("block {h}: rune event for a transaction outside the block: {e:?}")),
      }
    }
    for n in &b.txnums {
      let evs = per_tx.remove(n).unwrap_or_default();
      l.push(evs.len());
      // burned events sorted by id, keeping everything else in emission order
      let mut burned: Vec<(RuneId, u128)> = Vec::new();
      let mut seen_burned = false;
      for e in &evs {
        match e {
          Event::RuneMinted { rune_id, amount, block_height, .. } => {
            if seen_burned {
              problems.push(format!("block {h}: minted after burned"));
            }
            if *block_height != b.height {
              problems.push(format!("block {h}: event with block_height {block_height}"));
            }
            l.push(0u8);
            l.push(rune_id.block);
            l.push(rune_id.tx);
            l.push(*amount);
          }
          Event::RuneEtched { rune_id, block_height, .. } => {
            if seen_burned || *block_height != b.height {
              problems.push(format!("block {h}: etched event out of place"));
            }
            l.push(1u8);
            l.push(rune_id.block);
            l.push(rune_id.tx);
          }
          Event::RuneTransferred { rune_id, amount, outpoint, txid, block_height } => {
            if seen_burned || *block_height != b.height || outpoint.txid != *txid {
              problems.push(format!("block {h}: transferred event out of place"));
            }
            l.push(2u8);
            l.push(outpoint.vout);
            l.push(rune_id.block);
            l.push(rune_id.tx);
            l.push(*amount);
          }
          Event::RuneBurned { rune_id, amount, block_height, .. } => {
            if *block_height != b.height {
              problems.push(format!("block {h}: event with block_height {block_height}"));
            }
            seen_burned = true;
            burned.push((*rune_id, *amount));
          }
          _ => {}
        }
      }
      burned.sort();
      for (id, a) in burned {
        l.push(3u8);
        l.push(id.block);
        l.push(id.tx);
        l.push(a);
      }
    }
  }
  l.done()
}

/// S: replay of the real event stream against the dump after every block
pub fn oracle(chain: &Chain) -> Vec<String> {
  let mut bad = Vec::new();
  // rune view
  let mut ids: BTreeMap<RuneId, bitcoin::Txid> = BTreeMap::new();
  let mut mints: BTreeMap<RuneId, u128> = BTreeMap::new();
  let mut burned: BTreeMap<RuneId, u128> = BTreeMap::new();
  let mut bal: BTreeMap<bitcoin::OutPoint, BTreeMap<RuneId, u128>> = BTreeMap::new();
  // inscription view
  let mut location: BTreeMap<u32, Option<SatPoint>> = BTreeMap::new();
  let mut charms: BTreeMap<u32, u16> = BTreeMap::new();
  let mut ins_id: BTreeMap<u32, InscriptionId> = BTreeMap::new();
  let mut parents: BTreeMap<u32, Vec<InscriptionId>> = BTreeMap::new();
  let burned_flag = ordinals::Charm::Burned.flag();
  for (h, b) in chain.blocks.iter().enumerate() {
    let evs = &chain.block_events[h];
    // spends of the block's transactions drop rune balances; since rune events of a transaction
    // come after the events of the previous one, drop the inputs of a transaction when its first
    // event (or a later transaction's) shows up: simplest faithful order is per transaction
    let mut k = 0usize;
    for &n in &b.txnums {
      let t = &chain.txs[n];
      for input in &t.tx.input {
        bal.remove(&input.previous_output);
      }
      // consume the rune events of this transaction (they are contiguous per transaction, C37 obs checks it)
      for e in evs.iter() {
        if rune_txid(e) != Some(t.txid) {
          continue;
        }
        k += 1;
        match e {
          Event::RuneEtched { rune_id, txid, .. } => {
            if ids.insert(*rune_id, *txid).is_some() {
              bad.push(format!("block {h}: rune {rune_id} etched twice"));
            }
          }
          Event::RuneMinted { rune_id, .. } => *mints.entry(*rune_id).or_default() += 1,
          Event::RuneBurned { rune_id, amount, .. } => *burned.entry(*rune_id).or_default() += *amount,
          Event::RuneTransferred { rune_id, amount, outpoint, .. } => {
            *bal.entry(*outpoint).or_default().entry(*rune_id).or_default() += *amount
          }
          _ => {}
        }
      }
    }
    let n_rune = evs.iter().filter(|e| rune_txid(e).is_some()).count();
    if k != n_rune {
      bad.push(format!("block {h}: {n_rune} rune events, {k} belong to the block's transactions"));
    }
    for e in evs {
      match e {
        Event::InscriptionCreated { block_height, charms: c, inscription_id, location: loc, parent_inscription_ids, sequence_number } => {
          if *block_height != b.height {
            bad.push(format!("block {h}: InscriptionCreated with block_height {block_height}"));
          }
          if location.insert(*sequence_number, *loc).is_some() {
            bad.push(format!("block {h}: sequence number {sequence_number} created twice"));
          }
          // the event must carry the charms of the entry at creation bit for bit; in particular an
          // inscription created directly on an OP_RETURN output is burned from the start
          // (OP_RETURN decided here by the first script byte 0x6a, not by the implementation)
          if let Some(sp) = loc {
            if is_op_return(chain, sp) && *c & burned_flag == 0 {
              bad.push(format!(
                "block {h}: InscriptionCreated #{sequence_number} at OP_RETURN output {sp} without the Burned charm (charms {c:#x})"
              ));
            }
          }
          let c = *c;
          charms.insert(*sequence_number, c);
          ins_id.insert(*sequence_number, *inscription_id);
          parents.insert(*sequence_number, parent_inscription_ids.clone());
        }
        Event::InscriptionTransferred { block_height, inscription_id, new_location, old_location, sequence_number } => {
          if *block_height != b.height {
            bad.push(format!("block {h}: InscriptionTransferred with block_height {block_height}"));
          }
          match location.get(sequence_number) {
            Some(Some(old)) if old == old_location => {}
            other => bad.push(format!("block {h}: transfer of #{sequence_number} from {old_location}, replay has {other:?}")),
          }
          if ins_id.get(sequence_number) != Some(inscription_id) {
            bad.push(format!("block {h}: transfer of #{sequence_number} with id {inscription_id}"));
          }
          location.insert(*sequence_number, Some(*new_location));
          if is_op_return(chain, new_location) {
            *charms.entry(*sequence_number).or_default() |= burned_flag;
          }
        }
        _ => {}
      }
    }

    // ---- compare with the index after this block
    let d = &chain.dumps[h];
    let got_ids: BTreeMap<RuneId, bitcoin::Txid> = d.rune_id_to_rune_entry.iter().map(|(i, e)| (*i, e.etching)).collect();
    if got_ids != ids {
      bad.push(format!("block {h}: rune ids from events {:?} vs index {:?}", ids.keys().collect::<Vec<_>>(), got_ids.keys().collect::<Vec<_>>()));
    }
    for (id, e) in &d.rune_id_to_rune_entry {
      if e.mints != mints.get(id).copied().unwrap_or(0) {
        bad.push(format!("block {h}: rune {id} mints {} vs {} RuneMinted events", e.mints, mints.get(id).copied().unwrap_or(0)));
      }
      if e.burned != burned.get(id).copied().unwrap_or(0) {
        bad.push(format!("block {h}: rune {id} burned {} vs events {}", e.burned, burned.get(id).copied().unwrap_or(0)));
      }
    }
    for id in mints.keys().chain(burned.keys()) {
      if !got_ids.contains_key(id) {
        bad.push(format!("block {h}: mint/burn events for unknown rune {id}"));
      }
    }
    let got_bal: BTreeMap<bitcoin::OutPoint, BTreeMap<RuneId, u128>> =
      d.outpoint_to_rune_balances.iter().map(|(o, l)| (*o, l.iter().copied().collect())).collect();
    if got_bal != bal {
      let diff: Vec<String> = got_bal
        .iter()
        .filter(|(k, v)| bal.get(*k) != Some(*v))
        .map(|(k, v)| format!("{k}: index {v:?} events {:?}", bal.get(k)))
        .chain(bal.iter().filter(|(k, _)| !got_bal.contains_key(*k)).map(|(k, v)| format!("{k}: index nothing events {v:?}")))
        .take(3)
        .collect();
      bad.push(format!("block {h}: balances replayed from events differ: {}", diff.join(" | ")));
    }
    // inscriptions
    let got_loc: BTreeMap<u32, SatPoint> = d.sequence_number_to_satpoint.iter().copied().collect();
    if got_loc.len() != location.len() {
      bad.push(format!("block {h}: {} inscriptions in the index, {} created by events", got_loc.len(), location.len()));
    }
    for (seq, sp) in &got_loc {
      match location.get(seq) {
        None => bad.push(format!("block {h}: inscription #{seq} has no InscriptionCreated event")),
        Some(Some(l)) => {
          if l != sp {
            bad.push(format!("block {h}: inscription #{seq} at {sp}, events say {l}"));
          }
        }
        Some(None) => {
          if sp.outpoint != ord::unbound_outpoint() {
            bad.push(format!("block {h}: inscription #{seq} at {sp}, events say unbound"));
          }
        }
      }
    }
    let seq_of: BTreeMap<InscriptionId, u32> = d.inscription_id_to_sequence_number.iter().copied().collect();
    for (seq, e) in &d.sequence_number_to_inscription_entry {
      if ins_id.get(seq) != Some(&e.id) {
        bad.push(format!("block {h}: inscription #{seq} id {} vs event {:?}", e.id, ins_id.get(seq)));
      }
      if charms.get(seq) != Some(&e.charms) {
        bad.push(format!("block {h}: inscription #{seq} charms {:#x} vs events {:?}", e.charms, charms.get(seq)));
      }
      let ev_parents: Option<Vec<Option<u32>>> = parents.get(seq).map(|v| v.iter().map(|p| seq_of.get(p).copied()).collect());
      let want: Vec<Option<u32>> = e.parents.iter().map(|p| Some(*p)).collect();
      if ev_parents.as_ref() != Some(&want) {
        bad.push(format!("block {h}: inscription #{seq} parents {:?} vs events {:?}", e.parents, ev_parents));
      }
    }
  }
  bad
}

fn is_op_return(chain: &Chain, sp: &SatPoint) -> bool {
  chain
    .by_txid
    .get(&sp.outpoint.txid)
    .and_then(|n| chain.txs[*n].tx.output.get(sp.outpoint.vout as usize))
    .map_or(false, |o| o.script_pubkey.as_bytes().first() == Some(&0x6a))
}
