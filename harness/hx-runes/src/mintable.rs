//! Pure differential of `RuneEntry::mintable` (op 0 of the runes model).
//! case: [0, block, mints, terms?, height]
//!   terms? = 0 | 1 amount? cap? h0? h1? o0? o1?   (x? = 0 | 1 x)
//! obs: [0, amount] | [1] Unmintable | [2, start] | [3, end] | [4, cap]
use hxlib::*;
use ord::{runes::MintError, RuneEntry};
use ordinals::Terms;

pub fn push_terms(l: &mut L, t: &Option<Terms>) {
  match t {
    None => l.push(0u8),
    Some(t) => {
      l.push(1u8);
      l.opt(t.amount);
      l.opt(t.cap);
      l.opt(t.height.0);
      l.opt(t.height.1);
      l.opt(t.offset.0);
      l.opt(t.offset.1);
    }
  }
}

pub fn read_terms(c: &mut Cur) -> Option<Terms> {
  if !c.bool() {
    return None;
  }
  let amount = c.opt_u128();
  let cap = c.opt_u128();
  let mut o64 = |c: &mut Cur| c.opt_u128().map(|x| u64::try_from(x).unwrap());
  let h0 = o64(c);
  let h1 = o64(c);
  let o0 = o64(c);
  let o1 = o64(c);
  Some(Terms { amount, cap, height: (h0, h1), offset: (o0, o1) })
}

fn line(block: u64, mints: u128, terms: &Option<Terms>, height: u64) -> Line {
  let mut l = L::new().p(0u8).p(block).p(mints);
  push_terms(&mut l, terms);
  l.push(height);
  l.done()
}

fn edge64(rng: &mut Rng, around: &[u64]) -> u64 {
  match rng.below(10) {
    0 => 0,
    1 => u64::MAX,
    2 => u64::MAX - 1,
    3 => rng.u64_any_width(),
    _ => {
      if around.is_empty() {
        rng.below(1000)
      } else {
        let a = *rng.pick(around);
        match rng.below(5) {
          0 => a.wrapping_sub(1),
          1 => a.wrapping_add(1),
          2 => a.wrapping_sub(2),
          _ => a,
        }
      }
    }
  }
}

pub fn gen(rng: &mut Rng, tier: &str, out: &mut Vec<Line>) {
  let per_subset: usize = if tier == "thorough" { 3000 } else { 80 };
  out.push(line(0, 0, &None, 0));
  out.push(line(u64::MAX, u128::MAX, &None, u64::MAX));
  for subset in 0..64u32 {
    for _ in 0..per_subset {
      let block = match rng.below(6) {
        0 => 0,
        1 => 1,
        2 => 840_000,
        3 => u64::MAX - rng.below(4),
        4 => rng.below(1 << 20),
        _ => rng.u64_any_width(),
      };
      let near_block = [block, block.saturating_add(10), block.saturating_add(1000)];
      let h0 = (subset & 4 != 0).then(|| edge64(rng, &near_block));
      let h1 = (subset & 8 != 0).then(|| edge64(rng, &near_block));
      let off = |rng: &mut Rng| match rng.below(8) {
        0 => 0,
        1 => 1,
        2 => 10,
        3 => u64::MAX - block,
        4 => (u64::MAX - block).wrapping_add(1),
        5 => u64::MAX,
        6 => rng.below(2000),
        _ => rng.u64_any_width(),
      };
      let o0 = (subset & 16 != 0).then(|| off(rng));
      let o1 = (subset & 32 != 0).then(|| off(rng));
      let cap = (subset & 1 != 0).then(|| match rng.below(6) {
        0 => 0,
        1 => 1,
        2 => u128::MAX,
        3 => rng.below(100).into(),
        _ => rng.u128_any_width(),
      });
      let amount = (subset & 2 != 0).then(|| match rng.below(4) {
        0 => 0,
        1 => u128::MAX,
        _ => rng.u128_any_width(),
      });
      let c = cap.unwrap_or(0);
      let mints = match rng.below(8) {
        0 => 0,
        1 => c.wrapping_sub(1),
        2 => c,
        3 => c.wrapping_add(1),
        4 => u128::MAX,
        5 => rng.u128_any_width(),
        _ => c / 2,
      };
      let terms = Some(Terms { amount, cap, height: (h0, h1), offset: (o0, o1) });
      // heights around every edge of the window
      let mut edges = vec![block];
      for x in [h0, h1].into_iter().flatten() {
        edges.push(x);
      }
      for x in [o0, o1].into_iter().flatten() {
        edges.push(block.saturating_add(x));
        edges.push(block.wrapping_add(x));
      }
      let height = edge64(rng, &edges);
      out.push(line(block, mints, &terms, height));
      if rng.chance(1, 40) {
        out.push(line(block, mints, &None, height));
      }
    }
  }
}

pub fn run(c: &mut Cur) -> Outcome {
  let block = c.u64();
  let mints = c.u128();
  let terms = read_terms(c);
  let height = c.u64();
  guarded("mintable", || {
    let e = RuneEntry { block, mints, terms, ..Default::default() };
    let r = e.mintable(height);
    let (obs, kind) = match &r {
      Ok(a) => (L::new().p(0u8).p(*a).done(), "ok"),
      Err(MintError::Unmintable) => (L::new().p(1u8).done(), "unmintable"),
      Err(MintError::Start(s)) => (L::new().p(2u8).p(*s).done(), "start"),
      Err(MintError::End(x)) => (L::new().p(3u8).p(*x).done(), "end"),
      Err(MintError::Cap(x)) => (L::new().p(4u8).p(*x).done(), "cap"),
    };
    // S: the statement of C10 evaluated directly, in unbounded-enough arithmetic (u128)
    let expect_ok = match &terms {
      None => None,
      Some(t) => {
        let b = u128::from(block);
        let h = u128::from(height);
        let sat = |o: u64| (b + u128::from(o)).min(u128::from(u64::MAX));
        let started = t.height.0.map_or(true, |a| u128::from(a) <= h) && t.offset.0.map_or(true, |o| sat(o) <= h);
        let not_ended = t.height.1.map_or(true, |a| h < u128::from(a)) && t.offset.1.map_or(true, |o| h < sat(o));
        (started && not_ended && mints < t.cap.unwrap_or(0)).then(|| t.amount.unwrap_or(0))
      }
    };
    let oracle = if r.as_ref().ok().copied() == expect_ok {
      Ok(())
    } else {
      Err(format!("mintable({e:?}, {height}) = {r:?}, statement says {expect_ok:?}"))
    };
    let nterms = terms.map_or(0, |t| {
      [t.cap.is_some(), t.amount.is_some(), t.height.0.is_some(), t.height.1.is_some(), t.offset.0.is_some(), t.offset.1.is_some()]
        .iter()
        .filter(|x| **x)
        .count()
    });
    Outcome { obs, oracle, cat: format!("mintable/{kind}/terms{nterms}") }
  })
}
