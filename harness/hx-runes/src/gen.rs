//! Chain generator: grows a regtest chain against a live index (so that amounts, ids and names can
//! be aimed at the edges of the current balances / terms / name table) and returns the case line.
use crate::chain::*;
use hxlib::*;
use ordinals::{Etching, Height, Rune, RuneId, Terms};
use std::collections::{BTreeMap, BTreeSet};

#[derive(Clone, Copy)]
pub struct Profile {
  pub name: &'static str,
  pub blocks: (u64, u64),
  pub max_tx: u64,
  /// weights (out of 100) of transaction kinds / features
  pub w_commit: u64,
  pub p_named: u64,
  pub p_unnamed: u64,
  pub p_mint: u64,
  pub p_edicts: u64,
  pub max_edicts: u64,
  pub p_flaw: u64,
  pub p_plain: u64,
  /// C37: attach an event receiver, index inscriptions, inscribe with this probability (percent)
  pub p_inscribe: u64,
}

pub const P_SUPPLY: Profile = Profile {
  name: "supply", blocks: (6, 16), max_tx: 4, w_commit: 12, p_named: 20, p_unnamed: 30, p_mint: 35, p_edicts: 60, max_edicts: 4, p_flaw: 12, p_plain: 12, p_inscribe: 0,
};
pub const P_ALLOC: Profile = Profile {
  name: "alloc", blocks: (4, 9), max_tx: 3, w_commit: 0, p_named: 0, p_unnamed: 35, p_mint: 20, p_edicts: 90, max_edicts: 8, p_flaw: 10, p_plain: 8, p_inscribe: 0,
};
pub const P_MINT: Profile = Profile {
  name: "mint", blocks: (8, 18), max_tx: 4, w_commit: 4, p_named: 6, p_unnamed: 30, p_mint: 80, p_edicts: 25, max_edicts: 3, p_flaw: 15, p_plain: 5, p_inscribe: 0,
};
pub const P_ETCH: Profile = Profile {
  name: "etch", blocks: (10, 16), max_tx: 4, w_commit: 35, p_named: 70, p_unnamed: 15, p_mint: 10, p_edicts: 20, max_edicts: 2, p_flaw: 12, p_plain: 5, p_inscribe: 0,
};

pub const P_EVENTS: Profile = Profile {
  name: "events", blocks: (5, 12), max_tx: 4, w_commit: 8, p_named: 12, p_unnamed: 30, p_mint: 35, p_edicts: 55, max_edicts: 4, p_flaw: 12, p_plain: 25, p_inscribe: 35,
};

/// C37 receiver mode: the same, indexed through a capacity-1 channel and a slow consumer thread;
/// many inscription events per update
pub const P_EVENTS_SLOW: Profile = Profile {
  name: "events-slow", blocks: (6, 9), max_tx: 12, w_commit: 3, p_named: 5, p_unnamed: 20, p_mint: 25, p_edicts: 40, max_edicts: 3, p_flaw: 8, p_plain: 45, p_inscribe: 85,
};

pub fn inscription_id_value(id: ord::InscriptionId) -> Vec<u8> {
  use bitcoin::hashes::Hash;
  let mut v = id.txid.to_byte_array().to_vec();
  let idx = id.index.to_le_bytes();
  let mut n = idx.len();
  while n > 0 && idx[n - 1] == 0 {
    n -= 1;
  }
  v.extend_from_slice(&idx[..n]);
  v
}

pub type Features = BTreeMap<&'static str, u64>;

fn feat(f: &mut Features, k: &'static str) {
  *f.entry(k).or_insert(0) += 1;
}

struct Gen<'a> {
  rng: &'a mut Rng,
  p: Profile,
  chain: Chain,
  funding: Vec<(usize, u32)>,
  commits: Vec<(usize, u32)>,
  f: Features,
}

fn small_amount(rng: &mut Rng) -> u128 {
  match rng.below(6) {
    0 => 0,
    1 => 1,
    2 => 1000,
    3 => 1_000_000_000_000_000_000,
    4 => rng.below(50).into(),
    _ => rng.u128_any_width() >> 1,
  }
}

impl Gen<'_> {
  fn next_height(&self) -> u32 {
    self.chain.height() + 1
  }

  fn runic_outputs(&self) -> Vec<((usize, u32), Vec<(RuneId, u128)>)> {
    let d = self.chain.dumps.last().unwrap();
    d.outpoint_to_rune_balances
      .iter()
      .filter_map(|(o, v)| self.chain.by_txid.get(&o.txid).map(|n| ((*n, o.vout), v.clone())))
      .collect()
  }

  fn known_ids(&self) -> Vec<(RuneId, ord::RuneEntry)> {
    self.chain.dumps.last().unwrap().rune_id_to_rune_entry.clone()
  }

  fn gen_terms(&mut self) -> Terms {
    let h = u64::from(self.next_height());
    if self.p.name == "mint" && self.rng.chance(2, 3) {
      // windows that open / close within the next few blocks and small caps, so that mints at
      // start-1/start/end-1/end and at cap-1/cap actually happen on short chains
      let rng = &mut *self.rng;
      return Terms {
        amount: rng.chance(5, 6).then(|| *rng.pick(&[0u128, 1, 7, 1000, u128::MAX / 8])),
        cap: Some(rng.range(1, 4).into()),
        height: (rng.chance(1, 3).then(|| h + rng.below(3)), rng.chance(1, 3).then(|| h + 1 + rng.below(5))),
        offset: (rng.chance(1, 3).then(|| rng.below(3)), rng.chance(1, 3).then(|| 1 + rng.below(5))),
      };
    }
    let rng = &mut *self.rng;
    let near = |rng: &mut Rng| match rng.below(8) {
      0 => 0,
      1 => u64::MAX,
      _ => (h + rng.below(7)).saturating_sub(2),
    };
    let off = |rng: &mut Rng| match rng.below(8) {
      0 => u64::MAX,
      _ => rng.below(6),
    };
    Terms {
      amount: rng.chance(4, 5).then(|| match rng.below(5) {
        0 => 0,
        1 => 1,
        2 => 1000,
        3 => 7,
        _ => rng.u128_any_width() >> 8,
      }),
      cap: rng.chance(5, 6).then(|| match rng.below(6) {
        0 => 0,
        1 => 1,
        2 => 2,
        3 => 3,
        4 => 100,
        _ => rng.u128_any_width() >> 8,
      }),
      height: (rng.chance(1, 3).then(|| near(rng)), rng.chance(1, 3).then(|| near(rng))),
      offset: (rng.chance(1, 3).then(|| off(rng)), rng.chance(1, 3).then(|| off(rng))),
    }
  }

  fn gen_name(&mut self, used_in_block: &[u128]) -> Rune {
    let h = self.next_height();
    let min = Rune::minimum_at_height(bitcoin::Network::Regtest, Height(h)).0;
    let existing: Vec<u128> = self.chain.dumps.last().unwrap().rune_to_rune_id.iter().map(|(r, _)| *r).collect();
    let rng = &mut *self.rng;
    let r = match rng.below(16) {
      0 => {
        feat(&mut self.f, "name:min");
        min
      }
      1 => {
        feat(&mut self.f, "name:below-min");
        min - 1 - u128::from(rng.below(3))
      }
      2 => {
        feat(&mut self.f, "name:reserved");
        Rune::RESERVED + u128::from(rng.below(3))
      }
      3 => {
        feat(&mut self.f, "name:reserved-1");
        Rune::RESERVED - 1
      }
      4 | 5 if !existing.is_empty() => {
        feat(&mut self.f, "name:taken");
        *rng.pick(&existing)
      }
      6 if !used_in_block.is_empty() => {
        feat(&mut self.f, "name:taken-same-block");
        *rng.pick(used_in_block)
      }
      7 => {
        feat(&mut self.f, "name:short");
        u128::from(rng.below(1000))
      }
      8 => {
        feat(&mut self.f, "name:reserved-collision");
        // the reserved name of a position of the next block
        Rune::reserved(h.into(), rng.below(4) as u32).0
      }
      _ => min + (rng.u128() % (Rune::RESERVED - min)),
    };
    Rune(r)
  }

  /// one rune transaction (possibly with etching / mint / edicts / pointer / flaw)
  fn gen_rune_tx(&mut self, txi: u32, taken: &mut BTreeSet<(usize, u32)>, pending: &[(usize, usize)], names_in_block: &mut Vec<u128>) -> Option<TxSpec> {
    let h = self.next_height();
    let p = self.p;
    let runic = self.runic_outputs();
    let known = self.known_ids();
    let want_named = self.rng.chance(p.p_named, 100);
    let want_unnamed = !want_named && self.rng.chance(p.p_unnamed, 100);
    let plain = !want_named && !want_unnamed && self.rng.chance(p.p_plain, 100);

    // ---- inputs
    let mut ins: Vec<InSpec> = Vec::new();
    let mut in_bal: BTreeMap<RuneId, u128> = BTreeMap::new();
    let mut commit_input: Option<usize> = None;
    if want_named {
      // the commit input: a designated commit output (any depth), sometimes a p2wpkh funding output
      let cands: Vec<(usize, u32)> = self.commits.iter().copied().filter(|o| !taken.contains(o)).collect();
      let pick = if !cands.is_empty() && self.rng.chance(9, 10) {
        // prefer depths around COMMIT_CONFIRMATIONS
        let near: Vec<(usize, u32)> = cands
          .iter()
          .copied()
          .filter(|(n, _)| {
            let d = h - self.chain.txs[*n].height + 1;
            (5..=7).contains(&d)
          })
          .collect();
        Some(if !near.is_empty() && self.rng.chance(2, 3) { *self.rng.pick(&near) } else { *self.rng.pick(&cands) })
      } else {
        let fs: Vec<(usize, u32)> = self.funding.iter().copied().filter(|o| !taken.contains(o)).collect();
        if fs.is_empty() {
          None
        } else {
          feat(&mut self.f, "commit:non-commit-output");
          Some(*self.rng.pick(&fs))
        }
      };
      if let Some(o) = pick {
        taken.insert(o);
        ins.push(InSpec { txnum: o.0, vout: o.1, witness: vec![] });
        commit_input = Some(0);
      }
    }
    let n_runic = if runic.is_empty() { 0 } else { self.rng.below(3) + u64::from(self.rng.chance(p.p_edicts, 100)) };
    for _ in 0..n_runic {
      let cands: Vec<&((usize, u32), Vec<(RuneId, u128)>)> = runic.iter().filter(|(o, _)| !taken.contains(o)).collect();
      if cands.is_empty() {
        break;
      }
      let (o, bal) = (*self.rng.pick(&cands)).clone();
      taken.insert(o);
      for (id, a) in bal {
        *in_bal.entry(id).or_default() += a;
      }
      ins.push(InSpec { txnum: o.0, vout: o.1, witness: vec![] });
    }
    // outputs that carry inscriptions (C37): move them around
    if p.p_inscribe > 0 && self.rng.chance(2, 5) {
      let d = self.chain.dumps.last().unwrap();
      let cands: Vec<(usize, u32)> = d
        .sequence_number_to_satpoint
        .iter()
        .filter_map(|(_, sp)| self.chain.by_txid.get(&sp.outpoint.txid).map(|n| (*n, sp.outpoint.vout)))
        .filter(|o| self.chain.live.contains(o) && !taken.contains(o))
        .collect();
      if !cands.is_empty() {
        let o = *self.rng.pick(&cands);
        taken.insert(o);
        feat(&mut self.f, "input:inscribed");
        ins.push(InSpec { txnum: o.0, vout: o.1, witness: vec![] });
      }
    }
    // outputs of earlier transactions of this block
    if !pending.is_empty() && self.rng.chance(1, 4) {
      let (n, nouts) = *self.rng.pick(pending);
      if nouts > 0 {
        let v = self.rng.below(nouts as u64) as u32;
        if !taken.contains(&(n, v)) {
          taken.insert((n, v));
          feat(&mut self.f, "input:same-block");
          ins.push(InSpec { txnum: n, vout: v, witness: vec![] });
        }
      }
    }
    if ins.is_empty() || self.rng.chance(1, 5) {
      let fs: Vec<(usize, u32)> = self.funding.iter().copied().filter(|o| !taken.contains(o)).collect();
      if !fs.is_empty() {
        let o = *self.rng.pick(&fs);
        taken.insert(o);
        ins.push(InSpec { txnum: o.0, vout: o.1, witness: vec![] });
      }
    }
    if ins.is_empty() {
      return None;
    }
    if commit_input.is_some() && ins.len() > 1 && self.rng.chance(1, 4) {
      // commitment in a non-first input
      let last = ins.len() - 1;
      ins.swap(0, last);
      commit_input = Some(last);
      feat(&mut self.f, "commit:non-first-input");
    }

    // ---- outputs (the runestone output is inserted later)
    let n_plain_outs = match self.rng.below(10) {
      0 => 0,
      1 | 2 => 1,
      3 | 4 | 5 => 2,
      6 | 7 => 3,
      8 => 4,
      _ => 5,
    };
    let mut outs: Vec<OutSpec> = Vec::new();
    for _ in 0..n_plain_outs {
      outs.push(match self.rng.below(20) {
        0..=3 => {
          feat(&mut self.f, "out:op_return");
          OutSpec::Script(vec![0x6a, 0x01, 0x58])
        }
        4 => OutSpec::Script(vec![0x6a]),
        5 => {
          feat(&mut self.f, "out:empty-script");
          OutSpec::Script(vec![])
        }
        6 | 7 => OutSpec::P2tr,
        _ => OutSpec::P2wpkh,
      });
    }
    if p.p_inscribe > 0 && self.rng.chance(1, 4) {
      // C37: a valued OP_RETURN output first, so that inscriptions are created on / moved onto it
      feat(&mut self.f, "out:op_return-first");
      if self.rng.chance(1, 3) {
        outs.clear();
      }
      outs.insert(0, OutSpec::Script(vec![0x6a, 0x01, 0x58]));
    }
    if plain {
      feat(&mut self.f, "tx:plain-transfer");
      self.maybe_inscribe(&mut ins);
      self.mark_outputs(&ins, &outs);
      return Some(TxSpec { ins, outs });
    }

    // ---- runestone
    let mut rs = RsSpec::default();
    let total_outs = outs.len() + 1;
    let mut unalloc = in_bal.clone();
    let my_id = RuneId { block: h.into(), tx: txi };
    if want_named || want_unnamed {
      let with_terms = self.rng.chance(3, 5);
      let terms = with_terms.then(|| self.gen_terms());
      let mut premine = self.rng.chance(3, 4).then(|| small_amount(self.rng));
      if terms.is_none() && self.rng.chance(1, 8) {
        premine = Some(u128::MAX);
      }
      let rune = want_named.then(|| self.gen_name(names_in_block));
      let mut e = Etching {
        divisibility: self.rng.chance(1, 2).then(|| self.rng.below(39) as u8),
        premine,
        rune,
        spacers: self.rng.chance(1, 3).then(|| self.rng.below(1 << 12) as u32),
        symbol: self.rng.chance(1, 2).then(|| *self.rng.pick(&['$', 'R', '\u{29c9}', '\u{1f9ff}'])),
        terms,
        turbo: self.rng.chance(1, 4),
      };
      if e.supply().is_none() {
        if self.rng.chance(3, 4) {
          e.premine = Some(0);
        } else {
          feat(&mut self.f, "flaw:supply-overflow");
        }
      }
      if e.supply().is_none() && e.premine == Some(0) {
        // cap * amount alone overflows
        if let Some(t) = e.terms.as_mut() {
          t.cap = Some(2);
        }
      }
      if let Some(r) = rune {
        names_in_block.push(r.0);
        if let Some(k) = commit_input {
          match self.rng.below(12) {
            0 => {
              feat(&mut self.f, "commit:none");
            }
            1 => {
              feat(&mut self.f, "commit:wrong-bytes");
              let mut c = r.commitment();
              c.push(1);
              ins[k].witness = commit_witness(&c);
            }
            2 => {
              feat(&mut self.f, "commit:witness-too-short");
              ins[k].witness = vec![commit_witness(&r.commitment()).remove(0)];
            }
            _ => {
              ins[k].witness = commit_witness(&r.commitment());
              let prev = &self.chain.txs[ins[k].txnum];
              let depth = h - prev.height + 1;
              let taproot = prev.tx.output[ins[k].vout as usize].script_pubkey.is_p2tr();
              feat(&mut self.f, match (taproot, depth) {
                (false, _) => "commit:not-taproot",
                (true, 0..=4) => "commit:depth<5",
                (true, 5) => "commit:depth5",
                (true, 6) => "commit:depth6",
                (true, 7) => "commit:depth7",
                _ => "commit:depth>7",
              });
            }
          }
        } else {
          feat(&mut self.f, "commit:no-input");
        }
        // several inputs that reveal a commitment (mature / immature / non-taproot commit outputs,
        // the same or another name's commitment), in a random input order
        if self.rng.chance(1, 2) {
          let extra = 1 + self.rng.below(3);
          let mut added = 0;
          for _ in 0..extra {
            let mut cands: Vec<(usize, u32)> = self.commits.iter().copied().filter(|o| !taken.contains(o)).collect();
            if cands.is_empty() || self.rng.chance(1, 5) {
              cands = self.funding.iter().copied().filter(|o| !taken.contains(o)).collect();
            }
            if cands.is_empty() {
              break;
            }
            let o = *self.rng.pick(&cands);
            taken.insert(o);
            let witness = match self.rng.below(10) {
              0 => vec![],
              1 | 2 => {
                feat(&mut self.f, "commit:other-name");
                commit_witness(&Rune(r.0 + 1 + u128::from(self.rng.below(3))).commitment())
              }
              _ => commit_witness(&r.commitment()),
            };
            ins.push(InSpec { txnum: o.0, vout: o.1, witness });
            added += 1;
          }
          if added > 0 {
            for i in (1..ins.len()).rev() {
              let j = self.rng.below(i as u64 + 1) as usize;
              ins.swap(i, j);
            }
            // classify what the inputs look like, in order
            let kinds: String = ins
              .iter()
              .map(|i| {
                if i.txnum >= self.chain.txs.len() {
                  return 'x'; // output of an earlier transaction of this block
                }
                let prev = &self.chain.txs[i.txnum];
                let taproot = prev.tx.output[i.vout as usize].script_pubkey.is_p2tr();
                let mature = h - prev.height + 1 >= 6;
                let commits = commit_witness(&r.commitment()) == i.witness;
                match (commits, taproot, mature) {
                  (false, _, _) => 'x',
                  (true, true, true) => 'M',
                  (true, true, false) => 'i',
                  (true, false, _) => 'n',
                }
              })
              .collect();
            let first_m = kinds.find('M');
            feat(&mut self.f, "commit:multi");
            if let Some(m) = first_m {
              if kinds[..m].contains('i') {
                feat(&mut self.f, "commit:multi:immature-before-mature");
              }
              if kinds[..m].contains('n') {
                feat(&mut self.f, "commit:multi:non-taproot-before-mature");
              }
              if m > 0 {
                feat(&mut self.f, "commit:multi:mature-in-later-input");
              }
            }
          }
        }
        feat(&mut self.f, "etch:named");
      } else {
        feat(&mut self.f, "etch:unnamed");
      }
      *unalloc.entry(my_id).or_default() = e.premine.unwrap_or(0);
      rs.etching = Some(e);
    }
    if self.rng.chance(p.p_mint, 100) {
      let mintable: Vec<&(RuneId, ord::RuneEntry)> = known.iter().filter(|(_, e)| e.terms.is_some()).collect();
      let id = match self.rng.below(12) {
        0 => {
          feat(&mut self.f, "mint:self");
          my_id
        }
        1 => {
          feat(&mut self.f, "mint:later-in-block");
          RuneId { block: h.into(), tx: txi + 1 + self.rng.below(2) as u32 }
        }
        2 => {
          feat(&mut self.f, "mint:unknown");
          RuneId { block: u64::from(h) + 1 + self.rng.below(3), tx: self.rng.below(3) as u32 }
        }
        3 if !known.is_empty() => self.rng.pick(&known).0,
        _ if !mintable.is_empty() => {
          // prefer runes whose window / cap is at an edge now
          let edge: Vec<&&(RuneId, ord::RuneEntry)> = mintable
            .iter()
            .filter(|(_, e)| {
              let hh = u64::from(h);
              let near = |x: Option<u64>| x.map_or(false, |x| x.abs_diff(hh) <= 1);
              near(e.start()) || near(e.end()) || e.terms.unwrap().cap.unwrap_or(0).abs_diff(e.mints) <= 1
            })
            .collect();
          if !edge.is_empty() && self.rng.chance(2, 3) {
            feat(&mut self.f, "mint:edge");
            self.rng.pick(&edge).0
          } else {
            self.rng.pick(&mintable).0
          }
        }
        _ => my_id,
      };
      if let Some((_, e)) = known.iter().find(|(i, _)| *i == id) {
        if let Ok(a) = e.mintable(h.into()) {
          let c = unalloc.entry(id).or_default();
          *c = c.saturating_add(a);
        }
      }
      feat(&mut self.f, "mint");
      rs.mint = Some(id);
    }
    if self.rng.chance(2, 5) {
      rs.pointer = Some(match self.rng.below(20) {
        0 => {
          feat(&mut self.f, "pointer:out-of-range");
          total_outs as u128
        }
        1 => u128::from(u32::MAX) + 1,
        _ => self.rng.below(total_outs as u64).into(),
      });
      feat(&mut self.f, "pointer");
    }
    if self.rng.chance(p.p_edicts, 100) {
      let n = 1 + self.rng.below(p.max_edicts);
      let ids: Vec<RuneId> = unalloc.keys().copied().collect();
      for _ in 0..n {
        let id = match self.rng.below(10) {
          0 | 1 => {
            feat(&mut self.f, "edict:id-0:0");
            RuneId::default()
          }
          2 if !known.is_empty() => {
            feat(&mut self.f, "edict:not-in-inputs");
            self.rng.pick(&known).0
          }
          3 => my_id,
          _ if !ids.is_empty() => *self.rng.pick(&ids),
          _ => RuneId::default(),
        };
        let b = *unalloc.get(&if id == RuneId::default() { my_id } else { id }).unwrap_or(&0);
        let amount = match self.rng.below(12) {
          0 | 1 => {
            feat(&mut self.f, "edict:amount-0");
            0
          }
          2 => 1,
          3 => b.saturating_sub(1),
          4 => b,
          5 => {
            feat(&mut self.f, "edict:amount>balance");
            b.saturating_add(1)
          }
          6 => u128::MAX,
          7 => b / 2,
          8 => b / 3,
          9 => b / (total_outs as u128),
          _ => u128::from(self.rng.below(2000)),
        };
        let output = match self.rng.below(24) {
          0..=6 => {
            feat(&mut self.f, "edict:split");
            total_outs as u128
          }
          7 if self.rng.chance(1, 3) => {
            feat(&mut self.f, "flaw:edict-output");
            total_outs as u128 + 1
          }
          _ => self.rng.below(total_outs as u64).into(),
        };
        rs.edicts.push((id, amount, output));
      }
      feat(&mut self.f, "edicts");
    }
    if self.rng.chance(p.p_flaw, 100) {
      rs.flaw = 1 + self.rng.below(5) as u8;
      feat(&mut self.f, "flaw:injected");
    }
    self.maybe_inscribe(&mut ins);
    let pos = self.rng.below(outs.len() as u64 + 1) as usize;
    outs.insert(pos, OutSpec::Script(runestone_script(&rs)));
    self.mark_outputs(&ins, &outs);
    Some(TxSpec { ins, outs })
  }

  fn mark_outputs(&mut self, _ins: &[InSpec], _outs: &[OutSpec]) {}

  /// C37: reveal an inscription in an input that has no witness yet; sometimes as a child of an
  /// inscription carried by one of the inputs
  fn maybe_inscribe(&mut self, ins: &mut [InSpec]) {
    if self.p.p_inscribe == 0 || !self.rng.chance(self.p.p_inscribe, 100) {
      return;
    }
    let Some(k) = ins.iter().position(|i| i.witness.is_empty()) else { return };
    let d = self.chain.dumps.last().unwrap();
    let mut parents: Vec<Vec<u8>> = Vec::new();
    if self.rng.chance(1, 2) {
      for i in ins.iter() {
        if i.txnum >= self.chain.txs.len() {
          continue;
        }
        let op = bitcoin::OutPoint { txid: self.chain.txs[i.txnum].txid, vout: i.vout };
        for (seq, sp) in &d.sequence_number_to_satpoint {
          if sp.outpoint == op {
            if let Some((_, e)) = d.sequence_number_to_inscription_entry.iter().find(|(s, _)| s == seq) {
              parents.push(inscription_id_value(e.id));
            }
          }
        }
      }
      if !parents.is_empty() {
        feat(&mut self.f, "inscribe:child");
      }
    }
    let inscription = ord::Inscription {
      content_type: Some(b"text/plain".to_vec()),
      body: Some(format!("hx{}", self.rng.below(1 << 30)).into_bytes()),
      parents,
      ..Default::default()
    };
    let script = inscription.append_reveal_script_to_builder(bitcoin::script::Builder::new()).into_script();
    ins[k].witness = vec![script.into_bytes(), vec![]];
    feat(&mut self.f, "inscribe");
  }

  fn gen_commit_tx(&mut self, taken: &mut BTreeSet<(usize, u32)>) -> Option<TxSpec> {
    let fs: Vec<(usize, u32)> = self.funding.iter().copied().filter(|o| !taken.contains(o)).collect();
    if fs.is_empty() {
      return None;
    }
    let o = *self.rng.pick(&fs);
    taken.insert(o);
    let n = 1 + self.rng.below(4);
    let outs = (0..n).map(|_| if self.rng.chance(6, 7) { OutSpec::P2tr } else { OutSpec::P2wpkh }).collect();
    feat(&mut self.f, "tx:commit");
    Some(TxSpec { ins: vec![InSpec { txnum: o.0, vout: o.1, witness: vec![] }], outs })
  }

  fn step(&mut self) {
    let ntx = if self.p.name == "events-slow" { self.p.max_tx / 2 + self.rng.below(self.p.max_tx / 2 + 1) } else { self.rng.below(self.p.max_tx + 1) };
    let mut specs: Vec<TxSpec> = Vec::new();
    let mut taken: BTreeSet<(usize, u32)> = BTreeSet::new();
    let mut pending: Vec<(usize, usize)> = Vec::new(); // (future txnum, number of spendable-looking outputs)
    let mut names: Vec<u128> = Vec::new();
    let base = self.chain.txs.len() + 1;
    let mut new_commits: Vec<(usize, u32)> = Vec::new();
    for _ in 0..ntx {
      let txi = specs.len() as u32 + 1;
      let spec = if self.rng.chance(self.p.w_commit, 100) {
        let s = self.gen_commit_tx(&mut taken);
        if let Some(s) = &s {
          for v in 0..s.outs.len() {
            new_commits.push((base + specs.len(), v as u32));
          }
        }
        s
      } else {
        self.gen_rune_tx(txi, &mut taken, &pending, &mut names)
      };
      if let Some(spec) = spec {
        // an output is spendable by a later transaction of the block unless it is OP_RETURN
        let spendable: Vec<usize> =
          spec.outs.iter().enumerate().filter(|(_, o)| !o.script().is_op_return()).map(|(i, _)| i).collect();
        if let Some(last) = spendable.last() {
          // only offer a prefix that contains no OP_RETURN so that vout < n picks are valid
          let prefix = spendable.iter().enumerate().take_while(|(i, v)| i == *v).count();
          let _ = last;
          if prefix > 0 {
            pending.push((base + specs.len(), prefix));
          }
        }
        specs.push(spec);
      }
    }
    self.chain.add_block(&specs);
    // bookkeeping of spendable non-rune outputs
    let cb = self.chain.blocks.last().unwrap().txnums[0];
    self.funding.push((cb, 0));
    self.funding.retain(|o| self.chain.live.contains(o));
    self.commits.extend(new_commits);
    self.commits.retain(|o| self.chain.live.contains(o));
  }
}

/// a whole chain; returns its case line and the feature counts
pub fn gen_chain(rng: &mut Rng, p: Profile) -> (Line, Features) {
  let mut g = Gen { rng, p, chain: Chain::with(ChainOpts { events: p.p_inscribe > 0, slow: p.name == "events-slow" }), funding: Vec::new(), commits: Vec::new(), f: Features::new() };
  // a few funding blocks first; the etch profile also plants commit outputs early
  g.chain.add_block(&[]);
  let cb = g.chain.blocks.last().unwrap().txnums[0];
  g.funding.push((cb, 0));
  g.chain.add_block(&[]);
  let cb = g.chain.blocks.last().unwrap().txnums[0];
  g.funding.push((cb, 0));
  if p.name == "events-slow" {
    // many spendable outputs, so that a block can hold many reveals / transfers
    let o = g.funding.remove(0);
    g.chain.add_block(&[TxSpec { ins: vec![InSpec { txnum: o.0, vout: o.1, witness: vec![] }], outs: vec![OutSpec::P2wpkh; 80] }]);
    let b = g.chain.blocks.last().unwrap();
    let (cb, fan) = (b.txnums[0], b.txnums[1]);
    g.funding.push((cb, 0));
    for v in 0..80u32 {
      g.funding.push((fan, v));
    }
  }
  if p.w_commit > 0 {
    let mut taken = BTreeSet::new();
    let base = g.chain.txs.len() + 1;
    let mut specs = Vec::new();
    let mut cs = Vec::new();
    for k in 0..2usize {
      if let Some(s) = g.gen_commit_tx(&mut taken) {
        for v in 0..s.outs.len() {
          cs.push((base + k, v as u32));
        }
        specs.push(s);
      }
    }
    g.chain.add_block(&specs);
    let cb = g.chain.blocks.last().unwrap().txnums[0];
    g.funding.push((cb, 0));
    g.funding.retain(|o| g.chain.live.contains(o));
    g.commits.extend(cs);
  }
  let n = g.rng.range(p.blocks.0, p.blocks.1);
  for _ in 0..n {
    g.step();
  }
  (g.chain.line(), g.f)
}
