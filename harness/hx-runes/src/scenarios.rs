//! Scripted chains that always run (before the random ones): the edges named in the property
//! texts, built deterministically so that every check exercises them whatever the seed.
use crate::chain::*;
use hxlib::*;
use ordinals::{Etching, Height, Rune, RuneId, Terms};

fn input(o: (usize, u32)) -> InSpec {
  InSpec { txnum: o.0, vout: o.1, witness: vec![] }
}

fn rs_out(rs: &RsSpec) -> OutSpec {
  OutSpec::Script(runestone_script(rs))
}

struct S {
  c: Chain,
  funding: Vec<(usize, u32)>,
}

impl S {
  fn new() -> S {
    S::with(ChainOpts::default())
  }
  fn with(opts: ChainOpts) -> S {
    let mut s = S { c: Chain::with(opts), funding: vec![] };
    for _ in 0..3 {
      s.block(&[]);
    }
    // fan one coinbase out into many spendable outputs
    let f = s.fund();
    let t = s.block(&[TxSpec { ins: vec![f], outs: vec![OutSpec::P2wpkh; 120] }]);
    for v in 0..120u32 {
      s.funding.push((t[1], v));
    }
    s
  }
  fn block(&mut self, specs: &[TxSpec]) -> Vec<usize> {
    self.c.add_block(specs);
    let b = self.c.blocks.last().unwrap();
    self.funding.push((b.txnums[0], 0));
    b.txnums.clone()
  }
  fn fund(&mut self) -> InSpec {
    input(self.funding.remove(0))
  }
  fn next(&self) -> u32 {
    self.c.height() + 1
  }
}

/// commitment depth 5 / 6 / 7, non-taproot, wrong bytes, taken name, name below the minimum
pub fn etching_edges() -> Line {
  let mut s = S::new();
  let f = s.fund();
  let t = s.block(&[TxSpec { ins: vec![f], outs: vec![OutSpec::P2tr, OutSpec::P2tr, OutSpec::P2tr, OutSpec::P2wpkh, OutSpec::P2tr, OutSpec::P2tr] }]);
  let commit = t[1];
  let commit_height = s.c.height();
  let name = |k: u128| Rune(Rune::minimum_at_height(bitcoin::Network::Regtest, Height(commit_height)).0 + 1000 + k);
  let reveal = |s: &mut S, vout: u32, r: Rune, bytes: Vec<u8>| {
    let rs = RsSpec { etching: Some(Etching { rune: Some(r), premine: Some(5), ..Default::default() }), ..Default::default() };
    TxSpec { ins: vec![InSpec { txnum: commit, vout, witness: commit_witness(&bytes) }, s.fund()], outs: vec![OutSpec::P2wpkh, rs_out(&rs)] }
  };
  while s.next() < commit_height + 4 {
    s.block(&[]);
  }
  // depth 5: height = commit_height + 4
  let a = reveal(&mut s, 0, name(0), name(0).commitment());
  s.block(&[a]);
  // depth 6: succeeds; same block: same name again through another commit output (taken)
  let a = reveal(&mut s, 1, name(1), name(1).commitment());
  let b = reveal(&mut s, 2, name(1), name(1).commitment());
  s.block(&[a, b]);
  // depth 7: non-taproot commit output, wrong bytes, below the minimum
  let a = reveal(&mut s, 3, name(2), name(2).commitment());
  let mut wrong = name(3).commitment();
  wrong[0] ^= 1;
  let b = reveal(&mut s, 4, name(3), wrong);
  let low = Rune(Rune::minimum_at_height(bitcoin::Network::Regtest, Height(s.next())).0 - 1);
  let c = reveal(&mut s, 5, low, low.commitment());
  s.block(&[a, b, c]);
  s.c.line()
}

/// mints at start-1, start, cap-1, cap, end-1, end; mint in a cenotaph; mint of self and of a rune
/// etched later in the block
pub fn mint_edges() -> Line {
  let mut s = S::new();
  let h = u64::from(s.next());
  // rune A: relative start 2, cap 2; rune B: absolute end h+4, cap 100
  let a = RsSpec {
    etching: Some(Etching { premine: Some(1), terms: Some(Terms { amount: Some(7), cap: Some(2), height: (None, None), offset: (Some(2), None) }), ..Default::default() }),
    mint: Some(RuneId { block: h, tx: 1 }),
    ..Default::default()
  };
  let b = RsSpec {
    etching: Some(Etching { terms: Some(Terms { amount: Some(3), cap: Some(100), height: (None, Some(h + 4)), offset: (None, None) }), ..Default::default() }),
    ..Default::default()
  };
  // tx 1 etches A and mints itself (no-op); tx 2 mints B, etched by tx 3 (no-op); tx 3 etches B
  let m_b = RsSpec { mint: Some(RuneId { block: h, tx: 3 }), ..Default::default() };
  let (f1, f2, f3) = (s.fund(), s.fund(), s.fund());
  s.block(&[
    TxSpec { ins: vec![f1], outs: vec![OutSpec::P2wpkh, rs_out(&a)] },
    TxSpec { ins: vec![f2], outs: vec![OutSpec::P2wpkh, rs_out(&m_b)] },
    TxSpec { ins: vec![f3], outs: vec![OutSpec::P2wpkh, rs_out(&b)] },
  ]);
  let ida = RuneId { block: h, tx: 1 };
  let idb = RuneId { block: h, tx: 3 };
  for k in 1..=5u64 {
    // every block: two mints of A (start-1 at k=1, start at k=2 reaching the cap within the block,
    // cap afterwards), one mint of B (end-1 at k=3, end at k=4), the B mint of k=2 in a cenotaph
    let mut specs = Vec::new();
    for (id, flaw) in [(ida, 0u8), (ida, 0), (idb, if k == 2 { 1 } else { 0 })] {
      let f = s.fund();
      let rs = RsSpec { mint: Some(id), flaw, ..Default::default() };
      specs.push(TxSpec { ins: vec![f], outs: vec![rs_out(&rs), OutSpec::P2wpkh] });
    }
    s.block(&specs);
  }
  s.c.line()
}

/// one balance of 10, outputs [plain, OP_RETURN, plain, plain, runestone]: split amount 0, split
/// amount 4, id 0:0, amount above balance, pointer to an OP_RETURN output, all outputs OP_RETURN
pub fn allocation_edges() -> Line {
  let mut s = S::new();
  let opret = || OutSpec::Script(vec![0x6a, 0x01, 0x58]);
  let h = u64::from(s.next());
  let mut specs = Vec::new();
  for _ in 0..6 {
    let f = s.fund();
    let rs = RsSpec { etching: Some(Etching { premine: Some(10), ..Default::default() }), ..Default::default() };
    specs.push(TxSpec { ins: vec![f], outs: vec![OutSpec::P2wpkh, rs_out(&rs)] });
    if s.funding.is_empty() {
      break;
    }
  }
  let n = specs.len();
  let t = s.block(&specs);
  for _ in 0..4 {
    s.block(&[]);
  }
  let id = |k: usize| RuneId { block: h, tx: k as u32 + 1 };
  let shapes: Vec<(Vec<(RuneId, u128, u128)>, Option<u128>, bool)> = vec![
    (vec![(id(0), 0, 5)], None, false),
    (vec![(id(1), 4, 5)], None, false),
    (vec![(id(2), 6, 1)], Some(1), false),
    (vec![(id(3), 11, 2), (id(3), 0, 3), (id(4), 3, 0)], Some(3), false),
  ];
  let mut specs = Vec::new();
  for (k, (edicts, pointer, _)) in shapes.into_iter().enumerate() {
    if k >= n {
      break;
    }
    let rs = RsSpec { edicts, pointer, ..Default::default() };
    let mut ins = vec![input((t[k + 1], 0)), s.fund()];
    if k == 3 {
      ins.push(input((t[5], 0)));
    }
    specs.push(TxSpec { ins, outs: vec![OutSpec::P2wpkh, opret(), OutSpec::P2wpkh, OutSpec::P2wpkh, rs_out(&rs)] });
  }
  // a new etching using id 0:0 in a split, and a plain transfer into OP_RETURN-only outputs
  let f = s.fund();
  let rs = RsSpec {
    etching: Some(Etching { premine: Some(9), ..Default::default() }),
    edicts: vec![(RuneId::default(), 0, 3), (RuneId::default(), 1, 0)],
    ..Default::default()
  };
  specs.push(TxSpec { ins: vec![f], outs: vec![OutSpec::P2wpkh, OutSpec::P2tr, rs_out(&rs)] });
  s.block(&specs);
  s.c.line()
}

pub fn all() -> Vec<Line> {
  vec![etching_edges(), mint_edges(), allocation_edges()]
}

/// C37: inscriptions created, moved, sent to an OP_RETURN output, sent to fees, a child of a
/// carried parent, next to rune etching / mint / transfer / burn in the same blocks
pub fn events() -> Vec<Line> {
  vec![events_scenario(false), events_scenario(true), events_burst()]
}

/// receiver mode (capacity-1 channel, slow consumer): 40 reveals in one block, all 40 moved in the
/// next, half of them onto OP_RETURN outputs in a third
pub fn events_burst() -> Line {
  let mut s = S::with(ChainOpts { events: true, slow: true });
  let ins_w = |body: String| -> Vec<Vec<u8>> {
    let i = ord::Inscription { content_type: Some(b"text/plain".to_vec()), body: Some(body.into_bytes()), ..Default::default() };
    vec![i.append_reveal_script_to_builder(bitcoin::script::Builder::new()).into_script().into_bytes(), vec![]]
  };
  let mut specs = Vec::new();
  for k in 0..40 {
    let mut f = s.fund();
    f.witness = ins_w(format!("burst{k}"));
    specs.push(TxSpec { ins: vec![f], outs: vec![OutSpec::P2wpkh] });
  }
  let t = s.block(&specs);
  let specs: Vec<TxSpec> = (0..40).map(|k| TxSpec { ins: vec![input((t[k + 1], 0))], outs: vec![OutSpec::P2tr] }).collect();
  let t2 = s.block(&specs);
  let specs: Vec<TxSpec> = (0..20)
    .map(|k| TxSpec { ins: vec![input((t2[2 * k + 1], 0))], outs: vec![OutSpec::Script(vec![0x6a, 0x01, 0x58]), OutSpec::P2wpkh] })
    .collect();
  s.block(&specs);
  s.c.line()
}

fn events_scenario(slow: bool) -> Line {
  let mut s = S::with(ChainOpts { events: true, slow });
  let ins_w = |body: &str, parents: Vec<Vec<u8>>| -> Vec<Vec<u8>> {
    let i = ord::Inscription { content_type: Some(b"text/plain".to_vec()), body: Some(body.as_bytes().to_vec()), parents, ..Default::default() };
    vec![i.append_reveal_script_to_builder(bitcoin::script::Builder::new()).into_script().into_bytes(), vec![]]
  };
  let opret = || OutSpec::Script(vec![0x6a, 0x01, 0x58]);
  let h = u64::from(s.next());
  // block A: three inscriptions, one of them in a transaction that also etches (premine 10, mintable)
  let mut a = s.fund();
  a.witness = ins_w("a", vec![]);
  let mut b = s.fund();
  b.witness = ins_w("b", vec![]);
  let mut c = s.fund();
  c.witness = ins_w("c", vec![]);
  let rs = RsSpec {
    etching: Some(Etching { premine: Some(10), terms: Some(Terms { amount: Some(5), cap: Some(3), height: (None, None), offset: (None, None) }), ..Default::default() }),
    ..Default::default()
  };
  let t = s.block(&[
    TxSpec { ins: vec![a], outs: vec![OutSpec::P2wpkh] },
    TxSpec { ins: vec![b], outs: vec![OutSpec::P2wpkh, OutSpec::P2wpkh] },
    TxSpec { ins: vec![c], outs: vec![OutSpec::P2wpkh, rs_out(&rs)] },
  ]);
  let id = RuneId { block: h, tx: 3 };
  let first_id = ord::InscriptionId { txid: s.c.txs[t[1]].txid, index: 0 };
  // block B: move a and inscribe a child of it; b to an OP_RETURN output; c (with the runes) split,
  // minting in the same transaction
  let mut child = input((t[1], 0));
  child.witness = ins_w("child", vec![crate::gen::inscription_id_value(first_id)]);
  let mint = RsSpec { mint: Some(id), edicts: vec![(id, 4, 1)], ..Default::default() };
  let f = s.fund();
  let t2 = s.block(&[
    TxSpec { ins: vec![child], outs: vec![OutSpec::P2wpkh] },
    TxSpec { ins: vec![input((t[2], 0))], outs: vec![opret()] },
    TxSpec { ins: vec![input((t[3], 0)), f], outs: vec![OutSpec::P2wpkh, OutSpec::P2tr, rs_out(&mint)] },
  ]);
  // block C: parent + child to fees; runes of output 1 into a cenotaph (burned), with a mint
  let cen = RsSpec { mint: Some(id), flaw: 1, ..Default::default() };
  s.block(&[
    TxSpec { ins: vec![input((t2[1], 0))], outs: vec![] },
    TxSpec { ins: vec![input((t2[3], 1))], outs: vec![OutSpec::P2wpkh, rs_out(&cen)] },
  ]);
  // block D: an inscription created directly on a valued OP_RETURN output (single-output reveal),
  // another one created on a plain output and then moved onto an OP_RETURN output in block E
  let mut d = s.fund();
  d.witness = ins_w("born-burned", vec![]);
  let mut e = s.fund();
  e.witness = ins_w("burned-later", vec![]);
  let t4 = s.block(&[
    TxSpec { ins: vec![d], outs: vec![opret()] },
    TxSpec { ins: vec![e], outs: vec![OutSpec::P2wpkh] },
  ]);
  s.block(&[TxSpec { ins: vec![input((t4[2], 0))], outs: vec![opret(), OutSpec::P2wpkh] }]);
  s.block(&[]);
  s.c.line()
}

/// C11: reveals with several inputs whose tapscripts push the commitment, in every order of
/// M = mature p2tr commit, I = immature p2tr commit, N = mature non-taproot output, X = input
/// without commitment: all 24 orders of the four (etches: M is there), all 6 orders of {I, N, X}
/// (does not etch), all 12 ordered pairs, and two different commitments in two mature inputs.
pub fn multi_commit_edges() -> Line {
  let mut s = S::new();
  // commit block 1 (mature at the reveal): 40 p2tr + 40 p2wpkh outputs
  let f = s.fund();
  let mut outs = vec![OutSpec::P2tr; 40];
  outs.extend(vec![OutSpec::P2wpkh; 40]);
  let c1 = s.block(&[TxSpec { ins: vec![f], outs }])[1];
  let h1 = s.c.height();
  for _ in 0..3 {
    s.block(&[]);
  }
  // commit block 2 (immature at the reveal): 40 p2tr outputs
  let f = s.fund();
  let c2 = s.block(&[TxSpec { ins: vec![f], outs: vec![OutSpec::P2tr; 40] }])[1];
  assert_eq!(s.next() - h1 + 1, 6);
  let base = Rune::minimum_at_height(bitcoin::Network::Regtest, Height(h1)).0 + 5000;
  let (mut m, mut i, mut n) = (0u32, 0u32, 0u32);
  let mut k = 0u128;
  let mut specs = Vec::new();
  let mut reveal = |s: &mut S, kinds: &[char], specs: &mut Vec<TxSpec>| {
    let name = Rune(base + 10 * k);
    k += 1;
    let mut ins = Vec::new();
    for c in kinds {
      let w = commit_witness(&name.commitment());
      ins.push(match c {
        'M' => {
          m += 1;
          InSpec { txnum: c1, vout: m - 1, witness: w }
        }
        'O' => {
          // mature p2tr input that commits to another name
          m += 1;
          InSpec { txnum: c1, vout: m - 1, witness: commit_witness(&Rune(name.0 + 1).commitment()) }
        }
        'I' => {
          i += 1;
          InSpec { txnum: c2, vout: i - 1, witness: w }
        }
        'N' => {
          n += 1;
          InSpec { txnum: c1, vout: 40 + n - 1, witness: w }
        }
        _ => s.fund(),
      });
    }
    let rs = RsSpec { etching: Some(Etching { rune: Some(name), premine: Some(1), ..Default::default() }), ..Default::default() };
    specs.push(TxSpec { ins, outs: vec![OutSpec::P2wpkh, rs_out(&rs)] });
  };
  fn perms(v: &[char]) -> Vec<Vec<char>> {
    if v.len() <= 1 {
      return vec![v.to_vec()];
    }
    let mut out = Vec::new();
    for i in 0..v.len() {
      let mut rest = v.to_vec();
      let x = rest.remove(i);
      for mut p in perms(&rest) {
        p.insert(0, x);
        out.push(p);
      }
    }
    out
  }
  for p in perms(&['M', 'I', 'N', 'X']) {
    reveal(&mut s, &p, &mut specs);
  }
  for p in perms(&['I', 'N', 'X']) {
    reveal(&mut s, &p, &mut specs);
  }
  let all = ['M', 'I', 'N', 'X'];
  for a in all {
    for b in all {
      if a != b {
        reveal(&mut s, &[a, b], &mut specs);
      }
    }
  }
  reveal(&mut s, &['O', 'M'], &mut specs);
  reveal(&mut s, &['M', 'O'], &mut specs);
  reveal(&mut s, &['O', 'I'], &mut specs);
  reveal(&mut s, &['I', 'O', 'M'], &mut specs);
  drop(reveal);
  s.block(&specs);
  s.c.line()
}
