//! S: the statements of C08..C11 evaluated directly on the dumps of the real index, block by
//! block, written against the property texts and docs/src/runes/specification.md (not against the
//! Coq model).
use crate::chain::*;
use ord::index::verif::Dump;
use ordinals::{Artifact, Height, Rune, RuneId};
use std::collections::{BTreeMap, BTreeSet};

#[derive(Default)]
pub struct Verdicts {
  pub c08: Vec<String>,
  pub c09: Vec<String>,
  pub c10: Vec<String>,
  pub c11: Vec<String>,
}

fn stat(d: &Dump, k: u64) -> u64 {
  d.statistic_to_count.iter().find(|(a, _)| *a == k).map_or(0, |(_, v)| *v)
}

/// the C10 statement: may a mint add runes at `height`, given the entry's terms and mint count
fn statement_mintable(e: &ord::RuneEntry, mints: u128, height: u64) -> Option<u128> {
  let t = e.terms?;
  let b = u128::from(e.block);
  let h = u128::from(height);
  let sat = |o: u64| (b + u128::from(o)).min(u128::from(u64::MAX));
  let started = t.height.0.map_or(true, |a| u128::from(a) <= h) && t.offset.0.map_or(true, |o| sat(o) <= h);
  let not_ended = t.height.1.map_or(true, |a| h < u128::from(a)) && t.offset.1.map_or(true, |o| h < sat(o));
  (started && not_ended && mints < t.cap.unwrap_or(0)).then(|| t.amount.unwrap_or(0))
}

type Bal = BTreeMap<RuneId, u128>;

fn add(m: &mut Bal, id: RuneId, a: u128, errs: &mut Vec<String>, what: &str) {
  let c = m.entry(id).or_insert(0);
  match c.checked_add(a) {
    Some(s) => *c = s,
    None => errs.push(format!("{what}: sum for {id} exceeds u128")),
  }
}

pub fn check(chain: &Chain) -> Verdicts {
  let mut v = Verdicts::default();
  let mut live: BTreeSet<(usize, u32)> = BTreeSet::new();
  // reference balances (C09), carried from block to block
  let mut ref_bal: BTreeMap<(usize, u32), Bal> = BTreeMap::new();
  for (h, b) in chain.blocks.iter().enumerate() {
    let post = &chain.dumps[h];
    let empty = Dump::default();
    let pre = if h == 0 { &empty } else { &chain.dumps[h - 1] };
    let height = b.height;
    let pre_entries: BTreeMap<RuneId, &ord::RuneEntry> = pre.rune_id_to_rune_entry.iter().map(|(i, e)| (*i, e)).collect();
    let post_entries: BTreeMap<RuneId, &ord::RuneEntry> = post.rune_id_to_rune_entry.iter().map(|(i, e)| (*i, e)).collect();

    // ---------------- walk the block once: expected etchings (C11), expected mints (C10), reference allocation (C09)
    let mut names: BTreeSet<u128> = pre.rune_to_rune_id.iter().map(|(r, _)| *r).collect();
    let mut runes_count = stat(pre, 13);
    let mut reserved_count = stat(pre, 12);
    let mut mints: BTreeMap<RuneId, u128> = pre_entries.iter().map(|(i, e)| (*i, e.mints)).collect();
    let mut created: BTreeSet<RuneId> = BTreeSet::new();
    let mut ref_burned: Bal = Bal::new();
    let minimum = Rune::minimum_at_height(bitcoin::Network::Regtest, Height(height));
    for (i, &n) in b.txnums.iter().enumerate() {
      let t = &chain.txs[n];
      let txi = i as u32;
      let my_id = RuneId { block: height.into(), tx: txi };
      for input in &t.tx.input {
        if let Some(p) = chain.by_txid.get(&input.previous_output.txid) {
          live.remove(&(*p, input.previous_output.vout));
        }
      }
      for (k, o) in t.tx.output.iter().enumerate() {
        if !o.script_pubkey.is_op_return() {
          live.insert((n, k as u32));
        }
      }
      // ---- C10: does the mint add runes
      let mut minted: Option<(RuneId, u128)> = None;
      if let Some(id) = t.artifact.as_ref().and_then(|a| a.mint()) {
        let e = pre_entries.get(&id).copied().or_else(|| if created.contains(&id) { post_entries.get(&id).copied() } else { None });
        if let Some(e) = e {
          let m = mints.get(&id).copied().unwrap_or(0);
          if let Some(a) = statement_mintable(e, m, height.into()) {
            mints.insert(id, m + 1);
            minted = Some((id, a));
          }
        }
      }
      // ---- C11: does the transaction etch
      let asked: Option<Option<Rune>> = match &t.artifact {
        Some(Artifact::Runestone(r)) => r.etching.map(|e| e.rune),
        Some(Artifact::Cenotaph(c)) => c.etching.map(Some),
        None => None,
      };
      let expected_name: Option<u128> = match asked {
        None => None,
        Some(Some(r)) => {
          let commitment = r.commitment();
          let committed = t.tx.input.iter().any(|input| {
            let Some(p) = chain.by_txid.get(&input.previous_output.txid) else { return false };
            let prev = &chain.txs[*p];
            Chain::tapscript_pushes(&input.witness).iter().any(|x| *x == commitment)
              && prev.tx.output[input.previous_output.vout as usize].script_pubkey.is_p2tr()
              && height - prev.height + 1 >= 6
          });
          (r >= minimum && r.0 < Rune::RESERVED && !names.contains(&r.0) && committed).then_some(r.0)
        }
        Some(None) => {
          reserved_count += 1;
          Some(Rune::RESERVED + ((u128::from(height) << 32) | u128::from(txi)))
        }
      };
      let mut etched: Option<(RuneId, u128)> = None;
      match (expected_name, post_entries.get(&my_id)) {
        (None, None) => {}
        (None, Some(e)) => v.c11.push(format!("block {height} tx {txi}: entry {my_id} ({}) created although the statement forbids it", e.spaced_rune.rune)),
        (Some(name), None) => v.c11.push(format!("block {height} tx {txi}: no entry although rune {name} is a valid etching")),
        (Some(name), Some(e)) => {
          let mut bad = Vec::new();
          if e.spaced_rune.rune.0 != name {
            bad.push(format!("name {} != {name}", e.spaced_rune.rune.0));
          }
          if e.number != runes_count {
            bad.push(format!("number {} != {runes_count}", e.number));
          }
          if e.block != u64::from(height) || e.etching != t.txid || e.timestamp != u64::from(b.time) {
            bad.push("block/etching/timestamp".into());
          }
          match &t.artifact {
            Some(Artifact::Runestone(r)) => {
              let et = r.etching.unwrap();
              if e.premine != et.premine.unwrap_or(0)
                || e.terms != et.terms
                || e.divisibility != et.divisibility.unwrap_or(0)
                || e.spaced_rune.spacers != et.spacers.unwrap_or(0)
                || e.symbol != et.symbol
                || e.turbo != et.turbo
              {
                bad.push("fields differ from the etching".into());
              }
              etched = Some((my_id, et.premine.unwrap_or(0)));
            }
            _ => {
              if e.premine != 0 || e.terms.is_some() || e.divisibility != 0 || e.spaced_rune.spacers != 0 || e.symbol.is_some() || e.turbo {
                bad.push("cenotaph etching with non-default fields".into());
              }
              etched = Some((my_id, 0));
            }
          }
          if post.rune_to_rune_id.iter().find(|(r, _)| *r == name).map(|(_, i)| *i) != Some(my_id) {
            bad.push("RUNE_TO_RUNE_ID does not map the name to the id".into());
          }
          if post.transaction_id_to_rune.iter().find(|(x, _)| *x == t.txid).map(|(_, r)| *r) != Some(name) {
            bad.push("TRANSACTION_ID_TO_RUNE".into());
          }
          if !bad.is_empty() {
            v.c11.push(format!("block {height} tx {txi}: {}", bad.join("; ")));
          }
          runes_count += 1;
          names.insert(name);
          created.insert(my_id);
          mints.insert(my_id, 0);
        }
      }
      // ---- C09: reference allocation of this transaction
      let nout = t.tx.output.len();
      let opret: Vec<bool> = t.tx.output.iter().map(|o| o.script_pubkey.is_op_return()).collect();
      let mut un: Bal = Bal::new();
      for input in &t.tx.input {
        if let Some(p) = chain.by_txid.get(&input.previous_output.txid) {
          if let Some(m) = ref_bal.remove(&(*p, input.previous_output.vout)) {
            for (id, a) in m {
              add(&mut un, id, a, &mut v.c09, "inputs");
            }
          }
        }
      }
      if let Some((id, a)) = minted {
        add(&mut un, id, a, &mut v.c09, "mint");
      }
      let mut outs: Vec<Bal> = vec![Bal::new(); nout];
      match &t.artifact {
        Some(Artifact::Cenotaph(_)) => {
          for (id, a) in un {
            add(&mut ref_burned, id, a, &mut v.c09, "cenotaph burn");
          }
        }
        art => {
          let mut pointer = None;
          if let Some(Artifact::Runestone(r)) = art {
            if let Some((id, premine)) = etched {
              add(&mut un, id, premine, &mut v.c09, "premine");
            }
            pointer = r.pointer;
            let dests: Vec<usize> = (0..nout).filter(|k| !opret[*k]).collect();
            for e in &r.edicts {
              let id = if e.id == RuneId::default() {
                match etched {
                  Some((id, _)) => id,
                  None => continue,
                }
              } else {
                e.id
              };
              let Some(bal) = un.get_mut(&id) else { continue };
              let out = e.output as usize;
              if out == nout {
                if dests.is_empty() {
                  continue;
                }
                let m = dests.len() as u128;
                if e.amount == 0 {
                  let (q, r) = (*bal / m, *bal % m);
                  for (k, d) in dests.iter().enumerate() {
                    let a = q + u128::from((k as u128) < r);
                    if a > 0 {
                      *outs[*d].entry(id).or_insert(0) += a;
                    }
                  }
                  *bal = 0;
                } else {
                  for d in &dests {
                    let a = e.amount.min(*bal);
                    if a > 0 {
                      *outs[*d].entry(id).or_insert(0) += a;
                      *bal -= a;
                    }
                  }
                }
              } else {
                let a = if e.amount == 0 { *bal } else { e.amount.min(*bal) };
                if a > 0 {
                  *outs[out].entry(id).or_insert(0) += a;
                  *bal -= a;
                }
              }
            }
          }
          let default = pointer.map(|p| p as usize).or_else(|| (0..nout).find(|k| !opret[*k]));
          for (id, a) in un {
            if a == 0 {
              continue;
            }
            match default {
              Some(d) => *outs[d].entry(id).or_insert(0) += a,
              None => add(&mut ref_burned, id, a, &mut v.c09, "no eligible output"),
            }
          }
        }
      }
      for (k, m) in outs.into_iter().enumerate() {
        if m.is_empty() {
          continue;
        }
        if opret[k] {
          for (id, a) in m {
            add(&mut ref_burned, id, a, &mut v.c09, "OP_RETURN burn");
          }
        } else {
          ref_bal.insert((n, k as u32), m);
        }
      }
    }

    // ---------------- C09: the index's balances and burned amounts are the reference ones
    let mut got: BTreeMap<(usize, u32), Bal> = BTreeMap::new();
    for (o, l) in &post.outpoint_to_rune_balances {
      let Some(n) = chain.by_txid.get(&o.txid) else {
        v.c08.push(format!("block {height}: balance at unknown outpoint {o}"));
        continue;
      };
      got.insert((*n, o.vout), l.iter().copied().collect());
    }
    if got != ref_bal {
      let diff: Vec<String> = got
        .iter()
        .filter(|(k, m)| ref_bal.get(*k) != Some(*m))
        .map(|(k, m)| format!("{k:?}: index {m:?} spec {:?}", ref_bal.get(k)))
        .chain(ref_bal.iter().filter(|(k, _)| !got.contains_key(*k)).map(|(k, m)| format!("{k:?}: index nothing spec {m:?}")))
        .take(3)
        .collect();
      v.c09.push(format!("block {height}: balances differ from the documented allocation: {}", diff.join(" | ")));
      // resynchronise so that one divergence is reported once
      ref_bal = got.clone();
    }
    for (id, e) in &post_entries {
      let before = pre_entries.get(id).map_or(0, |e| e.burned);
      let exp = ref_burned.get(id).copied().unwrap_or(0);
      if e.burned.checked_sub(before) != Some(exp) {
        v.c09.push(format!("block {height}: rune {id} burned {} -> {}, documented allocation burns {exp}", before, e.burned));
      }
    }

    // ---------------- C10: mint counts
    for (id, e) in &post_entries {
      let exp = mints.get(id).copied().unwrap_or(0);
      if e.mints != exp {
        v.c10.push(format!("block {height}: rune {id} mints {} but the statement gives {exp}", e.mints));
      }
      if e.mints > e.terms.and_then(|t| t.cap).unwrap_or(0) {
        v.c10.push(format!("block {height}: rune {id} mints {} exceeds cap", e.mints));
      }
    }

    // ---------------- C11: counters, no other new entries, bijection, dense numbers
    for (id, e) in &post_entries {
      match pre_entries.get(id) {
        Some(p) => {
          if p.spaced_rune != e.spaced_rune || p.number != e.number || p.premine != e.premine || p.terms != e.terms || p.etching != e.etching {
            v.c11.push(format!("block {height}: identity of existing rune {id} changed"));
          }
        }
        None => {
          if !created.contains(id) {
            v.c11.push(format!("block {height}: entry {id} appeared without an etching at that position"));
          }
        }
      }
    }
    for id in pre_entries.keys() {
      if !post_entries.contains_key(id) {
        v.c11.push(format!("block {height}: entry {id} disappeared"));
      }
    }
    if stat(post, 13) != runes_count || stat(post, 12) != reserved_count {
      v.c11.push(format!(
        "block {height}: counters runes={} reserved={} expected {runes_count} {reserved_count}",
        stat(post, 13),
        stat(post, 12)
      ));
    }
    if post.rune_to_rune_id.len() != post_entries.len() {
      v.c11.push(format!("block {height}: {} names for {} entries", post.rune_to_rune_id.len(), post_entries.len()));
    }
    for (k, (id, e)) in post_entries.iter().enumerate() {
      if e.number != k as u64 {
        v.c11.push(format!("block {height}: numbers not dense in etching order at {id}: {} != {k}", e.number));
      }
      if post.rune_to_rune_id.iter().find(|(r, _)| *r == e.spaced_rune.rune.0).map(|(_, i)| *i) != Some(*id) {
        v.c11.push(format!("block {height}: name of {id} does not map back"));
      }
      if id.block != e.block {
        v.c11.push(format!("block {height}: entry {id} has block {}", e.block));
      }
    }

    // ---------------- C08: conservation and shape of the balance table
    let mut sums: Bal = Bal::new();
    for (o, l) in &post.outpoint_to_rune_balances {
      let Some(n) = chain.by_txid.get(&o.txid) else { continue };
      let t = &chain.txs[*n];
      match t.tx.output.get(o.vout as usize) {
        None => v.c08.push(format!("block {height}: balance at non-existent output {o}")),
        Some(out) => {
          if out.script_pubkey.is_op_return() {
            v.c08.push(format!("block {height}: OP_RETURN output {o} holds runes"));
          }
        }
      }
      if !live.contains(&(*n, o.vout)) {
        v.c08.push(format!("block {height}: spent output {o} holds runes"));
      }
      if l.is_empty() {
        v.c08.push(format!("block {height}: empty balance list at {o}"));
      }
      let mut last: Option<RuneId> = None;
      for (id, a) in l {
        if *a == 0 {
          v.c08.push(format!("block {height}: zero balance of {id} at {o}"));
        }
        if !post_entries.contains_key(id) {
          v.c08.push(format!("block {height}: unknown rune {id} at {o}"));
        }
        if last.map_or(false, |p| p >= *id) {
          v.c08.push(format!("block {height}: balance list at {o} not strictly sorted"));
        }
        last = Some(*id);
        add(&mut sums, *id, *a, &mut v.c08, "balances");
      }
    }
    for (id, e) in &post_entries {
      let amount = e.terms.and_then(|t| t.amount).unwrap_or(0);
      let supply = e.mints.checked_mul(amount).and_then(|x| x.checked_add(e.premine));
      let held = sums.get(id).copied().unwrap_or(0).checked_add(e.burned);
      if supply.is_none() || held != supply {
        v.c08.push(format!(
          "block {height}: rune {id}: balances {} + burned {} != premine {} + mints {} * amount {amount}",
          sums.get(id).copied().unwrap_or(0),
          e.burned,
          e.premine,
          e.mints
        ));
      }
      let by_cenotaph = chain.by_txid.get(&e.etching).map_or(false, |n| matches!(chain.txs[*n].artifact, Some(Artifact::Cenotaph(_))));
      if by_cenotaph && e.premine != 0 {
        v.c08.push(format!("block {height}: rune {id} etched by a cenotaph has premine {}", e.premine));
      }
    }
  }
  v
}
