//! Harness for the rune properties C08-C11 (model: coq/Index/Runes.v).
//! op 0 = pure `RuneEntry::mintable`, op 1 = a whole regtest chain indexed by a real `ord::Index`.
use hxlib::*;

mod chain;
mod events;
mod gen;
mod mintable;
mod oracle;
mod scenarios;

fn gen_cases(prop: &str, rng: &mut Rng, tier: &str, outdir: &str) -> Vec<Line> {
  let thorough = tier == "thorough";
  let scripted = std::panic::catch_unwind(|| if prop == "C37" { scenarios::events() } else { scenarios::all() });
  let mut v = match scripted {
    Ok(v) => v,
    Err(e) => {
      let msg = e.downcast_ref::<String>().cloned().or_else(|| e.downcast_ref::<&str>().map(|s| s.to_string())).unwrap_or_default();
      eprintln!("scripted scenario panicked: {msg}");
      std::process::exit(3);
    }
  };
  if prop == "C11" {
    match std::panic::catch_unwind(scenarios::multi_commit_edges) {
      Ok(l) => v.push(l),
      Err(e) => {
        let msg = e.downcast_ref::<String>().cloned().or_else(|| e.downcast_ref::<&str>().map(|s| s.to_string())).unwrap_or_default();
        eprintln!("scenario multi_commit_edges panicked: {msg}");
        std::process::exit(3);
      }
    }
  }
  let mut feats = gen::Features::new();
  // (profile, quick count, thorough count)
  let plan: Vec<(gen::Profile, usize, usize)> = match prop {
    "C08" => vec![(gen::P_SUPPLY, 80, 450), (gen::P_ALLOC, 25, 125), (gen::P_MINT, 20, 100), (gen::P_ETCH, 15, 75)],
    "C09" => vec![(gen::P_ALLOC, 120, 700), (gen::P_SUPPLY, 25, 150)],
    "C10" => {
      mintable::gen(rng, tier, &mut v);
      vec![(gen::P_MINT, 60, 300), (gen::P_SUPPLY, 10, 50)]
    }
    "C37" => vec![(gen::P_EVENTS_SLOW, 3, 10), (gen::P_EVENTS, 90, 450)],
    "C11" => vec![(gen::P_ETCH, 60, 450), (gen::P_SUPPLY, 10, 80)],
    _ => vec![],
  };
  for (p, q, t) in plan {
    for _ in 0..(if thorough { t } else { q }) {
      let (line, f) = gen::gen_chain(rng, p);
      for (k, n) in f {
        *feats.entry(k).or_insert(0) += n;
      }
      v.push(line);
    }
  }
  let mut s = String::from("{");
  for (i, (k, n)) in feats.iter().enumerate() {
    if i > 0 {
      s.push_str(", ");
    }
    s.push_str(&format!("\"{k}\": {n}"));
  }
  s.push_str("}\n");
  std::fs::create_dir_all(outdir).ok();
  std::fs::write(format!("{outdir}/features.json"), s).ok();
  v
}

fn run_case(prop: &str, case: &Line) -> Outcome {
  let mut c = Cur::new(case);
  match c.u8() {
    0 => mintable::run(&mut c),
    2 | 3 => guarded("events", || {
      let (ch, same) = chain::rebuild(case);
      let mut problems = Vec::new();
      let obs = events::obs(&ch, &mut problems);
      problems.extend(events::oracle(&ch));
      let oracle = if !same {
        Err("[case-inconsistent] the model-facing part of the line is not what the rebuilt chain says".to_string())
      } else if problems.is_empty() {
        Ok(())
      } else {
        Err(format!("{} replay failure(s): {}", problems.len(), problems.iter().take(3).cloned().collect::<Vec<_>>().join(" || ")))
      };
      let n = |f: &dyn Fn(&ord::index::event::Event) -> bool| ch.block_events.iter().flatten().any(|e| f(e));
      use ord::index::event::Event as E;
      let cat = format!(
        "events{}{}{}{}{}{}",
        if n(&|e| matches!(e, E::RuneEtched { .. })) { "/etched" } else { "" },
        if n(&|e| matches!(e, E::RuneMinted { .. })) { "/minted" } else { "" },
        if n(&|e| matches!(e, E::RuneBurned { .. })) { "/burned" } else { "" },
        if n(&|e| matches!(e, E::RuneTransferred { .. })) { "/transferred" } else { "" },
        if n(&|e| matches!(e, E::InscriptionCreated { .. })) { "/inscribed" } else { "" },
        if n(&|e| matches!(e, E::InscriptionTransferred { .. })) { "/moved" } else { "" }
      );
      let cat = if cat == "events" { "trivial/events/none".to_string() } else { cat };
      Outcome { obs, oracle, cat }
    }),
    _ => guarded("chain", || {
      let (ch, same) = chain::rebuild(case);
      let obs = ch.obs();
      let v = oracle::check(&ch);
      let fails = match prop {
        "C08" => v.c08,
        "C09" => v.c09,
        "C10" => v.c10,
        _ => v.c11,
      };
      let oracle = if !same {
        Err("[case-inconsistent] the model-facing part of the line is not what the rebuilt chain says".to_string())
      } else if fails.is_empty() {
        Ok(())
      } else {
        Err(format!("{} clause failure(s): {}", fails.len(), fails.iter().take(3).cloned().collect::<Vec<_>>().join(" || ")))
      };
      // category: coarse shape of what happened on the chain
      let last = ch.dumps.last().unwrap();
      let entries = last.rune_id_to_rune_entry.len();
      let cat = if entries == 0 {
        "trivial/chain/no-runes".to_string()
      } else {
        let mints = last.rune_id_to_rune_entry.iter().any(|(_, e)| e.mints > 0);
        let burned = last.rune_id_to_rune_entry.iter().any(|(_, e)| e.burned > 0);
        let cen = ch.txs.iter().any(|t| matches!(t.artifact, Some(ordinals::Artifact::Cenotaph(_))));
        let named = last.rune_id_to_rune_entry.iter().any(|(_, e)| e.spaced_rune.rune.0 < ordinals::Rune::RESERVED);
        let edicts = ch.txs.iter().any(|t| matches!(&t.artifact, Some(ordinals::Artifact::Runestone(r)) if !r.edicts.is_empty()));
        format!(
          "chain/runes{}{}{}{}{}{}",
          entries.min(4),
          if named { "/named" } else { "" },
          if mints { "/mints" } else { "" },
          if edicts { "/edicts" } else { "" },
          if cen { "/cenotaph" } else { "" },
          if burned { "/burned" } else { "" }
        )
      };
      Outcome { obs, oracle, cat }
    }),
  }
}

fn main() {
  let args = parse_args();
  let prop = args.prop.clone();
  match prop.as_str() {
    "C08" | "C09" | "C10" | "C11" | "C37" => {
      let outdir = args.outdir.clone();
      let p2 = prop.clone();
      drive(&args, move |rng, tier| gen_cases(&p2, rng, tier, &outdir), move |case| run_case(&prop, case))
    }
    p => {
      eprintln!("unknown property {p}");
      std::process::exit(2);
    }
  }
}
