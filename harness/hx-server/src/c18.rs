//! C18 — explorer JSON and recursive endpoints agree with the index.
//!
//! Case line:  RECIPE | TABLES | REQUEST
//!   RECIPE  := seed flags(1 index_sats, 2 index addresses+runes) nchildren nplain         (how the chain of the state is generated; the
//!              harness rebuilds the state from it, the model skips it)
//!   TABLES  := projection of `index.verif_dump()` with inscription ids written as sequence numbers and
//!              outpoints as indexes into an outpoint table (see `Tables::line`), same reading order as
//!              coq/Server/Api.v `run_C18`
//!   REQUEST := op args   (see `request_path`)
//! Observation: status, then for 200 the facts of the JSON answer in the same id/outpoint numbering.
use crate::world::*;
use hxlib::*;
use serde_json::Value;
use std::cell::RefCell;
use std::collections::HashMap;
use std::sync::Arc;

const MISSING: u64 = 0xffff_ffff;

#[derive(Clone, Debug, PartialEq)]
pub struct Recipe {
  pub seed: u64,
  pub index_sats: bool,
  pub ar: bool, // --index-addresses --index-runes
  pub nchildren: u64,
  pub nplain: u64,
}

#[derive(Clone, Debug, PartialEq, Default)]
pub struct Entry {
  pub seq: u32,
  pub number: i32,
  pub sat: Option<u64>,
  pub charms: u16,
  pub fee: u64,
  pub height: u32,
  pub timestamp: u32,
  pub op: usize,
  pub off: u64,
  pub parents: Vec<u32>,
}

#[derive(Clone, Debug, PartialEq, Default)]
pub struct Op {
  pub kind: u8, // 0 normal, 1 unbound, 2 null
  pub chain_value: Option<u64>,
  pub utxo: Option<(u64, Vec<(u32, u64)>)>, // utxo entry: total value, inscriptions as stored
}

#[derive(Clone, Debug, PartialEq, Default)]
pub struct Tables {
  pub index_sats: bool,
  pub entries: Vec<Entry>,
  pub children: Vec<(u32, Vec<u32>)>,
  pub sats: Vec<(u64, Vec<u32>)>,
  pub heights: Vec<(u32, u32)>,
  pub ops: Vec<Op>,
  pub sat_points: Vec<(u64, usize, u64)>, // SAT_TO_SATPOINT restricted to inscribed sats
  pub index_ar: bool,                      // address index and rune index present
  pub addresses: Vec<Vec<usize>>,          // SCRIPT_PUBKEY_TO_OUTPOINT for the addresses of interest (outpoint indexes, ascending)
  pub rune_balances: Vec<(usize, Vec<(u64, u128)>)>, // OUTPOINT_TO_RUNE_BALANCES: outpoint index -> (rune index, amount)
}

impl Tables {
  pub fn line(&self) -> Line {
    let mut l = L::new();
    l.push(self.index_sats);
    l.push(self.entries.len());
    for e in &self.entries {
      l.push(e.seq);
      l.push(e.number);
      l.opt(e.sat);
      l.push(e.charms);
      l.push(e.fee);
      l.push(e.height);
      l.push(e.timestamp);
      l.push(e.op);
      l.push(e.off);
      l.push(e.parents.len());
      for p in &e.parents {
        l.push(*p);
      }
    }
    l.push(self.children.len());
    for (s, c) in &self.children {
      l.push(*s);
      l.push(c.len());
      for x in c {
        l.push(*x);
      }
    }
    l.push(self.sats.len());
    for (s, c) in &self.sats {
      l.push(*s);
      l.push(c.len());
      for x in c {
        l.push(*x);
      }
    }
    l.push(self.heights.len());
    for (h, s) in &self.heights {
      l.push(*h);
      l.push(*s);
    }
    l.push(self.ops.len());
    for o in &self.ops {
      l.push(o.kind);
      l.opt(o.chain_value);
      match &o.utxo {
        None => l.push(0u8),
        Some((v, ins)) => {
          l.push(1u8);
          l.push(*v);
          l.push(ins.len());
          for (s, off) in ins {
            l.push(*s);
            l.push(*off);
          }
        }
      }
    }
    l.push(self.sat_points.len());
    for (s, o, off) in &self.sat_points {
      l.push(*s);
      l.push(*o);
      l.push(*off);
    }
    l.push(self.index_ar);
    l.push(self.addresses.len());
    for a in &self.addresses {
      l.push(a.len());
      for o in a {
        l.push(*o);
      }
    }
    l.push(self.rune_balances.len());
    for (o, b) in &self.rune_balances {
      l.push(*o);
      l.push(b.len());
      for (r, amt) in b {
        l.push(*r);
        l.push(*amt);
      }
    }
    l.done()
  }
}

pub struct World {
  pub node: Node,
  pub index: Arc<ord::Index>,
  pub served: Served,
  pub tables: Tables,
  pub tables_line: Line,
  pub ids: Vec<ord::InscriptionId>,          // by sequence number
  pub id_to_seq: HashMap<String, u32>,
  pub outpoints: Vec<bitcoin::OutPoint>,     // outpoint table
  pub op_to_ix: HashMap<String, usize>,
  pub addresses: Vec<bitcoin::Address>,
  pub rune_names: Vec<String>, // spaced rune names in rune order
  pub consistency: Result<(), String>,
}

/// Sizes of the listings of a state, chosen so that over the states of a run every paginated listing
/// has 99, 100, 101, 199, 200 and 201 elements (page size 100): for `c` children of the first parent
/// (all created by one transaction in one block: the same count for the listing of that block)
/// -> (how many of them are moved to other sats by a pointer, so that the parent's sat carries
///     1 + c - pointer_kids inscriptions; how many parents the many-parents inscription names)
pub fn plan(c: u64) -> (u64, u64) {
  match c {
    100 => (0, 101), // sat 101
    101 => (2, 99),  // sat 100
    99 => (1, 100),  // sat 99
    200 => (0, 201), // sat 201
    201 => (2, 199), // sat 200
    199 => (1, 200), // sat 199
    _ => (c / 7, c + 1),
  }
}

/// the k-th address of interest (p2wpkh of a constant hash)
pub fn address(k: u8) -> bitcoin::Address {
  use bitcoin::hashes::Hash;
  let h = bitcoin::WPubkeyHash::from_byte_array([k; 20]);
  bitcoin::Address::from_script(&bitcoin::ScriptBuf::new_p2wpkh(&h), bitcoin::Network::Regtest).unwrap()
}

fn null_outpoint() -> bitcoin::OutPoint {
  bitcoin::OutPoint::null()
}

fn plain(rng: &mut Rng, tag: &str) -> ord::Inscription {
  ord::Inscription {
    content_type: Some(b"text/plain;charset=utf-8".to_vec()),
    body: Some(format!("{tag}-{:x}", rng.next()).into_bytes()),
    ..Default::default()
  }
}

impl World {
  pub fn build(r: &Recipe) -> World {
    let mut rng = Rng::new(r.seed);
    let mut flags: Vec<&str> = if r.index_sats { vec!["--index-sats"] } else { vec![] };
    if r.ar {
      flags.push("--index-addresses");
      flags.push("--index-runes");
    }
    let mut node = Node::new(&flags);
    let tx_pos = |core: &mockcore::Handle, txid: bitcoin::Txid| core.tx_index(txid);

    // a parent, then one transaction that spends it and creates all its children (they all land on the
    // parent's sat: many inscriptions on one sat and many children at once)
    let cb = node.fresh_coinbase();
    let parent_tx = node.core.broadcast_tx(mockcore::TransactionTemplate {
      inputs: &[(cb.0, cb.1, cb.2, witness_of(&[plain(&mut rng, "parent")]))],
      ..Default::default()
    });
    node.core.mine_blocks(1);
    let parent = ord::InscriptionId { txid: parent_tx, index: 0 };
    let (ph, pt) = tx_pos(&node.core, parent_tx);
    let (pointer_kids, nparents) = plan(r.nchildren);
    let kids: Vec<ord::Inscription> = (0..r.nchildren)
      .map(|k| {
        let mut i = plain(&mut rng, "kid");
        i.parents = vec![id_value(parent)];
        if k >= r.nchildren - pointer_kids {
          // the last children go to other sats of the same output, so that the parent's sat carries exactly `on_sat` inscriptions
          let mut p = (1000 + k).to_le_bytes().to_vec();
          while p.last() == Some(&0) {
            p.pop();
          }
          i.pointer = Some(p);
        }
        i
      })
      .collect();
    let kids_tx = node.core.broadcast_tx(mockcore::TransactionTemplate {
      inputs: &[(ph, pt, 0, witness_of(&kids))],
      ..Default::default()
    });
    node.core.mine_blocks(1);
    let (kh, kt) = tx_pos(&node.core, kids_tx);

    // a grandchild with two parents: the first parent (still at offset 0 of the kids transaction's output)
    // and a fresh second parent
    let cb2 = node.fresh_coinbase();
    let p2_tx = node.core.broadcast_tx(mockcore::TransactionTemplate {
      inputs: &[(cb2.0, cb2.1, cb2.2, witness_of(&[plain(&mut rng, "parent2")]))],
      ..Default::default()
    });
    node.core.mine_blocks(1);
    let p2 = ord::InscriptionId { txid: p2_tx, index: 0 };
    let (p2h, p2t) = tx_pos(&node.core, p2_tx);
    let mut g = plain(&mut rng, "grandchild");
    // parents: the second parent, the first `nparents - 1` children of the first parent (they all sit in the
    // output spent by the third input) and an id that does not exist; the first parent itself is not named,
    // so that it has exactly `nchildren` children
    g.parents = vec![id_value(p2)];
    for k in 0..(nparents - 1).min(r.nchildren) {
      g.parents.push(id_value(ord::InscriptionId { txid: kids_tx, index: k as u32 }));
    }
    g.parents.push(id_value(missing(7)));
    let cb3 = node.fresh_coinbase();
    node.core.broadcast_tx(mockcore::TransactionTemplate {
      inputs: &[(cb3.0, cb3.1, cb3.2, witness_of(&[g])), (p2h, p2t, 0, bitcoin::Witness::new()), (kh, kt, 0, bitcoin::Witness::new())],
      outputs: 3,
      ..Default::default()
    });
    node.core.mine_blocks(1);

    // plain inscriptions, some batched (several envelopes in one input), some moved afterwards
    let mut movable: Vec<bitcoin::Txid> = Vec::new();
    for k in 0..r.nplain {
      let cbk = node.fresh_coinbase();
      let n_env = if k % 3 == 2 { 3 } else { 1 };
      let envs: Vec<ord::Inscription> = (0..n_env).map(|_| plain(&mut rng, "plain")).collect();
      let txid = node.core.broadcast_tx(mockcore::TransactionTemplate {
        inputs: &[(cbk.0, cbk.1, cbk.2, witness_of(&envs))],
        outputs: if k % 2 == 0 { 1 } else { 2 },
        ..Default::default()
      });
      movable.push(txid);
    }
    node.core.mine_blocks(1);
    for (k, txid) in movable.iter().enumerate() {
      if k % 2 == 0 {
        let (h, t) = tx_pos(&node.core, *txid);
        node.core.broadcast_tx(mockcore::TransactionTemplate { inputs: &[(h, t, 0, bitcoin::Witness::new())], outputs: 2, ..Default::default() });
      }
    }
    node.core.mine_blocks(1);

    // runes: commit to a rune name in a taproot output, wait for maturity, then etch with a premine. The reveal
    // input also carries an inscription, so output 0 of the etching (default output of the premine) is BOTH
    // inscribed and runic; an edict moves part of the premine to output 1 (runic only). Address 1 further gets an
    // inscribed-only and a cardinal output, address 2 an inscribed and three cardinal outputs.
    let cbc = node.fresh_coinbase();
    let commit_tx = node.core.broadcast_tx(mockcore::TransactionTemplate {
      inputs: &[(cbc.0, cbc.1, cbc.2, bitcoin::Witness::new())],
      p2tr: true,
      ..Default::default()
    });
    node.core.mine_blocks(1);
    let (ch, ct) = tx_pos(&node.core, commit_tx);
    node.core.mine_blocks(u64::from(ordinals::Runestone::COMMIT_CONFIRMATIONS) - 1);
    let rune = ordinals::Rune(99246114928149462);
    let reveal = {
      let commitment = bitcoin::script::PushBytesBuf::try_from(rune.commitment()).unwrap();
      let builder = bitcoin::script::Builder::new().push_slice(commitment);
      let script = plain(&mut rng, "runic").append_reveal_script_to_builder(builder).into_script();
      let mut witness = bitcoin::Witness::new();
      witness.push(script.as_bytes());
      witness.push([]);
      witness
    };
    let runestone = ordinals::Runestone {
      etching: Some(ordinals::Etching { rune: Some(rune), premine: Some(1000), symbol: Some('R'), ..Default::default() }),
      edicts: vec![ordinals::Edict { id: ordinals::RuneId::default(), amount: 400, output: 1 }],
      ..Default::default()
    };
    node.core.broadcast_tx(mockcore::TransactionTemplate {
      inputs: &[(ch, ct, 0, reveal)],
      outputs: 2,
      op_return: Some(runestone.encipher()),
      recipient: Some(address(1)),
      ..Default::default()
    });
    node.core.mine_blocks(1);
    let cba = node.fresh_coinbase();
    node.core.broadcast_tx(mockcore::TransactionTemplate {
      inputs: &[(cba.0, cba.1, cba.2, witness_of(&[plain(&mut rng, "addr1")]))],
      outputs: 2,
      recipient: Some(address(1)),
      ..Default::default()
    });
    let cbb2 = node.fresh_coinbase();
    node.core.broadcast_tx(mockcore::TransactionTemplate {
      inputs: &[(cbb2.0, cbb2.1, cbb2.2, witness_of(&[plain(&mut rng, "addr2")]))],
      outputs: 4,
      recipient: Some(address(2)),
      ..Default::default()
    });
    node.core.mine_blocks(1);

    // unbound: an inscription revealed in an input of value zero
    let cbz = node.fresh_coinbase();
    let zero_tx = node.core.broadcast_tx(mockcore::TransactionTemplate {
      inputs: &[(cbz.0, cbz.1, cbz.2, bitcoin::Witness::new())],
      outputs: 2,
      output_values: &[0, 50 * 100_000_000],
      ..Default::default()
    });
    node.core.mine_blocks(1);
    let (zh, zt) = tx_pos(&node.core, zero_tx);
    node.core.broadcast_tx(mockcore::TransactionTemplate {
      inputs: &[(zh, zt, 0, witness_of(&[plain(&mut rng, "unbound")])), (zh, zt, 1, bitcoin::Witness::new())],
      ..Default::default()
    });
    node.core.mine_blocks(1);

    // burned: sent to an OP_RETURN output
    let cbb = node.fresh_coinbase();
    node.core.broadcast_tx(mockcore::TransactionTemplate {
      inputs: &[(cbb.0, cbb.1, cbb.2, witness_of(&[plain(&mut rng, "burned")]))],
      outputs: 0,
      op_return_index: Some(0),
      op_return_value: Some(50 * 100_000_000),
      op_return: Some(bitcoin::script::Builder::new().push_opcode(bitcoin::opcodes::all::OP_RETURN).into_script()),
      ..Default::default()
    });
    node.core.mine_blocks(1);

    // lost: spent entirely as fee in a block whose coinbase claims nothing
    let cbl = node.fresh_coinbase();
    node.core.broadcast_tx(mockcore::TransactionTemplate {
      inputs: &[(cbl.0, cbl.1, cbl.2, witness_of(&[plain(&mut rng, "lost")]))],
      outputs: 0,
      fee: 50 * 100_000_000,
      ..Default::default()
    });
    node.core.mine_blocks_with_subsidy(1, 0);
    node.core.mine_blocks(1);

    let index = node.open_index();
    let served = Served::start(&node, index.clone(), &[], &[]);
    let dump = index.verif_dump().expect("dump");

    // ---- tables
    let mut outpoints: Vec<bitcoin::OutPoint> = Vec::new();
    let mut op_to_ix: HashMap<String, usize> = HashMap::new();
    let mut op_ix = |o: bitcoin::OutPoint, outpoints: &mut Vec<bitcoin::OutPoint>| -> usize {
      *op_to_ix.entry(o.to_string()).or_insert_with(|| {
        outpoints.push(o);
        outpoints.len() - 1
      })
    };
    let sp: HashMap<u32, ordinals::SatPoint> = dump.sequence_number_to_satpoint.iter().cloned().collect();
    let mut entries = Vec::new();
    let mut ids = Vec::new();
    let mut id_to_seq = HashMap::new();
    for (seq, e) in &dump.sequence_number_to_inscription_entry {
      let s = sp[seq];
      let op = op_ix(s.outpoint, &mut outpoints);
      entries.push(Entry {
        seq: *seq,
        number: e.inscription_number,
        sat: e.sat,
        charms: e.charms,
        fee: e.fee,
        height: e.height,
        timestamp: e.timestamp,
        op,
        off: s.offset,
        parents: e.parents.clone(),
      });
      assert_eq!(*seq as usize, ids.len(), "sequence numbers are dense");
      ids.push(e.id);
      id_to_seq.insert(e.id.to_string(), *seq);
    }
    // a spent outpoint, an unspent outpoint without inscriptions, the special outpoints
    op_ix(bitcoin::OutPoint { txid: parent_tx, vout: 0 }, &mut outpoints);
    op_ix(bitcoin::OutPoint { txid: node.core.tx(1, 0).compute_txid(), vout: 0 }, &mut outpoints);
    op_ix(ord::unbound_outpoint(), &mut outpoints);
    op_ix(null_outpoint(), &mut outpoints);
    let addresses_of_interest = vec![address(1), address(2)];
    let mut addresses: Vec<Vec<usize>> = Vec::new();
    for a in &addresses_of_interest {
      let spk = a.script_pubkey();
      let mut outs: Vec<bitcoin::OutPoint> =
        dump.script_pubkey_to_outpoint.iter().filter(|(s, _)| s[..] == *spk.as_bytes()).flat_map(|(_, o)| o.clone()).collect();
      // (table order is by txid; the outpoint numbering must not depend on txids)
      outs.sort_by_key(|o| (node.core.tx_index(o.txid), o.vout));
      let mut ixs: Vec<usize> = outs.into_iter().map(|o| op_ix(o, &mut outpoints)).collect();
      ixs.sort();
      addresses.push(ixs);
    }
    let rune_order: Vec<ordinals::RuneId> = dump.rune_to_rune_id.iter().map(|(_, id)| *id).collect();
    let rune_names: Vec<String> = dump
      .rune_to_rune_id
      .iter()
      .map(|(_, id)| dump.rune_id_to_rune_entry.iter().find(|(i, _)| i == id).map(|(_, e)| e.spaced_rune.to_string()).unwrap_or_default())
      .collect();
    let mut rune_balances: Vec<(usize, Vec<(u64, u128)>)> = {
      let mut v: Vec<(bitcoin::OutPoint, Vec<(ordinals::RuneId, u128)>)> = dump.outpoint_to_rune_balances.clone();
      v.sort_by_key(|(o, _)| (node.core.tx_index(o.txid), o.vout));
      v.into_iter()
        .map(|(o, b)| {
          let mut b: Vec<(u64, u128)> = b.iter().map(|(id, amt)| (rune_order.iter().position(|x| x == id).unwrap() as u64, *amt)).collect();
          b.sort();
          (op_ix(o, &mut outpoints), b)
        })
        .collect()
    };
    rune_balances.sort();
    let sat_points: Vec<(u64, usize, u64)> = {
      let inscribed: std::collections::HashSet<u64> = dump.sat_to_sequence_number.iter().map(|(s, _)| *s).collect();
      let v: Vec<(u64, ordinals::SatPoint)> = dump.sat_to_satpoint.iter().filter(|(s, _)| inscribed.contains(s)).cloned().collect();
      v.into_iter().map(|(s, p)| (s, op_ix(p.outpoint, &mut outpoints), p.offset)).collect()
    };
    let utxo: HashMap<String, &ord::index::verif::UtxoDump> = dump.outpoint_to_utxo_entry.iter().map(|u| (u.outpoint.to_string(), u)).collect();
    let ops: Vec<Op> = outpoints
      .iter()
      .map(|o| {
        let kind = if *o == ord::unbound_outpoint() {
          1
        } else if *o == null_outpoint() {
          2
        } else {
          0
        };
        let chain_value = if kind == 0 {
          let known = node.core.state().transactions.contains_key(&o.txid);
          if known {
            node.core.tx_by_id(o.txid).output.get(o.vout as usize).map(|t| t.value.to_sat())
          } else {
            None
          }
        } else {
          None
        };
        // UtxoEntry::total_value: the sum of the sat ranges when they are indexed, else the stored value
        let utxo = utxo.get(&o.to_string()).map(|u| {
          let total = match &u.sat_ranges {
            Some(r) => r.iter().map(|(a, b)| b - a).sum(),
            None => u.value,
          };
          (total, u.inscriptions.clone().unwrap_or_default())
        });
        Op { kind, chain_value, utxo }
      })
      .collect();
    let tables = Tables {
      index_sats: r.index_sats,
      entries,
      children: dump.sequence_number_to_children.clone(),
      sats: dump.sat_to_sequence_number.clone(),
      heights: dump.height_to_last_sequence_number.clone(),
      ops,
      sat_points,
      index_ar: r.ar,
      addresses,
      rune_balances,
    };
    let consistency = check_consistency(&tables);
    let tables_line = tables.line();
    World { node, index, served, tables, tables_line, ids, id_to_seq, outpoints, op_to_ix, addresses: addresses_of_interest, rune_names, consistency }
  }

  fn id(&self, seq: u64) -> ord::InscriptionId {
    self.ids.get(seq as usize).copied().unwrap_or_else(|| missing(seq))
  }
  fn seq_of(&self, v: &Value) -> u64 {
    v.as_str().and_then(|s| self.id_to_seq.get(s)).map(|s| *s as u64).unwrap_or(MISSING)
  }
  fn op_of(&self, v: &Value) -> u64 {
    v.as_str().and_then(|s| self.op_to_ix.get(s)).map(|s| *s as u64).unwrap_or(MISSING)
  }
}

fn missing(k: u64) -> ord::InscriptionId {
  crate::c19::missing_id(k)
}

/// The table invariants the model's consistency theorems assume (C04 / C07), evaluated on the real dump.
fn check_consistency(t: &Tables) -> Result<(), String> {
  // children table is the inverse of the parents lists
  for e in &t.entries {
    for p in &e.parents {
      let ok = t.children.iter().any(|(s, c)| s == p && c.contains(&e.seq));
      if !ok {
        return Err(format!("#{} has parent #{p} but is not in its children", e.seq));
      }
    }
  }
  for (p, cs) in &t.children {
    for c in cs {
      if !t.entries.get(*c as usize).map(|e| e.parents.contains(p)).unwrap_or(false) {
        return Err(format!("#{c} listed as child of #{p} but does not name it as parent"));
      }
    }
  }
  // utxo entries hold exactly the inscriptions whose satpoint is in that output
  for (ix, o) in t.ops.iter().enumerate() {
    let mut at: Vec<(u32, u64)> = t.entries.iter().filter(|e| e.op == ix).map(|e| (e.seq, e.off)).collect();
    let mut stored = o.utxo.as_ref().map(|u| u.1.clone()).unwrap_or_default();
    at.sort();
    stored.sort();
    if o.kind == 0 && at != stored {
      return Err(format!("outpoint #{ix}: satpoints {at:?} vs utxo entry {stored:?}"));
    }
  }
  // sat table lists inscriptions in sequence order, and agrees with the entries
  for (sat, seqs) in &t.sats {
    if seqs.windows(2).any(|w| w[0] >= w[1]) {
      return Err(format!("sat {sat}: not in creation order"));
    }
    for s in seqs {
      if t.entries.get(*s as usize).map(|e| e.sat) != Some(Some(*sat)) {
        return Err(format!("sat {sat}: #{s} has another sat"));
      }
    }
  }
  Ok(())
}

// ---------------------------------------------------------------- requests

#[derive(Clone, Debug)]
pub struct Req {
  pub op: u8,
  pub a: i128,
  pub has_page: bool,
  pub page: u64,
}

impl Req {
  fn line(&self) -> Line {
    let mut l = L::new();
    l.push(self.op);
    l.push(self.a);
    match self.op {
      1..=5 | 8 | 12 => {
        l.push(self.has_page);
        l.push(self.page);
      }
      6 | 9 | 14 => l.push(self.page as i64), // 6: signed index (bit pattern), 9: 0 = by id, 1 = by number, 14: type code
      _ => {}
    }
    l.done()
  }
  fn parse(c: &mut Cur) -> Req {
    let op = c.u8();
    let z = c.z();
    let a = if z.neg { -(z.mag as i128) } else { z.mag as i128 };
    let (mut has_page, mut page) = (false, 0u64);
    match op {
      1..=5 | 8 | 12 => {
        has_page = c.bool();
        page = c.u64();
      }
      6 | 9 | 14 => page = c.z().i64() as u64,
      _ => {}
    }
    Req { op, a, has_page, page }
  }
}

fn request_path(w: &World, r: &Req) -> String {
  let pg = |base: String| if r.has_page { format!("{base}/{}", r.page) } else { base };
  let a = r.a as u64;
  match r.op {
    1 => pg(format!("/r/children/{}", w.id(a))),
    2 => pg(format!("/r/children/{}/inscriptions", w.id(a))),
    3 => pg(format!("/r/parents/{}", w.id(a))),
    4 => pg(format!("/r/parents/{}/inscriptions", w.id(a))),
    5 => pg(format!("/r/sat/{a}")),
    6 => format!("/r/sat/{a}/at/{}", r.page as i64),
    7 => format!("/r/inscription/{}", w.id(a)),
    8 => pg(format!("/inscriptions/block/{a}")),
    9 => {
      if r.page == 0 {
        format!("/inscription/{}", w.id(a))
      } else {
        format!("/inscription/{}", r.a)
      }
    }
    10 => format!("/output/{}", w.outpoints.get(a as usize).copied().unwrap_or(bitcoin::OutPoint { txid: missing(a).txid, vout: 0 })),
    11 => format!("/sat/{a}"),
    12 => pg(format!("/children/{}", w.id(a))),
    14 => {
      let addr = w.addresses.get(a as usize).cloned().unwrap_or_else(|| address(9));
      let q = ["", "?type=any", "?type=cardinal", "?type=inscribed", "?type=runic", "?type=bogus"][(r.page as usize).min(5)];
      format!("/outputs/{addr}{q}")
    }
    _ => format!("/r/utxo/{}", w.outpoints.get(a as usize).copied().unwrap_or(bitcoin::OutPoint { txid: missing(a).txid, vout: 0 })),
  }
}

fn charm_bits(v: &Value) -> u64 {
  let mut bits = 0u64;
  for c in v.as_array().cloned().unwrap_or_default() {
    let ch: ordinals::Charm = c.as_str().unwrap_or("").parse().expect("charm name");
    bits |= u64::from(ch.flag());
  }
  bits
}

fn put_ids(w: &World, l: &mut L, v: &Value) {
  let a = v.as_array().cloned().unwrap_or_default();
  l.push(a.len());
  for x in &a {
    l.push(w.seq_of(x));
  }
}

/// rune balances of a JSON `runes` object as (rune index, amount), None for `null` (no rune index)
fn runes_of(w: &World, v: &Value) -> Option<Vec<(u64, u128)>> {
  let m = v.as_object()?;
  let mut out: Vec<(u64, u128)> = m
    .iter()
    .map(|(name, pile)| {
      let ix = w.rune_names.iter().position(|n| n == name).map(|x| x as u64).unwrap_or(MISSING);
      let amt = pile["amount"].as_u64().map(u128::from).or_else(|| pile["amount"].to_string().parse().ok()).unwrap_or(u128::MAX);
      (ix, amt)
    })
    .collect();
  out.sort();
  Some(out)
}

fn put_runes(w: &World, l: &mut L, v: &Value) {
  match runes_of(w, v) {
    None => l.push(0u8),
    Some(b) => {
      l.push(1u8);
      l.push(b.len());
      for (r, amt) in b {
        l.push(r);
        l.push(amt);
      }
    }
  }
}

fn put_opt_u64(l: &mut L, v: &Value) {
  match v.as_u64() {
    Some(x) => {
      l.push(1u8);
      l.push(x);
    }
    None => l.push(0u8),
  }
}

fn put_satpoint(w: &World, l: &mut L, v: &Value) {
  // "txid:vout:offset"
  let s = v.as_str().unwrap_or("");
  let (op, off) = s.rsplit_once(':').unwrap_or(("", "0"));
  l.push(w.op_to_ix.get(op).map(|x| *x as u64).unwrap_or(MISSING));
  l.push(off.parse::<u64>().unwrap_or(0));
}

fn put_relative(w: &World, l: &mut L, v: &Value) {
  l.push(charm_bits(&v["charms"]));
  l.push(v["fee"].as_u64().unwrap_or(0));
  l.push(v["height"].as_u64().unwrap_or(0));
  l.push(w.seq_of(&v["id"]));
  l.push(v["number"].as_i64().unwrap_or(0));
  l.push(w.op_of(&v["output"]));
  put_opt_u64(l, &v["sat"]);
  put_satpoint(w, l, &v["satpoint"]);
  l.push(v["timestamp"].as_i64().unwrap_or(0));
}

thread_local! {
  static CURRENT: RefCell<Option<(Recipe, World)>> = const { RefCell::new(None) };
  static CLIENT: reqwest::blocking::Client = client();
}

fn parse_case(line: &Line) -> (Recipe, Line, Req) {
  let mut c = Cur::new(line);
  let seed = c.u64();
  let f = c.u64();
  let recipe = Recipe { seed, index_sats: f & 1 != 0, ar: f & 2 != 0, nchildren: c.u64(), nplain: c.u64() };
  let start = c.i;
  // skip the tables
  let _isats = c.bool();
  let ne = c.usize();
  for _ in 0..ne {
    c.i += 2;
    if c.bool() {
      c.i += 1;
    }
    c.i += 6;
    let np = c.usize();
    c.i += np;
  }
  for _ in 0..2 {
    let n = c.usize();
    for _ in 0..n {
      c.i += 1;
      let k = c.usize();
      c.i += k;
    }
  }
  let nh = c.usize();
  c.i += 2 * nh;
  let nop = c.usize();
  for _ in 0..nop {
    c.i += 1;
    if c.bool() {
      c.i += 1;
    }
    if c.bool() {
      c.i += 1;
      let k = c.usize();
      c.i += 2 * k;
    }
  }
  let nsp = c.usize();
  c.i += 3 * nsp;
  c.i += 1;
  let na = c.usize();
  for _ in 0..na {
    let k = c.usize();
    c.i += k;
  }
  let nrb = c.usize();
  for _ in 0..nrb {
    c.i += 1;
    let k = c.usize();
    c.i += 2 * k;
  }
  let tables = line[start..c.i].to_vec();
  let req = Req::parse(&mut c);
  (recipe, tables, req)
}

pub fn run(line: &Line) -> Outcome {
  let (recipe, tables, req) = parse_case(line);
  CURRENT.with(|cur| {
    let mut cur = cur.borrow_mut();
    if cur.as_ref().map(|(k, _)| k != &recipe).unwrap_or(true) {
      *cur = None;
      *cur = Some((recipe.clone(), World::build(&recipe)));
    }
    let w = &cur.as_ref().unwrap().1;
    if w.tables_line != tables {
      return Outcome { obs: vec![Z { neg: true, mag: 3 }], oracle: Err("the tables of the case are not the tables of the rebuilt state (stale case)".into()), cat: "stale".into() };
    }
    run_in(w, &req)
  })
}

fn page_of<T: Clone>(l: &[T], size: u128, i: u128) -> (Vec<T>, bool) {
  let start = i.saturating_mul(size);
  if start >= l.len() as u128 {
    return (Vec::new(), false);
  }
  let start = start as usize;
  let end = (start + size as usize).min(l.len());
  (l[start..end].to_vec(), end < l.len())
}

fn run_in(w: &World, r: &Req) -> Outcome {
  let path = request_path(w, r);
  let url = w.served.url(&path);
  let resp = CLIENT.with(|c| {
    c.get(&url).header("accept", "application/json").send().and_then(|x| {
      let s = x.status().as_u16();
      x.bytes().map(|b| (s, b.to_vec()))
    })
  });
  let (status, body) = match resp {
    Ok(x) => x,
    Err(e) => {
      return Outcome {
        obs: panic_obs(),
        oracle: Err(format!("[no-response] no HTTP response on {path}: {e}")),
        cat: format!("op{}/no-response", r.op),
      }
    }
  };
  let mut obs = L::new();
  obs.push(status);
  let t = &w.tables;
  let mut fail: Option<String> = None;
  let mut bad = |m: String| {
    if fail.is_none() {
      fail = Some(m)
    }
  };
  if let Err(m) = &w.consistency {
    bad(format!("index tables inconsistent: {m}"));
  }
  let mut sub = "";
  if status == 200 {
    let v: Value = serde_json::from_slice(&body).unwrap_or(Value::Null);
    let a = r.a as u64;
    let entry = t.entries.get(a as usize);
    match r.op {
      1 | 3 | 5 | 8 | 12 => {
        put_ids(w, &mut obs, &v["ids"]);
        obs.push(v["more"].as_bool().unwrap_or(false));
        let pk = if r.op == 3 || r.op == 8 { "page_index" } else { "page" };
        obs.push(v[pk].as_u64().unwrap_or(u64::MAX));
        // S: the page is the right slice of the stored list
        let full: Vec<u32> = match r.op {
          1 | 12 => t.children.iter().find(|(s, _)| u64::from(*s) == a).map(|x| x.1.clone()).unwrap_or_default(),
          3 => entry.map(|e| e.parents.clone()).unwrap_or_default(),
          5 => t.sats.iter().find(|(s, _)| *s == a).map(|x| x.1.clone()).unwrap_or_default(),
          _ => {
            let last = |h: u64| t.heights.iter().find(|(x, _)| u64::from(*x) == h).map(|x| x.1);
            match last(a) {
              None => vec![],
              Some(newest) => (last(a.saturating_sub(1)).unwrap_or(0)..newest).collect(),
            }
          }
        };
        if r.op == 8 {
          // listing by block = the inscriptions created at that height, in creation order
          let by_height: Vec<u32> = t.entries.iter().filter(|e| u64::from(e.height) == a).map(|e| e.seq).collect();
          if a > 0 && by_height != full {
            bad(format!("block {a}: sequence range {full:?} vs entries with that height {by_height:?}"));
          }
        }
        let (want, more) = page_of(&full, 100, if r.has_page { r.page.into() } else { 0 });
        let got: Vec<u64> = v["ids"].as_array().cloned().unwrap_or_default().iter().map(|x| w.seq_of(x)).collect();
        if got != want.iter().map(|x| u64::from(*x)).collect::<Vec<_>>() || v["more"].as_bool() != Some(more) {
          bad(format!("{path}: page differs from the stored list (len {}): got {} ids more={:?}", full.len(), got.len(), v["more"]));
        }
        sub = if want.len() == 100 { "/full-page" } else if want.is_empty() { "/empty-page" } else { "/partial-page" };
      }
      2 | 4 => {
        let key = if r.op == 2 { "children" } else { "parents" };
        let arr = v[key].as_array().cloned().unwrap_or_default();
        obs.push(arr.len());
        for x in &arr {
          put_relative(w, &mut obs, x);
        }
        obs.push(v["more"].as_bool().unwrap_or(false));
        obs.push(v["page"].as_u64().unwrap_or(u64::MAX));
        let full: Vec<u32> = if r.op == 2 {
          t.children.iter().find(|(s, _)| u64::from(*s) == a).map(|x| x.1.clone()).unwrap_or_default()
        } else {
          entry.map(|e| e.parents.clone()).unwrap_or_default()
        };
        let (want, more) = page_of(&full, 100, if r.has_page { r.page.into() } else { 0 });
        if arr.len() != want.len() || v["more"].as_bool() != Some(more) {
          bad(format!("{path}: page size differs from the stored list"));
        }
        for (x, s) in arr.iter().zip(want.iter()) {
          check_relative(w, x, *s, &mut bad, &path);
        }
      }
      6 => {
        match v["id"].as_str() {
          Some(_) => {
            obs.push(1u8);
            obs.push(w.seq_of(&v["id"]));
          }
          None => obs.push(0u8),
        }
        let full: Vec<u32> = t.sats.iter().find(|(s, _)| *s == a).map(|x| x.1.clone()).unwrap_or_default();
        let i = r.page as i64;
        let pos = if i < 0 { full.len() as i128 + i128::from(i) } else { i128::from(i) };
        let want = if pos >= 0 && pos < full.len() as i128 { Some(u64::from(full[pos as usize])) } else { None };
        let got = v["id"].as_str().map(|_| w.seq_of(&v["id"]));
        if got != want {
          bad(format!("{path}: got {got:?}, the stored list gives {want:?}"));
        }
        sub = if i < 0 { "/negative" } else { "/nonnegative" };
      }
      7 => {
        put_relative(w, &mut obs, &v);
        put_opt_u64(&mut obs, &v["value"]);
        check_relative(w, &v, a as u32, &mut bad, &path);
        if let Some(e) = entry {
          if v["value"].as_u64() != t.ops[e.op].chain_value {
            bad(format!("{path}: value {:?} vs output value {:?}", v["value"], t.ops[e.op].chain_value));
          }
        }
      }
      9 => {
        obs.push(charm_bits(&v["charms"]));
        obs.push(v["child_count"].as_u64().unwrap_or(u64::MAX));
        put_ids(w, &mut obs, &v["children"]);
        obs.push(v["fee"].as_u64().unwrap_or(0));
        obs.push(v["height"].as_u64().unwrap_or(0));
        obs.push(w.seq_of(&v["id"]));
        match v["next"].as_str() {
          Some(_) => {
            obs.push(1u8);
            obs.push(w.seq_of(&v["next"]));
          }
          None => obs.push(0u8),
        }
        obs.push(v["number"].as_i64().unwrap_or(0));
        put_ids(w, &mut obs, &v["parents"]);
        match v["previous"].as_str() {
          Some(_) => {
            obs.push(1u8);
            obs.push(w.seq_of(&v["previous"]));
          }
          None => obs.push(0u8),
        }
        put_opt_u64(&mut obs, &v["sat"]);
        put_satpoint(w, &mut obs, &v["satpoint"]);
        obs.push(v["timestamp"].as_i64().unwrap_or(0));
        put_opt_u64(&mut obs, &v["value"]);
        // S: number, sat, satpoint, value, charms match the stored state
        let e = if r.page == 0 { entry.cloned() } else { t.entries.iter().find(|e| i128::from(e.number) == r.a).cloned() };
        match e {
          None => bad(format!("{path}: 200 for an inscription that is not in the index")),
          Some(e) => {
            let lost = if t.ops[e.op].kind == 2 { u64::from(ordinals::Charm::Lost.flag()) } else { 0 };
            let ok = w.seq_of(&v["id"]) == u64::from(e.seq)
              && v["number"].as_i64() == Some(e.number.into())
              && v["sat"].as_u64() == e.sat
              && charm_bits(&v["charms"]) == u64::from(e.charms) | lost
              && v["value"].as_u64() == t.ops[e.op].chain_value
              && v["satpoint"].as_str().map(|s| s.to_string()) == Some(format!("{}:{}", w.outpoints[e.op], e.off))
              && v["fee"].as_u64() == Some(e.fee)
              && v["height"].as_u64() == Some(e.height.into());
            if !ok {
              bad(format!("{path}: facts differ from the stored entry #{}", e.seq));
            }
          }
        }
        sub = if r.page == 0 { "/by-id" } else { "/by-number" };
      }
      10 | 13 => {
        match v["inscriptions"].as_array() {
          Some(_) => {
            obs.push(1u8);
            put_ids(w, &mut obs, &v["inscriptions"]);
          }
          None => obs.push(0u8),
        }
        let special = t.ops.get(a as usize).map(|o| o.kind != 0).unwrap_or(false);
        // (the value reported for the unbound / null outpoint by /output is the size of its sat ranges: not compared)
        obs.push(if r.op == 10 && special { 0 } else { v["value"].as_u64().unwrap_or(u64::MAX) });
        put_runes(w, &mut obs, &v["runes"]);
        // S: exactly the rune balances the index stores for this output
        let want_runes = if t.index_ar { Some(t.rune_balances.iter().find(|(o, _)| *o as u64 == a).map(|x| x.1.clone()).unwrap_or_default()) } else { None };
        if runes_of(w, &v["runes"]) != want_runes {
          bad(format!("{path}: runes {:?} vs balance table {want_runes:?}", v["runes"]));
        }
        // S: exactly the inscriptions whose satpoint is in this output, in creation order
        let mut want: Vec<u64> = t.entries.iter().filter(|e| e.op as u64 == a).map(|e| u64::from(e.seq)).collect();
        want.sort();
        let got: Vec<u64> = v["inscriptions"].as_array().cloned().unwrap_or_default().iter().map(|x| w.seq_of(x)).collect();
        if got != want {
          bad(format!("{path}: inscriptions {got:?} vs satpoint table {want:?}"));
        }
        if let Some(o) = t.ops.get(a as usize) {
          if o.kind == 0 && o.chain_value.is_some() && v["value"].as_u64() != o.chain_value {
            bad(format!("{path}: value {:?} vs {:?}", v["value"], o.chain_value));
          }
          sub = match (o.kind, want.is_empty()) {
            (0, true) => "/plain-output",
            (0, false) => "/inscribed-output",
            (1, _) => "/unbound-outpoint",
            _ => "/null-outpoint",
          };
        }
      }
      14 => {
        // every listed output with its holdings; listing order (by txid) is not compared
        let arr = v.as_array().cloned().unwrap_or_default();
        let mut outs: Vec<(u64, Line)> = arr
          .iter()
          .map(|o| {
            let mut l = L::new();
            let ix = w.op_of(&o["outpoint"]);
            l.push(ix);
            match o["inscriptions"].as_array() {
              Some(_) => {
                l.push(1u8);
                put_ids(w, &mut l, &o["inscriptions"]);
              }
              None => l.push(0u8),
            }
            l.push(o["value"].as_u64().unwrap_or(u64::MAX));
            put_runes(w, &mut l, &o["runes"]);
            (ix, l.done())
          })
          .collect();
        outs.sort_by_key(|x| x.0);
        obs.push(outs.len());
        for (_, l) in &outs {
          obs.0.extend(l.iter().cloned());
        }
        // S: an output lists exactly the inscriptions and rune balances it holds; `inscribed` / `runic` are the
        // outputs with the respective holdings (an output may be both), `cardinal` those with neither
        let all: Vec<usize> = t.addresses.get(a as usize).cloned().unwrap_or_default();
        let holds_ins = |o: usize| t.entries.iter().any(|e| e.op == o);
        let holds_runes = |o: usize| t.rune_balances.iter().any(|(x, b)| *x == o && !b.is_empty());
        let want: Vec<u64> = all
          .iter()
          .filter(|o| match r.page {
            0 | 1 => true,
            2 => !holds_ins(**o) && !holds_runes(**o),
            3 => holds_ins(**o),
            _ => holds_runes(**o),
          })
          .map(|o| *o as u64)
          .collect();
        let got: Vec<u64> = outs.iter().map(|x| x.0).collect();
        if got != want {
          bad(format!("{path}: outputs {got:?}, the index holds {want:?} in that class"));
        }
        for o in &arr {
          let ix = w.op_of(&o["outpoint"]) as usize;
          let mut ins: Vec<u64> = t.entries.iter().filter(|e| e.op == ix).map(|e| u64::from(e.seq)).collect();
          ins.sort();
          let got_ins: Vec<u64> = o["inscriptions"].as_array().cloned().unwrap_or_default().iter().map(|x| w.seq_of(x)).collect();
          let bal = t.rune_balances.iter().find(|(x, _)| *x == ix).map(|x| x.1.clone()).unwrap_or_default();
          if got_ins != ins || runes_of(w, &o["runes"]) != Some(bal) {
            bad(format!("{path}: holdings of output #{ix} differ from the index"));
          }
        }
        sub = ["/no-type", "/any", "/cardinal", "/inscribed", "/runic", "/bogus"][(r.page as usize).min(5)];
      }
      _ => {
        put_ids(w, &mut obs, &v["inscriptions"]);
        match v["satpoint"].as_str() {
          Some(_) => {
            obs.push(1u8);
            put_satpoint(w, &mut obs, &v["satpoint"]);
          }
          None => obs.push(0u8),
        }
        let want: Vec<u64> = t.sats.iter().find(|(s, _)| *s == a).map(|x| x.1.iter().map(|y| u64::from(*y)).collect()).unwrap_or_default();
        let got: Vec<u64> = v["inscriptions"].as_array().cloned().unwrap_or_default().iter().map(|x| w.seq_of(x)).collect();
        if got != want {
          bad(format!("{path}: inscriptions {got:?} vs sat table {want:?}"));
        }
      }
    }
  } else if status == 404 && matches!(r.op, 1 | 2 | 3 | 4 | 7 | 12) && (r.a as usize) < t.entries.len() {
    bad(format!("[not-reported] 404 on {path} for an inscription of the index"));
  } else if status == 404 && r.op == 9 && r.page == 0 && (r.a as usize) < t.entries.len() {
    bad(format!("[not-reported] 404 on {path} for an inscription of the index"));
  } else if status >= 500 && !(r.op == 3 && r.has_page && r.page > u64::from(u32::MAX)) {
    // (r::parents_paginated answers 500 by design when the page does not fit u32)
    bad(format!("[server-error] {status} on {path}"));
  }
  let cat = format!("op{}/{}{}", r.op, status, sub);
  Outcome { obs: obs.done(), oracle: fail.map(Err).unwrap_or(Ok(())), cat }
}

fn check_relative(w: &World, v: &Value, seq: u32, bad: &mut impl FnMut(String), path: &str) {
  let t = &w.tables;
  let Some(e) = t.entries.get(seq as usize) else {
    bad(format!("{path}: entry #{seq} not in the index"));
    return;
  };
  let ok = w.seq_of(&v["id"]) == u64::from(e.seq)
    && v["number"].as_i64() == Some(e.number.into())
    && v["sat"].as_u64() == e.sat
    && charm_bits(&v["charms"]) == u64::from(e.charms)
    && v["output"].as_str().map(|s| s.to_string()) == Some(w.outpoints[e.op].to_string())
    && v["satpoint"].as_str().map(|s| s.to_string()) == Some(format!("{}:{}", w.outpoints[e.op], e.off))
    && v["fee"].as_u64() == Some(e.fee)
    && v["height"].as_u64() == Some(e.height.into())
    && v["timestamp"].as_i64() == Some(e.timestamp.into());
  if !ok {
    bad(format!("{path}: facts of #{seq} differ from the stored entry"));
  }
}

// ---------------------------------------------------------------- generator

pub fn gen(rng: &mut Rng, tier: &str) -> Vec<Line> {
  let nstates = if tier == "thorough" { 12 } else { 6 };
  let mut out = Vec::new();
  for s in 0..nstates {
    // listing sizes 100, 101, 99, 200, 201, 199 in turn (see `plan`); the last state of the quick tier and the
    // second half of the thorough tier have no sat index
    let recipe = Recipe {
      seed: rng.next() >> 8,
      index_sats: if tier == "thorough" { s < 6 } else { s != 5 },
      ar: s % 6 != 4, // one state of six without address and rune index
      nchildren: [100u64, 101, 99, 200, 201, 199][s % 6],
      nplain: rng.range(2, 5),
    };
    let w = World::build(&recipe);
    let t = &w.tables;
    let mut reqs: Vec<Req> = Vec::new();
    let ne = t.entries.len() as i128;
    let sample: Vec<i128> = if tier == "thorough" {
      // (case lines carry the whole tables: every 5th of the many children keeps the case file near 100 MB)
      (0..ne).filter(|s| *s < 6 || *s > ne - 40 || s % 5 == 0).collect()
    } else {
      // every interesting inscription + a stride through the many children
      (0..ne).filter(|s| *s < 3 || *s > ne - 18 || s % 97 == 1).collect()
    };
    let huge_pages = [u64::MAX, u64::MAX / 100 + 1, 184467440737095517, 1 << 32, (1 << 32) - 1];
    for &s in sample.iter().chain([ne, ne + 5].iter()) {
      let nchild = t.children.iter().find(|(p, _)| i128::from(*p) == s).map(|x| x.1.len()).unwrap_or(0) as u64;
      for op in [1u8, 2, 12] {
        reqs.push(Req { op, a: s, has_page: false, page: 0 });
        let last = nchild / 100 + 1;
        for page in 0..=last.min(3) {
          if op == 2 && page > 1 && nchild == 0 {
            continue;
          }
          reqs.push(Req { op, a: s, has_page: true, page });
        }
      }
      let nparents = t.entries.get(s as usize).map(|e| e.parents.len()).unwrap_or(0) as u64;
      for op in [3u8, 4] {
        reqs.push(Req { op, a: s, has_page: false, page: 0 });
        if nparents > 100 {
          for page in 0..=(nparents / 100 + 1) {
            reqs.push(Req { op, a: s, has_page: true, page });
          }
        } else {
          reqs.push(Req { op, a: s, has_page: true, page: rng.below(3) });
        }
      }
      reqs.push(Req { op: 7, a: s, has_page: false, page: 0 });
      reqs.push(Req { op: 9, a: s, has_page: false, page: 0 });
      if let Some(e) = t.entries.get(s as usize) {
        reqs.push(Req { op: 9, a: e.number.into(), has_page: false, page: 1 });
      }
    }
    reqs.push(Req { op: 9, a: -1_000_000, has_page: false, page: 1 });
    // huge page numbers on every paginated listing
    for op in [1u8, 2, 3, 4, 12] {
      for p in huge_pages {
        reqs.push(Req { op, a: 0, has_page: true, page: p });
      }
    }
    let mut by_count: Vec<(usize, u64)> = t.sats.iter().map(|x| (x.1.len(), x.0)).collect();
    by_count.sort_by(|a, b| b.cmp(a));
    let mut sats: Vec<u64> = by_count.iter().map(|x| x.1).take(if tier == "thorough" { 40 } else { 5 }).collect();
    sats.push(1);
    sats.push(2_099_999_997_689_999);
    for sat in &sats {
      let n = t.sats.iter().find(|x| x.0 == *sat).map(|x| x.1.len()).unwrap_or(0) as i64;
      reqs.push(Req { op: 5, a: (*sat).into(), has_page: false, page: 0 });
      for page in 0..=((n as u64) / 100 + 1).min(3) {
        reqs.push(Req { op: 5, a: (*sat).into(), has_page: true, page });
      }
      reqs.push(Req { op: 5, a: (*sat).into(), has_page: true, page: u64::MAX });
      let mut idx: Vec<i64> = vec![0, 1, -1, -2, n - 1, n, n + 1, -n, -n - 1, -n + 1, 99, 100, 101, -100, -101, i64::MAX, i64::MIN];
      idx.dedup();
      for i in idx {
        reqs.push(Req { op: 6, a: (*sat).into(), has_page: false, page: i as u64 });
      }
      reqs.push(Req { op: 11, a: (*sat).into(), has_page: false, page: 0 });
    }
    for (k, (h, last)) in t.heights.iter().enumerate() {
      let empty = k > 0 && t.heights[k - 1].1 == *last;
      if tier != "thorough" && empty && k > 2 {
        continue;
      }
      reqs.push(Req { op: 8, a: (*h).into(), has_page: false, page: 0 });
      for page in [0u64, 1, 2, 3, u32::MAX.into()] {
        reqs.push(Req { op: 8, a: (*h).into(), has_page: true, page });
      }
    }
    reqs.push(Req { op: 8, a: 100_000, has_page: false, page: 0 });
    for o in 0..t.ops.len() + 1 {
      reqs.push(Req { op: 10, a: o as i128, has_page: false, page: 0 });
      reqs.push(Req { op: 13, a: o as i128, has_page: false, page: 0 });
    }
    for a in 0..3i128 {
      for ty in 0..6u64 {
        reqs.push(Req { op: 14, a, has_page: false, page: ty });
      }
    }
    let mut head = L::new();
    head.push(recipe.seed);
    head.push(u64::from(recipe.index_sats) | (u64::from(recipe.ar) << 1));
    head.push(recipe.nchildren);
    head.push(recipe.nplain);
    let mut head = head.done();
    head.extend(w.tables_line.clone());
    for r in reqs {
      let mut l = head.clone();
      l.extend(r.line());
      out.push(l);
    }
    CURRENT.with(|cur| *cur.borrow_mut() = Some((recipe, w)));
  }
  out
}
