//! Harness for the explorer-server properties C18 (JSON / recursive endpoints) and C19 (content).
//! Drives the real `ord::subcommand::server::Server::run` in-process (ephemeral port) over a real
//! `ord::Index` filled from an in-process mock node, and talks HTTP to it.
use hxlib::*;

mod c18;
mod c19;
mod world;

fn main() {
  let args = parse_args();
  match args.prop.as_str() {
    "C18" => drive(&args, c18::gen, |l| guarded("C18", || c18::run(l))),
    "C19" => drive(&args, c19::gen, |l| guarded("C19", || c19::run(l))),
    p => {
      eprintln!("unknown property {p}");
      std::process::exit(2);
    }
  }
}
