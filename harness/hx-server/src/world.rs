//! A real `ord::Index` filled from a mock node, plus in-process `ord server`
//! instances (the real `Server::run`, ephemeral port) over that index.
use std::collections::BTreeMap;
use std::net::SocketAddr;
use std::sync::Arc;

pub fn scratch_dir() -> tempfile::TempDir {
  if std::path::Path::new("/dev/shm").is_dir() {
    tempfile::tempdir_in("/dev/shm").unwrap()
  } else {
    tempfile::tempdir().unwrap()
  }
}

/// envelope -> reveal witness (tapscript + empty control block)
pub fn witness_of(inscriptions: &[ord::Inscription]) -> bitcoin::Witness {
  let mut builder = bitcoin::script::Builder::new();
  for i in inscriptions {
    builder = i.append_reveal_script_to_builder(builder);
  }
  let script = builder.into_script();
  let mut witness = bitcoin::Witness::new();
  witness.push(script.as_bytes());
  witness.push([]);
  witness
}

pub fn id_value(id: ord::InscriptionId) -> Vec<u8> {
  // canonical encoding: txid bytes followed by the little-endian index without trailing zeros
  let txid: &[u8] = id.txid.as_ref();
  let mut out = txid.to_vec();
  let mut ix = id.index.to_le_bytes().to_vec();
  while ix.last() == Some(&0) {
    ix.pop();
  }
  out.extend(ix);
  out
}

pub struct Node {
  pub core: mockcore::Handle,
  pub dir: tempfile::TempDir,
  pub flags: Vec<String>,
  pub next_coinbase: usize,
}

impl Node {
  pub fn new(flags: &[&str]) -> Node {
    let core = ordkit::regtest_core();
    Node { core, dir: scratch_dir(), flags: flags.iter().map(|s| s.to_string()).collect(), next_coinbase: 1 }
  }

  /// a fresh, never spent coinbase output (mines it if needed): (height, 0, 0)
  pub fn fresh_coinbase(&mut self) -> (usize, usize, usize) {
    while (self.core.height() as usize) < self.next_coinbase {
      self.core.mine_blocks(1);
    }
    let h = self.next_coinbase;
    self.next_coinbase += 1;
    (h, 0, 0)
  }

  pub fn height(&self) -> usize {
    self.core.height() as usize
  }

  pub fn settings(&self, env: BTreeMap<String, String>) -> ord::settings::Settings {
    use clap::Parser;
    let mut args: Vec<String> = vec![
      "ord".into(),
      "--bitcoin-rpc-url".into(),
      self.core.url(),
      "--cookie-file".into(),
      self.core.cookie_file().to_str().unwrap().into(),
      "--data-dir".into(),
      self.dir.path().to_str().unwrap().into(),
      "--regtest".into(),
    ];
    args.extend(self.flags.iter().cloned());
    let options = ord::Options::try_parse_from(args).expect("options");
    ord::settings::Settings::merge(options, env).expect("settings")
  }

  pub fn open_index(&self) -> Arc<ord::Index> {
    let index = ord::Index::open(&self.settings(BTreeMap::new())).expect("open index");
    index.update().expect("index update");
    Arc::new(index)
  }
}

/// One running `ord server` (real `Server::run`).
pub struct Served {
  pub port: u16,
  handle: axum_server::Handle<SocketAddr>,
  thread: Option<std::thread::JoinHandle<()>>,
}

impl Served {
  /// `server_args`: options of the `server` subcommand (e.g. `--csp-origin X`, `--decompress`);
  /// `hidden`: inscription ids for the HIDDEN setting.
  pub fn start(node: &Node, index: Arc<ord::Index>, server_args: &[String], hidden: &[ord::InscriptionId]) -> Served {
    use clap::Parser;
    let mut env = BTreeMap::new();
    if !hidden.is_empty() {
      env.insert("HIDDEN".to_string(), hidden.iter().map(|h| h.to_string()).collect::<Vec<_>>().join(" "));
    }
    let settings = node.settings(env);
    let mut args: Vec<String> =
      vec!["server".into(), "--address".into(), "127.0.0.1".into(), "--http-port".into(), "0".into(), "--no-sync".into(), "--polling-interval".into(), "1h".into()];
    args.extend(server_args.iter().cloned());
    let server = ord::subcommand::server::Server::try_parse_from(args).expect("server args");
    let handle = axum_server::Handle::new();
    let (tx, rx) = std::sync::mpsc::channel();
    let h2 = handle.clone();
    let thread = std::thread::spawn(move || {
      let _ = server.run(settings, index, h2, Some(tx));
    });
    let port = rx.recv_timeout(std::time::Duration::from_secs(180)).expect("server did not start");
    Served { port, handle, thread: Some(thread) }
  }

  pub fn url(&self, path: &str) -> String {
    format!("http://127.0.0.1:{}{}", self.port, path)
  }
}

impl Drop for Served {
  fn drop(&mut self) {
    self.handle.shutdown();
    if let Some(t) = self.thread.take() {
      let _ = t.join();
    }
  }
}

/// A raw HTTP response (no transparent decoding by the client).
pub struct Resp {
  pub status: u16,
  pub headers: Vec<(String, Vec<u8>)>,
  pub body: Vec<u8>,
  /// content coding applied by the server's CompressionLayer (undone in `body`)
  pub transport: Option<String>,
}

impl Resp {
  pub fn all(&self, name: &str) -> Vec<Vec<u8>> {
    self.headers.iter().filter(|(k, _)| k == name).map(|(_, v)| v.clone()).collect()
  }
  pub fn one(&self, name: &str) -> Option<Vec<u8>> {
    self.all(name).into_iter().next()
  }
}

pub fn client() -> reqwest::blocking::Client {
  reqwest::blocking::Client::builder()
    .no_brotli()
    .no_proxy()
    .redirect(reqwest::redirect::Policy::none())
    .timeout(std::time::Duration::from_secs(60))
    .build()
    .unwrap()
}

/// GET with the given extra headers. The tower-http CompressionLayer is a transport
/// detail: when it compressed the response (it then adds `vary: accept-encoding`
/// and its own `content-encoding`), the coding is undone here and reported in `transport`.
pub fn get(client: &reqwest::blocking::Client, url: &str, headers: &[(&str, Vec<u8>)]) -> Resp {
  use std::io::Read;
  let mut rb = client.get(url);
  for (k, v) in headers {
    rb = rb.header(*k, reqwest::header::HeaderValue::from_bytes(v).expect("header value"));
  }
  let r = rb.send().expect("request");
  let status = r.status().as_u16();
  let mut hs: Vec<(String, Vec<u8>)> = r.headers().iter().map(|(k, v)| (k.as_str().to_string(), v.as_bytes().to_vec())).collect();
  let mut body = r.bytes().expect("body").to_vec();
  let vary_ae = hs.iter().any(|(k, v)| k == "vary" && String::from_utf8_lossy(v).to_ascii_lowercase().contains("accept-encoding"));
  let mut transport = None;
  if vary_ae {
    let ce = hs.iter().find(|(k, _)| k == "content-encoding").map(|(_, v)| v.clone());
    match ce.as_deref() {
      Some(b"gzip") => {
        let mut out = Vec::new();
        flate2::read::GzDecoder::new(&body[..]).read_to_end(&mut out).expect("gzip transport decoding");
        body = out;
        transport = Some("gzip".to_string());
      }
      Some(b"br") => {
        let mut out = Vec::new();
        brotli::Decompressor::new(&body[..], 4096).read_to_end(&mut out).expect("brotli transport decoding");
        body = out;
        transport = Some("br".to_string());
      }
      _ => {}
    }
    if transport.is_some() {
      hs.retain(|(k, _)| k != "content-encoding");
    }
  }
  Resp { status, headers: hs, body, transport }
}
