//! C19 — inscription content is served faithfully and sandboxed.
//!
//! Case line (same reading order as coq/Server/Content.v `run_C19`):
//!   index_sats n  { slot ct? ce? body? br? dkind [k] }*n        state (inscriptions in creation order)
//!   origin? decompress nh { hkind [k] }*nh                      server configuration
//!   route [tkind [k] | slot idx] ae?                            request
//! x? = 0 | 1 len bytes...   dkind/hkind/tkind: 1 k = inscription number k of the state, 2 k = an id
//! that is not in the index.  `br` = brotli decompression of the body, computed by the generator
//! (the model's Section variable `decompress` is instantiated with this table).
//! route: 0 /content/<id>  1 /r/undelegated-content/<id>  2 /preview/<id>
//!        3 /r/sat/<sat of slot>/at/<idx>/content  4 /content/<malformed id>  5 unknown path
//!        6 k: the k-th of a list of other explorer routes (observation: 1 iff a non-empty policy is present)
//! Observation: status ncsp {len bytes}* cache(0 none,1 immutable,2 no-store,3 other)
//!   bodykind: 0 (not compared: error text) | 1 ct? ce? len bytes (content response) | 2 nrefs refs.. (html template;
//!   refs = inscriptions of the state whose id occurs in the page)
use crate::world::*;
use hxlib::*;
use std::cell::RefCell;
use std::collections::HashMap;
use std::sync::Arc;

#[derive(Clone, Debug, PartialEq)]
pub enum Ref {
  Known(usize),
  Missing(u64),
}

#[derive(Clone, Debug)]
pub struct Insc {
  pub slot: u64,
  pub ct: Option<Vec<u8>>,
  pub ce: Option<Vec<u8>>,
  pub body: Option<Vec<u8>>,
  pub br: Option<Vec<u8>>,
  pub delegate: Option<Ref>,
}

#[derive(Clone, Debug)]
pub struct Case {
  pub index_sats: bool,
  pub inscs: Vec<Insc>,
  pub origin: Option<Vec<u8>>,
  pub decompress: bool,
  pub hidden: Vec<Ref>,
  pub route: u8,
  pub target: Ref,
  pub slot: u64,
  pub idx: i64,
  pub ae: Option<Vec<u8>>,
}

fn put_opt(l: &mut L, b: &Option<Vec<u8>>) {
  match b {
    None => l.push(0u8),
    Some(b) => {
      l.push(1u8);
      l.bytes(b);
    }
  }
}
fn put_ref(l: &mut L, r: &Ref) {
  match r {
    Ref::Known(k) => {
      l.push(1u8);
      l.push(*k);
    }
    Ref::Missing(k) => {
      l.push(2u8);
      l.push(*k);
    }
  }
}
fn get_opt(c: &mut Cur) -> Option<Vec<u8>> {
  if c.bool() {
    Some(c.bytes())
  } else {
    None
  }
}
fn get_ref(c: &mut Cur) -> Ref {
  match c.u8() {
    1 => Ref::Known(c.usize()),
    _ => Ref::Missing(c.u64()),
  }
}

impl Case {
  pub fn state_line(&self) -> Line {
    let mut l = L::new();
    l.push(self.index_sats);
    l.push(self.inscs.len());
    for i in &self.inscs {
      l.push(i.slot);
      put_opt(&mut l, &i.ct);
      put_opt(&mut l, &i.ce);
      put_opt(&mut l, &i.body);
      put_opt(&mut l, &i.br);
      match &i.delegate {
        None => l.push(0u8),
        Some(r) => put_ref(&mut l, r),
      }
    }
    l.done()
  }
  pub fn config_line(&self) -> Line {
    let mut l = L::new();
    put_opt(&mut l, &self.origin);
    l.push(self.decompress);
    l.push(self.hidden.len());
    for h in &self.hidden {
      put_ref(&mut l, h);
    }
    l.done()
  }
  pub fn line(&self) -> Line {
    let mut v = self.state_line();
    v.extend(self.config_line());
    let mut l = L::new();
    l.push(self.route);
    match self.route {
      0 | 1 | 2 => put_ref(&mut l, &self.target),
      3 => {
        l.push(self.slot);
        l.push(self.idx);
      }
      6 => l.push(self.slot),
      _ => {}
    }
    put_opt(&mut l, &self.ae);
    v.extend(l.done());
    v
  }
  pub fn parse(line: &Line) -> Case {
    let mut c = Cur::new(line);
    let index_sats = c.bool();
    let n = c.usize();
    let mut inscs = Vec::new();
    for _ in 0..n {
      let slot = c.u64();
      let ct = get_opt(&mut c);
      let ce = get_opt(&mut c);
      let body = get_opt(&mut c);
      let br = get_opt(&mut c);
      let delegate = match c.u8() {
        0 => None,
        1 => Some(Ref::Known(c.usize())),
        _ => Some(Ref::Missing(c.u64())),
      };
      inscs.push(Insc { slot, ct, ce, body, br, delegate });
    }
    let origin = get_opt(&mut c);
    let decompress = c.bool();
    let nh = c.usize();
    let hidden = (0..nh).map(|_| get_ref(&mut c)).collect();
    let route = c.u8();
    let (mut target, mut slot, mut idx) = (Ref::Missing(0), 0, 0);
    match route {
      0 | 1 | 2 => target = get_ref(&mut c),
      3 => {
        slot = c.u64();
        idx = c.z().i64();
      }
      6 => slot = c.u64(),
      _ => {}
    }
    let ae = get_opt(&mut c);
    Case { index_sats, inscs, origin, decompress, hidden, route, target, slot, idx, ae }
  }
}

pub fn brotli_decompress(b: &[u8]) -> Option<Vec<u8>> {
  use std::io::Read;
  let mut out = Vec::new();
  brotli::Decompressor::new(b, 4096).read_to_end(&mut out).ok().map(|_| out)
}

pub fn brotli_compress(b: &[u8]) -> Vec<u8> {
  use std::io::Write;
  let mut out = Vec::new();
  {
    let mut w = brotli::CompressorWriter::new(&mut out, 4096, 5, 22);
    w.write_all(b).unwrap();
  }
  out
}

// ---------------------------------------------------------------- world

/// an id that is certainly not in the index
pub fn missing_id(k: u64) -> ord::InscriptionId {
  let mut b = [0xeeu8; 32];
  b[..8].copy_from_slice(&k.to_le_bytes());
  use bitcoin::hashes::Hash;
  ord::InscriptionId { txid: bitcoin::Txid::from_byte_array(b), index: (k % 3) as u32 }
}

pub struct World {
  pub node: Node,
  pub index: Arc<ord::Index>,
  pub ids: Vec<ord::InscriptionId>,
  pub sats: HashMap<u64, u64>, // slot -> sat number
  pub servers: HashMap<Vec<Z>, Served>,
}

impl World {
  pub fn resolve(&self, r: &Ref) -> ord::InscriptionId {
    match r {
      Ref::Known(k) if *k < self.ids.len() => self.ids[*k],
      Ref::Known(k) => missing_id(1_000_000 + *k as u64),
      Ref::Missing(k) => missing_id(*k),
    }
  }

  pub fn build(case: &Case) -> World {
    let flags: Vec<&str> = if case.index_sats { vec!["--index-sats"] } else { vec![] };
    let mut node = Node::new(&flags);
    let mut ids: Vec<ord::InscriptionId> = Vec::new();
    // slot -> (height, tx index) of the transaction whose output 0 starts with the sat; None = pending in mempool
    let mut place: HashMap<u64, Option<(usize, usize)>> = HashMap::new();
    let mut pending: Vec<u64> = Vec::new(); // slots of the mempool transactions, in order
    let flush = |node: &mut Node, place: &mut HashMap<u64, Option<(usize, usize)>>, pending: &mut Vec<u64>| {
      node.core.mine_blocks(1);
      let h = node.height();
      for (i, s) in pending.iter().enumerate() {
        place.insert(*s, Some((h, i + 1)));
      }
      pending.clear();
    };
    for (j, insc) in case.inscs.iter().enumerate() {
      let delegate = insc.delegate.as_ref().map(|r| match r {
        Ref::Known(k) if *k < j => id_value(ids[*k]),
        Ref::Known(k) => id_value(missing_id(1_000_000 + *k as u64)),
        Ref::Missing(k) => id_value(missing_id(*k)),
      });
      let payload = ord::Inscription {
        content_type: insc.ct.clone(),
        content_encoding: insc.ce.clone(),
        body: insc.body.clone(),
        delegate,
        ..Default::default()
      };
      let input = match place.get(&insc.slot) {
        None => {
          // coinbases must be mined before the pending transactions are flushed, keep numbering simple
          if !pending.is_empty() {
            flush(&mut node, &mut place, &mut pending);
          }
          node.fresh_coinbase()
        }
        Some(Some((h, t))) => (*h, *t, 0),
        Some(None) => {
          flush(&mut node, &mut place, &mut pending);
          let (h, t) = place[&insc.slot].unwrap();
          (h, t, 0)
        }
      };
      let txid = node.core.broadcast_tx(mockcore::TransactionTemplate {
        inputs: &[(input.0, input.1, input.2, witness_of(&[payload]))],
        fee: 0,
        outputs: 1,
        ..Default::default()
      });
      ids.push(ord::InscriptionId { txid, index: 0 });
      place.insert(insc.slot, None);
      pending.push(insc.slot);
    }
    if !pending.is_empty() {
      flush(&mut node, &mut place, &mut pending);
    }
    node.core.mine_blocks(1);
    let index = node.open_index();
    let mut sats = HashMap::new();
    if case.index_sats {
      for (j, insc) in case.inscs.iter().enumerate() {
        let entry = index.get_inscription_entry(ids[j]).expect("entry").expect("inscription indexed");
        let sat = entry.sat.expect("sat of inscription").n();
        let prev = sats.insert(insc.slot, sat);
        assert!(prev.is_none() || prev == Some(sat), "slot {} is not one sat", insc.slot);
      }
    }
    World { node, index, ids, sats, servers: HashMap::new() }
  }

  pub fn server(&mut self, case: &Case) -> u16 {
    let key = case.config_line();
    if !self.servers.contains_key(&key) {
      if self.servers.len() >= 8 {
        self.servers.clear();
      }
      let mut args: Vec<String> = Vec::new();
      if let Some(o) = &case.origin {
        args.push("--csp-origin".into());
        args.push(String::from_utf8(o.clone()).expect("origin must be UTF-8 (command line)"));
      }
      if case.decompress {
        args.push("--decompress".into());
      }
      let hidden: Vec<ord::InscriptionId> = case.hidden.iter().map(|h| self.resolve(h)).collect();
      let s = Served::start(&self.node, self.index.clone(), &args, &hidden);
      self.servers.insert(key.clone(), s);
    }
    self.servers[&key].port
  }
}

thread_local! {
  static CURRENT: RefCell<Option<(Vec<Z>, World)>> = const { RefCell::new(None) };
  static CLIENT: reqwest::blocking::Client = client();
}

// ---------------------------------------------------------------- constants of the property, written here
// independently of the model (S): the sandbox policy of content responses.
const PATHS: [&str; 6] = ["/content/", "/blockheight", "/blockhash", "/blockhash/", "/blocktime", "/r/"];
const TAIL: &str = "'unsafe-eval' 'unsafe-inline' data: blob:";

fn expected_content_csp(origin: &Option<Vec<u8>>) -> Vec<Vec<u8>> {
  match origin {
    None => vec![
      format!("default-src 'self' {TAIL}").into_bytes(),
      format!("default-src {} {TAIL}", PATHS.iter().map(|p| format!("*:*{p}")).collect::<Vec<_>>().join(" ")).into_bytes(),
    ],
    Some(o) => {
      let o = String::from_utf8_lossy(o).to_string();
      vec![format!("default-src {} {TAIL}", PATHS.iter().map(|p| format!("{o}{p}")).collect::<Vec<_>>().join(" ")).into_bytes()]
    }
  }
}

fn trim_ows(b: &[u8]) -> &[u8] {
  let mut s = 0;
  let mut e = b.len();
  while s < e && (b[s] == b' ' || b[s] == b'\t') {
    s += 1;
  }
  while e > s && (b[e - 1] == b' ' || b[e - 1] == b'\t') {
    e -= 1;
  }
  &b[s..e]
}

fn header_value_ok(b: &[u8]) -> bool {
  b.iter().all(|&c| (c >= 32 && c != 127) || c == b'\t')
}

fn find_sub(hay: &[u8], needle: &[u8]) -> bool {
  !needle.is_empty() && hay.windows(needle.len()).any(|w| w == needle)
}

pub fn run(line: &Line) -> Outcome {
  let case = Case::parse(line);
  let state_key = case.state_line();
  CURRENT.with(|cur| {
    let mut cur = cur.borrow_mut();
    if cur.as_ref().map(|(k, _)| k != &state_key).unwrap_or(true) {
      *cur = None; // shuts the old servers down first
      *cur = Some((state_key.clone(), World::build(&case)));
    }
    let world = &mut cur.as_mut().unwrap().1;
    run_in(world, &case)
  })
}

fn run_in(world: &mut World, case: &Case) -> Outcome {
  let port = world.server(case);
  let path = match case.route {
    0 => format!("/content/{}", world.resolve(&case.target)),
    1 => format!("/r/undelegated-content/{}", world.resolve(&case.target)),
    2 => format!("/preview/{}", world.resolve(&case.target)),
    3 => {
      let sat = world.sats.get(&case.slot).copied().unwrap_or(1);
      format!("/r/sat/{}/at/{}/content", sat, case.idx)
    }
    4 => "/content/nonsense".to_string(),
    6 => {
      let id0 = world.resolve(&Ref::Known(0));
      let o = OTHER_ROUTES[case.slot as usize % OTHER_ROUTES.len()];
      o.replace("<id>", &id0.to_string()).replace("<txid>", &id0.txid.to_string())
    }
    _ => "/no/such/route".to_string(),
  };
  let mut headers: Vec<(&str, Vec<u8>)> = Vec::new();
  if let Some(ae) = &case.ae {
    headers.push(("accept-encoding", ae.clone()));
  }
  let r = CLIENT.with(|c| get(c, &format!("http://127.0.0.1:{port}{path}"), &headers));

  // ---- observation
  let mut obs = L::new();
  let csp = r.all("content-security-policy");
  if case.route == 6 {
    // any other explorer route: only the presence of a policy is observed
    let ok = !csp.is_empty() && csp.iter().all(|v| !v.is_empty());
    return Outcome {
      obs: L::new().p(ok).done(),
      oracle: if ok { Ok(()) } else { Err(format!("response {} without Content-Security-Policy on {path}", r.status)) },
      cat: format!("route6/{}/{}", OTHER_ROUTES[case.slot as usize % OTHER_ROUTES.len()].split('/').nth(1).unwrap_or(""), r.status),
    };
  }
  obs.push(r.status);
  obs.push(csp.len());
  for v in &csp {
    obs.bytes(v);
  }
  let cc = r.one("cache-control");
  let cache = match cc.as_deref() {
    None => 0u8,
    Some(b"public, max-age=1209600, immutable") => 1,
    Some(b"no-store") => 2,
    Some(_) => 3,
  };
  obs.push(cache);
  let ct = r.one("content-type");
  let ce = r.one("content-encoding");
  let is_content = r.status == 200 && cc.is_some();
  let is_template = r.status == 200 && cc.is_none();
  if is_content {
    obs.push(1u8);
    put_opt(&mut obs, &ct);
    put_opt(&mut obs, &ce);
    obs.bytes(&r.body);
  } else if is_template {
    obs.push(2u8);
    let refs: Vec<usize> = (0..world.ids.len()).filter(|k| find_sub(&r.body, world.ids[*k].to_string().as_bytes())).collect();
    obs.push(refs.len());
    for k in refs {
      obs.push(k);
    }
  } else {
    obs.push(0u8);
  }

  // ---- S: the property's own predicate, from the state description
  let mut fail: Option<String> = None;
  let mut bad = |m: String| {
    if fail.is_none() {
      fail = Some(m)
    }
  };
  // (a) every response carries a non-empty CSP
  if csp.is_empty() || csp.iter().any(|v| v.is_empty()) {
    bad(format!("response {} without Content-Security-Policy on {path}", r.status));
  }
  // (b) hidden content is never served, on any route, directly or through a delegate
  let hidden_known: Vec<usize> = case.hidden.iter().filter_map(|h| if let Ref::Known(k) = h { Some(*k) } else { None }).filter(|k| *k < case.inscs.len()).collect();
  for h in &hidden_known {
    let i = &case.inscs[*h];
    if let Some(b) = &i.body {
      if b.len() >= 6 && find_sub(&r.body, b) {
        bad(format!("[hidden-served] body of hidden inscription #{h} served on {path}"));
      }
    }
    if let Some(b) = &i.br {
      if b.len() >= 6 && find_sub(&r.body, b) {
        bad(format!("[hidden-served] decompressed body of hidden inscription #{h} served on {path}"));
      }
    }
  }
  // (c) content relative to the newest inscription on a sat is never immutable
  if case.route == 3 && case.idx < 0 && cache == 1 {
    bad(format!("immutable cache-control on {path}"));
  }
  // (d) content responses: body / type / encoding / sandbox policy
  if is_content {
    let requested: Option<usize> = match case.route {
      0 | 1 | 2 => match &case.target {
        Ref::Known(k) if *k < case.inscs.len() => Some(*k),
        _ => None,
      },
      3 => {
        let on: Vec<usize> = (0..case.inscs.len()).filter(|j| case.inscs[*j].slot == case.slot).collect();
        let n = on.len() as i64;
        let pos = if case.idx < 0 { n + case.idx } else { case.idx };
        if case.index_sats && pos >= 0 && pos < n {
          Some(on[pos as usize])
        } else {
          None
        }
      }
      _ => None,
    };
    match requested {
      None => bad(format!("content response for an inscription that does not exist on {path}")),
      Some(j) => {
        let src = if case.route == 1 {
          Some(j)
        } else {
          match &case.inscs[j].delegate {
            None => Some(j),
            Some(Ref::Known(k)) if *k < j => Some(*k),
            Some(_) => None,
          }
        };
        match src {
          None => bad(format!("content response although the delegate of #{j} does not exist")),
          Some(s) => {
            let i = &case.inscs[s];
            if case.route == 2 {
              let ctype = i.ct.as_deref().and_then(|b| std::str::from_utf8(b).ok());
              if !matches!(ctype, Some("text/html") | Some("text/html;charset=utf-8") | Some("image/svg+xml")) {
                bad(format!("preview of #{j} served raw content of a non-iframe media type"));
              }
            }
            let want_ct: Vec<u8> = match i.ct.as_deref() {
              Some(b) if std::str::from_utf8(b).is_ok() && header_value_ok(b) => trim_ows(b).to_vec(),
              _ => b"application/octet-stream".to_vec(),
            };
            if ct.as_deref() != Some(&want_ct[..]) {
              bad(format!("content type of #{s} on {path}: got {:?}", ct.as_ref().map(|b| String::from_utf8_lossy(b).to_string())));
            }
            match (&ce, &i.body) {
              (Some(e), Some(b)) => {
                // passed through: stored encoding, accepted by the client, stored body
                let stored = i.ce.as_deref().map(|x| if std::str::from_utf8(x).is_ok() { x } else { &[][..] });
                if stored.map(trim_ows) != Some(&e[..]) || &r.body != b {
                  bad(format!("encoded content of #{s} on {path} is not the stored body/encoding"));
                }
                let accepted = case
                  .ae
                  .as_deref()
                  .map(|a| if a.iter().all(|&c| (32..127).contains(&c) || c == 9) { a } else { &[][..] })
                  .unwrap_or(&[])
                  .split(|c| *c == b',')
                  .any(|item| trim_ows(item.split(|c| *c == b';').next().unwrap_or(&[])) == stored.unwrap_or(&[]));
                if !accepted {
                  bad(format!("encoding of #{s} passed through on {path} although not accepted"));
                }
              }
              (None, Some(b)) => {
                let has_enc = i.ce.as_deref().map(|x| std::str::from_utf8(x).map(|t| header_value_ok(t.as_bytes())).unwrap_or(true)).unwrap_or(false);
                if !has_enc {
                  if &r.body != b {
                    bad(format!("body of #{s} on {path} differs from the stored body"));
                  }
                } else if !(case.decompress && i.ce.as_deref() == Some(b"br") && i.br.as_ref() == Some(&r.body)) {
                  bad(format!("encoded body of #{s} on {path} served without content-encoding and not the brotli decompression"));
                }
              }
              (_, None) => bad(format!("content response for #{s} which has no body")),
            }
            let want_csp: Vec<Vec<u8>> = expected_content_csp(&case.origin).iter().map(|v| trim_ows(v).to_vec()).collect();
            if csp != want_csp {
              bad(format!("sandbox policy on {path}: {:?}", csp.iter().map(|b| String::from_utf8_lossy(b).to_string()).collect::<Vec<_>>()));
            }
          }
        }
      }
    }
  }
  let kind = if is_content {
    if ce.is_some() {
      "/passthrough"
    } else if case.decompress && case.inscs.iter().any(|i| i.ce.as_deref() == Some(b"br") && i.br.as_ref() == Some(&r.body)) {
      "/decompressed"
    } else if r.transport.is_some() {
      "/content+transport"
    } else {
      "/content"
    }
  } else if is_template {
    if csp == vec![b"default-src 'self'".to_vec()] { "/page-default-csp" } else { "/page-media-csp" }
  } else {
    ""
  };
  let cat = format!(
    "route{}/{}{}{}{}",
    case.route,
    r.status,
    kind,
    if case.origin.is_some() { "/origin" } else { "" },
    if case.hidden.is_empty() { "" } else { "/hidden-set" }
  );
  Outcome { obs: obs.done(), oracle: fail.map(Err).unwrap_or(Ok(())), cat }
}

/// other explorer routes (every response must carry a policy): pages, redirects, errors, assets
const OTHER_ROUTES: [&str; 40] = [
  "/", "/blocks", "/blockcount", "/blockheight", "/blockhash", "/blockhash/0", "/blocktime", "/clock", "/status", "/inscriptions",
  "/inscriptions/1", "/collections", "/galleries", "/runes", "/rare.txt", "/static/index.css", "/static/nope", "/favicon.ico", "/feed.xml", "/faq",
  "/bounties", "/install.sh", "/block/0", "/block/99999", "/sat/0", "/output/0000000000000000000000000000000000000000000000000000000000000000:0", "/r/blockinfo/0", "/r/blockheight", "/search/0", "/search?query=0",
  "/update", "/offers", "/satscard", "/ordinal/0", "/input/0/0/0", "/tx/<txid>", "/decode/<txid>", "/inscription/<id>", "/children/<id>", "/r/metadata/<id>",
];

// ---------------------------------------------------------------- generator

const CTS: [&str; 14] = [
  "text/plain;charset=utf-8",
  "text/plain",
  "text/html",
  "text/html;charset=utf-8",
  "image/svg+xml",
  "image/png",
  "application/json",
  "audio/mpeg",
  "model/gltf+json",
  "application/pdf",
  "font/woff2",
  "video/mp4",
  "text/markdown",
  "application/x-whatever",
];

/// byte strings around the boundaries of UTF-8 well-formedness and of header-value legality
fn edge_bytes(rng: &mut Rng) -> Vec<u8> {
  const ALPHABET: [u8; 30] = [
    0x00, 0x09, 0x0a, 0x1f, 0x20, 0x61, 0x7e, 0x7f, 0x80, 0x8f, 0x90, 0x9f, 0xa0, 0xbf, 0xc0, 0xc1, 0xc2, 0xdf, 0xe0, 0xe1, 0xec, 0xed, 0xee,
    0xef, 0xf0, 0xf1, 0xf3, 0xf4, 0xf5, 0xff,
  ];
  let n = rng.range(1, 5) as usize;
  (0..n).map(|_| *rng.pick(&ALPHABET)).collect()
}

fn gen_ct(rng: &mut Rng) -> Option<Vec<u8>> {
  if rng.chance(1, 6) {
    return Some(edge_bytes(rng));
  }
  match rng.below(20) {
    0 => None,
    1 => Some(vec![]),
    2 => Some(b"text/plain\x01".to_vec()),           // control byte: not a header value
    3 => Some(vec![0xff, 0xfe, b'a']),                // not UTF-8
    4 => Some("text/plain; x=\u{e9}\u{4e16}".as_bytes().to_vec()), // UTF-8, non-ASCII header value
    5 => Some(b" text/html ".to_vec()),               // surrounding blanks (not the table entry)
    6 => Some(b"text/plain\x7f".to_vec()),
    7 => Some(b"a\tb".to_vec()),
    8 => Some(vec![b'x'; 300]),
    9 => Some(vec![0xed, 0xa0, 0x80]),                // surrogate: invalid UTF-8
    10 => Some(vec![0xc0, 0xaf]),                     // overlong
    11 => Some(b"TEXT/HTML".to_vec()),
    _ => Some(rng.pick(&CTS).as_bytes().to_vec()),
  }
}

fn gen_ce(rng: &mut Rng) -> Option<Vec<u8>> {
  if rng.chance(1, 10) {
    return Some(edge_bytes(rng));
  }
  match rng.below(16) {
    0..=5 => None,
    6..=8 => Some(b"br".to_vec()),
    9 => Some(b"gzip".to_vec()),
    10 => Some(vec![]),
    11 => Some(vec![0xff]),          // not UTF-8: becomes the empty header value
    12 => Some(b"b\x01r".to_vec()),  // not a header value: treated as no encoding
    13 => Some(b" br".to_vec()),
    14 => Some("br\u{e9}".as_bytes().to_vec()),
    _ => Some(b"BR".to_vec()),
  }
}

fn gen_ae(rng: &mut Rng) -> Option<Vec<u8>> {
  let v: &[&[u8]] = &[
    b"br", b"gzip", b"*", b"gzip, deflate, br", b"deflate;q=0.5, gzip;q=1.0, br;q=0.8", b"", b"br;q=0", b"gzip,br", b" br", b"x, ,y", b"BR",
    b"identity", b"br\xff", b"\tbr\t,gzip", b",",
  ];
  match rng.below(5) {
    0 => None,
    _ => Some(rng.pick(v).to_vec()),
  }
}

fn gen_body(rng: &mut Rng, j: usize, compressed: bool) -> (Option<Vec<u8>>, Option<Vec<u8>>) {
  if rng.chance(1, 10) {
    return (None, None);
  }
  // distinct recognisable plaintexts; long ones cross the 32-byte threshold of the compression layer
  let len = *rng.pick(&[0usize, 1, 8, 20, 40, 90]);
  let mut plain = format!("<{j}:{:08x}>", rng.next() as u32).into_bytes();
  while plain.len() < len {
    plain.push(b'a' + (rng.below(26) as u8));
  }
  if len == 0 && rng.chance(1, 2) {
    plain.clear();
  }
  if compressed && rng.chance(4, 5) {
    let c = brotli_compress(&plain);
    let br = brotli_decompress(&c);
    (Some(c), br)
  } else {
    let br = brotli_decompress(&plain);
    (Some(plain), br)
  }
}

pub fn gen_state(rng: &mut Rng, index_sats: bool) -> Vec<Insc> {
  let n = rng.range(3, 9) as usize;
  let mut v: Vec<Insc> = Vec::new();
  for j in 0..n {
    let slot = if j > 0 && rng.chance(1, 3) { v[rng.below(j as u64) as usize].slot } else { j as u64 };
    let ce = gen_ce(rng);
    let (body, br) = gen_body(rng, j, ce.as_deref() == Some(b"br"));
    let delegate = match rng.below(10) {
      0..=4 => None,
      5..=7 if j > 0 => Some(Ref::Known(rng.below(j as u64) as usize)),
      8 => Some(Ref::Missing(rng.below(50))),
      _ => None,
    };
    v.push(Insc { slot, ct: gen_ct(rng), ce, body, br, delegate });
  }
  let _ = index_sats;
  v
}

pub fn gen(rng: &mut Rng, tier: &str) -> Vec<Line> {
  let (nstates, nconfigs, nreq) = if tier == "thorough" { (40, 6, 90) } else { (6, 4, 30) };
  let mut out = Vec::new();
  for s in 0..nstates {
    let index_sats = s % 4 != 3;
    let inscs = gen_state(rng, index_sats);
    let n = inscs.len();
    for c in 0..nconfigs {
      let origin = match (c + s) % 4 {
        0 | 1 => None,
        2 => Some(b"https://ordinals.example".to_vec()),
        _ => {
          if rng.chance(1, 2) {
            Some(b"https://o.example:8443".to_vec())
          } else {
            Some(b"bad\x01origin".to_vec()) // not a header value: content responses become 500
          }
        }
      };
      let decompress = rng.chance(1, 2);
      let mut hidden = Vec::new();
      if c % 2 == 1 {
        for _ in 0..rng.range(1, 2) {
          hidden.push(if rng.chance(5, 6) { Ref::Known(rng.below(n as u64) as usize) } else { Ref::Missing(rng.below(50)) });
        }
        // prefer hiding something that is delegated to
        if let Some(k) = inscs.iter().filter_map(|i| if let Some(Ref::Known(k)) = &i.delegate { Some(*k) } else { None }).next() {
          if rng.chance(2, 3) {
            hidden[0] = Ref::Known(k);
          }
        }
      }
      for _ in 0..nreq {
        let route = match rng.below(24) {
          0..=6 => 0,
          7..=9 => 1,
          10..=13 => 2,
          14..=17 => 3,
          18 => 4,
          19 => 5,
          _ => 6,
        };
        let target = if rng.chance(9, 10) { Ref::Known(rng.below(n as u64) as usize) } else { Ref::Missing(rng.below(50)) };
        let slot = if route == 6 {
          rng.below(OTHER_ROUTES.len() as u64)
        } else if rng.chance(9, 10) {
          inscs[rng.below(n as u64) as usize].slot
        } else {
          99
        };
        let idx = match rng.below(12) {
          0 => i64::MIN,
          1 => i64::MAX,
          2 => -7,
          3 => 7,
          _ => rng.range(0, 6) as i64 - 3,
        };
        let case = Case { index_sats, inscs: inscs.clone(), origin: origin.clone(), decompress, hidden: hidden.clone(), route, target, slot, idx, ae: gen_ae(rng) };
        out.push(case.line());
      }
    }
  }
  out
}
