//! Chain generator.  The chain is grown inside a mock node next to a real guide index (sat index off),
//! so that the generator knows where inscriptions currently sit and can aim pointers, spends and parent
//! references at them.  The case line is the abstract chain; `run_case` rebuilds everything from it.
use super::*;

pub struct Gen {
  pub world: World,
  guide: ord::Index,
  _dir: tempfile::TempDir,
  pub case: Case,
  pub next_id: u64,
  /// spendable outputs: (canonical outpoint, value)
  pub live: Vec<((u64, u32), u64)>,
  /// inscriptions per output as the guide index reports them: (sequence number, offset)
  pub insc: HashMap<(u64, u32), Vec<(u32, u64)>>,
  /// ids of all inscriptions so far
  pub ids: Vec<(u64, u32)>,
  pub seq_id: HashMap<u32, (u64, u32)>,
}

/// one transaction to be: inputs, outputs, envelope recipes (R_INPUT set)
pub struct TxPlan {
  pub ins: Vec<(u64, u32)>,
  pub outs: Vec<(u64, bool)>,
  /// script kind per output (missing = 0: p2wpkh / bare OP_RETURN according to the flag)
  pub kinds: Vec<u64>,
  pub recipes: Vec<Vec<u64>>,
}

impl Gen {
  pub fn new(chain: u64, sats: bool, prefix: u64) -> Gen {
    let world = World::new(chain);
    let dir = scratch_dir();
    let guide = ordkit::open_index(&world.core, dir.path(), &chain_flags(chain, false));
    let mut g = Gen {
      world,
      guide,
      _dir: dir,
      case: Case { chain, sats, items: Vec::new() },
      next_id: 1,
      live: Vec::new(),
      insc: HashMap::new(),
      ids: Vec::new(),
      seq_id: HashMap::new(),
    };
    let it = Item::Empty { count: prefix, first_id: 1 };
    g.world.add_item(&it, false).expect("prefix");
    g.case.items.push(it);
    // every coinbase of the prefix except the genesis one is spendable
    for k in 1..prefix {
      g.live.push(((1 + k, 0), SUBSIDY));
    }
    g.next_id = 1 + prefix;
    g.refresh();
    g
  }

  fn refresh(&mut self) {
    self.guide.update().expect("guide update");
    let d = self.guide.verif_dump().expect("guide dump");
    self.insc.clear();
    for u in &d.outpoint_to_utxo_entry {
      let v = u.inscriptions.clone().unwrap_or_default();
      if !v.is_empty() {
        self.insc.insert(canon_outpoint(&self.world.map, &u.outpoint), v);
      }
    }
    self.ids.clear();
    self.seq_id.clear();
    for (k, e) in &d.sequence_number_to_inscription_entry {
      let id = (self.world.map.canon_of(&e.id.txid), e.id.index);
      self.ids.push(id);
      self.seq_id.insert(*k, id);
    }
  }

  pub fn value_of(&self, op: (u64, u32)) -> u64 {
    self.live.iter().find(|(o, _)| *o == op).map(|(_, v)| *v).unwrap_or(0)
  }

  /// install one block: the planned transactions and a coinbase with the given outputs
  pub fn block(&mut self, plans: Vec<TxPlan>, coinbase_outs: Vec<(u64, bool)>) {
    self.block_k(plans, coinbase_outs, vec![])
  }

  pub fn block_k(&mut self, plans: Vec<TxPlan>, coinbase_outs: Vec<(u64, bool)>, cb_kinds: Vec<u64>) {
    let mut txs = Vec::new();
    let cb = TxSpec { id: self.next_id, ins: vec![(0, NULL_VOUT)], outs: coinbase_outs, kinds: cb_kinds, envs: vec![] };
    self.next_id += 1;
    txs.push(cb);
    for p in plans {
      let envs = p
        .recipes
        .into_iter()
        .map(|recipe| EnvSpec {
          recipe,
          input: 0,
          offset: 0,
          pushnum: false,
          stutter: false,
          dup: false,
          incomplete: false,
          uneven: false,
          ptr_field: false,
          ptr: None,
          hidden: false,
          parents: vec![],
        })
        .collect();
      txs.push(TxSpec { id: self.next_id, ins: p.ins, outs: p.outs, kinds: p.kinds, envs });
      self.next_id += 1;
    }
    let filled = self.world.add_item(&Item::Block(txs), true).expect("generated block");
    for t in &filled {
      for (v, (value, opret)) in t.outs.iter().enumerate() {
        if !*opret {
          self.live.push(((t.id, v as u32), *value));
        }
      }
    }
    for t in &filled {
      for i in &t.ins {
        self.live.retain(|(o, _)| o != i);
      }
    }
    self.case.items.push(Item::Block(filled));
    self.refresh();
  }

  pub fn line(&self) -> Line {
    encode_case(&self.case)
  }
}

fn random_recipe(rng: &mut Rng, input: u64, ptr_candidates: &[u64], parent_candidates: &[(u64, u32)]) -> Vec<u64> {
  let mut r = clean_recipe(input);
  if rng.chance(1, 2) {
    // mostly clean envelopes, sometimes with a pointer or parents only
    if rng.chance(1, 3) && !ptr_candidates.is_empty() {
      r[R_PTRK] = 1;
      r[R_PTRV] = *rng.pick(ptr_candidates);
    }
  } else {
    r[R_STUTTER] = rng.chance(1, 10) as u64;
    r[R_CT] = *rng.pick(&[2, 2, 2, 1, 1, 0]);
    r[R_BODY] = *rng.pick(&[1, 1, 1, 1, 1, 1, 0, 2]);
    if rng.chance(2, 5) && !ptr_candidates.is_empty() {
      r[R_PTRK] = *rng.pick(&[1, 1, 1, 1, 1, 1, 2, 3]);
      r[R_PTRV] = *rng.pick(ptr_candidates);
    }
    if rng.chance(1, 10) {
      r[R_DUP] = if r[R_PTRK] != 0 && rng.chance(1, 2) { 2 } else { 1 };
    }
    r[R_INCOMPLETE] = rng.chance(1, 14) as u64;
    if rng.chance(1, 10) {
      r[R_EVEN] = *rng.pick(&[22, 66, 4, 254]);
    }
    r[R_ODD] = rng.chance(1, 8) as u64;
    r[R_DELEGATE] = rng.chance(1, 16) as u64;
    r[R_META] = rng.chance(1, 16) as u64;
    r[R_RUNE] = rng.chance(1, 20) as u64;
  }
  if rng.chance(1, 3) && !parent_candidates.is_empty() {
    let n = rng.range(1, 3);
    r[R_NPARENTS] = n;
    for _ in 0..n {
      let (t, i) = *rng.pick(parent_candidates);
      r.push(t);
      r.push(u64::from(i));
      r.push(*rng.pick(&[0, 0, 0, 0, 0, 0, 1, 1, 2]));
    }
  }
  r
}

/// split `total` into `n` parts (parts may be zero)
fn split(rng: &mut Rng, total: u64, n: usize) -> Vec<u64> {
  let mut cuts: Vec<u64> = (0..n - 1)
    .map(|_| match rng.below(4) {
      0 => 0,
      1 => total,
      2 => rng.below(total.min(2000) + 1),
      _ => rng.below(total + 1),
    })
    .collect();
  cuts.sort();
  let mut v = Vec::new();
  let mut prev = 0;
  for c in cuts {
    v.push(c - prev);
    prev = c;
  }
  v.push(total - prev);
  v
}

fn random_tx(g: &Gen, rng: &mut Rng, avail: &mut Vec<((u64, u32), u64)>, own_id: u64) -> Option<TxPlan> {
  if avail.is_empty() {
    return None;
  }
  let nin = (*rng.pick(&[1usize, 1, 1, 2, 2, 3])).min(avail.len());
  let mut ins = Vec::new();
  let mut values = Vec::new();
  for _ in 0..nin {
    // prefer outputs that hold inscriptions
    let inscribed: Vec<usize> = (0..avail.len()).filter(|i| g.insc.contains_key(&avail[*i].0)).collect();
    let i = if !inscribed.is_empty() && rng.chance(3, 5) { *rng.pick(&inscribed) } else { rng.below(avail.len() as u64) as usize };
    let (op, v) = avail.swap_remove(i);
    ins.push(op);
    values.push(v);
  }
  let total: u64 = values.iter().sum();
  let fee = match rng.below(10) {
    0..=3 => 0,
    4 | 5 => rng.below(total.min(3000) + 1),
    6 | 7 => rng.below(total + 1),
    8 => total,
    _ => total.min(1),
  };
  let nout = *rng.pick(&[1usize, 1, 2, 2, 3]);
  let mut vals = split(rng, total - fee, nout);
  // small first outputs make offsets collide more often
  if rng.chance(1, 4) && vals.len() > 1 {
    let small = *rng.pick(&[1u64, 2, 546, 1000, 10_000]);
    let s: u64 = vals[0] + vals[1];
    if s >= small {
      vals[0] = small;
      vals[1] = s - small;
    }
  }
  let mut outs: Vec<(u64, bool)> = vals.into_iter().map(|v| (v, false)).collect();
  if rng.chance(1, 5) {
    let k = rng.below(outs.len() as u64) as usize;
    if rng.chance(1, 2) {
      outs[k].1 = true;
    } else {
      outs.insert(k, (0, true));
    }
  }
  // output scripts other than p2wpkh / bare OP_RETURN: empty, reserved / invalid first opcodes, OP_RETURN + data,
  // OP_RETURN not in first position, p2tr, p2pkh (the flag is recomputed from the script bytes when the block is filled)
  let mut kinds = vec![0u64; outs.len()];
  if rng.chance(1, 2) {
    for k in 0..outs.len() {
      if rng.chance(1, 2) {
        kinds[k] = 1 + rng.below(SCRIPT_KINDS - 1);
        outs[k].1 = first_byte_is_op_return(&script_bytes(kinds[k], false));
      }
    }
  }
  // two or three outputs whose script starts with OP_RETURN (bare or with data), zero-value and value-carrying, at
  // any position including first and last: a burn is decided per output, not once per transaction
  if rng.chance(1, 4) {
    let n_or = 2 + rng.below(2);
    for _ in 0..n_or {
      let kind = if rng.chance(1, 2) { 0 } else { 5 };
      match rng.below(3) {
        0 => {
          let k = rng.below(outs.len() as u64) as usize;
          outs[k].1 = true;
          kinds[k] = kind;
        }
        1 => {
          let k = rng.below(outs.len() as u64 + 1) as usize;
          outs.insert(k, (0, true));
          kinds.insert(k, kind);
        }
        _ => {
          let k = rng.below(outs.len() as u64) as usize;
          let v = outs[k].0;
          if v > 1 {
            let a = 1 + rng.below(v - 1);
            outs[k].0 = v - a;
            let at = if rng.chance(1, 2) { k } else { k + 1 };
            outs.insert(at, (a, true));
            kinds.insert(at, kind);
          }
        }
      }
    }
  }
  let tov: u64 = outs.iter().map(|(v, _)| *v).sum();
  // pointer candidates
  let mut starts = Vec::new();
  let mut acc = 0;
  for v in &values {
    starts.push(acc);
    acc += v;
  }
  let mut ptrs: Vec<u64> = vec![0, 1, tov.saturating_sub(1), tov, tov + 3];
  for (j, op) in ins.iter().enumerate() {
    ptrs.push(starts[j]);
    ptrs.push(starts[j] + 1);
    if let Some(l) = g.insc.get(op) {
      for (_, off) in l {
        // aimed at inscribed sats: several copies
        for _ in 0..4 {
          ptrs.push(starts[j] + off);
        }
      }
    }
  }
  let mut b = 0;
  for (v, _) in &outs {
    b += v;
    ptrs.push(b);
    ptrs.push(b.saturating_sub(1));
  }
  if tov > 0 {
    ptrs.push(rng.below(tov));
  }
  // parent candidates
  let mut parents: Vec<(u64, u32)> = Vec::new();
  for op in &ins {
    if let Some(l) = g.insc.get(op) {
      for (s, _) in l {
        if let Some(id) = g.seq_id.get(s) {
          for _ in 0..3 {
            parents.push(*id);
          }
        }
      }
    }
  }
  if !g.ids.is_empty() {
    parents.push(*rng.pick(&g.ids));
  }
  parents.push((FAKE_BASE + rng.below(5), rng.below(3) as u32));
  // inscriptions of this very transaction (itself, an earlier or a later sibling): only those already in
  // id_to_sequence_number when the child is written are recorded / reported in the event
  if rng.chance(1, 3) {
    for _ in 0..2 {
      parents.push((own_id, rng.below(3) as u32));
    }
  }
  let mut recipes = Vec::new();
  for j in 0..nin {
    let n = *rng.pick(&[0, 0, 0, 1, 1, 1, 1, 2, 2, 3]);
    for _ in 0..n {
      recipes.push(random_recipe(rng, j as u64, &ptrs, &parents));
    }
  }
  Some(TxPlan { kinds, ins, outs, recipes })
}

fn coinbase_outs(rng: &mut Rng, fees: u64) -> Vec<(u64, bool)> {
  let reward = SUBSIDY + fees;
  match rng.below(12) {
    0..=4 => vec![(reward, false)],
    5 => {
      let a = rng.below(reward + 1);
      vec![(a, false), (reward - a, false)]
    }
    6 => vec![(SUBSIDY, false), (fees, false)],
    7 => vec![(reward - fees.min(1), false)],
    8 => vec![(reward - fees / 2, false)],
    9 => vec![(SUBSIDY, false)],
    10 => vec![(SUBSIDY - SUBSIDY.min(1000), false)],
    _ => {
      let a = rng.below(fees + 1);
      vec![(SUBSIDY, true), (a, false)]
    }
  }
}

fn random_chain(prop: &str, rng: &mut Rng) -> Line {
  let chain = if rng.chance(1, 7) { 1 } else { 0 };
  let sats = match prop {
    "C03" | "C06" => rng.chance(3, 4),
    _ => rng.chance(1, 2),
  };
  let prefix = if chain == 0 && rng.chance(1, 6) { rng.range(103, 109) } else { rng.range(2, 5) };
  let mut g = Gen::new(chain, sats, prefix);
  let nblocks = rng.range(3, 9);
  for _ in 0..nblocks {
    let ntx = *rng.pick(&[0usize, 1, 1, 2, 2, 3, 4]);
    let mut plans = Vec::new();
    let mut avail = g.live.clone();
    let mut fees = 0;
    for _ in 0..ntx {
      let own_id = g.next_id + 1 + plans.len() as u64;
      if let Some(p) = random_tx(&g, rng, &mut avail, own_id) {
        let tin: u64 = p.ins.iter().map(|op| g.value_of(*op).max(avail_value(&plans, &g, *op))).sum();
        let tout: u64 = p.outs.iter().map(|(v, _)| *v).sum();
        fees += tin - tout;
        // outputs of this transaction can be spent later in the same block
        let id = g.next_id + 1 + plans.len() as u64;
        for (v, (value, opret)) in p.outs.iter().enumerate() {
          if !*opret && rng.chance(1, 2) {
            avail.push(((id, v as u32), *value));
          }
        }
        plans.push(p);
      }
    }
    let cb = coinbase_outs(rng, fees);
    let cb_kinds = if rng.chance(1, 3) { cb.iter().map(|_| if rng.chance(1, 2) { 1 + rng.below(SCRIPT_KINDS - 1) } else { 0 }).collect() } else { vec![] };
    g.block_k(plans, cb, cb_kinds);
  }
  g.line()
}

/// value of an output created earlier in the block being planned
fn avail_value(plans: &[TxPlan], g: &Gen, op: (u64, u32)) -> u64 {
  let base = g.next_id + 1;
  if op.0 >= base {
    let k = (op.0 - base) as usize;
    if let Some(p) = plans.get(k) {
      return p.outs.get(op.1 as usize).map(|(v, _)| *v).unwrap_or(0);
    }
  }
  0
}

// ------------------------------------------------------------------ fixed scenarios

fn recipe_ptr(input: u64, p: u64) -> Vec<u64> {
  let mut r = clean_recipe(input);
  r[R_PTRK] = 1;
  r[R_PTRV] = p;
  r
}

/// DESIGN section 10: an envelope in input 0 whose pointer is the first sat of input 1, which already
/// carries inscription A
pub fn scenario_fwd_pointer(sats: bool) -> Line {
  let mut g = Gen::new(0, sats, 4);
  // A on the first sat of (3,0)
  g.block(vec![TxPlan { kinds: vec![], ins: vec![(3, 0)], outs: vec![(SUBSIDY, false)], recipes: vec![clean_recipe(0)] }], vec![(SUBSIDY, false)]);
  let a_out = (g.next_id - 1, 0);
  // B in input 0 = (2,0) with pointer to the first sat of input 1 = A's output
  g.block(
    vec![TxPlan { kinds: vec![], ins: vec![(2, 0), a_out], outs: vec![(2 * SUBSIDY, false)], recipes: vec![recipe_ptr(0, SUBSIDY)] }],
    vec![(SUBSIDY, false)],
  );
  g.line()
}

/// the mirrored situation (pointer into an EARLIER input): flagged
pub fn scenario_back_pointer(sats: bool) -> Line {
  let mut g = Gen::new(0, sats, 4);
  g.block(vec![TxPlan { kinds: vec![], ins: vec![(3, 0)], outs: vec![(SUBSIDY, false)], recipes: vec![clean_recipe(0)] }], vec![(SUBSIDY, false)]);
  let a_out = (g.next_id - 1, 0);
  g.block(
    vec![TxPlan { kinds: vec![], ins: vec![a_out, (2, 0)], outs: vec![(2 * SUBSIDY, false)], recipes: vec![recipe_ptr(1, 0)] }],
    vec![(SUBSIDY, false)],
  );
  g.line()
}

/// reveal spent entirely to fees; coinbase under-claims so that one inscription is lost; a child naming
/// its parent; an OP_RETURN burn; a zero-value input
pub fn scenario_mixed(sats: bool, chain: u64) -> Line {
  let mut g = Gen::new(chain, sats, 5);
  g.block(
    vec![
      TxPlan { kinds: vec![], ins: vec![(2, 0)], outs: vec![(1000, false), (0, false), (SUBSIDY - 1000, false)], recipes: vec![clean_recipe(0), clean_recipe(0)] },
      TxPlan { kinds: vec![], ins: vec![(3, 0)], outs: vec![(10, false)], recipes: vec![recipe_ptr(0, 5000)] },
    ],
    vec![(SUBSIDY + 100, false)],
  );
  let t1 = g.next_id - 2;
  let mut child = clean_recipe(0);
  child[R_NPARENTS] = 2;
  child.extend_from_slice(&[t1, 0, 0, t1, 0, 1]);
  g.block(
    vec![
      TxPlan { kinds: vec![], ins: vec![(t1, 0)], outs: vec![(0, true), (1000, false)], recipes: vec![child] },
      TxPlan { kinds: vec![], ins: vec![(t1, 1)], outs: vec![(0, false)], recipes: vec![clean_recipe(0)] },
    ],
    vec![(SUBSIDY, false)],
  );
  g.line()
}

/// parents inside one transaction: envelope 0 names itself and its later sibling (neither is in
/// id_to_sequence_number yet: not recorded, not in the event), envelope 1 names its earlier sibling (recorded)
pub fn scenario_sibling_parents(sats: bool) -> Line {
  let mut g = Gen::new(0, sats, 4);
  let own = g.next_id + 1;
  let mut first = clean_recipe(0);
  first[R_NPARENTS] = 2;
  first.extend_from_slice(&[own, 0, 0, own, 1, 0]);
  let mut second = clean_recipe(0);
  second[R_NPARENTS] = 2;
  second.extend_from_slice(&[own, 0, 0, own, 2, 0]);
  g.block(
    vec![TxPlan { kinds: vec![], ins: vec![(3, 0)], outs: vec![(1000, false), (SUBSIDY - 1000, false)], recipes: vec![first, second, recipe_ptr(0, 1000)] }],
    vec![(SUBSIDY, false)],
  );
  g.line()
}

/// the jubilee boundary on regtest (110): the same reveal (two envelopes in one input: the second is not at offset
/// zero) at heights 109, 110 and 111: cursed with a negative number below the jubilee, vindicated and blessed from
/// exactly the jubilee height on. (testnet4's jubilee is 0: every height is jubilant, the genesis block reveals nothing.)
pub fn scenario_jubilee() -> Line {
  let mut g = Gen::new(0, false, 109);
  for k in 0..3u64 {
    g.block(
      vec![TxPlan { kinds: vec![], ins: vec![(2 + k, 0)], outs: vec![(SUBSIDY, false)], recipes: vec![clean_recipe(0), clean_recipe(0)] }],
      vec![(SUBSIDY, false)],
    );
  }
  g.line()
}

/// several OP_RETURN outputs in one transaction: A is revealed at offset 600 of its output; the next transaction has
/// three value-carrying OP_RETURN-first-byte outputs (bare, with data, bare): A is carried (fifo) into the second,
/// a new inscription is pointed into the third, another one into the first; all three are Burned.
pub fn scenario_two_op_returns(sats: bool) -> Line {
  let mut g = Gen::new(0, sats, 4);
  g.block(
    vec![TxPlan { kinds: vec![], ins: vec![(3, 0)], outs: vec![(SUBSIDY, false)], recipes: vec![recipe_ptr(0, 600)] }],
    vec![(SUBSIDY, false)],
  );
  let t = g.next_id - 1;
  g.block(
    vec![TxPlan {
      kinds: vec![0, 5, 0, 0],
      ins: vec![(t, 0)],
      outs: vec![(500, true), (500, true), (500, true), (SUBSIDY - 1500, false)],
      recipes: vec![recipe_ptr(0, 1200), recipe_ptr(0, 100)],
    }],
    vec![(SUBSIDY, false)],
  );
  g.line()
}

/// output scripts: a reveal whose three inscriptions land (pointers) on an OP_RESERVED.. output, an
/// `OP_1 OP_RETURN ..` output and an `OP_RETURN data` output; then the first two are moved (fifo) onto an
/// invalid-opcode output and an empty script. Burned exactly for the script whose first byte is OP_RETURN.
pub fn scenario_scripts(sats: bool) -> Line {
  let mut g = Gen::new(0, sats, 4);
  g.block(
    vec![TxPlan {
      kinds: vec![2, 6, 5, 0],
      ins: vec![(3, 0)],
      outs: vec![(1000, false), (1000, false), (1000, false), (SUBSIDY - 3000, false)],
      recipes: vec![clean_recipe(0), recipe_ptr(0, 1000), recipe_ptr(0, 2000)],
    }],
    vec![(SUBSIDY, false)],
  );
  let t = g.next_id - 1;
  g.block(
    vec![TxPlan { kinds: vec![4, 1, 9], ins: vec![(t, 0), (t, 1)], outs: vec![(1000, false), (500, false), (500, false)], recipes: vec![recipe_ptr(0, 1500)] }],
    vec![(SUBSIDY, false)],
  );
  g.line()
}

pub fn generate(prop: &str, rng: &mut Rng, tier: &str) -> Vec<Line> {
  let n = if tier == "thorough" { 600 } else if tier == "one" { 1 } else { 36 };
  let mut v = vec![
    scenario_fwd_pointer(true),
    scenario_fwd_pointer(false),
    scenario_back_pointer(true),
    scenario_mixed(true, 0),
    scenario_mixed(false, 1),
    scenario_sibling_parents(false),
    scenario_scripts(true),
    scenario_jubilee(),
    scenario_two_op_returns(true),
  ];
  for _ in 0..n {
    v.push(random_chain(prop, rng));
  }
  v
}
