//! Harness for the inscription-index properties C03..C07.
//!
//! A case is an abstract chain (same wire format as coq/Index/Inscr.v parse_case):
//!   chain sats item*
//!   item: 0 count first_id        `count` empty blocks (coinbase = one output claiming the subsidy);
//!                                 the very first one is the genesis block of the network
//!         1 ntx tx*               tx: id nin (ptx pvout)* nout (value script)* nenv env*
//!                                 script = 2*kind + f: kind selects the output script the harness builds
//!                                 (SCRIPT_KINDS below; kind 0: f = 0 p2wpkh, f = 1 a bare OP_RETURN), f = 1 iff
//!                                 the first byte of that script is 0x6a (computed here from the script bytes,
//!                                 checked at replay); the model reads only f
//!   env:  nrecipe recipe*  input offset pushnum stutter dup incomplete uneven ptr_field ptr_opt hidden
//!         nparents (ptx pidx)*
//! Transaction ids are canonical small integers in creation order (0 = all-zero txid).  The recipe
//! (ignored by the model) says how the harness builds the envelope script; the fields after it are what
//! `ord::ParsedEnvelope::from_transaction` reports for the script built from the recipe (checked again
//! at replay).  The harness builds the real transactions, installs the blocks into an in-process mock
//! node, runs a real `ord::Index` over them and prints the canonicalised table dump in the format of
//! Inscr.emit_state.
use hxlib::*;
use std::collections::{BTreeSet, HashMap};

mod gen;
mod oracle;

pub const NULL_VOUT: u32 = u32::MAX;
pub const FAKE_BASE: u64 = 0x1000_0000;
pub const SUBSIDY: u64 = 50 * 100_000_000;

#[derive(Clone, Debug, PartialEq)]
pub struct EnvSpec {
  pub recipe: Vec<u64>,
  pub input: u32,
  pub offset: u32,
  pub pushnum: bool,
  pub stutter: bool,
  pub dup: bool,
  pub incomplete: bool,
  pub uneven: bool,
  pub ptr_field: bool,
  pub ptr: Option<u64>,
  pub hidden: bool,
  pub parents: Vec<(u64, u32)>,
}

#[derive(Clone, Debug)]
pub struct TxSpec {
  pub id: u64,
  pub ins: Vec<(u64, u32)>,
  pub outs: Vec<(u64, bool)>,
  /// script kind per output (missing = 0)
  pub kinds: Vec<u64>,
  pub envs: Vec<EnvSpec>,
}

impl TxSpec {
  pub fn kind(&self, i: usize) -> u64 {
    self.kinds.get(i).copied().unwrap_or(0)
  }
}

pub const SCRIPT_KINDS: u64 = 13;

/// the output script of a kind, as raw bytes (`f` matters for kind 0 only)
pub fn script_bytes(kind: u64, f: bool) -> Vec<u8> {
  let h20 = [0x11u8; 20];
  let h32 = [0x22u8; 32];
  let mut v: Vec<u8> = Vec::new();
  match kind {
    0 => {
      if f {
        v.push(0x6a); // OP_RETURN alone
      } else {
        v.extend_from_slice(&[0x00, 0x14]); // p2wpkh of the all-zero hash
        v.extend_from_slice(&[0u8; 20]);
      }
    }
    1 => {}                                            // empty script
    2 => v.extend_from_slice(&[0x50, 0x03, 1, 2, 3]),  // OP_RESERVED + data
    3 => v.extend_from_slice(&[0x62, 0x02, 9, 9]),     // OP_VER + data
    4 => v.extend_from_slice(&[0xff, 0x01, 0x02, 0x03]), // invalid opcode + bytes
    5 => v.extend_from_slice(&[0x6a, 0x04, b'd', b'a', b't', b'a']), // OP_RETURN + data
    6 => v.extend_from_slice(&[0x51, 0x6a, 0x02, 7, 7]), // OP_1 OP_RETURN ..: OP_RETURN not first
    7 => {
      v.extend_from_slice(&[0x51, 0x20]); // p2tr
      v.extend_from_slice(&h32);
    }
    8 => {
      v.extend_from_slice(&[0x76, 0xa9, 0x14]); // p2pkh
      v.extend_from_slice(&h20);
      v.extend_from_slice(&[0x88, 0xac]);
    }
    9 => v.extend_from_slice(&[0x65, 0x01, 0x00]),     // OP_VERIF + data
    10 => v.extend_from_slice(&[0xbb, 0xbb, 0xbb]),    // undefined opcodes
    11 => v.extend_from_slice(&[0x89, 0x01, 0x05]),    // OP_RESERVED1 + data
    _ => v.extend_from_slice(&[0x00, 0x6a]),           // OP_0 OP_RETURN: OP_RETURN second
  }
  v
}

/// the harness's own rule for the flag handed to the model: the script's first byte is OP_RETURN (0x6a)
pub fn first_byte_is_op_return(script: &[u8]) -> bool {
  script.first() == Some(&0x6a)
}

#[derive(Clone, Debug)]
pub enum Item {
  Empty { count: u64, first_id: u64 },
  Block(Vec<TxSpec>),
}

#[derive(Clone, Debug)]
pub struct Case {
  pub chain: u64,
  pub sats: bool,
  pub items: Vec<Item>,
}

// ------------------------------------------------------------------ wire

pub fn encode_case(c: &Case) -> Line {
  let mut l = L::new();
  l.push(c.chain);
  l.push(c.sats);
  for it in &c.items {
    match it {
      Item::Empty { count, first_id } => {
        l.push(0u8);
        l.push(*count);
        l.push(*first_id);
      }
      Item::Block(txs) => {
        l.push(1u8);
        l.push(txs.len());
        for t in txs {
          l.push(t.id);
          l.push(t.ins.len());
          for (a, b) in &t.ins {
            l.push(*a);
            l.push(*b);
          }
          l.push(t.outs.len());
          for (i, (v, o)) in t.outs.iter().enumerate() {
            l.push(*v);
            l.push(2 * t.kind(i) + *o as u64);
          }
          l.push(t.envs.len());
          for e in &t.envs {
            l.push(e.recipe.len());
            for r in &e.recipe {
              l.push(*r);
            }
            l.push(e.input);
            l.push(e.offset);
            l.push(e.pushnum);
            l.push(e.stutter);
            l.push(e.dup);
            l.push(e.incomplete);
            l.push(e.uneven);
            l.push(e.ptr_field);
            l.opt(e.ptr);
            l.push(e.hidden);
            l.push(e.parents.len());
            for (a, b) in &e.parents {
              l.push(*a);
              l.push(*b);
            }
          }
        }
      }
    }
  }
  l.done()
}

pub fn decode_case(line: &Line) -> Case {
  let mut c = Cur::new(line);
  let chain = c.u64();
  let sats = c.bool();
  let mut items = Vec::new();
  while !c.at_end() {
    if c.u64() == 0 {
      let count = c.u64();
      let first_id = c.u64();
      items.push(Item::Empty { count, first_id });
    } else {
      let ntx = c.usize();
      let mut txs = Vec::new();
      for _ in 0..ntx {
        let id = c.u64();
        let nin = c.usize();
        let ins = (0..nin).map(|_| (c.u64(), c.u32())).collect();
        let nout = c.usize();
        let raw: Vec<(u64, u64)> = (0..nout).map(|_| (c.u64(), c.u64())).collect();
        let outs = raw.iter().map(|(v, f)| (*v, f & 1 == 1)).collect();
        let kinds = raw.iter().map(|(_, f)| f >> 1).collect();
        let nenv = c.usize();
        let mut envs = Vec::new();
        for _ in 0..nenv {
          let nr = c.usize();
          let recipe = (0..nr).map(|_| c.u64()).collect();
          let input = c.u32();
          let offset = c.u32();
          let pushnum = c.bool();
          let stutter = c.bool();
          let dup = c.bool();
          let incomplete = c.bool();
          let uneven = c.bool();
          let ptr_field = c.bool();
          let ptr = if c.bool() { Some(c.u64()) } else { None };
          let hidden = c.bool();
          let np = c.usize();
          let parents = (0..np).map(|_| (c.u64(), c.u32())).collect();
          envs.push(EnvSpec { recipe, input, offset, pushnum, stutter, dup, incomplete, uneven, ptr_field, ptr, hidden, parents });
        }
        txs.push(TxSpec { id, ins, outs, kinds, envs });
      }
      items.push(Item::Block(txs));
    }
  }
  Case { chain, sats, items }
}

// ------------------------------------------------------------------ realisation

/// canonical <-> real transaction ids
#[derive(Default)]
pub struct TxMap {
  pub real: HashMap<u64, bitcoin::Txid>,
  pub canon: HashMap<bitcoin::Txid, u64>,
}

impl TxMap {
  pub fn bind(&mut self, c: u64, t: bitcoin::Txid) {
    self.real.insert(c, t);
    self.canon.insert(t, c);
  }
  /// real txid of a canonical id; unknown ids (parents naming transactions that do not exist) get a
  /// fixed fake txid derived from the number
  pub fn real_of(&mut self, c: u64) -> bitcoin::Txid {
    use bitcoin::hashes::Hash;
    if c == 0 {
      return bitcoin::Txid::all_zeros();
    }
    if let Some(t) = self.real.get(&c) {
      return *t;
    }
    let mut b = [0xabu8; 32];
    b[..8].copy_from_slice(&c.to_le_bytes());
    let t = bitcoin::Txid::from_byte_array(b);
    self.bind(c, t);
    t
  }
  pub fn canon_of(&self, t: &bitcoin::Txid) -> u64 {
    use bitcoin::hashes::Hash;
    if *t == bitcoin::Txid::all_zeros() {
      0
    } else {
      *self.canon.get(t).unwrap_or(&0xdead_0000_0000)
    }
  }
}

// recipe layout
pub const R_INPUT: usize = 0;
pub const R_STUTTER: usize = 1;
pub const R_CT: usize = 2; // 0 none, 1 text/plain, 2 image/png
pub const R_BODY: usize = 3; // 0 none, 1 data push, 2 pushnum opcode
pub const R_PTRK: usize = 4; // 0 none, 1 minimal, 2 zero-padded to 10 bytes, 3 nine bytes with a non-zero ninth
pub const R_PTRV: usize = 5;
pub const R_DUP: usize = 6; // 0 none, 1 odd tag 99 twice, 2 pointer tag twice
pub const R_INCOMPLETE: usize = 7;
pub const R_EVEN: usize = 8; // 0 none, else an even tag number
pub const R_ODD: usize = 9;
pub const R_DELEGATE: usize = 10;
pub const R_META: usize = 11;
pub const R_RUNE: usize = 12;
pub const R_NPARENTS: usize = 13; // then (ctxid, index, encoding)*; encoding 0 minimal, 1 four bytes, 2 invalid

pub fn clean_recipe(input: u64) -> Vec<u64> {
  let mut r = vec![0u64; 14];
  r[R_INPUT] = input;
  r[R_CT] = 2;
  r[R_BODY] = 1;
  r
}

fn pb(b: &[u8]) -> bitcoin::script::PushBytesBuf {
  bitcoin::script::PushBytesBuf::try_from(b.to_vec()).unwrap()
}

fn parent_value(txid: bitcoin::Txid, index: u32, enc: u64) -> Vec<u8> {
  use bitcoin::hashes::Hash;
  let mut v = txid.to_byte_array().to_vec();
  let le = index.to_le_bytes();
  match enc {
    1 => v.extend_from_slice(&le),
    2 => {
      // three index bytes ending in zero: rejected by InscriptionId::from_value
      v.extend_from_slice(&[le[0] | 1, le[1], 0]);
    }
    _ => {
      let mut s = le.to_vec();
      while s.last() == Some(&0) {
        s.pop();
      }
      v.extend_from_slice(&s);
    }
  }
  v
}

fn append_envelope(mut b: bitcoin::script::Builder, r: &[u64], map: &mut TxMap) -> bitcoin::script::Builder {
  use bitcoin::opcodes::{all::*, OP_FALSE};
  if r[R_STUTTER] != 0 {
    b = b.push_opcode(OP_FALSE);
  }
  b = b.push_opcode(OP_FALSE).push_opcode(OP_IF).push_slice(pb(b"ord"));
  match r[R_CT] {
    1 => b = b.push_slice(pb(&[1])).push_slice(pb(b"text/plain")),
    2 => b = b.push_slice(pb(&[1])).push_slice(pb(b"image/png")),
    _ => {}
  }
  if r[R_PTRK] != 0 {
    let mut v = r[R_PTRV].to_le_bytes().to_vec();
    match r[R_PTRK] {
      1 => {
        while v.last() == Some(&0) {
          v.pop();
        }
      }
      2 => v.extend_from_slice(&[0, 0]),
      _ => v.push(7),
    }
    b = b.push_slice(pb(&[2])).push_slice(pb(&v));
    if r[R_DUP] == 2 {
      b = b.push_slice(pb(&[2])).push_slice(pb(&v));
    }
  }
  let np = r[R_NPARENTS] as usize;
  for k in 0..np {
    let (ct, idx, enc) = (r[14 + 3 * k], r[15 + 3 * k] as u32, r[16 + 3 * k]);
    let txid = map.real_of(ct);
    b = b.push_slice(pb(&[3])).push_slice(pb(&parent_value(txid, idx, enc)));
  }
  if r[R_META] != 0 {
    b = b.push_slice(pb(&[7])).push_slice(pb(b"m"));
  }
  if r[R_DELEGATE] != 0 {
    b = b.push_slice(pb(&[11])).push_slice(pb(&[0x11; 32]));
  }
  if r[R_RUNE] != 0 {
    b = b.push_slice(pb(&[13])).push_slice(pb(&[1]));
  }
  if r[R_ODD] != 0 {
    b = b.push_slice(pb(&[101])).push_slice(pb(b"o"));
  }
  if r[R_DUP] == 1 {
    b = b.push_slice(pb(&[99])).push_slice(pb(b"a")).push_slice(pb(&[99])).push_slice(pb(b"b"));
  }
  if r[R_EVEN] != 0 {
    b = b.push_slice(pb(&[r[R_EVEN] as u8])).push_slice(pb(b"e"));
  }
  if r[R_INCOMPLETE] != 0 {
    b = b.push_slice(pb(&[103]));
  }
  match r[R_BODY] {
    1 => b = b.push_slice(pb(&[])).push_slice(pb(b"hi")),
    2 => b = b.push_slice(pb(&[])).push_opcode(OP_PUSHNUM_1),
    _ => {}
  }
  b.push_opcode(OP_ENDIF)
}

/// build the real transaction of a spec (`height` only feeds the coinbase script_sig)
pub fn realise_tx(t: &TxSpec, height: usize, map: &mut TxMap) -> bitcoin::Transaction {
  // the txid does not cover the witnesses: bind it first, so that an envelope can name an inscription of its
  // own transaction (a sibling revealed later, or itself) as a parent
  let bare = realise_tx_pass(t, height, map, false);
  map.bind(t.id, bare.compute_txid());
  realise_tx_pass(t, height, map, true)
}

fn realise_tx_pass(t: &TxSpec, height: usize, map: &mut TxMap, with_witness: bool) -> bitcoin::Transaction {
  let coinbase = t.ins.first().map(|(a, b)| *a == 0 && *b == NULL_VOUT).unwrap_or(false);
  let mut input = Vec::new();
  for (i, (ptx, pvout)) in t.ins.iter().enumerate() {
    let mut witness = bitcoin::Witness::new();
    let mine: Vec<&EnvSpec> =
      if with_witness { t.envs.iter().filter(|e| e.recipe[R_INPUT] as usize == i).collect() } else { Vec::new() };
    if !mine.is_empty() {
      let mut b = bitcoin::script::Builder::new();
      for e in mine {
        b = append_envelope(b, &e.recipe, map);
      }
      witness.push(b.into_script().as_bytes());
      witness.push([]);
    }
    input.push(bitcoin::TxIn {
      previous_output: bitcoin::OutPoint { txid: map.real_of(*ptx), vout: *pvout },
      script_sig: if coinbase {
        bitcoin::script::Builder::new().push_int(height as i64).push_int(0x5eed).into_script()
      } else {
        bitcoin::ScriptBuf::new()
      },
      sequence: bitcoin::Sequence::MAX,
      witness,
    });
  }
  bitcoin::Transaction {
    version: bitcoin::transaction::Version(2),
    lock_time: bitcoin::absolute::LockTime::ZERO,
    input,
    output: t
      .outs
      .iter()
      .enumerate()
      .map(|(i, (v, o))| bitcoin::TxOut {
        value: bitcoin::Amount::from_sat(*v),
        script_pubkey: bitcoin::ScriptBuf::from_bytes(script_bytes(t.kind(i), *o)),
      })
      .collect(),
  }
}

/// what the real parser reports for the transaction, canonicalised; recipes are attached in order
pub fn parsed_envs(tx: &bitcoin::Transaction, recipes: &[Vec<u64>], map: &TxMap) -> Result<Vec<EnvSpec>, String> {
  let parsed = ord::ParsedEnvelope::from_transaction(tx);
  if parsed.len() != recipes.len() {
    return Err(format!("parser found {} envelopes for {} recipes", parsed.len(), recipes.len()));
  }
  Ok(
    parsed
      .iter()
      .zip(recipes)
      .map(|(e, r)| EnvSpec {
        recipe: r.clone(),
        input: e.input,
        offset: e.offset,
        pushnum: e.pushnum,
        stutter: e.stutter,
        dup: e.payload.duplicate_field,
        incomplete: e.payload.incomplete_field,
        uneven: e.payload.unrecognized_even_field,
        ptr_field: e.payload.pointer.is_some(),
        ptr: e.payload.pointer(),
        hidden: e.payload.hidden(),
        parents: e.payload.parents().iter().map(|p| (map.canon_of(&p.txid), p.index)).collect(),
      })
      .collect(),
  )
}

/// append a block to the mock node (what mockcore's State::mine_block does, with our transactions)
pub fn install_block(core: &mockcore::Handle, txdata: Vec<bitcoin::Transaction>) {
  use bitcoin::hashes::Hash;
  let mut st = core.state();
  let height = st.hashes.len();
  let block = bitcoin::Block {
    header: bitcoin::block::Header {
      version: bitcoin::block::Version::ONE,
      prev_blockhash: *st.hashes.last().unwrap(),
      merkle_root: bitcoin::TxMerkleNode::all_zeros(),
      time: height as u32,
      bits: bitcoin::CompactTarget::from_consensus(0),
      nonce: st.nonce,
    },
    txdata,
  };
  for tx in &block.txdata {
    let txid = tx.compute_txid();
    st.transactions.insert(txid, tx.clone());
    st.txid_to_block_height.insert(txid, height as u32);
    for input in &tx.input {
      if !input.previous_output.is_null() {
        st.utxos.remove(&input.previous_output);
      }
    }
    for (vout, out) in tx.output.iter().enumerate() {
      if !out.script_pubkey.is_op_return() {
        st.utxos.insert(bitcoin::OutPoint { txid, vout: vout as u32 }, out.value);
      }
    }
  }
  let hash = block.block_hash();
  st.blocks.insert(hash, block);
  st.hashes.push(hash);
  st.nonce += 1;
}

pub struct World {
  pub core: mockcore::Handle,
  pub map: TxMap,
  /// per height the transaction specs (coinbase first) with their real transactions
  pub blocks: Vec<Vec<(TxSpec, bitcoin::Transaction)>>,
}

pub fn network_of(chain: u64) -> bitcoin::Network {
  if chain == 0 {
    bitcoin::Network::Regtest
  } else {
    bitcoin::Network::Testnet4
  }
}

pub fn chain_flags(chain: u64, sats: bool) -> Vec<&'static str> {
  let mut f = Vec::new();
  if chain != 0 {
    f.push("--testnet4");
  }
  if sats {
    f.push("--index-sats");
  }
  f
}

pub fn jubilee_of(chain: u64) -> u32 {
  if chain == 0 {
    110
  } else {
    0
  }
}

pub fn empty_coinbase(id: u64) -> TxSpec {
  TxSpec { id, ins: vec![(0, NULL_VOUT)], outs: vec![(SUBSIDY, false)], kinds: vec![], envs: vec![] }
}

impl World {
  pub fn new(chain: u64) -> World {
    World { core: mockcore::builder().network(network_of(chain)).build(), map: TxMap::default(), blocks: Vec::new() }
  }

  pub fn height(&self) -> usize {
    self.blocks.len()
  }

  /// add the blocks of one item; returns realisation problems
  pub fn add_item(&mut self, it: &Item, fill: bool) -> Result<Vec<TxSpec>, String> {
    match it {
      Item::Empty { count, first_id } => {
        for k in 0..*count {
          let spec = empty_coinbase(first_id + k);
          if self.blocks.is_empty() {
            // the genesis block of the network is already there
            let g = {
              let st = self.core.state();
              st.blocks[&st.hashes[0]].txdata[0].clone()
            };
            if g.output.len() != 1 || g.output[0].value.to_sat() != SUBSIDY {
              return Err("unexpected genesis coinbase shape".into());
            }
            self.map.bind(spec.id, g.compute_txid());
            self.blocks.push(vec![(spec, g)]);
          } else {
            let tx = realise_tx(&spec, self.height(), &mut self.map);
            self.map.bind(spec.id, tx.compute_txid());
            install_block(&self.core, vec![tx.clone()]);
            self.blocks.push(vec![(spec, tx)]);
          }
        }
        Ok(Vec::new())
      }
      Item::Block(txs) => {
        if self.blocks.is_empty() {
          return Err("a chain must start with the genesis block (item 0)".into());
        }
        let mut built = Vec::new();
        for t in txs {
          if self.map.real.contains_key(&t.id) {
            return Err(format!("canonical txid {} used twice", t.id));
          }
          let mut t = t.clone();
          for i in 0..t.outs.len() {
            let f = first_byte_is_op_return(&script_bytes(t.kind(i), t.outs[i].1));
            if fill {
              t.outs[i].1 = f;
            } else if t.outs[i].1 != f {
              return Err(format!("tx {} output {i}: script kind {} starts with OP_RETURN: {f}, the case declares {}", t.id, t.kind(i), t.outs[i].1));
            }
          }
          let t = &t;
          let tx = realise_tx(t, self.height(), &mut self.map);
          self.map.bind(t.id, tx.compute_txid());
          let recipes: Vec<Vec<u64>> = t.envs.iter().map(|e| e.recipe.clone()).collect();
          let parsed = parsed_envs(&tx, &recipes, &self.map)?;
          if !fill && parsed != t.envs {
            return Err(format!("tx {}: the parser reports {:?}, the case declares {:?}", t.id, parsed, t.envs));
          }
          let mut t = t.clone();
          t.envs = parsed;
          built.push((t, tx));
        }
        install_block(&self.core, built.iter().map(|(_, tx)| tx.clone()).collect());
        let specs = built.iter().map(|(t, _)| t.clone()).collect();
        self.blocks.push(built);
        Ok(specs)
      }
    }
  }
}

// ------------------------------------------------------------------ observation

pub fn scratch_dir() -> tempfile::TempDir {
  if std::path::Path::new("/dev/shm").is_dir() {
    tempfile::tempdir_in("/dev/shm").unwrap()
  } else {
    tempfile::tempdir().unwrap()
  }
}

pub fn stat(dump: &ord::index::verif::Dump, key: u64) -> u64 {
  dump.statistic_to_count.iter().find(|(k, _)| *k == key).map(|(_, v)| *v).unwrap_or(0)
}

/// charm bits decided by the inscription updater itself (the others come from Sat::charms)
pub const CHARM_MASK: u16 = (1 << 1) | (1 << 4) | (1 << 7) | (1 << 8) | (1 << 10) | (1 << 12);

pub fn canon_outpoint(map: &TxMap, o: &bitcoin::OutPoint) -> (u64, u32) {
  (map.canon_of(&o.txid), o.vout)
}

/// the dump in the format of Inscr.emit_state
pub fn observe(dump: &ord::index::verif::Dump, map: &TxMap) -> Line {
  let mut l = L::new();
  l.push(0u8);
  l.push(stat(dump, 1));
  l.push(stat(dump, 3));
  l.push(stat(dump, 16));
  l.push(stat(dump, 10));
  l.push(dump.sequence_number_to_inscription_entry.len());
  for (k, e) in &dump.sequence_number_to_inscription_entry {
    l.push(*k);
    l.push(e.charms & CHARM_MASK);
    l.push(e.fee);
    l.push(e.height);
    l.push(e.hidden);
    l.push(map.canon_of(&e.id.txid));
    l.push(e.id.index);
    l.push(e.inscription_number);
    l.push(e.parents.len());
    for p in &e.parents {
      l.push(*p);
    }
    l.opt(e.sat);
    l.push(e.sequence_number);
  }
  let mut utxo: Vec<((u64, u32), &ord::index::verif::UtxoDump)> =
    dump.outpoint_to_utxo_entry.iter().map(|u| (canon_outpoint(map, &u.outpoint), u)).collect();
  utxo.sort_by_key(|(k, _)| *k);
  l.push(utxo.len());
  for ((t, v), u) in utxo {
    l.push(t);
    l.push(v);
    l.push(u.value);
    let ranges = u.sat_ranges.clone().unwrap_or_default();
    l.push(ranges.len());
    for (a, b) in ranges {
      l.push(a);
      l.push(b);
    }
    let insc = u.inscriptions.clone().unwrap_or_default();
    l.push(insc.len());
    for (s, o) in insc {
      l.push(s);
      l.push(o);
    }
  }
  l.push(dump.sequence_number_to_satpoint.len());
  for (s, sp) in &dump.sequence_number_to_satpoint {
    l.push(*s);
    l.push(map.canon_of(&sp.outpoint.txid));
    l.push(sp.outpoint.vout);
    l.push(sp.offset);
  }
  let mut ids: Vec<((u64, u32), u32)> =
    dump.inscription_id_to_sequence_number.iter().map(|(id, s)| ((map.canon_of(&id.txid), id.index), *s)).collect();
  ids.sort();
  l.push(ids.len());
  for ((t, i), s) in ids {
    l.push(t);
    l.push(i);
    l.push(s);
  }
  l.push(dump.inscription_number_to_sequence_number.len());
  for (n, s) in &dump.inscription_number_to_sequence_number {
    l.push(*n);
    l.push(*s);
  }
  fn multi<K: Copy + Into<Z>>(l: &mut L, m: &[(K, Vec<u32>)]) {
    l.push(m.iter().map(|(_, v)| v.len()).sum::<usize>());
    for (k, vs) in m {
      for v in vs {
        l.push(*k);
        l.push(*v);
      }
    }
  }
  multi(&mut l, &dump.sat_to_sequence_number);
  multi(&mut l, &dump.sequence_number_to_children);
  l.push(dump.collection_to_latest_child.len());
  for (a, b) in &dump.collection_to_latest_child {
    l.push(*a);
    l.push(*b);
  }
  multi(&mut l, &dump.latest_child_to_collection);
  l.push(dump.height_to_last_sequence_number.len());
  for (a, b) in &dump.height_to_last_sequence_number {
    l.push(*a);
    l.push(*b);
  }
  l.done()
}

pub type Events = Vec<ord::index::event::Event>;

/// open an index with an event receiver attached (Index::open_with_event_sender)
pub fn open_index_ev(core: &mockcore::Handle, dir: &std::path::Path, flags: &[&str]) -> (ord::Index, tokio::sync::mpsc::Receiver<ord::index::event::Event>) {
  use clap::Parser;
  let mut args: Vec<String> = vec![
    "ord".into(),
    "--bitcoin-rpc-url".into(),
    core.url(),
    "--cookie-file".into(),
    core.cookie_file().to_str().unwrap().into(),
    "--data-dir".into(),
    dir.to_str().unwrap().into(),
  ];
  if !flags.iter().any(|f| *f == "--testnet4") {
    args.push("--regtest".into());
  }
  args.extend(flags.iter().map(|s| s.to_string()));
  let options = ord::Options::try_parse_from(args).expect("options");
  let settings = ord::settings::Settings::merge(options, Default::default()).expect("settings");
  let (sender, receiver) = tokio::sync::mpsc::channel(1 << 20);
  (ord::Index::open_with_event_sender(&settings, Some(sender)).expect("open index"), receiver)
}

fn drain(rx: &mut tokio::sync::mpsc::Receiver<ord::index::event::Event>, into: &mut Events) {
  while let Ok(e) = rx.try_recv() {
    into.push(e);
  }
}

/// the inscription events, block by block, in the format of InscrEvents.emit_event
pub fn observe_events(events: &Events, nblocks: usize, map: &TxMap, l: &mut L) {
  use ord::index::event::Event;
  let mut per: Vec<Vec<&Event>> = vec![Vec::new(); nblocks];
  for e in events {
    let h = match e {
      Event::InscriptionCreated { block_height, .. } | Event::InscriptionTransferred { block_height, .. } => *block_height as usize,
      _ => continue,
    };
    if h < nblocks {
      per[h].push(e);
    } else {
      per[nblocks - 1].push(e);
    }
  }
  l.push(nblocks);
  for evs in per {
    l.push(evs.len());
    for e in evs {
      match e {
        Event::InscriptionCreated { block_height, charms, inscription_id, location, parent_inscription_ids, sequence_number } => {
          l.push(0u8);
          l.push(*block_height);
          l.push(*charms & CHARM_MASK);
          l.push(map.canon_of(&inscription_id.txid));
          l.push(inscription_id.index);
          match location {
            None => l.push(0u8),
            Some(sp) => {
              l.push(1u8);
              l.push(map.canon_of(&sp.outpoint.txid));
              l.push(sp.outpoint.vout);
              l.push(sp.offset);
            }
          }
          l.push(parent_inscription_ids.len());
          for p in parent_inscription_ids {
            l.push(map.canon_of(&p.txid));
            l.push(p.index);
          }
          l.push(*sequence_number);
        }
        Event::InscriptionTransferred { block_height, inscription_id, new_location, old_location, sequence_number } => {
          l.push(1u8);
          l.push(*block_height);
          l.push(map.canon_of(&inscription_id.txid));
          l.push(inscription_id.index);
          for sp in [new_location, old_location] {
            l.push(map.canon_of(&sp.outpoint.txid));
            l.push(sp.outpoint.vout);
            l.push(sp.offset);
          }
          l.push(*sequence_number);
        }
        _ => {}
      }
    }
  }
}

pub struct Indexed {
  pub world: World,
  pub index: ord::Index,
  pub events: Events,
  pub dump: ord::index::verif::Dump,
  /// dump after each height (only when asked for)
  pub history: Vec<ord::index::verif::Dump>,
  _dir: tempfile::TempDir,
}

/// build the chain of a case and index it
pub fn build_and_index(case: &Case, stepwise: bool) -> Result<Indexed, String> {
  let mut world = World::new(case.chain);
  let dir = scratch_dir();
  let flags = chain_flags(case.chain, case.sats);
  let mut history = Vec::new();
  let mut events = Events::new();
  if stepwise {
    let (index, mut rx) = open_index_ev(&world.core, dir.path(), &flags);
    for it in &case.items {
      // item by item; empty runs in one go, but a dump per height is needed: replicate the last
      let before = world.height();
      world.add_item(it, false).map_err(|e| format!("[harness-realisation] {e}"))?;
      index.update().map_err(|e| format!("[update-error] {e:#}"))?;
      drain(&mut rx, &mut events);
      let d = index.verif_dump().map_err(|e| format!("[dump-error] {e:#}"))?;
      for _ in before..world.height() {
        history.push(d.clone());
      }
    }
    let dump = index.verif_dump().map_err(|e| format!("[dump-error] {e:#}"))?;
    Ok(Indexed { world, index, events, dump, history, _dir: dir })
  } else {
    for it in &case.items {
      world.add_item(it, false).map_err(|e| format!("[harness-realisation] {e}"))?;
    }
    let (index, mut rx) = open_index_ev(&world.core, dir.path(), &flags);
    index.update().map_err(|e| format!("[update-error] {e:#}"))?;
    drain(&mut rx, &mut events);
    let dump = index.verif_dump().map_err(|e| format!("[dump-error] {e:#}"))?;
    Ok(Indexed { world, index, events, dump, history, _dir: dir })
  }
}

fn run_case(prop: &str, line: &Line) -> Outcome {
  let case = decode_case(line);
  let stepwise = prop == "C07";
  match build_and_index(&case, stepwise) {
    Err(m) => Outcome { obs: vec![Z { neg: true, mag: 3 }], oracle: Err(m), cat: format!("{prop}/harness-error") },
    Ok(ix) => {
      let mut obs = L(observe(&ix.dump, &ix.world.map));
      observe_events(&ix.events, ix.world.height(), &ix.world.map, &mut obs);
      let obs = obs.done();
      let (oracle, cat) = oracle::judge(prop, &case, &ix);
      Outcome { obs, oracle, cat: format!("{prop}/{cat}") }
    }
  }
}

fn main() {
  if std::env::var("HX_DEBUG").is_ok() {
    let which = std::env::var("HX_DEBUG").unwrap();
    let l = match which.as_str() {
      "1" => gen::scenario_fwd_pointer(true),
      "2" => gen::scenario_fwd_pointer(false),
      "3" => gen::scenario_back_pointer(true),
      "4" => gen::scenario_mixed(true, 0),
      "5" => gen::scenario_mixed(false, 1),
      _ => gen::generate("C05", &mut Rng::new(which.parse().unwrap()), "one").pop().unwrap(),
    };
    println!("{}", fmt_line(&l));
    for p in ["C03", "C04", "C05", "C06", "C07"] {
      let o = run_case(p, &l);
      println!("{}\n{:?}", fmt_line(&o.obs), o.oracle);
    }
    return;
  }
  let args = parse_args();
  let prop = args.prop.clone();
  match prop.as_str() {
    "C03" | "C04" | "C05" | "C06" | "C07" => {
      let p = prop.clone();
      let p2 = prop.clone();
      drive(
        &args,
        move |rng, tier| match std::panic::catch_unwind(std::panic::AssertUnwindSafe(|| gen::generate(&p, rng, tier))) {
          Ok(v) => v,
          Err(e) => {
            let msg = e.downcast_ref::<String>().cloned().or_else(|| e.downcast_ref::<&str>().map(|s| s.to_string())).unwrap_or_default();
            eprintln!("generator panicked: {msg}");
            std::process::exit(3)
          }
        },
        move |c| guarded(&p2, || run_case(&p2, c)),
      )
    }
    p => {
      eprintln!("unknown property {p}");
      std::process::exit(2);
    }
  }
  std::process::exit(0);
}
