//! S: the property clauses recomputed directly from the dump of the real index and from the chain
//! that was fed to it (nothing here comes from the Coq model).
use super::*;
use ord::index::verif::{Dump, InscriptionEntryDump};

const CURSED: u16 = 1 << 1;
const LOST: u16 = 1 << 4;
const REINSCRIPTION: u16 = 1 << 7;
const UNBOUND: u16 = 1 << 8;
const VINDICATED: u16 = 1 << 10;
const BURNED: u16 = 1 << 12;

struct Ctx<'a> {
  case: &'a Case,
  ix: &'a Indexed,
  dump: &'a Dump,
  /// canonical txid -> (height, position in block)
  txpos: HashMap<u64, (usize, usize)>,
}

impl<'a> Ctx<'a> {
  fn spec(&self, ctx: u64) -> Option<&TxSpec> {
    self.txpos.get(&ctx).map(|(h, p)| &self.ix.world.blocks[*h][*p].0)
  }
  fn entry(&self, seq: u32) -> Option<&InscriptionEntryDump> {
    self.dump.sequence_number_to_inscription_entry.iter().find(|(k, _)| *k == seq).map(|(_, e)| e)
  }
  fn canon_id(&self, e: &InscriptionEntryDump) -> (u64, u32) {
    (self.ix.world.map.canon_of(&e.id.txid), e.id.index)
  }
  fn env_of(&self, e: &InscriptionEntryDump) -> Option<(&TxSpec, &EnvSpec)> {
    let (t, i) = self.canon_id(e);
    let spec = self.spec(t)?;
    spec.envs.get(i as usize).map(|v| (spec, v))
  }
  fn out_value(&self, op: (u64, u32)) -> Option<(u64, bool)> {
    self.spec(op.0).and_then(|s| s.outs.get(op.1 as usize).copied())
  }
  fn satpoint(&self, seq: u32) -> Option<((u64, u32), u64)> {
    self
      .dump
      .sequence_number_to_satpoint
      .iter()
      .find(|(k, _)| *k == seq)
      .map(|(_, sp)| (canon_outpoint(&self.ix.world.map, &sp.outpoint), sp.offset))
  }
}

fn is_coinbase(t: &TxSpec) -> bool {
  t.ins.first().map(|(a, b)| *a == 0 && *b == NULL_VOUT).unwrap_or(false)
}

fn c05(c: &Ctx) -> Result<(), String> {
  let d = c.dump;
  let n = d.sequence_number_to_inscription_entry.len();
  let jubilee = jubilee_of(c.case.chain);
  let (mut blessed, mut cursed) = (0i64, 0i64);
  let mut seen_ids = BTreeSet::new();
  for (i, (k, e)) in d.sequence_number_to_inscription_entry.iter().enumerate() {
    if *k as usize != i || e.sequence_number != *k {
      return Err(format!("[seq-gap] sequence numbers are not 0..n-1 at position {i}: key {k}, stored {}", e.sequence_number));
    }
    if e.inscription_number >= 0 {
      if i64::from(e.inscription_number) != blessed {
        return Err(format!("[number-gap] seq {k}: blessed number {} expected {blessed}", e.inscription_number));
      }
      blessed += 1;
    } else {
      if i64::from(e.inscription_number) != -cursed - 1 {
        return Err(format!("[number-gap] seq {k}: cursed number {} expected {}", e.inscription_number, -cursed - 1));
      }
      cursed += 1;
    }
    if e.height >= jubilee && e.inscription_number < 0 {
      return Err(format!("[cursed-after-jubilee] seq {k} created at height {} has number {}", e.height, e.inscription_number));
    }
    let (t, idx) = c.canon_id(e);
    let Some((h, _)) = c.txpos.get(&t) else {
      return Err(format!("[id-unknown-tx] seq {k}: id names a transaction that is not in the chain"));
    };
    if *h as u32 != e.height {
      return Err(format!("[id-height] seq {k}: entry height {} but its reveal transaction is at height {h}", e.height));
    }
    let spec = c.spec(t).unwrap();
    if is_coinbase(spec) || idx as usize >= spec.envs.len() {
      return Err(format!("[id-index] seq {k}: id index {idx} but the reveal transaction has {} envelopes", spec.envs.len()));
    }
    if !seen_ids.insert((t, idx)) {
      return Err(format!("[id-duplicate] seq {k}: id ({t},{idx}) assigned twice"));
    }
  }
  // lookups are mutually inverse
  let mut want_ids: Vec<((u64, u32), u32)> =
    d.sequence_number_to_inscription_entry.iter().map(|(k, e)| (c.canon_id(e), *k)).collect();
  want_ids.sort();
  let mut got_ids: Vec<((u64, u32), u32)> =
    d.inscription_id_to_sequence_number.iter().map(|(id, s)| ((c.ix.world.map.canon_of(&id.txid), id.index), *s)).collect();
  got_ids.sort();
  if want_ids != got_ids {
    return Err("[id-lookup] INSCRIPTION_ID_TO_SEQUENCE_NUMBER is not the inverse of the entries' ids".into());
  }
  let mut want_nums: Vec<(i32, u32)> = d.sequence_number_to_inscription_entry.iter().map(|(k, e)| (e.inscription_number, *k)).collect();
  want_nums.sort();
  if want_nums != d.inscription_number_to_sequence_number {
    return Err("[number-lookup] INSCRIPTION_NUMBER_TO_SEQUENCE_NUMBER is not the inverse of the entries' numbers".into());
  }
  if stat(d, 1) as i64 != blessed || stat(d, 3) as i64 != cursed {
    return Err(format!("[counters] statistics blessed/cursed {}/{} but the entries have {blessed}/{cursed}", stat(d, 1), stat(d, 3)));
  }
  for (h, last) in &d.height_to_last_sequence_number {
    let want = d.sequence_number_to_inscription_entry.iter().filter(|(_, e)| e.height <= *h).count();
    if *last as usize != want {
      return Err(format!("[height-to-last] height {h}: last sequence number {last}, entries up to that height {want}"));
    }
  }
  let _ = n;
  Ok(())
}

fn c04(c: &Ctx) -> Result<(), String> {
  let d = c.dump;
  let n = d.sequence_number_to_inscription_entry.len();
  let mut holder: Vec<Option<((u64, u32), u64)>> = vec![None; n];
  for u in &d.outpoint_to_utxo_entry {
    let op = canon_outpoint(&c.ix.world.map, &u.outpoint);
    for (s, off) in u.inscriptions.clone().unwrap_or_default() {
      let Some(slot) = holder.get_mut(s as usize) else {
        return Err(format!("[census-unknown] output {op:?} lists sequence number {s} which has no entry"));
      };
      if slot.is_some() {
        return Err(format!("[census-duplicate] sequence number {s} is held twice ({:?} and {op:?})", slot.unwrap().0));
      }
      if op.0 != 0 && off >= u.value {
        return Err(format!("[census-offset] sequence number {s} at offset {off} of output {op:?} worth {}", u.value));
      }
      *slot = Some((op, off));
    }
  }
  for (s, h) in holder.iter().enumerate() {
    if h.is_none() {
      return Err(format!("[census-dropped] sequence number {s} is held by no output"));
    }
    if c.satpoint(s as u32) != *h {
      return Err(format!("[census-satpoint] sequence number {s}: satpoint table says {:?}, the output entries say {:?}", c.satpoint(s as u32), h));
    }
  }
  if d.sequence_number_to_satpoint.len() != n {
    return Err("[census-satpoint] satpoint table has a different number of rows".into());
  }
  // envelopes the real parser finds in non-coinbase transactions
  let mut envelopes = 0;
  for b in &c.ix.world.blocks {
    for (spec, tx) in b {
      if !is_coinbase(spec) {
        envelopes += ord::ParsedEnvelope::from_transaction(tx).len();
      }
    }
  }
  if envelopes != n {
    return Err(format!("[census-count] {n} inscriptions but the parser finds {envelopes} envelopes in non-coinbase transactions"));
  }
  Ok(())
}

fn c03(c: &Ctx) -> Result<(), String> {
  let d = c.dump;
  for (k, e) in &d.sequence_number_to_inscription_entry {
    let Some((op, off)) = c.satpoint(*k) else {
      return Err(format!("[no-satpoint] seq {k} has no satpoint"));
    };
    let unbound_loc = op == (0, 0);
    let charm_unbound = e.charms & UNBOUND != 0;
    if unbound_loc != charm_unbound {
      return Err(format!("[unbound-mismatch] seq {k}: unbound charm {charm_unbound} but location {op:?}"));
    }
    if c.case.sats && e.sat.is_none() != charm_unbound {
      return Err(format!("[unbound-sat] seq {k}: sat {:?} but unbound charm {charm_unbound}", e.sat));
    }
    // (an unbound inscription has no sat: it stays at the unbound outpoint even when its offset fell into lost fees)
    if e.charms & LOST != 0 && !charm_unbound && op != (0, NULL_VOUT) {
      return Err(format!("[lost-mismatch] seq {k}: lost charm but location {op:?}"));
    }
    // OP_RETURN outputs are never spent by the generated chains: burned iff it sits in one
    let in_op_return = c.out_value(op).map(|(_, o)| o).unwrap_or(false);
    // (an unbound inscription has no sat and sits at the unbound outpoint; it still gets the burned charm when
    // its notional offset fell into an OP_RETURN output, so only bound inscriptions are judged here)
    if !charm_unbound && in_op_return != (e.charms & BURNED != 0) {
      return Err(format!("[burned-mismatch] seq {k}: burned charm {} but location {op:?} op_return {in_op_return}", e.charms & BURNED != 0));
    }
    if let Some((spec, env)) = c.env_of(e) {
      let (ptx, pvout) = spec.ins[env.input as usize];
      let input_value = c.out_value((ptx, pvout)).map(|(v, _)| v).unwrap_or(0);
      if (input_value == 0 || env.uneven) && !charm_unbound {
        return Err(format!("[should-be-unbound] seq {k}: input value {input_value}, unrecognized even field {}", env.uneven));
      }
      if input_value != 0 && !env.uneven && charm_unbound {
        return Err(format!("[should-be-bound] seq {k} is unbound without reason"));
      }
    }
    if c.case.sats {
      if let Some(s) = e.sat {
        let found = c.ix.index.find(ordinals::Sat(s)).map_err(|e| format!("[find-error] {e:#}"))?;
        let found = found.map(|sp| (canon_outpoint(&c.ix.world.map, &sp.outpoint), sp.offset));
        if found != Some((op, off)) {
          return Err(format!("[location-vs-sat] seq {k}: sat {s} is at {found:?} but the inscription is reported at {:?}", (op, off)));
        }
      }
    }
  }
  Ok(())
}

/// start offset of each input within the concatenated input values
fn input_starts(c: &Ctx, spec: &TxSpec) -> Vec<u64> {
  let mut v = Vec::new();
  let mut acc = 0;
  for (ptx, pvout) in &spec.ins {
    v.push(acc);
    acc += c.out_value((*ptx, *pvout)).map(|(x, _)| x).unwrap_or(0);
  }
  v.push(acc);
  v
}

fn c06(c: &Ctx) -> Result<(), String> {
  let d = c.dump;
  let mut first_on_sat: HashMap<u32, bool> = HashMap::new();
  let mut fails: Vec<String> = Vec::new();
  for (sat, seqs) in &d.sat_to_sequence_number {
    let mut sorted = seqs.clone();
    sorted.sort();
    for (i, s) in sorted.iter().enumerate() {
      first_on_sat.insert(*s, i == 0);
      if i == 0 {
        continue;
      }
      let Some(e) = c.entry(*s) else { continue };
      if e.charms & REINSCRIPTION == 0 {
        // class predicate on the input: the envelope's effective pointer lands in a later input
        let mut class = "unflagged-reinscription";
        if let Some((spec, env)) = c.env_of(e) {
          let starts = input_starts(c, spec);
          let tov: u64 = spec.outs.iter().map(|(v, _)| *v).sum();
          if let Some(p) = env.ptr {
            if p < tov && p >= starts[env.input as usize + 1] {
              class = "fwd-pointer-reinscription";
            }
          }
        }
        fails.push(format!(
          "[{class}] seq {s} is on sat {sat} which already carries seq {} but has no reinscription charm",
          sorted[0]
        ));
      }
    }
  }
  // any failure outside the recorded class is reported first
  if let Some(f) = fails.iter().find(|f| !f.starts_with("[fwd-pointer-reinscription]")) {
    return Err(f.clone());
  }
  for (k, e) in &d.sequence_number_to_inscription_entry {
    let Some((_, env)) = c.env_of(e) else { continue };
    let clean = env.input == 0
      && env.offset == 0
      && !env.ptr_field
      && !env.pushnum
      && !env.stutter
      && !env.dup
      && !env.incomplete
      && !env.uneven;
    let bound = e.charms & UNBOUND == 0;
    let sat_clean = if c.case.sats { first_on_sat.get(k).copied().unwrap_or(false) } else { false };
    if clean && bound && sat_clean && e.charms & (CURSED | VINDICATED | REINSCRIPTION) != 0 {
      return Err(format!("[clean-first-not-blessed] seq {k}: clean first inscription has charms {:#x}", e.charms));
    }
    if clean && bound && sat_clean && e.inscription_number < 0 {
      return Err(format!("[clean-first-not-blessed] seq {k}: clean first inscription has number {}", e.inscription_number));
    }
  }
  match fails.first() {
    Some(f) => Err(f.clone()),
    None => Ok(()),
  }
}

fn c07(c: &Ctx) -> Result<(), String> {
  let d = c.dump;
  let mut pairs: BTreeSet<(u32, u32)> = BTreeSet::new();
  for (p, cs) in &d.sequence_number_to_children {
    for ch in cs {
      pairs.insert((*p, *ch));
    }
  }
  let mut from_parents: BTreeSet<(u32, u32)> = BTreeSet::new();
  for (k, e) in &d.sequence_number_to_inscription_entry {
    let mut seen = BTreeSet::new();
    for p in &e.parents {
      if !seen.insert(*p) {
        return Err(format!("[parent-duplicate] seq {k} records parent {p} twice"));
      }
      from_parents.insert((*p, *k));
    }
  }
  if pairs != from_parents {
    return Err("[children-parents-inverse] SEQUENCE_NUMBER_TO_CHILDREN is not the inverse of the entries' parents".into());
  }
  for (p, ch) in &pairs {
    if p >= ch {
      return Err(format!("[parent-not-older] child {ch} recorded under parent {p}"));
    }
    let (Some(pe), Some(ce)) = (c.entry(*p), c.entry(*ch)) else {
      return Err(format!("[parent-unknown] pair ({p},{ch}) names a missing entry"));
    };
    let Some((spec, env)) = c.env_of(ce) else { continue };
    let pid = c.canon_id(pe);
    if !env.parents.contains(&pid) {
      return Err(format!("[parent-not-named] child {ch} does not name parent {p} in its envelope"));
    }
    // the parent must have been spent or revealed by the child's reveal transaction: it was created by
    // that transaction, or it sat (before the block) in an output consumed by the reveal transaction
    // or by one of its ancestors inside the block, or it was created by such an ancestor
    let (h, pos) = c.txpos[&spec.id];
    let block = &c.ix.world.blocks[h];
    let mut anc: BTreeSet<u64> = BTreeSet::new();
    let mut spent: BTreeSet<(u64, u32)> = BTreeSet::new();
    let mut todo = vec![spec.id];
    while let Some(t) = todo.pop() {
      if !anc.insert(t) {
        continue;
      }
      if let Some((s, _)) = block.iter().find(|(s, _)| s.id == t) {
        for i in &s.ins {
          spent.insert(*i);
          if block.iter().any(|(s2, _)| s2.id == i.0) {
            todo.push(i.0);
          }
        }
      }
    }
    let _ = pos;
    let created_here = anc.contains(&pid.0);
    let before = if h == 0 { None } else { c.ix.history.get(h - 1) };
    let sat_before = before.and_then(|bd| {
      bd.sequence_number_to_satpoint.iter().find(|(k, _)| k == p).map(|(_, sp)| canon_outpoint(&c.ix.world.map, &sp.outpoint))
    });
    let spent_here = sat_before.map(|op| spent.contains(&op)).unwrap_or(false);
    if !created_here && !spent_here {
      return Err(format!("[parent-not-spent] child {ch} recorded under parent {p}, which was at {sat_before:?} before the block and is not an input of the reveal transaction"));
    }
  }
  // collections: a visible parent's latest child is its most recently created child
  let mut latest: BTreeSet<(u32, u32)> = BTreeSet::new();
  for (p, cs) in &d.sequence_number_to_children {
    let Some(pe) = c.entry(*p) else { continue };
    let want = if pe.hidden { None } else { cs.iter().max().copied() };
    let got = d.collection_to_latest_child.iter().find(|(k, _)| k == p).map(|(_, v)| *v);
    if want != got {
      return Err(format!("[collection-latest] parent {p} (hidden {}): latest child {got:?}, most recent child {want:?}", pe.hidden));
    }
    if let Some(w) = want {
      latest.insert((w, *p));
    }
  }
  for (p, _) in &d.collection_to_latest_child {
    if !d.sequence_number_to_children.iter().any(|(k, _)| k == p) {
      return Err(format!("[collection-latest] collection {p} has no children"));
    }
  }
  let mut got: BTreeSet<(u32, u32)> = BTreeSet::new();
  for (ch, ps) in &d.latest_child_to_collection {
    for p in ps {
      got.insert((*ch, *p));
    }
  }
  if got != latest {
    return Err("[collection-inverse] the two collection tables are not inverse".into());
  }
  Ok(())
}

/// feature tags of a run (input-distribution report)
fn features(c: &Ctx) -> String {
  let d = c.dump;
  let mut f: BTreeSet<&str> = BTreeSet::new();
  for (_, e) in &d.sequence_number_to_inscription_entry {
    if e.charms & CURSED != 0 {
      f.insert("cursed");
    }
    if e.charms & VINDICATED != 0 {
      f.insert("vindicated");
    }
    if e.charms & REINSCRIPTION != 0 {
      f.insert("reinscr");
    }
    if e.charms & UNBOUND != 0 {
      f.insert("unbound");
    }
    if e.charms & LOST != 0 {
      f.insert("lost");
    }
    if e.charms & BURNED != 0 {
      f.insert("burned");
    }
    if !e.parents.is_empty() {
      f.insert("child");
    }
  }
  if d.sequence_number_to_inscription_entry.is_empty() {
    return "trivial-no-inscriptions".into();
  }
  if d.outpoint_to_utxo_entry.iter().any(|u| u.outpoint.is_null() && u.inscriptions.as_ref().map(|i| !i.is_empty()).unwrap_or(false)) {
    f.insert("in-null");
  }
  if c.case.sats {
    f.insert("sats");
  }
  if c.case.chain != 0 {
    f.insert("testnet4");
  }
  if f.is_empty() {
    "plain".into()
  } else {
    f.into_iter().collect::<Vec<_>>().join("+")
  }
}

pub fn judge(prop: &str, case: &Case, ix: &Indexed) -> (Result<(), String>, String) {
  let mut txpos = HashMap::new();
  for (h, b) in ix.world.blocks.iter().enumerate() {
    for (p, (s, _)) in b.iter().enumerate() {
      txpos.insert(s.id, (h, p));
    }
  }
  let c = Ctx { case, ix, dump: &ix.dump, txpos };
  // the parser's envelopes must come grouped by input, in input order (assumption of the model's theorems)
  for b in &ix.world.blocks {
    for (spec, _) in b {
      let ok = spec.envs.windows(2).all(|w| w[0].input <= w[1].input) && spec.envs.iter().all(|e| (e.input as usize) < spec.ins.len());
      if !ok {
        return (Err("[envelope-order] the parser's envelopes are not in input order".into()), "envelope-order".into());
      }
    }
  }
  let r = match prop {
    "C03" => c03(&c),
    "C04" => c04(&c),
    "C05" => c05(&c),
    "C06" => c06(&c),
    "C07" => c07(&c),
    _ => Ok(()),
  };
  (r, features(&c))
}
