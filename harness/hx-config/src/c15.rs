//! C15 — optional indexes do not change inscription or rune results.
//!
//! Wire format (shared with coq/Index/Config.v run_C15), all integers >= 0:
//!   case  := scen n_old {id vout value} n_blocks { n_tx { id flags n_in {id vout} n_out {value} } }
//!   scen  := 1  signet-like: the outputs listed under n_old were created below the first
//!               inscription height; configurations without a full UTXO index do not track
//!               them and must fetch their values from the node
//!          | 0  regtest-like: first inscription height 0, n_old = 0, every configuration
//!               has a full UTXO index
//!   the first transaction of every block is its coinbase: n_in = 1, input (0, 0xffffffff)
//!   ids are abstract transaction numbers (the harness maps them to real txids):
//!     1+j prefix split tx j, 90+k prefix reveal tx k (envelope below the first inscription
//!     height: no configuration may treat it as an inscription), 100000+h prefix coinbase of height h,
//!     500000+b coinbase of the b-th generated block, 1000000+n n-th generated tx
//!   flags: bit0 input 0 carries an inscription envelope, bit1 last output is an OP_RETURN
//!          (ignored by the model: the value layer does not look at them)
//!   obs   := per block: n_req {id vout}  then per non-coinbase tx: n_in {value}
//!            (the fetch requests of the configuration without optional indexes, in the
//!             order sent, and the value used for every input, in processing order)
//! A panic / failed update is the line `-2`.
use bitcoin::{
  absolute::LockTime, block::Header, blockdata::block::Version as BlockVersion, consensus, hashes::Hash, transaction::Version, Amount,
  Block, CompactTarget, OutPoint, ScriptBuf, Sequence, Transaction, TxIn, TxMerkleNode, TxOut, Txid, WPubkeyHash, Witness,
};
use hxlib::*;
use ord::index::verif_fetch::Event;
use std::collections::{BTreeMap, HashMap};
use std::path::{Path, PathBuf};
use std::sync::{Mutex, OnceLock};

const COIN: u64 = 100_000_000;
const SUBSIDY: u64 = 50 * COIN;
/// first inscription height of signet (crates: src/chain.rs); read back from the index below
const SIGNET_FIH: usize = 112_402;
const N_SPLIT: usize = 64;
/// reveal transactions with an inscription envelope BELOW the first inscription height
const N_REVEAL: usize = 6;
const REVEAL_H0: usize = 70;
const POOL_CB: std::ops::Range<usize> = 80..120;

/// (name, flags, has a full UTXO index on signet)
const CONFIGS: [(&str, &[&str]); 6] = [
  ("none", &[]),
  ("sats", &["--index-sats"]),
  ("addr", &["--index-addresses"]),
  ("all", &["--index-sats", "--index-addresses", "--index-transactions"]),
  ("runes", &["--index-runes"]),
  ("norunes", &["--no-index-inscriptions", "--index-runes"]),
];
/// configurations run on the signet-like scenario (the sat index over 112k prefix blocks is
/// only built in the thorough tier: HX_CONFIG_SIGNET_ALL=1)
fn signet_configs() -> Vec<usize> {
  if std::env::var("HX_CONFIG_SIGNET_ALL").is_ok() {
    vec![0, 1, 2, 3, 4, 5]
  } else {
    vec![0, 2, 4, 5]
  }
}

// ------------------------------------------------------------------ abstract chain

#[derive(Clone, Debug)]
struct ATx {
  id: u64,
  flags: u64,
  ins: Vec<(u64, u32)>,
  outs: Vec<u64>,
}

#[derive(Clone, Debug)]
struct Case {
  scen: u64,
  old: Vec<(u64, u32, u64)>,
  blocks: Vec<Vec<ATx>>,
}

fn write_case(c: &Case) -> Line {
  let mut l = L::new().p(c.scen).p(c.old.len());
  for (id, vout, value) in &c.old {
    l.push(*id);
    l.push(*vout);
    l.push(*value);
  }
  l.push(c.blocks.len());
  for b in &c.blocks {
    l.push(b.len());
    for t in b {
      l.push(t.id);
      l.push(t.flags);
      l.push(t.ins.len());
      for (id, vout) in &t.ins {
        l.push(*id);
        l.push(*vout);
      }
      l.push(t.outs.len());
      for v in &t.outs {
        l.push(*v);
      }
    }
  }
  l.done()
}

fn read_case(line: &Line) -> Case {
  let mut c = Cur::new(line);
  let scen = c.u64();
  let n_old = c.usize();
  let old = (0..n_old).map(|_| (c.u64(), c.u32(), c.u64())).collect();
  let nb = c.usize();
  let blocks = (0..nb)
    .map(|_| {
      let nt = c.usize();
      (0..nt)
        .map(|_| {
          let id = c.u64();
          let flags = c.u64();
          let ni = c.usize();
          let ins = (0..ni).map(|_| (c.u64(), c.u32())).collect();
          let no = c.usize();
          let outs = (0..no).map(|_| c.u64()).collect();
          ATx { id, flags, ins, outs }
        })
        .collect()
    })
    .collect();
  Case { scen, old, blocks }
}

/// values of the outputs of the deterministic prefix (see `build_prefix`)
fn split_values(j: usize) -> [u64; 4] {
  let small = [0u64, 1 + j as u64, 546 + j as u64];
  [small[0], small[1], small[2], SUBSIDY - small[0] - small[1] - small[2]]
}

fn old_pool() -> Vec<(u64, u32, u64)> {
  let mut v = Vec::new();
  for j in 0..N_SPLIT {
    for (k, val) in split_values(j).iter().enumerate() {
      v.push((1 + j as u64, k as u32, *val));
    }
  }
  for k in 0..N_REVEAL {
    v.push((90 + k as u64, 0, SUBSIDY));
  }
  // untouched prefix coinbases
  for h in POOL_CB {
    v.push((100_000 + h as u64, 0, SUBSIDY));
  }
  v
}

pub fn gen(rng: &mut Rng, tier: &str) -> Vec<Line> {
  let n: usize = if tier == "thorough" { 1500 } else { 60 };
  let mut v = Vec::new();
  for i in 0..n {
    let scen = if i % 3 == 2 { 0 } else { 1 };
    v.push(write_case(&gen_case(rng, scen, false)));
  }
  // blocks with 11..40 fetched inputs (one transaction with many untracked inputs, then many
  // transactions with one each): batching / ordering of the fetcher's answers
  for _ in 0..(if tier == "thorough" { 60 } else { 6 }) {
    v.push(write_case(&gen_case(rng, 1, true)));
  }
  v
}

fn gen_case(rng: &mut Rng, scen: u64, many: bool) -> Case {
  // spendable outputs: (id, vout, value, is_old)
  let mut avail: Vec<(u64, u32, u64, bool)> = Vec::new();
  let mut used_old: Vec<(u64, u32, u64)> = Vec::new();
  if scen == 1 {
    let mut pool = old_pool();
    // a random subset, zero-value outputs kept with high probability
    if !many {
      pool.retain(|(_, _, val)| if *val == 0 { rng.chance(1, 3) } else { rng.chance(1, 12) });
    }
    for (id, vout, val) in pool {
      avail.push((id, vout, val, true));
    }
  }
  let nblocks = rng.range(3, 7) as usize;
  let mut blocks = Vec::new();
  let mut next_tx = 0u64;
  for b in 0..nblocks {
    let mut txs: Vec<ATx> = Vec::new();
    let mut fees = 0u64;
    let ntx = if avail.is_empty() {
      0
    } else if many && b == 1 {
      rng.range(11, 40) as usize
    } else if many && b == 0 {
      1
    } else {
      rng.below(5) as usize
    };
    // outputs created in this block: spendable by later transactions of the same block
    for _ in 0..ntx {
      if avail.is_empty() {
        break;
      }
      let nin = if many && b == 0 { rng.range(11, 40) as usize } else if many && b == 1 { 1 } else { rng.range(1, 3) as usize }.min(avail.len());
      let old_only = many && b < 2;
      let mut ins = Vec::new();
      let mut total = 0u64;
      for _ in 0..nin {
        // prefer old outputs and same-block outputs
        let mut k = rng.below(avail.len() as u64) as usize;
        if old_only {
          // distinct-valued untracked outputs
          let cands: Vec<usize> = (0..avail.len()).filter(|i| avail[*i].3 && avail[*i].2 != SUBSIDY && avail[*i].2 != 0).collect();
          if !cands.is_empty() {
            k = *rng.pick(&cands);
          }
        }
        let (id, vout, val, is_old) = avail.swap_remove(k);
        if is_old {
          used_old.push((id, vout, val));
        }
        ins.push((id, vout));
        total += val;
      }
      let burn = rng.chance(1, 10);
      let nout = rng.range(1, 4) as usize;
      let fee = match rng.below(4) {
        0 => 0,
        1 => total.min(1000),
        2 => total / 2,
        _ => total.min(rng.below(5000)),
      };
      let mut rest = total - fee;
      let mut outs = Vec::new();
      for k in 0..nout {
        let x = if k + 1 == nout {
          rest
        } else {
          match rng.below(4) {
            0 => 0,
            1 => rest.min(546),
            _ => rng.below(rest + 1),
          }
        };
        outs.push(x);
        rest -= x;
      }
      fees += fee;
      let id = 1_000_000 + next_tx;
      next_tx += 1;
      let flags = u64::from(rng.chance(1, 2)) | (u64::from(burn) << 1);
      for (k, val) in outs.iter().enumerate() {
        let is_burn_out = burn && k + 1 == outs.len();
        if !is_burn_out {
          avail.push((id, k as u32, *val, false));
        }
      }
      txs.push(ATx { id, flags, ins, outs });
    }
    let cb = ATx { id: 500_000 + b as u64, flags: 0, ins: vec![(0, u32::MAX)], outs: vec![SUBSIDY + fees] };
    // coinbase outputs become spendable from the next block on
    let cb_out = (cb.id, 0u32, SUBSIDY + fees, false);
    let mut block = vec![cb];
    block.extend(txs);
    blocks.push(block);
    avail.push(cb_out);
  }
  Case { scen, old: used_old, blocks }
}

// ------------------------------------------------------------------ the mock chain

fn p2wpkh() -> ScriptBuf {
  ScriptBuf::new_p2wpkh(&WPubkeyHash::all_zeros())
}

fn coinbase(height: usize, value: u64) -> Transaction {
  Transaction {
    version: Version(2),
    lock_time: LockTime::ZERO,
    input: vec![TxIn {
      previous_output: OutPoint::null(),
      script_sig: bitcoin::script::Builder::new().push_int(height as i64).into_script(),
      sequence: Sequence::MAX,
      witness: Witness::new(),
    }],
    output: vec![TxOut { value: Amount::from_sat(value), script_pubkey: p2wpkh() }],
  }
}

/// append a block (coinbase first) to the mock node's active chain
fn push_block(core: &mockcore::Handle, txdata: Vec<Transaction>) {
  let mut st = core.state();
  let height = st.hashes.len();
  let block = Block {
    header: Header {
      version: BlockVersion::ONE,
      prev_blockhash: *st.hashes.last().unwrap(),
      merkle_root: TxMerkleNode::all_zeros(),
      time: height as u32,
      bits: CompactTarget::from_consensus(0),
      nonce: st.nonce,
    },
    txdata,
  };
  st.nonce += 1;
  let hash = block.block_hash();
  for tx in &block.txdata {
    let txid = tx.compute_txid();
    st.transactions.insert(txid, tx.clone());
    st.txid_to_block_height.insert(txid, height as u32);
  }
  st.blocks.insert(hash, block);
  st.hashes.push(hash);
}

fn pop_block(core: &mockcore::Handle) {
  let mut st = core.state();
  let hash = st.hashes.pop().unwrap();
  if let Some(block) = st.blocks.remove(&hash) {
    for tx in &block.txdata {
      let txid = tx.compute_txid();
      st.transactions.remove(&txid);
      st.txid_to_block_height.remove(&txid);
    }
  }
}

fn cache_root() -> PathBuf {
  // <target>/debug/hx-config -> <target>/hx-config-cache
  let exe = std::env::current_exe().unwrap();
  let target = exe.parent().unwrap().parent().unwrap().to_path_buf();
  let d = target.join("hx-config-cache");
  std::fs::create_dir_all(&d).unwrap();
  d
}

fn hash_tree(p: &Path, h: &mut u64) {
  if p.is_dir() {
    let mut es: Vec<PathBuf> = std::fs::read_dir(p).unwrap().map(|e| e.unwrap().path()).collect();
    es.sort();
    for e in es {
      hash_tree(&e, h);
    }
  } else if let Ok(bytes) = std::fs::read(p) {
    for b in p.file_name().unwrap().to_string_lossy().bytes().chain(bytes.into_iter()) {
      *h ^= u64::from(b);
      *h = h.wrapping_mul(0x100000001b3);
    }
  }
}

/// The index snapshots depend on how the CURRENT source tree indexes the prefix: they are
/// keyed by a hash of the indexing sources of the tree the harness was built against
/// (VERIF_REPO, default /repo), so a changed or alternative tree never reuses them.
fn cache_dir() -> PathBuf {
  static KEY: OnceLock<String> = OnceLock::new();
  let key = KEY.get_or_init(|| {
    let repo = PathBuf::from(std::env::var("VERIF_REPO").unwrap_or_else(|_| "/repo".into()));
    let mut h = 0xcbf29ce484222325u64;
    for rel in ["src/index.rs", "src/index", "src/inscriptions.rs", "src/inscriptions", "src/runes.rs", "src/chain.rs", "src/settings.rs", "src/options.rs", "crates/ordinals/src"] {
      hash_tree(&repo.join(rel), &mut h);
    }
    format!("src-{h:016x}")
  });
  let root = cache_root();
  let d = root.join(key);
  if !d.exists() {
    // keep the two most recent other keys
    let mut old: Vec<(std::time::SystemTime, PathBuf)> = std::fs::read_dir(&root)
      .unwrap()
      .filter_map(|e| e.ok())
      .filter(|e| e.file_name().to_string_lossy().starts_with("src-") || e.file_name() == "v1")
      .map(|e| (e.metadata().and_then(|m| m.modified()).unwrap_or(std::time::UNIX_EPOCH), e.path()))
      .collect();
    old.sort();
    while old.len() > 2 {
      let (_, p) = old.remove(0);
      let _ = std::fs::remove_dir_all(p);
    }
  }
  std::fs::create_dir_all(&d).unwrap();
  d
}

/// The deterministic signet prefix, heights 1 ..= SIGNET_FIH - 1: block 1 is empty, block
/// 2+j (j < N_SPLIT) holds a transaction splitting the coinbase of height 1+j into four outputs
/// (0, 1, 546+j, rest); all other blocks are empty.  Built once and cached as raw blocks.
fn load_prefix(core: &mockcore::Handle) {
  let file = cache_root().join("prefix-v2.bin");
  if let Ok(bytes) = std::fs::read(&file) {
    let mut pos = 0;
    while pos < bytes.len() {
      let (block, used): (Block, usize) = consensus::deserialize_partial(&bytes[pos..]).unwrap();
      pos += used;
      push_block(core, block.txdata);
    }
    assert_eq!(core.state().hashes.len(), SIGNET_FIH);
    return;
  }
  eprintln!("hx-config: building the signet prefix ({} blocks), cached in {}", SIGNET_FIH - 1, file.display());
  let mut out = Vec::new();
  let mut coinbases: Vec<Txid> = vec![Txid::all_zeros()];
  for h in 1..SIGNET_FIH {
    let mut txdata = vec![coinbase(h, SUBSIDY)];
    if h >= 2 && h - 2 < N_SPLIT {
      let j = h - 2;
      txdata.push(Transaction {
        version: Version(2),
        lock_time: LockTime::ZERO,
        input: vec![TxIn { previous_output: OutPoint { txid: coinbases[1 + j], vout: 0 }, script_sig: ScriptBuf::new(), sequence: Sequence::MAX, witness: Witness::new() }],
        output: split_values(j).iter().map(|v| TxOut { value: Amount::from_sat(*v), script_pubkey: p2wpkh() }).collect(),
      });
    }
    if h >= REVEAL_H0 && h - REVEAL_H0 < N_REVEAL {
      let k = h - REVEAL_H0;
      txdata.push(Transaction {
        version: Version(2),
        lock_time: LockTime::ZERO,
        input: vec![TxIn {
          previous_output: OutPoint { txid: coinbases[N_SPLIT + 2 + k], vout: 0 },
          script_sig: ScriptBuf::new(),
          sequence: Sequence::MAX,
          witness: ordkit::inscription_witness(b"text/plain", &[b'p', k as u8]),
        }],
        output: vec![TxOut { value: Amount::from_sat(SUBSIDY), script_pubkey: p2wpkh() }],
      });
    }
    coinbases.push(txdata[0].compute_txid());
    push_block(core, txdata);
  }
  {
    let st = core.state();
    for h in 1..SIGNET_FIH {
      out.extend(consensus::serialize(&st.blocks[&st.hashes[h]]));
    }
  }
  std::fs::write(&file, out).unwrap();
}

struct Signet {
  core: mockcore::Handle,
  /// abstract id -> txid for the prefix
  ids: HashMap<u64, Txid>,
}

fn signet() -> &'static Mutex<Signet> {
  static W: OnceLock<Mutex<Signet>> = OnceLock::new();
  W.get_or_init(|| {
    let core = mockcore::builder().network(bitcoin::Network::Signet).build();
    load_prefix(&core);
    let mut ids = HashMap::new();
    {
      let st = core.state();
      for h in 1..(POOL_CB.end + 2) {
        let block = &st.blocks[&st.hashes[h]];
        ids.insert(100_000 + h as u64, block.txdata[0].compute_txid());
        if h >= 2 && h - 2 < N_SPLIT {
          ids.insert(1 + (h - 2) as u64, block.txdata[1].compute_txid());
        }
        if h >= REVEAL_H0 && h - REVEAL_H0 < N_REVEAL {
          ids.insert(90 + (h - REVEAL_H0) as u64, block.txdata[1].compute_txid());
        }
      }
    }
    let w = Signet { core, ids };
    // snapshots of every configuration at the end of the prefix
    for ci in signet_configs() {
      snapshot(&w.core, ci);
    }
    Mutex::new(w)
  })
}

fn scratch() -> tempfile::TempDir {
  let base = if Path::new("/dev/shm").is_dir() { "/dev/shm" } else { "/tmp" };
  tempfile::Builder::new().prefix("hx-config").tempdir_in(base).unwrap()
}

fn copy_dir(from: &Path, to: &Path) {
  std::fs::create_dir_all(to).unwrap();
  for e in std::fs::read_dir(from).unwrap() {
    let e = e.unwrap();
    let p = e.path();
    let q = to.join(e.file_name());
    if p.is_dir() {
      copy_dir(&p, &q);
    } else {
      std::fs::copy(&p, &q).unwrap();
    }
  }
}

/// index of configuration `ci` over the prefix only, built once and cached
fn snapshot(core: &mockcore::Handle, ci: usize) -> PathBuf {
  let dir = cache_dir().join(format!("snap-{}", CONFIGS[ci].0));
  if dir.join("done").exists() {
    return dir;
  }
  let _ = std::fs::remove_dir_all(&dir);
  eprintln!("hx-config: indexing the signet prefix under configuration `{}` (cached in {})", CONFIGS[ci].0, dir.display());
  let t = std::time::Instant::now();
  {
    // built on tmpfs (every redb commit is fsynced), then copied into the cache
    let tmp = scratch();
    {
      let mut flags = vec!["--signet"];
      flags.extend_from_slice(CONFIGS[ci].1);
      let index = ordkit::open_index(core, tmp.path(), &flags);
      index.update().expect("prefix update");
    }
    copy_dir(tmp.path(), &dir);
  }
  let _ = ord::index::verif_fetch::take();
  std::fs::write(dir.join("done"), b"ok").unwrap();
  eprintln!("hx-config: done in {:?}", t.elapsed());
  dir
}

/// the cached snapshot copied once per process to tmpfs (copying it per case from disk dominates the run time)
fn shm_snapshot(core: &mockcore::Handle, ci: usize) -> PathBuf {
  static SHM: OnceLock<Mutex<HashMap<usize, tempfile::TempDir>>> = OnceLock::new();
  let mut m = SHM.get_or_init(|| Mutex::new(HashMap::new())).lock().unwrap_or_else(|e| e.into_inner());
  if let Some(d) = m.get(&ci) {
    return d.path().to_path_buf();
  }
  let src = snapshot(core, ci);
  let d = scratch();
  copy_dir(&src, d.path());
  let p = d.path().to_path_buf();
  m.insert(ci, d);
  p
}

// ------------------------------------------------------------------ running one case

/// what one configuration produced
struct ConfigRun {
  events: Vec<Event>,
  dump: ord::index::verif::Dump,
}

fn run_config(core: &mockcore::Handle, base: Option<&Path>, chain_flag: &str, ci: usize, salt: usize) -> Result<ConfigRun, String> {
  let dir = scratch();
  if let Some(b) = base {
    copy_dir(b, dir.path());
    let _ = std::fs::remove_file(dir.path().join("done"));
  }
  let mut flags = vec![chain_flag];
  flags.extend_from_slice(CONFIGS[ci].1);
  // different commit schedules in different configurations: spent outputs are found in the
  // cache, in the table (after a flush) or fetched
  flags.push("--commit-interval");
  flags.push(["1", "2", "5000"][(ci + salt) % 3]);
  // 12 parallel requests is the default; with 1 or 2 a chunk of a batch has more than 10 requests
  flags.push("--bitcoin-rpc-limit");
  flags.push(["1", "12", "2"][(ci + salt / 3) % 3]);
  let _ = ord::index::verif_fetch::take();
  let index = ordkit::open_index(core, dir.path(), &flags);
  index.update().map_err(|e| format!("update failed under `{}`: {e}", CONFIGS[ci].0))?;
  let events = ord::index::verif_fetch::take();
  let dump = index.verif_dump().map_err(|e| format!("dump failed: {e}"))?;
  Ok(ConfigRun { events, dump })
}

/// sat-derived charm bits (crates/ordinals/src/sat.rs `charms`): coin, epic, legendary,
/// nineball, rare, uncommon, mythic, palindrome
const SAT_CHARMS: u16 = 1 << 0 | 1 << 2 | 1 << 3 | 1 << 5 | 1 << 6 | 1 << 9 | 1 << 11 | 1 << 13;

/// the projection of property C15 for inscriptions
fn inscription_projection(d: &ord::index::verif::Dump) -> String {
  let mut s = String::new();
  for (seq, e) in &d.sequence_number_to_inscription_entry {
    s.push_str(&format!(
      "E {seq} id={} num={} h={} fee={} parents={:?} charms={:#x} hidden={} ts={}\n",
      e.id,
      e.inscription_number,
      e.height,
      e.fee,
      e.parents,
      e.charms & !SAT_CHARMS,
      e.hidden,
      e.timestamp
    ));
  }
  for (seq, sp) in &d.sequence_number_to_satpoint {
    s.push_str(&format!("P {seq} {sp}\n"));
  }
  for (id, seq) in &d.inscription_id_to_sequence_number {
    s.push_str(&format!("I {id} {seq}\n"));
  }
  for (n, seq) in &d.inscription_number_to_sequence_number {
    s.push_str(&format!("N {n} {seq}\n"));
  }
  for (seq, ch) in &d.sequence_number_to_children {
    s.push_str(&format!("C {seq} {ch:?}\n"));
  }
  for (h, seq) in &d.height_to_last_sequence_number {
    s.push_str(&format!("H {h} {seq}\n"));
  }
  for (seq, id) in &d.home_inscriptions {
    s.push_str(&format!("M {seq} {id}\n"));
  }
  // blessed / cursed / unbound counters (Statistic keys 1, 3, 13) are inscription results too
  for (k, v) in &d.statistic_to_count {
    if [1u64, 3, 13].contains(k) {
      s.push_str(&format!("S {k} {v}\n"));
    }
  }
  s
}

fn rune_projection(d: &ord::index::verif::Dump) -> String {
  format!(
    "{:?}\n{:?}\n{:?}\n{:?}\n{:?}",
    d.rune_id_to_rune_entry, d.outpoint_to_rune_balances, d.rune_to_rune_id, d.transaction_id_to_rune, d.sequence_number_to_rune_id
  )
}

pub fn run(line: &Line) -> Outcome {
  let case = read_case(line);
  guarded("c15", || run_case(&case))
}

fn run_case(case: &Case) -> Outcome {
  let signet_scen = case.scen == 1;
  let w;
  let regtest_core;
  let core: &mockcore::Handle;
  let mut ids: HashMap<u64, Txid>;
  if signet_scen {
    w = signet().lock().unwrap_or_else(|e| e.into_inner());
    core = &w.core;
    // a previous case that panicked may have left its blocks on the node
    while core.state().hashes.len() > SIGNET_FIH {
      pop_block(core);
    }
    ids = w.ids.clone();
  } else {
    regtest_core = mockcore::builder().network(bitcoin::Network::Regtest).build();
    core = &regtest_core;
    ids = HashMap::new();
  }
  let base_len = core.state().hashes.len();

  // build and append the real blocks; true value of every outpoint
  let mut value_of: HashMap<(u64, u32), u64> = HashMap::new();
  for (id, vout, v) in &case.old {
    value_of.insert((*id, *vout), *v);
  }
  let mut back: HashMap<Txid, u64> = ids.iter().map(|(k, v)| (*v, *k)).collect();
  for (b, block) in case.blocks.iter().enumerate() {
    let height = base_len + b;
    let mut txdata = Vec::new();
    for t in block.iter().skip(1) {
      let mut input = Vec::new();
      for (k, (id, vout)) in t.ins.iter().enumerate() {
        let witness = if k == 0 && t.flags & 1 != 0 { ordkit::inscription_witness(b"text/plain", &(t.id as u32).to_le_bytes()) } else { Witness::new() };
        input.push(TxIn { previous_output: OutPoint { txid: ids[id], vout: *vout }, script_sig: ScriptBuf::new(), sequence: Sequence::MAX, witness });
      }
      let n = t.outs.len();
      let output = t
        .outs
        .iter()
        .enumerate()
        .map(|(k, v)| TxOut {
          value: Amount::from_sat(*v),
          script_pubkey: if t.flags & 2 != 0 && k + 1 == n { bitcoin::script::Builder::new().push_opcode(bitcoin::opcodes::all::OP_RETURN).into_script() } else { p2wpkh() },
        })
        .collect();
      let tx = Transaction { version: Version(2), lock_time: LockTime::ZERO, input, output };
      let txid = tx.compute_txid();
      ids.insert(t.id, txid);
      back.insert(txid, t.id);
      for (k, v) in t.outs.iter().enumerate() {
        value_of.insert((t.id, k as u32), *v);
      }
      txdata.push(tx);
    }
    let cb = coinbase(height, block[0].outs[0]);
    let cbid = cb.compute_txid();
    ids.insert(block[0].id, cbid);
    back.insert(cbid, block[0].id);
    value_of.insert((block[0].id, 0), block[0].outs[0]);
    let mut all = vec![cb];
    all.extend(txdata);
    push_block(core, all);
  }

  // index under every configuration
  let cfgs: Vec<usize> = if signet_scen { signet_configs() } else { (0..6).collect() };
  let chain_flag = if signet_scen { "--signet" } else { "--regtest" };
  let mut runs: Vec<(usize, Result<ConfigRun, String>)> = Vec::new();
  for ci in &cfgs {
    let base = if signet_scen { Some(shm_snapshot(core, *ci)) } else { None };
    runs.push((*ci, run_config(core, base.as_deref(), chain_flag, *ci, case.blocks.len() + case.old.len())));
  }

  // restore the node
  for _ in 0..case.blocks.len() {
    pop_block(core);
  }
  assert_eq!(core.state().hashes.len(), base_len);

  // ---- observation: requests and input values of configuration `none`
  let abs = |o: &OutPoint| -> (u64, u32) { (*back.get(&o.txid).unwrap_or(&u64::MAX), o.vout) };
  let mut oracle: Result<(), String> = Ok(());
  let mut obs = L::new();
  let mut nreq_total = 0usize;
  let mut expected_values: Vec<Vec<u64>> = Vec::new(); // per non-coinbase tx in processing order
  for block in &case.blocks {
    for t in block.iter().skip(1) {
      expected_values.push(t.ins.iter().map(|i| value_of[i]).collect());
    }
  }
  for (ci, r) in &runs {
    let r = match r {
      Ok(r) => r,
      Err(e) => {
        oracle = Err(e.clone());
        if *ci == 0 {
          return Outcome { obs: panic_obs(), oracle, cat: "failed-update".into() };
        }
        continue;
      }
    };
    // `--no-index-inscriptions --index-runes` does not run index_utxo_entries at all
    if *ci == 5 {
      continue;
    }
    // S1: per-input values are the true values, in every configuration that looks at inputs
    let got: Vec<Vec<u64>> = r
      .events
      .iter()
      .filter_map(|e| match e {
        Event::Inputs { values, .. } => Some(values.iter().map(|(_, v)| *v).collect()),
        _ => None,
      })
      .collect();
    if got != expected_values && oracle.is_ok() {
      oracle = Err(format!("configuration `{}`: per-input values {got:?}, true values {expected_values:?}", CONFIGS[*ci].0));
    }
    // S2: the queue is consumed in the order it was filled, each value for the right outpoint
    let reqs: Vec<OutPoint> = r.events.iter().filter_map(|e| if let Event::Request { outpoint, .. } = e { Some(*outpoint) } else { None }).collect();
    let recvs: Vec<(OutPoint, u64)> = r.events.iter().filter_map(|e| if let Event::Receive { outpoint, value, .. } = e { Some((*outpoint, *value)) } else { None }).collect();
    if reqs != recvs.iter().map(|(o, _)| *o).collect::<Vec<_>>() && oracle.is_ok() {
      oracle = Err(format!("configuration `{}`: requested {reqs:?} but received for {recvs:?}", CONFIGS[*ci].0));
    }
    for (o, v) in &recvs {
      if value_of.get(&abs(o)) != Some(v) && oracle.is_ok() {
        oracle = Err(format!("configuration `{}`: received {v} for {o}", CONFIGS[*ci].0));
      }
    }
    if *ci == 0 {
      // observation in block order
      let mut by_height: BTreeMap<u32, (Vec<OutPoint>, Vec<Vec<u64>>)> = BTreeMap::new();
      for b in 0..case.blocks.len() {
        by_height.insert((base_len + b) as u32, (Vec::new(), Vec::new()));
      }
      for e in &r.events {
        match e {
          Event::Request { height, outpoint } => by_height.entry(*height).or_default().0.push(*outpoint),
          Event::Inputs { height, values, .. } => by_height.entry(*height).or_default().1.push(values.iter().map(|(_, v)| *v).collect()),
          _ => {}
        }
      }
      for (_, (rq, vals)) in by_height {
        nreq_total += rq.len();
        obs.push(rq.len());
        for o in rq {
          let (id, vout) = abs(&o);
          obs.push(id);
          obs.push(vout);
        }
        for vs in vals {
          obs.push(vs.len());
          for v in vs {
            obs.push(v);
          }
        }
      }
    }
  }

  // S3: projections pairwise equal wherever both configurations index that kind of object
  let ok_runs: Vec<(usize, &ConfigRun)> = runs.iter().filter_map(|(ci, r)| r.as_ref().ok().map(|r| (*ci, r))).collect();
  let insc: Vec<(usize, String)> = ok_runs.iter().filter(|(ci, _)| *ci != 5).map(|(ci, r)| (*ci, inscription_projection(&r.dump))).collect();
  for w2 in insc.windows(2) {
    if w2[0].1 != w2[1].1 && oracle.is_ok() {
      oracle = Err(format!("inscription results differ between `{}` and `{}`:\n{}\n--- vs ---\n{}", CONFIGS[w2[0].0].0, CONFIGS[w2[1].0].0, w2[0].1, w2[1].1));
    }
  }
  let runes: Vec<(usize, String)> = ok_runs.iter().filter(|(ci, _)| *ci == 4 || *ci == 5).map(|(ci, r)| (*ci, rune_projection(&r.dump))).collect();
  for w2 in runes.windows(2) {
    if w2[0].1 != w2[1].1 && oracle.is_ok() {
      oracle = Err(format!("rune results differ between `{}` and `{}`", CONFIGS[w2[0].0].0, CONFIGS[w2[1].0].0));
    }
  }
  let n_insc = ok_runs.first().map(|(_, r)| r.dump.sequence_number_to_inscription_entry.len()).unwrap_or(0);
  let cat = format!(
    "{}/fetch{}/insc{}",
    if signet_scen { "signet" } else { "regtest" },
    match nreq_total {
      0 => "0",
      1 => "1",
      2..=4 => "2-4",
      _ => "5+",
    },
    match n_insc {
      0 => "0",
      1..=3 => "1-3",
      _ => "4+",
    }
  );
  Outcome { obs: obs.done(), oracle, cat }
}
