//! Harness for property C15: optional indexes do not change inscription or rune
//! results; the node-fetch path agrees with local tracking.
use hxlib::*;

mod c15;

fn main() {
  let args = parse_args();
  match args.prop.as_str() {
    "C15" => drive(&args, c15::gen, c15::run),
    p => {
      eprintln!("unknown property {p}");
      std::process::exit(2);
    }
  }
}
