//! C30 — printed sat notations parse back to the same sat.
//! case: [0, n] integer  [1, n] decimal  [2, n] degree  [3, n] name:
//!         obs = printed string (length-prefixed scalar values) or -2, then Sat::from_str of it
//!         as  0 m | 1 kind | -2
//!       [4, n, r..] percentile: r = result of percentile -> from_str computed when the case was
//!         generated; obs = the same computed again (the extracted model echoes r; the binary64
//!         model is evaluated inside Coq on the per-run sample)
//!       [5, len, chars..] Sat::from_str on a mutated notation (never contains '%')
//!       [6, shard, of] percentile round-trip search over a shard of all block-boundary sats and
//!         random sats; obs = [0]; the oracle reports the first failing sat
//! Oracle (S): the round trip really executed: from_str(print(n)) == n for n < SUPPLY.
use crate::c29::{starts, subsidy_heights, supply};
use hxlib::*;
use ordinals::Sat;
use std::panic::{catch_unwind, AssertUnwindSafe};

const KINDS: [(&str, u8); 15] = [
  ("invalid integer range", 1),
  ("invalid name range", 2),
  ("invalid character in name", 3),
  ("invalid percentile", 4),
  ("invalid block offset", 5),
  ("missing period", 6),
  ("trailing character", 7),
  ("missing degree symbol", 8),
  ("missing minute symbol", 9),
  ("missing second symbol", 10),
  ("invalid period offset", 11),
  ("invalid epoch offset", 12),
  ("relationship between epoch offset and period offset must be multiple of 336", 13),
  ("invalid integer: ", 14),
  ("invalid float: ", 15),
];

/// parse result as wire integers: 0 m | 1 kind | -2
fn parse_obs(s: &str) -> Vec<Z> {
  match catch_unwind(AssertUnwindSafe(|| s.parse::<Sat>())) {
    Err(_) => vec![Z { neg: true, mag: 2 }],
    Ok(Ok(sat)) => vec![0u8.into(), sat.n().into()],
    Ok(Err(e)) => {
      // the kind is private; its Display text follows the fixed prefix that quotes the input
      let msg = e.to_string();
      let prefix = format!("failed to parse sat `{s}`: ");
      let tail = msg.strip_prefix(&prefix).unwrap_or("");
      let kind = KINDS.iter().find(|(t, k)| if *k >= 14 { tail.starts_with(t) } else { tail == *t }).map(|(_, k)| *k).unwrap_or(0);
      vec![1u8.into(), kind.into()]
    }
  }
}

fn print_notation(op: u8, n: u64) -> Option<String> {
  let s = Sat(n);
  catch_unwind(AssertUnwindSafe(|| match op {
    0 => s.to_string(),
    1 => s.decimal().to_string(),
    2 => s.degree().to_string(),
    3 => s.name(),
    _ => s.percentile(),
  }))
  .ok()
}

fn mutate(rng: &mut Rng, s: &str) -> String {
  const POOL: [char; 20] = ['0', '1', '9', '5', '+', '-', '.', '°', '′', '″', '‴', ' ', 'a', 'z', 'A', '٣', '0', '2', '7', '°'];
  const BIG: [&str; 8] = ["4294967295", "4294967296", "715827882", "715827883", "18446744073709551615", "18446744073709551616", "00", "+7"];
  let mut cs: Vec<char> = s.chars().collect();
  let k = rng.range(1, 2);
  for _ in 0..k {
    match rng.below(7) {
      0 if !cs.is_empty() => {
        let i = rng.below(cs.len() as u64) as usize;
        cs.remove(i);
      }
      1 if !cs.is_empty() => {
        let i = rng.below(cs.len() as u64) as usize;
        cs[i] = *rng.pick(&POOL);
      }
      2 => {
        let i = rng.below(cs.len() as u64 + 1) as usize;
        cs.insert(i, *rng.pick(&POOL));
      }
      3 if !cs.is_empty() => {
        let i = rng.below(cs.len() as u64) as usize;
        cs.truncate(i);
      }
      4 => {
        // replace one maximal digit run by a boundary number
        let runs: Vec<(usize, usize)> = {
          let mut v = Vec::new();
          let mut i = 0;
          while i < cs.len() {
            if cs[i].is_ascii_digit() {
              let j = (i..cs.len()).find(|j| !cs[*j].is_ascii_digit()).unwrap_or(cs.len());
              v.push((i, j));
              i = j;
            } else {
              i += 1;
            }
          }
          v
        };
        if !runs.is_empty() {
          let (a, b) = *rng.pick(&runs);
          let rep: Vec<char> = if rng.chance(1, 2) { rng.pick(&BIG).chars().collect() } else { rng.below(3_000_000).to_string().chars().collect() };
          cs.splice(a..b, rep);
        }
      }
      5 => {
        cs.insert(0, '+');
      }
      _ => {
        cs.insert(0, '0');
      }
    }
  }
  cs.into_iter().filter(|c| *c != '%').collect()
}

fn sample_sats(rng: &mut Rng, n_heights: usize, n_rand: usize) -> Vec<u64> {
  let t = starts();
  let last = subsidy_heights();
  let sup = supply();
  let mut v = Vec::new();
  let mut hs: Vec<u32> = (0..=12).collect();
  for e in 0..33u32 {
    for d in -2i64..=2 {
      let h = i64::from(e * 210_000) + d;
      if h >= 0 {
        hs.push(h as u32);
      }
    }
    // the six epoch positions inside a cycle differ in the 336 relationship: add period boundaries
    let p = e * 210_000 / 2016 * 2016;
    hs.extend([p, p + 2015, p + 2016]);
  }
  hs.extend([last - 1, last - 2, last - 2016]);
  for _ in 0..n_heights {
    hs.push(rng.below(u64::from(last)) as u32);
  }
  for h in hs {
    let first = t[h as usize];
    let lastsat = t[h as usize + 1] - 1;
    v.push(first);
    v.push(lastsat);
    if rng.chance(1, 3) {
      v.push(first + rng.below(lastsat - first + 1));
    }
  }
  for _ in 0..n_rand {
    v.push(rng.below(sup));
  }
  for _ in 0..n_rand / 2 {
    let e = rng.below(33) as u32;
    let lo = t[(e * 210_000) as usize];
    let hi = t[((e + 1) * 210_000) as usize];
    v.push(lo + rng.below(hi - lo));
  }
  // names of every length: SUPPLY - 26^k-ish
  let mut p = 1u64;
  for _ in 0..11 {
    for x in [p.saturating_sub(1), p, p + 1, p + 25, p + 26] {
      if x >= 1 && x <= sup {
        v.push(sup - x);
      }
    }
    p = p.saturating_mul(26);
  }
  // powers of ten (digit-count boundaries of the integer notation)
  let mut p = 1u64;
  while p < sup {
    v.extend([p - 1, p, p + 1]);
    p *= 10;
  }
  v.extend([0, 1, sup - 1, sup - 2]);
  v
}

pub fn gen(rng: &mut Rng, tier: &str) -> Vec<Line> {
  let thorough = tier == "thorough";
  let n_heights: usize = if thorough { 300_000 } else { 6_000 };
  let n_rand: usize = if thorough { 300_000 } else { 6_000 };
  let sup = supply();
  let mut v = Vec::new();
  let shards: u32 = if thorough { 64 } else { 8 };
  for k in 0..shards {
    v.push(L::new().p(6u8).p(k).p(shards).p(thorough).done());
  }
  let sats = sample_sats(rng, n_heights, n_rand);
  for &n in &sats {
    for op in 0..4u8 {
      v.push(L::new().p(op).p(n).done());
    }
    let mut l = L::new().p(4u8).p(n);
    l.0.extend(parse_obs(&print_notation(4, n).unwrap()));
    v.push(l.done());
    // mutated notations
    if rng.chance(1, 2) {
      let op = rng.below(4) as u8;
      if let Some(s) = print_notation(op, n) {
        let m = mutate(rng, &s);
        let mut l = L::new().p(5u8);
        l.str(&m);
        v.push(l.done());
      }
    }
  }
  // hand-written strings for the parser branches
  for s in [
    "", "+", "-", "0", "+0", "00", "-0", "2099999997689999", "2099999997690000", "18446744073709551616", "a", "z", "nvtdijuwxlp", "nvtdijuwxlq", "nvtdijuwxlpa", "aA", "a°", "0.0", "0.", ".0", "0.5000000000", "6929999.0", "6930000.0", "4294967296.0", "0°0′0″0‴", "0°0′0″", "0°0′0″0‴x", "0°0′0″‴", "0°1′1″0‴", "0°336′0″0‴", "0°0′336″0‴", "5°0′336″0‴", "5°209999′1007″0‴", "5°210000′0″0‴", "0°0′2016″0‴", "715827882°0′0″0‴", "715827883°0′0″0‴",
    "4294967295°0′0″0‴", "0°0′0", "0°0", "1°0′0″0‴", "0°0′0″5000000000‴", "+0°+0′+0″+0‴",
  ] {
    let mut l = L::new().p(5u8);
    l.str(s);
    v.push(l.done());
  }
  // at and beyond the supply: decimal/degree panic, name is empty or underflows
  for n in [sup, sup + 1, u64::MAX] {
    for op in 0..4u8 {
      v.push(L::new().p(op).p(n).done());
    }
  }
  v
}

fn percentile_roundtrip(n: u64) -> Result<u64, String> {
  let p = Sat(n).percentile();
  match p.parse::<Sat>() {
    Ok(m) => Ok(m.n()),
    Err(e) => Err(e.to_string()),
  }
}

pub fn run(case: &Line) -> Outcome {
  let mut c = Cur::new(case);
  let op = c.u8();
  match op {
    0..=3 => {
      let n = c.u64();
      let names = ["integer", "decimal", "degree", "name"];
      let mut l = L::new();
      let printed = print_notation(op, n);
      let mut oracle = Ok(());
      let cat;
      match &printed {
        None => {
          l.push(-2i64);
          cat = format!("{}/print-panics-beyond-supply", names[op as usize]);
          if n < supply() {
            oracle = Err(format!("printing sat {n} in {} notation panicked", names[op as usize]));
          }
        }
        Some(s) => {
          l.str(s);
          let r = parse_obs(s);
          let good = r.len() == 2 && r[0].mag == 0 && r[1].mag == u128::from(n);
          l.0.extend(r);
          if n < supply() {
            if !good {
              oracle = Err(format!("sat {n} prints as `{s}` in {} notation, which does not parse back to it", names[op as usize]));
            }
            cat = format!("{}/len{}", names[op as usize], s.chars().count());
          } else {
            cat = format!("{}/beyond-supply", names[op as usize]);
          }
        }
      }
      Outcome { obs: l.done(), oracle, cat }
    }
    4 => {
      let n = c.u64();
      let s = print_notation(4, n).unwrap();
      let r = parse_obs(&s);
      let good = r.len() == 2 && r[0].mag == 0 && r[1].mag == u128::from(n);
      let oracle = if good || n >= supply() { Ok(()) } else { Err(format!("[percentile-roundtrip] sat {n} prints as `{s}`, which parses to {}", fmt_line(&r))) };
      Outcome { obs: r, oracle, cat: format!("percentile/digits{}", s.len()) }
    }
    5 => {
      let s = c.string();
      let r = parse_obs(&s);
      let cat = if r.len() == 1 {
        "mutated/panic".to_string()
      } else if r[0].mag == 0 {
        "mutated/accepted".to_string()
      } else {
        format!("mutated/err{}", r[1].mag)
      };
      Outcome { obs: r, oracle: Ok(()), cat }
    }
    _ => {
      // percentile search shard: every block-boundary sat of the heights in this shard
      // (every height in the thorough tier, every 16th otherwise) plus random sats
      let shard = c.u32();
      let of = c.u32();
      let thorough = c.bool();
      let t = starts();
      let last = subsidy_heights();
      let step: usize = if thorough { 1 } else { 16 };
      let mut first_fail: Option<(u64, String)> = None;
      let mut tried = 0u64;
      let mut check = |n: u64| {
        tried += 1;
        match percentile_roundtrip(n) {
          Ok(m) if m == n => {}
          Ok(m) => {
            first_fail.get_or_insert((n, format!("{m}")));
          }
          Err(e) => {
            first_fail.get_or_insert((n, e));
          }
        }
      };
      let lo = (u64::from(last) * u64::from(shard) / u64::from(of)) as usize;
      let hi = (u64::from(last) * u64::from(shard + 1) / u64::from(of)) as usize;
      let mut h = lo;
      while h < hi {
        check(t[h]);
        check(t[h + 1] - 1);
        h += step;
      }
      let mut rng = Rng::new(0xC30 + u64::from(shard));
      let n_rand = if thorough { 160_000 } else { 25_000 };
      for _ in 0..n_rand {
        check(rng.below(supply()));
        // sats near the top, where the absolute rounding error of binary64 is largest
        check(supply() - 1 - rng.below(1 << 40));
      }
      let oracle = match first_fail {
        None => Ok(()),
        Some((n, m)) => Err(format!("[percentile-roundtrip] sat {n} percentile `{}` parses to {m} (searched {tried} sats in this shard)", Sat(n).percentile())),
      };
      Outcome { obs: L::new().p(0u8).done(), oracle, cat: "percentile-search-shard".into() }
    }
  }
}
