//! C29 — sat numbering matches heights and derived attributes.
//! case: [0, n]  every Sat method on Sat(n)           (see coq/Ord/Sat.v run_C29 for the line layout)
//!       [1, h]  Height(h): subsidy, starting_sat, epoch, period_offset
//!       [2, e]  Epoch(e): subsidy, starting_sat, starting_height
//!       [3]     Rarity::supply() table; oracle recounts the rarities of all mined sats on the implementation
//! Oracle (S): an independent table of first sats per height built by the plain
//! cumulative subsidy loop (50 BTC halved every 210000 blocks); (height, offset) of a
//! sat found by binary search in that table; every attribute recomputed from
//! (height, offset) by its definition.
use hxlib::*;
use ordinals::{Charm, Epoch, Height, Rarity, Sat};
use std::panic::{catch_unwind, AssertUnwindSafe};
use std::sync::OnceLock;

const HALVING: u32 = 210_000;
const PERIOD: u32 = 2016;
const CYCLE: u32 = 6 * HALVING;

/// starts()[h] = number of sats mined before block h, for h in 0..=LAST_HEIGHT+1
/// (independent of ordinals::Epoch::STARTING_SATS).
pub fn starts() -> &'static Vec<u64> {
  static T: OnceLock<Vec<u64>> = OnceLock::new();
  T.get_or_init(|| {
    let mut v = Vec::new();
    let mut total = 0u64;
    let mut h = 0u32;
    loop {
      v.push(total);
      let halvings = h / HALVING;
      let subsidy = if halvings >= 64 { 0 } else { 5_000_000_000u64 >> halvings };
      if subsidy == 0 {
        break;
      }
      total += subsidy;
      h += 1;
    }
    v
  })
}

pub fn subsidy_heights() -> u32 {
  (starts().len() - 1) as u32
}

pub fn supply() -> u64 {
  *starts().last().unwrap()
}

/// (height, offset) of sat n < supply by binary search
pub fn locate(n: u64) -> (u32, u64) {
  let t = starts();
  let h = t.partition_point(|s| *s <= n) - 1;
  (h as u32, n - t[h])
}

fn interesting_heights(rng: &mut Rng, n_rand: usize) -> Vec<u32> {
  let last = subsidy_heights(); // first height without subsidy
  let mut hs = Vec::new();
  for d in 0..=40u32 {
    hs.push(d);
  }
  // every epoch boundary (hence every cycle boundary), and the period boundaries around it
  for e in 0..=34u32 {
    let b = e * HALVING;
    for d in -3i64..=3 {
      let h = i64::from(b) + d;
      if h >= 0 {
        hs.push(h as u32);
      }
    }
    let p = b / PERIOD * PERIOD;
    for d in [-1i64, 0, 1, i64::from(PERIOD) - 1, i64::from(PERIOD), i64::from(PERIOD) + 1] {
      let h = i64::from(p) + d;
      if h >= 0 {
        hs.push(h as u32);
      }
    }
  }
  for d in 0..=5u32 {
    hs.push(last - d);
    hs.push(last + d);
  }
  // random period boundaries, random heights
  for _ in 0..n_rand / 8 {
    let p = rng.below(u64::from(last / PERIOD + 1)) as u32 * PERIOD;
    hs.push(p);
    hs.push(p.saturating_sub(1));
  }
  for _ in 0..n_rand {
    hs.push(rng.below(u64::from(last)) as u32);
  }
  hs
}

pub fn gen(rng: &mut Rng, tier: &str) -> Vec<Line> {
  let thorough = tier == "thorough";
  let n_heights: usize = if thorough { 1_500_000 } else { 20_000 };
  let n_rand: usize = if thorough { 1_000_000 } else { 20_000 };
  let t = starts();
  let last = subsidy_heights();
  let sup = supply();
  let mut v = Vec::new();
  v.push(L::new().p(3u8).done());
  for e in 0..=40u32 {
    v.push(L::new().p(2u8).p(e).done());
  }
  for e in [20451u32, 20452, 20453, 1 << 20, u32::MAX] {
    v.push(L::new().p(2u8).p(e).done());
  }
  for h in interesting_heights(rng, n_heights) {
    v.push(L::new().p(1u8).p(h).done());
    if h < last {
      let first = t[h as usize];
      let lastsat = t[h as usize + 1] - 1;
      v.push(L::new().p(0u8).p(first).done());
      v.push(L::new().p(0u8).p(lastsat).done());
      if rng.chance(1, 4) {
        v.push(L::new().p(0u8).p(first + 1).done());
        v.push(L::new().p(0u8).p(first + rng.below(lastsat - first + 1)).done());
      }
    }
  }
  // heights beyond the last subsidy, up to u32::MAX
  for k in 0..32u32 {
    let p = 1u32 << k;
    for h in [p.wrapping_sub(1), p, p.wrapping_add(1)] {
      v.push(L::new().p(1u8).p(h).done());
    }
  }
  v.push(L::new().p(1u8).p(u32::MAX).done());
  for _ in 0..n_rand / 20 {
    v.push(L::new().p(1u8).p(rng.next() as u32).done());
  }
  // random sats: uniform below the supply (mostly epoch 0/1), uniform per epoch, multiples of
  // the fast-path divisor, coins, palindromes
  for _ in 0..n_rand {
    v.push(L::new().p(0u8).p(rng.below(sup)).done());
  }
  for _ in 0..n_rand / 2 {
    let e = rng.below(33) as u32;
    let lo = t[(e * HALVING) as usize];
    let hi = t[((e + 1) * HALVING) as usize];
    v.push(L::new().p(0u8).p(lo + rng.below(hi - lo)).done());
  }
  for _ in 0..n_rand / 8 {
    let k = rng.below(sup / 9_765_625);
    v.push(L::new().p(0u8).p(k * 9_765_625).done());
    let c = rng.below(sup / 100_000_000);
    v.push(L::new().p(0u8).p(c * 100_000_000).done());
    // palindrome: mirror a random prefix
    let half = rng.below(100_000_000).to_string();
    let odd = rng.chance(1, 2);
    let rev: String = half.chars().rev().skip(usize::from(odd)).collect();
    let pal: u64 = format!("{half}{rev}").parse().unwrap();
    if pal < sup {
      v.push(L::new().p(0u8).p(pal).done());
      v.push(L::new().p(0u8).p(pal + 1).done());
    }
  }
  // the nineball block and its neighbours
  for n in [t[9] - 1, t[9], t[9] + 1, t[10] - 1, t[10], t[10] + 1] {
    v.push(L::new().p(0u8).p(n).done());
  }
  // the top of the range and beyond: the methods dividing by the subsidy panic from SUPPLY on
  for d in 0..=3u64 {
    v.push(L::new().p(0u8).p(sup - 1 - d).done());
    v.push(L::new().p(0u8).p(sup + d).done());
  }
  for n in [
    u64::MAX,
    u64::MAX - 1,
    10_000_000_000_000_000_009,
    10_000_000_000_000_000_001,
    9_999_999_999_999_999_999,
    1u64 << 63,
    1u64 << 53,
    (1u64 << 53) + 1,
  ] {
    v.push(L::new().p(0u8).p(n).done());
  }
  for _ in 0..n_rand / 50 {
    v.push(L::new().p(0u8).p(rng.u64_any_width()).done());
  }
  v
}

const PANIC: i64 = -2;

fn field<T, F: FnOnce() -> T>(f: F) -> Option<T> {
  catch_unwind(AssertUnwindSafe(f)).ok()
}

fn push1<T: Into<Z>>(l: &mut L, v: Option<T>) {
  match v {
    Some(x) => l.push(x),
    None => l.push(PANIC),
  }
}

fn rarity_of(h: u32, o: u64) -> Rarity {
  if o != 0 {
    Rarity::Common
  } else if h == 0 {
    Rarity::Mythic
  } else if h % CYCLE == 0 {
    Rarity::Legendary
  } else if h % HALVING == 0 {
    Rarity::Epic
  } else if h % PERIOD == 0 {
    Rarity::Rare
  } else {
    Rarity::Uncommon
  }
}

pub fn run(case: &Line) -> Outcome {
  let mut c = Cur::new(case);
  match c.u8() {
    0 => {
      let n = c.u64();
      let s = Sat(n);
      let mut l = L::new();
      let epoch = s.epoch().0;
      let cycle = s.cycle();
      let pos = s.epoch_position();
      let common = s.common();
      let nineball = s.nineball();
      let coin = s.coin();
      l.push(epoch);
      l.push(cycle);
      l.push(pos);
      l.push(common);
      l.push(nineball);
      l.push(coin);
      let height = field(|| s.height().n());
      let third = field(|| s.third());
      let period = field(|| s.period());
      let degree = field(|| s.degree());
      let decimal = field(|| s.decimal());
      let rarity = field(|| s.rarity());
      let pal = field(|| s.palindrome());
      let charms = field(|| s.charms());
      push1(&mut l, height);
      push1(&mut l, third);
      push1(&mut l, period);
      match &degree {
        Some(d) => {
          l.push(d.hour);
          l.push(d.minute);
          l.push(d.second);
          l.push(d.third);
        }
        None => l.push(PANIC),
      }
      match &decimal {
        Some(d) => {
          l.push(d.height.n());
          l.push(d.offset);
        }
        None => l.push(PANIC),
      }
      push1(&mut l, rarity.map(u8::from));
      push1(&mut l, pal);
      push1(&mut l, charms);
      // S
      let mut oracle = Ok(());
      let cat;
      if n < supply() {
        let (h, o) = locate(n);
        let e = h / HALVING;
        let r = rarity_of(h, o);
        let digits = n.to_string();
        let is_pal = digits.chars().rev().collect::<String>() == digits;
        let mut want: u16 = 0;
        if h == 9 {
          want |= Charm::Nineball.flag();
        }
        if is_pal {
          want |= Charm::Palindrome.flag();
        }
        if n % 100_000_000 == 0 {
          want |= Charm::Coin.flag();
        }
        want |= match r {
          Rarity::Common => 0,
          Rarity::Uncommon => Charm::Uncommon.flag(),
          Rarity::Rare => Charm::Rare.flag(),
          Rarity::Epic => Charm::Epic.flag(),
          Rarity::Legendary => Charm::Legendary.flag(),
          Rarity::Mythic => Charm::Mythic.flag(),
        };
        let mut bad = Vec::new();
        if height != Some(h) {
          bad.push(format!("height {height:?} want {h}"));
        }
        if third != Some(o) {
          bad.push(format!("third {third:?} want {o}"));
        }
        if epoch != e {
          bad.push(format!("epoch {epoch} want {e}"));
        }
        if cycle != h / CYCLE {
          bad.push(format!("cycle {cycle} want {}", h / CYCLE));
        }
        if period != Some(h / PERIOD) {
          bad.push(format!("period {period:?} want {}", h / PERIOD));
        }
        if pos != n - starts()[(e * HALVING) as usize] {
          bad.push(format!("epoch_position {pos}"));
        }
        match &degree {
          Some(d) if d.hour == h / CYCLE && d.minute == h % HALVING && d.second == h % PERIOD && d.third == o => {}
          d => bad.push(format!("degree {d:?}")),
        }
        match &decimal {
          Some(d) if d.height.n() == h && d.offset == o => {}
          d => bad.push(format!("decimal {d:?}")),
        }
        if rarity != Some(r) {
          bad.push(format!("rarity {rarity:?} want {r:?}"));
        }
        if common != (r == Rarity::Common) {
          bad.push(format!("common() = {common} but rarity is {r:?}"));
        }
        if nineball != (h == 9) {
          bad.push(format!("nineball {nineball} at height {h}"));
        }
        if coin != (n % 100_000_000 == 0) {
          bad.push(format!("coin {coin}"));
        }
        if pal != Some(is_pal) {
          bad.push(format!("palindrome {pal:?} want {is_pal}"));
        }
        if charms != Some(want) {
          bad.push(format!("charms {charms:?} want {want}"));
        }
        // the sat is the o-th of block h according to the implementation's own Height API too
        if Height(h).starting_sat().n() + o != n || o >= Height(h).subsidy() {
          bad.push(format!("Height({h}).starting_sat() + {o} != {n} or offset >= subsidy"));
        }
        if !bad.is_empty() {
          oracle = Err(format!("sat {n} = block {h} offset {o}: {}", bad.join("; ")));
        }
        let pos_cat = if o == 0 {
          "first"
        } else if n + 1 == starts()[h as usize + 1] {
          "last"
        } else {
          "inner"
        };
        cat = format!("sat/{}/{}", r, pos_cat);
      } else {
        cat = format!("sat/beyond-supply/{}", if height.is_none() { "height-panics" } else { "height-ok" });
      }
      Outcome { obs: l.done(), oracle, cat }
    }
    1 => {
      let h = c.u32();
      guarded("height", || {
        let hh = Height(h);
        let sub = hh.subsidy();
        let st = hh.starting_sat().n();
        let obs = L::new().p(sub).p(st).p(Epoch::from(hh).0).p(hh.period_offset()).done();
        let t = starts();
        let last = subsidy_heights();
        let (wsub, wst) = if h < last { (t[h as usize + 1] - t[h as usize], t[h as usize]) } else { (0, supply()) };
        let oracle = if sub == wsub && st == wst && Epoch::from(hh).0 == h / HALVING && hh.period_offset() == h % PERIOD {
          Ok(())
        } else {
          Err(format!("Height({h}): subsidy {sub} want {wsub}, starting_sat {st} want {wst}"))
        };
        let cat = if h >= last {
          "height/post-subsidy".to_string()
        } else if h % HALVING == 0 {
          "height/epoch-boundary".to_string()
        } else if h % PERIOD == 0 {
          "height/period-boundary".to_string()
        } else {
          "height/inner".to_string()
        };
        Outcome { obs, oracle, cat }
      })
    }
    2 => {
      let e = c.u32();
      let ep = Epoch(e);
      let mut l = L::new().p(ep.subsidy()).p(ep.starting_sat().n());
      let sh = field(|| ep.starting_height().n());
      push1(&mut l, sh);
      let t = starts();
      let mut oracle = Ok(());
      if e <= 33 {
        let b = (e * HALVING) as usize;
        let wsub = if e < 33 { t[b + 1] - t[b] } else { 0 };
        if ep.starting_sat().n() != t[b] || ep.subsidy() != wsub || sh != Some(e * HALVING) {
          oracle = Err(format!("Epoch({e}): starting_sat {} want {}, subsidy {} want {wsub}", ep.starting_sat().n(), t[b], ep.subsidy()));
        }
      } else if ep.starting_sat().n() != supply() || ep.subsidy() != 0 {
        oracle = Err(format!("Epoch({e}) beyond the table: starting_sat {} subsidy {}", ep.starting_sat().n(), ep.subsidy()));
      }
      let cat = if e < 33 { "epoch/subsidy" } else if sh.is_some() { "epoch/post-subsidy" } else { "epoch/starting-height-overflow" };
      Outcome { obs: l.done(), oracle, cat: cat.into() }
    }
    _ => guarded("supply", || {
      let mut l = L::new();
      for r in Rarity::ALL {
        l.push(r.supply());
      }
      // S: count the rarity of every mined sat on the implementation: all sats of a block except
      // the first are common by C29's own claim, which the per-sat oracle checks on samples; here
      // the first sat of every block is classified by Sat::rarity and the rest counted as common
      // only after Sat::common agreed on the block's second and last sat.
      let t = starts();
      let last = subsidy_heights() as usize;
      let mut counts = [0u64; 6];
      let mut oracle = Ok(());
      for h in 0..last {
        let first = Sat(t[h]);
        let r = first.rarity();
        counts[u8::from(r) as usize] += 1;
        let size = t[h + 1] - t[h];
        counts[0] += size - 1;
        if first.common() || (size > 1 && (!Sat(t[h] + 1).common() || !Sat(t[h + 1] - 1).common())) {
          oracle = Err(format!("block {h}: Sat::common disagrees with first-sat-only rarity"));
        }
      }
      for r in Rarity::ALL {
        if counts[u8::from(r) as usize] != r.supply() {
          oracle = Err(format!("Rarity::{r:?}.supply() = {} but {} such sats are mined", r.supply(), counts[u8::from(r) as usize]));
        }
      }
      if counts.iter().sum::<u64>() != Sat::SUPPLY || supply() != Sat::SUPPLY {
        oracle = Err(format!("Sat::SUPPLY {} but cumulative subsidy is {}", Sat::SUPPLY, supply()));
      }
      Outcome { obs: l.done(), oracle, cat: "rarity-supply-table".into() }
    }),
  }
}
