//! Harness for properties anchored in crates/ordinals.
use hxlib::*;

mod c26;
mod c29;
mod c30;

fn main() {
  let args = parse_args();
  match args.prop.as_str() {
    "C26" => drive(&args, c26::gen, c26::run),
    "C29" => drive(&args, c29::gen, c29::run),
    "C30" => drive(&args, c30::gen, c30::run),
    p => {
      eprintln!("unknown property {p}");
      std::process::exit(2);
    }
  }
}
