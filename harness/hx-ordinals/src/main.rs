//! Harness for properties anchored in crates/ordinals.
use hxlib::*;

mod c26;
mod c29;

fn main() {
  let args = parse_args();
  match args.prop.as_str() {
    "C26" => drive(&args, c26::gen, c26::run),
    "C29" => drive(&args, c29::gen, c29::run),
    p => {
      eprintln!("unknown property {p}");
      std::process::exit(2);
    }
  }
}
