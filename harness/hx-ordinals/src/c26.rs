//! C26 — varints round-trip; decoding exact.
//! case: [0, n]            -> obs = encode(n) bytes
//!       [1, b0, b1, ...]  -> obs = [0, n, len] | [1] overlong | [2] overflow | [3] unterminated
use hxlib::*;
use ordinals::varint;

pub fn gen(rng: &mut Rng, tier: &str) -> Vec<Line> {
  let n_rand: usize = if tier == "thorough" { 1_000_000 } else { 20_000 };
  let mut v = Vec::new();
  // boundary values: 2^k, 2^k +- 1, MAX
  for k in 0..128u32 {
    let p = 1u128 << k;
    for n in [p.wrapping_sub(1), p, p.wrapping_add(1)] {
      v.push(L::new().p(0u8).p(n).done());
    }
  }
  v.push(L::new().p(0u8).p(u128::MAX).done());
  for _ in 0..n_rand {
    v.push(L::new().p(0u8).p(rng.u128_any_width()).done());
  }
  // all byte strings of length <= 2
  v.push(L::new().p(1u8).done());
  for a in 0..=255u8 {
    v.push(L::new().p(1u8).p(a).done());
  }
  for a in 0..=255u8 {
    for b in 0..=255u8 {
      v.push(L::new().p(1u8).p(a).p(b).done());
    }
  }
  // random strings biased to continuation bits, lengths up to 24
  for _ in 0..n_rand {
    let len = rng.below(25) as usize;
    let style = rng.below(4);
    let mut l = L::new().p(1u8);
    for i in 0..len {
      let mut b = rng.next() as u8;
      match style {
        0 => {}
        1 => b |= 0x80,
        2 => {
          if i + 1 < len || rng.chance(1, 2) {
            b |= 0x80
          } else {
            b &= 0x7f
          }
        }
        _ => {
          if rng.chance(9, 10) {
            b |= 0x80
          }
        }
      }
      l.push(b);
    }
    v.push(l.done());
  }
  // encodings of random values followed by junk (decode must stop at the first group)
  for _ in 0..n_rand / 4 {
    let n = rng.u128_any_width();
    let mut l = L::new().p(1u8);
    l.raw(&varint::encode(n));
    let junk = rng.below(4) as usize;
    l.raw(&rng.bytes(junk));
    v.push(l.done());
  }
  v
}

fn value_of_group(bs: &[u8]) -> Option<u128> {
  // mathematical value of 7-bit little-endian digits, None if it needs more than 128 bits
  let mut n: u128 = 0;
  for (i, b) in bs.iter().enumerate() {
    let d = u128::from(b & 0x7f);
    if d == 0 {
      continue;
    }
    let sh = 7 * i as u32;
    if sh >= 128 || (d << sh) >> sh != d {
      return None;
    }
    n |= d << sh;
  }
  Some(n)
}

pub fn run(case: &Line) -> Outcome {
  let mut c = Cur::new(case);
  match c.u8() {
    0 => {
      let n = c.u128();
      guarded("encode", || {
        let e = varint::encode(n);
        let mut obs = L::new();
        obs.raw(&e);
        // S: round trip with same length, also with trailing bytes
        let mut oracle = Ok(());
        match varint::decode(&e) {
          Ok((m, len)) if m == n && len == e.len() => {}
          other => oracle = Err(format!("decode(encode({n})) = {other:?}")),
        }
        let mut ext = e.clone();
        ext.extend_from_slice(&[0xff, 0x00]);
        match varint::decode(&ext) {
          Ok((m, len)) if m == n && len == e.len() => {}
          other => oracle = Err(format!("decode(encode({n}) ++ junk) = {other:?}")),
        }
        if e.len() > 19 || e.is_empty() {
          oracle = Err(format!("encode({n}) has length {}", e.len()));
        }
        let cat = format!("encode/len{}", e.len());
        Outcome { obs: obs.done(), oracle, cat }
      })
    }
    _ => {
      let bs = c.rest_bytes();
      guarded("decode", || {
        let r = varint::decode(&bs);
        // S: independent reading of the statement
        let term = bs.iter().position(|b| b & 0x80 == 0);
        let expect_ok = match term {
          Some(j) if j < 19 => value_of_group(&bs[..=j]).map(|n| (n, j + 1)),
          _ => None,
        };
        let (obs, cat, oracle) = match (&r, expect_ok) {
          (Ok((n, len)), Some((en, elen))) => (
            L::new().p(0u8).p(*n).p(*len).done(),
            format!("decode/ok/len{len}"),
            if *n == en && *len == elen { Ok(()) } else { Err(format!("decode({bs:?}) = ({n},{len}), first group is ({en},{elen})")) },
          ),
          (Ok((n, len)), None) => (
            L::new().p(0u8).p(*n).p(*len).done(),
            "decode/ok-unexpected".into(),
            Err(format!("decode({bs:?}) = ({n},{len}) but no terminated 128-bit group exists")),
          ),
          (Err(e), exp) => {
            let code: u8 = match e {
              varint::Error::Overlong => 1,
              varint::Error::Overflow => 2,
              varint::Error::Unterminated => 3,
            };
            (
              L::new().p(code).done(),
              format!("{}decode/err{code}", if bs.is_empty() { "trivial/" } else { "" }),
              match exp {
                None => Ok(()),
                Some((en, elen)) => Err(format!("decode({bs:?}) = {e:?} but first group is ({en},{elen})")),
              },
            )
          }
        };
        Outcome { obs, oracle, cat }
      })
    }
  }
}
