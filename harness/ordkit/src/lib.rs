//! Shared helpers for harnesses that drive a real `ord::Index` against an
//! in-process `mockcore` node.
use std::path::Path;

pub use mockcore;
pub use ord;

/// Open (or reopen) an index in `dir` against `core`. `flags` are `ord`
/// command-line options, e.g. `["--index-sats", "--index-runes",
/// "--commit-interval", "3"]`. The chain is regtest unless a flag says otherwise.
pub fn open_index(core: &mockcore::Handle, dir: &Path, flags: &[&str]) -> ord::Index {
  use clap::Parser;
  let mut args: Vec<String> = vec![
    "ord".into(),
    "--bitcoin-rpc-url".into(),
    core.url(),
    "--cookie-file".into(),
    core.cookie_file().to_str().unwrap().into(),
    "--data-dir".into(),
    dir.to_str().unwrap().into(),
  ];
  if !flags.iter().any(|f| matches!(*f, "--signet" | "--testnet" | "--testnet4" | "--chain" | "-s" | "-t" | "-r" | "--regtest")) {
    args.push("--regtest".into());
  }
  args.extend(flags.iter().map(|s| s.to_string()));
  let options = ord::Options::try_parse_from(args).expect("options");
  let settings = ord::settings::Settings::merge(options, Default::default()).expect("settings");
  ord::Index::open(&settings).expect("open index")
}

/// Same, also returning the resolved settings.
pub fn settings(core: &mockcore::Handle, dir: &Path, flags: &[&str]) -> ord::settings::Settings {
  use clap::Parser;
  let mut args: Vec<String> = vec![
    "ord".into(),
    "--bitcoin-rpc-url".into(),
    core.url(),
    "--cookie-file".into(),
    core.cookie_file().to_str().unwrap().into(),
    "--data-dir".into(),
    dir.to_str().unwrap().into(),
    "--regtest".into(),
  ];
  args.extend(flags.iter().map(|s| s.to_string()));
  let options = ord::Options::try_parse_from(args).expect("options");
  ord::settings::Settings::merge(options, Default::default()).expect("settings")
}

/// A regtest mock node.
pub fn regtest_core() -> mockcore::Handle {
  mockcore::builder().network(bitcoin::Network::Regtest).build()
}
