//! Shared helpers for harnesses that drive a real `ord::Index` against an
//! in-process `mockcore` node.
use std::path::Path;

pub use mockcore;
pub use ord;

/// Open (or reopen) an index in `dir` against `core`. `flags` are `ord`
/// command-line options, e.g. `["--index-sats", "--index-runes",
/// "--commit-interval", "3"]`. The chain is regtest unless a flag says otherwise.
pub fn open_index(core: &mockcore::Handle, dir: &Path, flags: &[&str]) -> ord::Index {
  use clap::Parser;
  let mut args: Vec<String> = vec![
    "ord".into(),
    "--bitcoin-rpc-url".into(),
    core.url(),
    "--cookie-file".into(),
    core.cookie_file().to_str().unwrap().into(),
    "--data-dir".into(),
    dir.to_str().unwrap().into(),
  ];
  if !flags.iter().any(|f| matches!(*f, "--signet" | "--testnet" | "--testnet4" | "--chain" | "-s" | "-t" | "-r" | "--regtest")) {
    args.push("--regtest".into());
  }
  args.extend(flags.iter().map(|s| s.to_string()));
  let options = ord::Options::try_parse_from(args).expect("options");
  let settings = ord::settings::Settings::merge(options, Default::default()).expect("settings");
  ord::Index::open(&settings).expect("open index")
}

/// Same, also returning the resolved settings.
pub fn settings(core: &mockcore::Handle, dir: &Path, flags: &[&str]) -> ord::settings::Settings {
  use clap::Parser;
  let mut args: Vec<String> = vec![
    "ord".into(),
    "--bitcoin-rpc-url".into(),
    core.url(),
    "--cookie-file".into(),
    core.cookie_file().to_str().unwrap().into(),
    "--data-dir".into(),
    dir.to_str().unwrap().into(),
    "--regtest".into(),
  ];
  args.extend(flags.iter().map(|s| s.to_string()));
  let options = ord::Options::try_parse_from(args).expect("options");
  ord::settings::Settings::merge(options, Default::default()).expect("settings")
}

/// A regtest mock node.
pub fn regtest_core() -> mockcore::Handle {
  mockcore::builder().network(bitcoin::Network::Regtest).build()
}

/// Open an index against a node reachable at `rpc_url` (used by child processes
/// that talk to a mock node living in the parent process).
pub fn open_index_url(rpc_url: &str, cookie_file: &str, dir: &Path, flags: &[String]) -> ord::Index {
  use clap::Parser;
  let mut args: Vec<String> = vec![
    "ord".into(),
    "--bitcoin-rpc-url".into(),
    rpc_url.into(),
    "--cookie-file".into(),
    cookie_file.into(),
    "--data-dir".into(),
    dir.to_str().unwrap().into(),
    "--regtest".into(),
  ];
  args.extend(flags.iter().cloned());
  let options = ord::Options::try_parse_from(args).expect("options");
  let settings = ord::settings::Settings::merge(options, Default::default()).expect("settings");
  ord::Index::open(&settings).expect("open index")
}

/// A reveal witness carrying one inscription (tapscript + empty control block).
pub fn inscription_witness(content_type: &[u8], body: &[u8]) -> bitcoin::Witness {
  let inscription = ord::Inscription {
    content_type: Some(content_type.to_vec()),
    body: Some(body.to_vec()),
    ..Default::default()
  };
  let script = inscription
    .append_reveal_script_to_builder(bitcoin::script::Builder::new())
    .into_script();
  let mut witness = bitcoin::Witness::new();
  witness.push(script.as_bytes());
  witness.push([]);
  witness
}

/// Statistic keys that are scheduling / timing bookkeeping, not index content.
pub const BOOKKEEPING_STATS: [u64; 3] = [2, 9, 17]; // Commits, InitialSyncTime, LastSavepointHeight

/// Index content for comparisons across schedules: every table except the
/// write-transaction timestamps, statistics without the bookkeeping keys.
pub fn content(mut dump: ord::index::verif::Dump) -> ord::index::verif::Dump {
  dump.write_transaction_starting_block_count_to_timestamp.clear();
  dump.statistic_to_count.retain(|(k, _)| !BOOKKEEPING_STATS.contains(k));
  dump
}
