//! C22 — wallet rune sends, burns and splits move exactly the requested amounts.
//!
//! op 0 (send / burn): end to end. A fresh world per case (mock node, real index, real
//!   wallet); `ord wallet send|burn` through the command-line parser; the broadcast
//!   transaction is mined, the real index updated, and the balances of every output of
//!   that transaction and the burned counters are read back from the index.
//!     case: 0 is_send fund_change rune amount n_inv (inscribed sheet)*   [harness: n_runes]
//! op 1 (split): the real, pure `Split::build_transaction` through the guarded wrapper;
//!   the produced transaction is deciphered with the real `Runestone::decipher` and the
//!   allocation rules are applied by the harness' own small implementation.
//!     case: 1 fund_change oversize postage change_dust n_inv (inscribed sheet)* n_outs (hasv v threshold sheet)*  [harness: limit_on]
//!   sheet = k (id amt)*k ; rune ids on the wire are block * 2^32 + tx
//! obs: 0 n_in in* n_out (sheet)*n_out burned_sheet | 1 kind | -2
use crate::world::*;
use bitcoin::{Address, Amount, Network, OutPoint, ScriptBuf, Transaction};
use bitcoin::hashes::Hash as _;
use hxlib::*;
use ordinals::{Artifact, Rune, RuneId, Runestone};
use std::collections::BTreeMap;

fn wire_id(id: RuneId) -> u128 {
  (u128::from(id.block) << 32) | u128::from(id.tx)
}

type Sheet = Vec<(u128, u128)>; // (wire id, amount)

fn push_sheet(l: &mut L, s: &Sheet) {
  l.push(s.len());
  for (id, a) in s {
    l.push(*id);
    l.push(*a);
  }
}
fn read_sheet(c: &mut Cur) -> Sheet {
  let k = c.usize();
  (0..k).map(|_| (c.u128(), c.u128())).collect()
}
fn show_sheet(l: &mut L, m: &BTreeMap<u128, u128>) {
  let nz: Vec<_> = m.iter().filter(|(_, a)| **a > 0).collect();
  l.push(nz.len());
  for (id, a) in nz {
    l.push(*id);
    l.push(*a);
  }
}

// ------------------------------------------------------------------ split (pure)

/// the fixed rune table of the pure split cases: (name, id); name order != id order
const TABLE: [(u128, (u64, u32)); 4] = [(100, (2, 1)), (200, (1, 5)), (300, (3, 0)), (50, (2, 7))];

fn table_id(k: usize) -> u128 {
  wire_id(RuneId { block: TABLE[k].1 .0, tx: TABLE[k].1 .1 })
}
fn name_of_wire(id: u128) -> Rune {
  Rune(TABLE.iter().find(|(_, (b, t))| wire_id(RuneId { block: *b, tx: *t }) == id).expect("rune id of the table").0)
}
/// sort a sheet the way a BTreeMap<Rune, _> iterates
fn by_name(mut s: Sheet) -> Sheet {
  s.sort_by_key(|(id, _)| name_of_wire(*id));
  s
}

fn address_for_threshold(th: u64) -> Address {
  address_for_threshold_on(th, Network::Bitcoin)
}

fn address_for_threshold_on(th: u64, network: Network) -> Address {
  let script = match th {
    294 => ScriptBuf::new_p2wpkh(&bitcoin::WPubkeyHash::from_byte_array([3; 20])),
    546 => ScriptBuf::new_p2pkh(&bitcoin::PubkeyHash::from_byte_array([4; 20])),
    _ => ScriptBuf::new_p2tr_tweaked(bitcoin::key::TweakedPublicKey::dangerous_assume_tweaked(
      bitcoin::XOnlyPublicKey::from_slice(&[
        0x79, 0xbe, 0x66, 0x7e, 0xf9, 0xdc, 0xbb, 0xac, 0x55, 0xa0, 0x62, 0x95, 0xce, 0x87, 0x0b, 0x07, 0x02, 0x9b,
        0xfc, 0xdb, 0x2d, 0xce, 0x28, 0xd9, 0x59, 0xf2, 0x81, 0x5b, 0x16, 0xf8, 0x17, 0x98,
      ])
      .unwrap(),
    )),
  };
  assert_eq!(script.minimal_non_dust().to_sat(), th, "dust threshold of the address type");
  Address::from_script(&script, network).unwrap()
}

struct SplitOut {
  value: Option<u64>,
  threshold: u64,
  runes: Sheet,
}
struct SplitCase {
  /// 0 = pure function through the hook; n > 0 = end to end with n etched runes
  e2e_runes: usize,
  oversize: bool,
  limit_on: bool,
  postage: u64,
  change_dust: u64,
  inv: Vec<(bool, Sheet)>,
  outs: Vec<SplitOut>,
}

fn encode_split(c: &SplitCase) -> Line {
  let mut l = L::new().p(1u8).p(c.e2e_runes > 0).p(c.oversize).p(c.postage).p(c.change_dust).p(c.inv.len());
  for (ins, s) in &c.inv {
    l.push(*ins);
    push_sheet(&mut l, s);
  }
  l.push(c.outs.len());
  for o in &c.outs {
    l.push(o.value.is_some());
    l.push(o.value.unwrap_or(0));
    l.push(o.threshold);
    push_sheet(&mut l, &o.runes);
  }
  l.push(c.limit_on);
  l.push(c.e2e_runes);
  l.done()
}

fn decode_split(c: &mut Cur) -> SplitCase {
  let _fc = c.bool();
  let oversize = c.bool();
  let postage = c.u64();
  let change_dust = c.u64();
  let n = c.usize();
  let inv = (0..n).map(|_| (c.bool(), read_sheet(c))).collect();
  let m = c.usize();
  let outs = (0..m)
    .map(|_| {
      let hasv = c.bool();
      let v = c.u64();
      let threshold = c.u64();
      SplitOut { value: hasv.then_some(v), threshold, runes: read_sheet(c) }
    })
    .collect();
  let limit_on = if c.at_end() { false } else { c.bool() };
  let e2e_runes = if c.at_end() { 0 } else { c.usize() };
  SplitCase { e2e_runes, oversize, limit_on, postage, change_dust, inv, outs }
}

fn gen_amount(rng: &mut Rng, big: bool) -> u128 {
  match rng.below(8) {
    0 => 1,
    1 => 2,
    2 if big => u128::MAX / 4,
    3 if big => rng.u128_any_width() >> 2,
    _ => 1 + u128::from(rng.below(1000)),
  }
}

fn gen_split(rng: &mut Rng) -> SplitCase {
  let mode = rng.below(10);
  let limit_on = mode == 0 || mode == 1;
  let many = mode == 1;
  let big = !limit_on && rng.chance(1, 3);
  let n_runes = rng.range(1, 4) as usize;
  let n_outs = if many { rng.range(30, 40) } else { rng.below(5) } as usize;
  let mut outs = Vec::new();
  let mut need: BTreeMap<usize, u128> = BTreeMap::new();
  for _ in 0..n_outs {
    let mut runes: BTreeMap<usize, u128> = BTreeMap::new();
    for _ in 0..rng.range(if many { 1 } else { 0 }, 3) {
      let k = rng.below(n_runes as u64) as usize;
      let a = if rng.chance(1, 25) { 0 } else { gen_amount(rng, big) };
      runes.insert(k, a);
    }
    for (k, a) in &runes {
      *need.entry(*k).or_default() = need.get(k).copied().unwrap_or(0).saturating_add(*a);
    }
    let threshold = *rng.pick(&[294u64, 330, 546]);
    let value = match rng.below(6) {
      0 => Some(threshold),
      1 => Some(threshold - 1),
      2 => Some(10_000),
      _ => None,
    };
    outs.push(SplitOut { value, threshold, runes: by_name(runes.iter().map(|(k, a)| (table_id(*k), *a)).collect()) });
  }
  // inventory: mostly enough, exact, or short
  let style = rng.below(5);
  let mut inv = Vec::new();
  let n_inv = rng.below(6) as usize;
  let mut left: BTreeMap<usize, u128> = need.clone();
  for i in 0..n_inv {
    let mut s: BTreeMap<usize, u128> = BTreeMap::new();
    for k in 0..n_runes {
      if rng.chance(1, 2) {
        let l = left.get(&k).copied().unwrap_or(0);
        let a = match style {
          0 => l,                                                // exact in one output
          1 => l / 2 + u128::from(i == n_inv - 1) * (l - l / 2), // spread
          2 => l.saturating_add(gen_amount(rng, false)).min(u128::MAX / 2),
          3 => gen_amount(rng, big).min(u128::MAX / 2),
          _ => l / 3,
        };
        if a > 0 {
          s.insert(k, a);
          left.insert(k, l.saturating_sub(a));
        }
      }
    }
    inv.push((false, by_name(s.iter().map(|(k, a)| (table_id(*k), *a)).collect())));
  }
  let change_dust = *rng.pick(&[294u64, 330]);
  let postage = match rng.below(8) {
    0 => change_dust - 1,
    1 => change_dust,
    _ => 10_000,
  };
  SplitCase { e2e_runes: 0, oversize: limit_on && many, limit_on, postage, change_dust, inv, outs }
}

/// end-to-end split: runes etched on regtest (names in the opposite order of the ids)
fn gen_split_e2e(rng: &mut Rng) -> SplitCase {
  let n_runes = rng.range(1, 3) as usize;
  // BTreeMap<Rune, _> order = decreasing rune index
  let by_name_e2e = |m: &BTreeMap<usize, u128>| -> Sheet { m.iter().rev().map(|(k, a)| (send_id(n_runes, *k), *a)).collect() };
  let lo = if rng.chance(1, 12) { 0 } else { 1 };
  let n_outs = rng.range(lo, 3) as usize;
  let mut outs = Vec::new();
  let mut need: BTreeMap<usize, u128> = BTreeMap::new();
  for _ in 0..n_outs {
    let mut runes: BTreeMap<usize, u128> = BTreeMap::new();
    for _ in 0..rng.range(1, 2) {
      let k = rng.below(n_runes as u64) as usize;
      runes.insert(k, if rng.chance(1, 20) { 0 } else { 1 + u128::from(rng.below(50)) });
    }
    for (k, a) in &runes {
      *need.entry(*k).or_default() += *a;
    }
    let threshold = *rng.pick(&[294u64, 330, 546]);
    let value = match rng.below(16) {
      0 | 1 => Some(threshold),
      2 => Some(threshold - 1),
      3 | 4 => Some(10_000),
      _ => None,
    };
    outs.push(SplitOut { value, threshold, runes: by_name_e2e(&runes) });
  }
  let style = *rng.pick(&[0u64, 1, 2, 2, 0, 2, 3]);
  let n_inv = rng.range(1, 4) as usize;
  let mut inv = Vec::new();
  for i in 0..n_inv {
    let mut s: BTreeMap<usize, u128> = BTreeMap::new();
    for k in 0..n_runes {
      if rng.chance(5, 6) {
        let l = need.get(&k).copied().unwrap_or(0);
        let a = match style {
          0 => l,
          1 => l / 2 + u128::from(i == n_inv - 1) * (l - l / 2),
          2 => l + 1 + u128::from(rng.below(20)),
          _ => l / 3,
        };
        if a > 0 {
          s.insert(k, a);
        }
      }
    }
    inv.push((rng.chance(1, 10), by_name_e2e(&s)));
  }
  let postage = match rng.below(16) {
    0 => 329,
    1 | 2 => 330,
    _ => 10_000,
  };
  SplitCase { e2e_runes: n_runes, oversize: false, limit_on: false, postage, change_dust: 330, inv, outs }
}

fn run_split_e2e(c: &SplitCase) -> Outcome {
  let n_runes = c.e2e_runes;
  let idx = |id: u128| (0..n_runes).find(|k| send_id(n_runes, *k) == id).expect("rune id of the case");
  let spec = WorldSpec {
    regtest: true,
    rune_names: (0..n_runes).map(|k| (n_runes - k) as u128).collect(),
    mintable: None,
    outputs: c
      .inv
      .iter()
      .map(|(ins, s)| OutSpec {
        value: 10_000,
        inscriptions: usize::from(*ins),
        runes: s.iter().map(|(id, a)| (idx(*id), *a)).collect(),
        locked: *ins && !s.is_empty(),
      })
      .collect(),
    foreign: 1,
    foreign_inscribed: false,
    cardinals: 1,
    no_rune_index: false,
    no_inscription_index: false,
    sweepable_foreign: false,
  };
  let w = World::new(spec);
  for k in 0..n_runes {
    assert_eq!(wire_id(w.rune_ids[k]), send_id(n_runes, k), "predicted rune id");
  }
  let burned_before: Vec<u128> = w.runes.iter().map(|r| w.server.rune_entry(*r).unwrap().1).collect();
  let mut yaml = String::from("outputs:\n");
  if c.outs.is_empty() {
    yaml = "outputs: []\n".into();
  }
  for o in &c.outs {
    yaml.push_str(&format!("- address: {}\n", address_for_threshold_on(o.threshold, Network::Regtest)));
    if let Some(v) = o.value {
      yaml.push_str(&format!("  value: {v} sat\n"));
    }
    yaml.push_str("  runes:\n");
    for (id, a) in &o.runes {
      yaml.push_str(&format!("    {}: {a}\n", w.runes[idx(*id)]));
    }
  }
  let path = w.file("splits.yaml", &yaml);
  let postage = format!("{}sat", c.postage);
  let r = w.cli(&["split", "--fee-rate", "1", "--no-limit", "--postage", &postage, "--splits", &path]);
  match r {
    Err(msg) => {
      let code: u8 = if msg.contains("wallet contains") {
        1
      } else if msg.contains("has zero value for rune") {
        2
      } else if msg.contains("at least one output") {
        3
      } else if msg.contains("postage value") {
        4
      } else if msg.contains("runestone size") {
        5
      } else if msg.contains("below dust threshold") {
        6
      } else {
        0
      };
      let oracle = if code == 0 { Err(format!("[harness] unclassified error: {msg}")) } else { Ok(()) };
      Outcome { obs: L::new().p(1u8).p(code).done(), oracle, cat: format!("split-e2e/err{code}") }
    }
    Ok(_) => {
      let pool = w.mempool();
      if pool.len() != 1 {
        return Outcome {
          obs: L::new().p(98u8).done(),
          oracle: Err(format!("command succeeded but {} transactions were broadcast", pool.len())),
          cat: "split-e2e/nobroadcast".into(),
        };
      }
      let tx = pool[0].clone();
      let txid = tx.compute_txid();
      w.mine_and_index();
      let inputs: Vec<usize> =
        tx.input.iter().filter_map(|i| w.outpoints.iter().position(|o| *o == i.previous_output)).collect();
      let mut l = L::new().p(0u8).p(inputs.len());
      for j in &inputs {
        l.push(*j);
      }
      l.push(tx.output.len());
      let mut outs: Vec<BTreeMap<u128, u128>> = Vec::new();
      for o in 0..tx.output.len() {
        let m: BTreeMap<u128, u128> = w
          .server
          .rune_balances(OutPoint { txid, vout: o as u32 })
          .unwrap_or_default()
          .into_iter()
          .map(|(id, a)| (wire_id(id), a))
          .collect();
        show_sheet(&mut l, &m);
        outs.push(m);
      }
      let mut burned: BTreeMap<u128, u128> = BTreeMap::new();
      for (k, r) in w.runes.iter().enumerate() {
        burned.insert(send_id(n_runes, k), w.server.rune_entry(*r).unwrap().1 - burned_before[k]);
      }
      show_sheet(&mut l, &burned);
      // S, on the index's balances
      let mut oracle = Ok(());
      if c.outs.iter().any(|o| o.runes.iter().any(|(_, a)| *a == 0)) {
        oracle = Err("a split output asks for zero units of a rune and the split was not rejected".to_string());
      }
      let mut spent: BTreeMap<u128, u128> = BTreeMap::new();
      for j in &inputs {
        if c.inv[*j].0 {
          oracle = Err(format!("inscribed output {j} spent"));
        }
        for (id, a) in &c.inv[*j].1 {
          *spent.entry(*id).or_default() += *a;
        }
      }
      // outputs: [runestone, (change)?, split outputs.., bitcoin change]
      let n = c.outs.len();
      let base = tx.output.len() - n - 1;
      let mut requested: BTreeMap<u128, u128> = BTreeMap::new();
      for (i, o) in c.outs.iter().enumerate() {
        let want: BTreeMap<u128, u128> = o.runes.iter().cloned().collect();
        if outs[base + i] != want {
          oracle = Err(format!("split output {i} receives {:?}, requested {want:?}", outs[base + i]));
        }
        if tx.output[base + i].script_pubkey != address_for_threshold_on(o.threshold, Network::Regtest).script_pubkey() {
          oracle = Err(format!("split output {i} pays to the wrong script"));
        }
        for (id, a) in &want {
          *requested.entry(*id).or_default() += *a;
        }
      }
      if burned.values().any(|a| *a > 0) {
        oracle = Err(format!("split burns {burned:?}"));
      }
      let mut back: BTreeMap<u128, u128> = BTreeMap::new();
      for (o, m) in outs.iter().enumerate() {
        if o >= base && o < base + n {
          continue;
        }
        let ours = Address::from_script(&tx.output[o].script_pubkey, Network::Regtest)
          .map(|a| w.core.state().is_wallet_address(&a))
          .unwrap_or(false);
        for (id, a) in m {
          if ours {
            *back.entry(*id).or_default() += *a;
          } else if *a > 0 {
            oracle = Err(format!("output {o} (not a wallet output) receives {a} of rune {id}"));
          }
        }
      }
      for (id, have) in &spent {
        let rest = have - requested.get(id).copied().unwrap_or(0);
        if back.get(id).copied().unwrap_or(0) != rest {
          oracle = Err(format!("rune {id}: {rest} left over but the wallet gets back {:?}", back.get(id)));
        }
      }
      Outcome { obs: l.done(), oracle, cat: format!("split-e2e/ok/in{}/base{base}", inputs.len().min(3)) }
    }
  }
}

/// the harness' own reading of the rune rules for one transaction
fn allocate(unalloc: &BTreeMap<u128, u128>, tx: &Transaction) -> (Vec<BTreeMap<u128, u128>>, BTreeMap<u128, u128>) {
  let mut un = unalloc.clone();
  let n = tx.output.len();
  let mut outs: Vec<BTreeMap<u128, u128>> = vec![BTreeMap::new(); n];
  let mut burned: BTreeMap<u128, u128> = BTreeMap::new();
  let artifact = Runestone::decipher(tx);
  let is_opret = |o: usize| tx.output[o].script_pubkey.is_op_return();
  match &artifact {
    Some(Artifact::Cenotaph(_)) => {
      for (id, a) in un.iter() {
        *burned.entry(*id).or_default() += *a;
      }
      return (outs, burned);
    }
    Some(Artifact::Runestone(rs)) => {
      for e in &rs.edicts {
        let id = wire_id(e.id);
        let o = e.output as usize;
        let bal = un.get(&id).copied().unwrap_or(0);
        if id == 0 || bal == 0 {
          continue;
        }
        if o == n {
          let dests: Vec<usize> = (0..n).filter(|o| !is_opret(*o)).collect();
          if dests.is_empty() {
            continue;
          }
          if e.amount == 0 {
            let q = bal / dests.len() as u128;
            let r = (bal % dests.len() as u128) as usize;
            for (i, d) in dests.iter().enumerate() {
              let a = if i < r { q + 1 } else { q };
              *outs[*d].entry(id).or_default() += a;
              *un.get_mut(&id).unwrap() -= a;
            }
          } else {
            for d in dests {
              let a = e.amount.min(un[&id]);
              *outs[d].entry(id).or_default() += a;
              *un.get_mut(&id).unwrap() -= a;
            }
          }
        } else {
          let a = if e.amount == 0 { bal } else { e.amount.min(bal) };
          *outs[o].entry(id).or_default() += a;
          *un.get_mut(&id).unwrap() -= a;
        }
      }
    }
    None => {}
  }
  match (0..n).find(|o| !is_opret(*o)) {
    Some(v) => {
      for (id, a) in un.iter() {
        *outs[v].entry(*id).or_default() += *a;
      }
    }
    None => {
      for (id, a) in un.iter() {
        *burned.entry(*id).or_default() += *a;
      }
    }
  }
  for o in 0..n {
    if is_opret(o) {
      for (id, a) in std::mem::take(&mut outs[o]) {
        *burned.entry(id).or_default() += a;
      }
    }
  }
  (outs, burned)
}

fn run_split(c: &SplitCase) -> Outcome {
  let change = address_for_threshold(c.change_dust);
  let mut balances: BTreeMap<OutPoint, BTreeMap<Rune, u128>> = BTreeMap::new();
  let txid = bitcoin::Txid::from_byte_array([1; 32]);
  for (j, (inscribed, s)) in c.inv.iter().enumerate() {
    // Split::run passes the runic, not inscribed outputs
    if *inscribed || s.is_empty() {
      continue;
    }
    balances.insert(OutPoint { txid, vout: j as u32 }, s.iter().map(|(id, a)| (name_of_wire(*id), *a)).collect());
  }
  let mut rune_ids = BTreeMap::new();
  for (name, (b, t)) in TABLE {
    rune_ids.insert(Rune(name), RuneId { block: b, tx: t });
  }
  let outputs = c
    .outs
    .iter()
    .map(|o| ord::verif::walletx::split::SplitOutput {
      address: address_for_threshold(o.threshold),
      value: o.value.map(Amount::from_sat),
      runes: o.runes.iter().map(|(id, a)| (name_of_wire(*id), *a)).collect(),
    })
    .collect();
  let r = ord::verif::walletx::split::build_transaction(
    !c.limit_on,
    balances,
    &change,
    Some(Amount::from_sat(c.postage)),
    outputs,
    rune_ids,
  );
  let any_zero = c.outs.iter().any(|o| o.runes.iter().any(|(_, a)| *a == 0));
  match r {
    Err((kind, msg)) => {
      // impl kinds: 1 DustOutput 2 DustPostage 3 NoOutputs 4 RunestoneSize 5 Shortfall 6 ZeroValue
      let code: u8 = match kind {
        1 => 6,
        2 => 4,
        3 => 3,
        4 => 5,
        5 => 1,
        _ => 2,
      };
      if kind == 4 && !c.oversize {
        // declared size class wrong: a harness problem, not a finding
        return Outcome { obs: L::new().p(1u8).p(code).done(), oracle: Err(format!("[harness] size class: {msg}")), cat: "split/harness".into() };
      }
      Outcome { obs: L::new().p(1u8).p(code).done(), oracle: Ok(()), cat: format!("split/err{code}") }
    }
    Ok(tx) => {
      let inputs: Vec<usize> = tx.input.iter().map(|i| i.previous_output.vout as usize).collect();
      let mut spent: BTreeMap<u128, u128> = BTreeMap::new();
      for j in &inputs {
        for (id, a) in &c.inv[*j].1 {
          *spent.entry(*id).or_default() += *a;
        }
      }
      let (outs, burned) = allocate(&spent, &tx);
      let mut l = L::new().p(0u8).p(inputs.len());
      for j in &inputs {
        l.push(*j);
      }
      l.push(tx.output.len());
      for o in &outs {
        show_sheet(&mut l, o);
      }
      show_sheet(&mut l, &burned);
      // S
      let mut oracle = Ok(());
      if any_zero {
        oracle = Err("a split output asks for zero units of a rune and the split was not rejected".to_string());
      }
      let n = c.outs.len();
      let base = tx.output.len() - n;
      let mut requested: BTreeMap<u128, u128> = BTreeMap::new();
      for (i, o) in c.outs.iter().enumerate() {
        let want: BTreeMap<u128, u128> = o.runes.iter().cloned().collect();
        let got: BTreeMap<u128, u128> = outs[base + i].iter().filter(|(_, a)| **a > 0).map(|(k, v)| (*k, *v)).collect();
        if want != got {
          oracle = Err(format!("split output {i} receives {got:?}, requested {want:?}"));
        }
        if tx.output[base + i].script_pubkey != address_for_threshold(o.threshold).script_pubkey() {
          oracle = Err(format!("split output {i} pays to the wrong script"));
        }
        for (id, a) in &want {
          *requested.entry(*id).or_default() += *a;
        }
      }
      if burned.values().any(|a| *a > 0) {
        oracle = Err(format!("split burns {burned:?}"));
      }
      for (id, have) in &spent {
        let rest = have - requested.get(id).copied().unwrap_or(0);
        let to_change: u128 = if base == 2 { outs[1].get(id).copied().unwrap_or(0) } else { 0 };
        if rest != to_change {
          oracle = Err(format!("rune {id}: {rest} left over but change output receives {to_change}"));
        }
        if base == 2 && tx.output[1].script_pubkey != change.script_pubkey() {
          oracle = Err("rune change does not pay to the wallet change address".into());
        }
      }
      Outcome { obs: l.done(), oracle, cat: format!("split/ok/in{}/base{base}", inputs.len().min(3)) }
    }
  }
}

// ------------------------------------------------------------------ send / burn (end to end)

struct SendCase {
  is_send: bool,
  rune: usize,
  amount: u128,
  n_runes: usize,
  inv: Vec<(bool, Vec<(usize, u128)>)>,
}

/// rune ids are known in advance: the runes are etched in block n_runes + 9, tx 1..
fn send_id(n_runes: usize, k: usize) -> u128 {
  wire_id(RuneId { block: (n_runes + 9) as u64, tx: (1 + k) as u32 })
}

fn encode_send(c: &SendCase) -> Line {
  let mut l = L::new().p(0u8).p(c.is_send).p(1u8).p(send_id(c.n_runes, c.rune)).p(c.amount).p(c.inv.len());
  for (ins, s) in &c.inv {
    l.push(*ins);
    let sh: Sheet = s.iter().map(|(k, a)| (send_id(c.n_runes, *k), *a)).collect();
    push_sheet(&mut l, &sh);
  }
  l.push(c.n_runes);
  l.done()
}

fn decode_send(c: &mut Cur) -> SendCase {
  let is_send = c.bool();
  let _fc = c.bool();
  let rune_id = c.u128();
  let amount = c.u128();
  let n = c.usize();
  let raw: Vec<(bool, Sheet)> = (0..n).map(|_| (c.bool(), read_sheet(c))).collect();
  let n_runes = c.usize();
  let idx = |id: u128| (0..n_runes).find(|k| send_id(n_runes, *k) == id).expect("rune id of the case");
  SendCase {
    is_send,
    rune: idx(rune_id),
    amount,
    n_runes,
    inv: raw.into_iter().map(|(i, s)| (i, s.into_iter().map(|(id, a)| (idx(id), a)).collect())).collect(),
  }
}

fn gen_send(rng: &mut Rng) -> SendCase {
  let n_runes = rng.range(1, 3) as usize;
  let rune = rng.below(n_runes as u64) as usize;
  let n_inv = rng.range(1, 5) as usize;
  let style = rng.below(4);
  let mut inv = Vec::new();
  for _ in 0..n_inv {
    let mut s: BTreeMap<usize, u128> = BTreeMap::new();
    for k in 0..n_runes {
      let p = if k == rune { 3 } else if style == 0 { 0 } else { 1 };
      if rng.chance(p, 4) {
        s.insert(k, 1 + u128::from(rng.below(if style == 1 { 3 } else { 1000 })));
      }
    }
    inv.push((rng.chance(1, 8), s.into_iter().collect::<Vec<_>>()));
  }
  let usable: Vec<u128> = inv
    .iter()
    .filter(|(ins, _)| !ins)
    .filter_map(|(_, s)| s.iter().find(|(k, _)| *k == rune).map(|(_, a)| *a))
    .collect();
  let total: u128 = usable.iter().sum();
  let first = usable.first().copied().unwrap_or(0);
  let amount = match rng.below(9) {
    0 => 0,
    1 => 1,
    2 => first,
    3 => first + 1,
    4 => total,
    5 => total + 1,
    6 => first.saturating_sub(1),
    _ => 1 + u128::from(rng.below(total.max(1) as u64)),
  };
  SendCase { is_send: rng.chance(1, 2), rune, amount, n_runes, inv }
}

fn run_send(c: &SendCase) -> Outcome {
  let spec = WorldSpec {
    regtest: true,
    // names in decreasing order so that name order and id order differ
    rune_names: (0..c.n_runes).map(|k| (c.n_runes - k) as u128).collect(),
    mintable: None,
    outputs: c
      .inv
      .iter()
      // an output that is inscribed AND runic is prepared as already locked: the wallet would
      // otherwise name it twice in one lockunspent call, which Bitcoin Core accepts but the
      // mock node aborts on
      .map(|(ins, s)| OutSpec { value: 10_000, inscriptions: usize::from(*ins), runes: s.clone(), locked: *ins && !s.is_empty() })
      .collect(),
    foreign: 1,
    foreign_inscribed: false,
    cardinals: 1,
    no_rune_index: false,
    no_inscription_index: false,
    sweepable_foreign: false,
  };
  let w = World::new(spec);
  for k in 0..c.n_runes {
    assert_eq!(wire_id(w.rune_ids[k]), send_id(c.n_runes, k), "predicted rune id");
  }
  let burned_before: Vec<u128> = w.runes.iter().map(|r| w.server.rune_entry(*r).unwrap().1).collect();
  let asset = format!("{}:{}", c.amount, w.runes[c.rune]);
  let dest = w.foreign_address.to_string();
  let r = if c.is_send {
    w.cli(&["send", "--fee-rate", "1", &dest, &asset])
  } else {
    w.cli(&["burn", "--fee-rate", "1", &asset])
  };
  let cat = if c.is_send { "send" } else { "burn" };
  match r {
    Err(msg) => {
      let code: u8 = if msg.contains("insufficient") {
        1
      } else if msg.contains("zero") || msg.contains("greater than") {
        2
      } else {
        0
      };
      let oracle = if code == 0 { Err(format!("[harness] unclassified error: {msg}")) } else { Ok(()) };
      Outcome { obs: L::new().p(1u8).p(code).done(), oracle, cat: format!("{cat}/err{code}") }
    }
    Ok(_) => {
      let pool = w.mempool();
      if pool.len() != 1 {
        return Outcome {
          obs: L::new().p(98u8).done(),
          oracle: Err(format!("command succeeded but {} transactions were broadcast", pool.len())),
          cat: format!("{cat}/nobroadcast"),
        };
      }
      let tx = pool[0].clone();
      let txid = tx.compute_txid();
      w.mine_and_index();
      let inputs: Vec<usize> =
        tx.input.iter().filter_map(|i| w.outpoints.iter().position(|o| *o == i.previous_output)).collect();
      let mut l = L::new().p(0u8).p(inputs.len());
      for j in &inputs {
        l.push(*j);
      }
      l.push(tx.output.len());
      let mut outs: Vec<BTreeMap<u128, u128>> = Vec::new();
      for o in 0..tx.output.len() {
        let m: BTreeMap<u128, u128> = w
          .server
          .rune_balances(OutPoint { txid, vout: o as u32 })
          .unwrap_or_default()
          .into_iter()
          .map(|(id, a)| (wire_id(id), a))
          .collect();
        show_sheet(&mut l, &m);
        outs.push(m);
      }
      let mut burned: BTreeMap<u128, u128> = BTreeMap::new();
      for (k, r) in w.runes.iter().enumerate() {
        let now = w.server.rune_entry(*r).unwrap().1;
        burned.insert(send_id(c.n_runes, k), now - burned_before[k]);
      }
      show_sheet(&mut l, &burned);

      // S: the property, on the index's balances
      let rid = send_id(c.n_runes, c.rune);
      let mut oracle = Ok(());
      let mut spent: BTreeMap<u128, u128> = BTreeMap::new();
      for j in &inputs {
        for (k, a) in &c.inv[*j].1 {
          *spent.entry(send_id(c.n_runes, *k)).or_default() += *a;
        }
      }
      let mut to_dest: BTreeMap<u128, u128> = BTreeMap::new();
      let mut to_wallet: BTreeMap<u128, u128> = BTreeMap::new();
      for (o, m) in outs.iter().enumerate() {
        let script = &tx.output[o].script_pubkey;
        let foreign = *script == w.foreign_address.script_pubkey();
        let ours = Address::from_script(script, Network::Regtest).map(|a| w.core.state().is_wallet_address(&a)).unwrap_or(false);
        for (id, a) in m {
          if foreign {
            *to_dest.entry(*id).or_default() += *a;
          } else if ours {
            *to_wallet.entry(*id).or_default() += *a;
          } else if *a > 0 {
            oracle = Err(format!("output {o} (neither recipient nor wallet) receives {a} of rune {id}"));
          }
        }
      }
      let want_dest: BTreeMap<u128, u128> = if c.is_send { [(rid, c.amount)].into() } else { BTreeMap::new() };
      let want_burn: BTreeMap<u128, u128> = if c.is_send { BTreeMap::new() } else { [(rid, c.amount)].into() };
      let nz = |m: &BTreeMap<u128, u128>| -> BTreeMap<u128, u128> { m.iter().filter(|(_, a)| **a > 0).map(|(k, v)| (*k, *v)).collect() };
      if nz(&to_dest) != nz(&want_dest) {
        oracle = Err(format!("recipient receives {:?}, requested {:?}", nz(&to_dest), nz(&want_dest)));
      }
      if nz(&burned) != nz(&want_burn) {
        oracle = Err(format!("burned {:?}, requested burn {:?}", nz(&burned), nz(&want_burn)));
      }
      for (id, have) in &spent {
        let moved = if *id == rid { c.amount } else { 0 };
        let back = to_wallet.get(id).copied().unwrap_or(0);
        if have.checked_sub(moved) != Some(back) {
          oracle = Err(format!("rune {id}: inputs hold {have}, {moved} requested, wallet gets back {back}"));
        }
      }
      if c.amount == 0 {
        oracle = Err(format!(
          "[zero-amount] a request for 0 units was not rejected: recipient receives {:?}, burned {:?}",
          nz(&to_dest),
          nz(&burned)
        ));
      }
      // every input that is not a selected rune input must be cardinal
      for i in &tx.input {
        if let Some(j) = w.outpoints.iter().position(|o| *o == i.previous_output) {
          if c.inv[j].0 {
            oracle = Err(format!("inscribed output {j} spent"));
          }
        }
      }
      Outcome { obs: l.done(), oracle, cat: format!("{cat}/ok/in{}/outs{}", inputs.len().min(3), tx.output.len()) }
    }
  }
}

// ------------------------------------------------------------------ entry points

pub fn gen(rng: &mut Rng, tier: &str) -> Vec<Line> {
  let (n_split, n_send) = if tier == "thorough" { (20_000, 300) } else { (3_000, 24) };
  let mut v = Vec::new();
  for _ in 0..n_send {
    v.push(encode_send(&gen_send(rng)));
  }
  for _ in 0..n_send / 2 {
    v.push(encode_split(&gen_split_e2e(rng)));
  }
  for _ in 0..n_split {
    v.push(encode_split(&gen_split(rng)));
  }
  v
}

pub fn run(line: &Line) -> Outcome {
  let mut c = Cur::new(line);
  match c.u8() {
    0 => {
      let case = decode_send(&mut c);
      guarded("send", || run_send(&case))
    }
    _ => {
      let case = decode_split(&mut c);
      let mut o = if case.e2e_runes > 0 {
        guarded("split-e2e", || run_split_e2e(&case))
      } else {
        guarded("split", || run_split(&case))
      };
      // `checked_add(amount).unwrap()` on the per-rune requirement: a split file that asks for
      // 2^128 or more units of one rune in total aborts before any transaction exists. No wallet
      // can hold that much, nothing is moved; reported as a category, not as a violation.
      if o.cat.ends_with("/panic") {
        let mut need: BTreeMap<u128, u128> = BTreeMap::new();
        let mut overflow = false;
        for out in &case.outs {
          for (id, a) in &out.runes {
            let e = need.entry(*id).or_default();
            match e.checked_add(*a) {
              Some(v) => *e = v,
              None => overflow = true,
            }
          }
        }
        if overflow {
          o.oracle = Ok(());
          o.cat = "split/panic-requirement-overflow".into();
        }
      }
      o
    }
  }
}
