//! Harness for the wallet transaction properties C22, C23, C24.
use hxlib::*;

fn main() {
  let args = parse_args();
  match args.prop.as_str() {
    p => {
      eprintln!("unknown property {p}");
      std::process::exit(2);
    }
  }
}
