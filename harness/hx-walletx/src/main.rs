//! Harness for the wallet transaction properties C22, C23, C24.
use hxlib::*;

mod c22;
mod c23;
mod c24;
mod world;

fn main() {
  let args = parse_args();
  match args.prop.as_str() {
    "C22" => drive(&args, c22::gen, c22::run),
    "C23" => drive(&args, c23::gen, c23::run),
    "C24" => drive(&args, c24::gen, c24::run),
    p => {
      eprintln!("unknown property {p}");
      std::process::exit(2);
    }
  }
}
