//! C23 — node-funded wallet transactions never spend inscribed or runic outputs.
//!
//! End to end: a fresh world per case (mock node, real index, real wallet) with wallet
//! outputs that are cardinal / inscribed / runic / already locked; the non-cardinal ones
//! are worth MORE than any cardinal output, so the mock node's largest-first funding picks
//! them unless they are locked. One node-funded command runs through the command-line
//! parser; observation = the node's locked set afterwards; oracle = inputs of every
//! broadcast transaction + the locked set.
//!   case: cmd has_rune_index n flags_0..flags_{n-1} [dry]   flags: 1 inscribed, 2 runic, 4 locked
//!   cmd = index into Generated.WALLET_FUND_COMMANDS:
//!     0 mint  1 offer create  2 split  3 sweep  4 send amount  5 send/burn runes
//!   dry (harness only, the model ignores it): run the command with --dry-run (split, sweep,
//!   send, burn have it). The model's action list does not depend on it: the lock must happen.
//! Besides the broadcast transactions the oracle inspects every transaction the node returned
//! from fundrawtransaction (guarded mock hook VERIF_FUNDED), so commands that do not broadcast
//! (offer create, every --dry-run) are covered too.
//! obs: k id_1..id_k   (wallet outputs locked in the node after the command, ascending)
use crate::world::*;
use bitcoin::OutPoint;
use hxlib::*;

/// a wallet with `nc` non-cardinal outputs (style 0: all inscribed, 1: all runic, 2: alternating)
/// between two cardinal ones; sizes around the multiples of 50 (a wallet that locks in batches
/// must lock every batch)
fn big_wallet(cmd: u64, nc: usize, style: u64, dry: bool) -> Line {
  let mut l = L::new().p(cmd).p(1u8).p(nc + 2).p(0u8);
  for j in 0..nc {
    l.push(match style {
      0 => 1u64,
      1 => 2,
      _ => 1 + (j as u64 % 2),
    });
  }
  l.push(0u8);
  l.push(dry);
  l.done()
}

pub fn gen(rng: &mut Rng, tier: &str) -> Vec<Line> {
  let n = if tier == "thorough" { 300 } else { 36 };
  let mut v = Vec::new();
  if tier == "thorough" {
    for (i, nc) in [49usize, 50, 51, 75, 100, 101, 120].into_iter().enumerate() {
      v.push(big_wallet(4, nc, i as u64 % 3, false));
      v.push(big_wallet(0, nc, (i as u64 + 1) % 3, false));
      v.push(big_wallet([1u64, 2, 5, 3][i % 4], nc, (i as u64 + 2) % 3, i % 2 == 1));
    }
  } else {
    // (send amount with 51 inscribed outputs is corpus/C23/batch_boundary_51.txt, which always runs)
    v.push(big_wallet(0, 101, 2, false));
    v.push(big_wallet(4, 75, 1, true));
  }
  for i in 0..n {
    let cmd = [0u64, 1, 2, 4, 5, 3, 3, 2, 5, 3, 4, 2][i % 12];
    let dry = matches!(cmd, 2 | 3 | 4 | 5) && i % 12 >= 6;
    let has_rune_index = !(cmd == 4 && rng.chance(1, 4));
    let k = rng.range(1, 6) as usize;
    let mut l = L::new().p(cmd).p(has_rune_index).p(k);
    for _ in 0..k {
      // inscribed and runic at once only as already locked (7): for an unlocked one the wallet
      // names the output twice in one lockunspent call, which Bitcoin Core accepts but the
      // mock node aborts on
      let mut f = *rng.pick(&[0u64, 0, 1, 2, 1, 2, 7]);
      if !has_rune_index {
        f &= !2;
      }
      if rng.chance(1, 5) {
        f |= 4;
      }
      l.push(f);
    }
    l.push(dry);
    v.push(l.done());
  }
  v
}

pub fn run(line: &Line) -> Outcome {
  let mut c = Cur::new(line);
  let cmd = c.u64();
  let has_rune_index = c.bool();
  let n = c.usize();
  let flags: Vec<u64> = (0..n).map(|_| c.u64()).collect();
  let dry = if c.at_end() { false } else { c.bool() };
  guarded("fund", || {
    let spec = WorldSpec {
      regtest: true,
      rune_names: if has_rune_index { vec![0] } else { vec![] },
      mintable: if has_rune_index { Some(0) } else { None },
      outputs: flags
        .iter()
        .enumerate()
        .map(|(j, f)| OutSpec {
          // non-cardinal outputs are worth more than every cardinal one (coinbases: 50 BTC)
          value: if f & 3 == 0 {
            100_000_000
          } else if flags.len() > 12 {
            51 * 100_000_000 + j as u64 * 1_000
          } else {
            (60 + j as u64) * 100_000_000
          },
          inscriptions: usize::from(f & 1 != 0),
          runes: if f & 2 != 0 { vec![(0, 10 + j as u128)] } else { vec![] },
          locked: f & 4 != 0,
        })
        .collect(),
      foreign: 1,
      foreign_inscribed: cmd != 3,
      cardinals: 2,
      no_rune_index: !has_rune_index,
      no_inscription_index: false,
      sweepable_foreign: cmd == 3,
    };
    let w = World::new(spec);
    let dest = w.foreign_address.to_string();
    let rune = w.runes.first().map(|r| r.to_string()).unwrap_or_default();
    mockcore::VERIF_FUNDED.lock().unwrap().clear();
    let r = match cmd {
      0 => w.cli(&["mint", "--fee-rate", "1", "--rune", &rune]),
      1 => {
        let id = w.foreign_inscription.unwrap().to_string();
        w.cli(&["offer", "create", "--inscription", &id, "--amount", "1000sat", "--fee-rate", "1"])
      }
      2 => {
        let yaml = format!("outputs:\n- address: {dest}\n  runes:\n    {rune}: 1\n");
        let path = w.file("splits.yaml", &yaml);
        if dry {
          w.cli(&["split", "--dry-run", "--fee-rate", "1", "--splits", &path])
        } else {
          w.cli(&["split", "--fee-rate", "1", "--splits", &path])
        }
      }
      3 => {
        let wif = sweep_private_key(bitcoin::Network::Regtest).to_wif();
        if dry {
          w.cli_with_stdin(&["sweep", "--dry-run", "--fee-rate", "1", "--address-type", "p2wpkh"], &format!("{wif}\n"))
        } else {
          w.cli_with_stdin(&["sweep", "--fee-rate", "1", "--address-type", "p2wpkh"], &format!("{wif}\n"))
        }
      }
      4 => {
        if dry {
          w.cli(&["send", "--dry-run", "--fee-rate", "1", &dest, "1000sat"])
        } else {
          w.cli(&["send", "--fee-rate", "1", &dest, "1000sat"])
        }
      }
      _ => {
        let asset = format!("1:{rune}");
        match (n % 2 == 0, dry) {
          (true, false) => w.cli(&["send", "--fee-rate", "1", &dest, &asset]),
          (true, true) => w.cli(&["send", "--dry-run", "--fee-rate", "1", &dest, &asset]),
          (false, false) => w.cli(&["burn", "--fee-rate", "1", &asset]),
          (false, true) => w.cli(&["burn", "--dry-run", "--fee-rate", "1", &asset]),
        }
      }
    };
    let locked = w.core.get_locked();
    let mut ids: Vec<usize> = Vec::new();
    let mut oracle = Ok(());
    for op in &locked {
      match w.outpoints.iter().position(|o| o == op) {
        Some(j) => ids.push(j),
        None => oracle = Err(format!("an output outside the prepared set was locked: {op}")),
      }
    }
    ids.sort();
    let mut l = L::new().p(ids.len());
    for j in &ids {
      l.push(*j);
    }
    // S
    let reached_lock = match &r {
      Ok(_) => true,
      // errors raised after the lock
      Err(m) => m.contains("insufficient") || m.contains("wallet contains") || m.contains("not enough cardinal"),
    };
    if let Err(m) = &r {
      if !reached_lock {
        oracle = Err(format!("[harness] command failed before funding: {m}"));
      }
    }
    if reached_lock {
      for (j, f) in flags.iter().enumerate() {
        if f & 3 != 0 && !ids.contains(&j) {
          oracle = Err(format!("non-cardinal output {j} (flags {f}) is not locked when the node funds"));
        }
        if f & 7 == 0 && ids.contains(&j) {
          oracle = Err(format!("cardinal output {j} was locked"));
        }
      }
    }
    let pool = w.mempool();
    let funded: Vec<bitcoin::Transaction> = mockcore::VERIF_FUNDED.lock().unwrap().clone();
    if r.is_ok() && funded.is_empty() {
      oracle = Err("command succeeded without a fundrawtransaction call".to_string());
    }
    if dry && !pool.is_empty() {
      oracle = Err("--dry-run broadcast a transaction".to_string());
    }
    for tx in pool.iter().chain(funded.iter()) {
      for i in &tx.input {
        let op: OutPoint = i.previous_output;
        if let Some(j) = w.outpoints.iter().position(|o| *o == op) {
          let f = flags[j];
          let subject = (cmd == 2 || cmd == 5) && f & 3 == 2;
          if f & 3 != 0 && !subject {
            oracle = Err(format!("funded / broadcast transaction spends non-cardinal output {j} (flags {f})"));
          }
          if f & 4 != 0 && !subject {
            oracle = Err(format!("funded / broadcast transaction spends output {j} that was locked"));
          }
        }
      }
    }
    if r.is_ok() && cmd != 1 && !dry && pool.len() != 1 {
      oracle = Err(format!("command succeeded but {} transactions were broadcast", pool.len()));
    }
    let cat = format!(
      "cmd{cmd}{}/{}/{}",
      if dry { "-dry" } else { "" },
      if r.is_ok() { "ok" } else { "err" },
      if flags.iter().any(|f| f & 3 != 0 && f & 4 == 0) { "tolock" } else { "nothing-to-lock" }
    );
    Outcome { obs: l.done(), oracle, cat }
  })
}
