//! A wallet world: in-process mock node + in-process `ord server` on a real index +
//! an `ord` wallet, with a prepared set of wallet outputs (cardinal / inscribed / runic /
//! locked) that all live in ONE transaction, so that the wallet's BTreeMap<OutPoint, _>
//! iteration order is the declared order (same txid, ascending vout).
use bitcoin::{Address, Amount, Network, OutPoint, ScriptBuf, Txid, Witness};
use bitcoin::hashes::Hash as _;
use mockcore::TransactionTemplate;
use ord::verif::walletx as hook;
use ordinals::{Edict, Etching, Rune, RuneId, Runestone, Terms};

/// 13 letters: AAAAAAAAAAAAA
pub const RUNE_BASE: u128 = 99246114928149462;

#[derive(Clone, Debug, Default)]
pub struct OutSpec {
  pub value: u64,
  /// number of inscriptions on the output
  pub inscriptions: usize,
  /// (rune index, amount)
  pub runes: Vec<(usize, u128)>,
  /// locked in the node before the command runs
  pub locked: bool,
}

#[derive(Clone, Debug, Default)]
pub struct WorldSpec {
  pub regtest: bool,
  /// number of runes to etch (regtest only); rune k is named RUNE_BASE + name_offset[k]
  pub rune_names: Vec<u128>,
  /// rune index that is etched with open mint terms (amount 100, cap 1000), if any
  pub mintable: Option<usize>,
  pub outputs: Vec<OutSpec>,
  /// number of outputs paying to a non-wallet address (same transaction, ascending vout)
  pub foreign: usize,
  /// the first foreign output carries one inscription
  pub foreign_inscribed: bool,
  /// extra 50 BTC coinbase outputs left to the wallet
  pub cardinals: usize,
  /// run the ord server without --index-runes (regtest worlds index runes by default)
  pub no_rune_index: bool,
  /// run the ord server with --no-index-inscriptions (the prepared inscriptions are then invisible)
  pub no_inscription_index: bool,
  /// the foreign outputs pay to the p2wpkh address of SWEEP_KEY and the server indexes
  /// addresses (so that `ord wallet sweep` can find them)
  pub sweepable_foreign: bool,
}

/// secret key behind the foreign outputs of a `sweepable_foreign` world
pub const SWEEP_KEY: [u8; 32] = [7; 32];

pub fn sweep_private_key(network: Network) -> bitcoin::PrivateKey {
  bitcoin::PrivateKey::from_slice(&SWEEP_KEY, network).unwrap()
}

pub struct World {
  pub core: mockcore::Handle,
  pub server: hook::ServerHandle,
  pub dir: tempfile::TempDir,
  pub spec: WorldSpec,
  pub rune_ids: Vec<RuneId>,
  pub runes: Vec<Rune>,
  /// wallet outputs of the spec, in order
  pub outpoints: Vec<OutPoint>,
  /// inscription ids per wallet output
  pub inscriptions: Vec<Vec<ord::InscriptionId>>,
  pub foreign_outpoints: Vec<OutPoint>,
  pub foreign_inscription: Option<ord::InscriptionId>,
  pub wallet_address: Address,
  pub foreign_address: Address,
}

fn premine() -> u128 {
  1u128 << 126
}

impl World {
  pub fn network(&self) -> Network {
    if self.spec.regtest {
      Network::Regtest
    } else {
      Network::Bitcoin
    }
  }

  fn mine(core: &mockcore::Handle, n: u64) -> usize {
    core.mine_blocks(n);
    core.height() as usize
  }

  pub fn new(spec: WorldSpec) -> World {
    let network = if spec.regtest { Network::Regtest } else { Network::Bitcoin };
    let core = mockcore::builder().network(network).build();
    let k = spec.rune_names.len();
    assert!(k == 0 || (spec.regtest && !spec.no_rune_index), "runes need regtest and a rune index");

    // blocks 1..=k fund the commits, k+1 the foreign tx, k+2 the distribution when k = 0,
    // k+3.. extra funding when the prepared outputs are worth more than those inputs
    let coin: u64 = 50 * 100_000_000;
    let need: u64 = spec.outputs.iter().map(|o| o.value).sum();
    let have: u64 = k.max(1) as u64 * coin;
    let extra = if need > have { (need - have).div_ceil(coin) as usize } else { 0 };
    Self::mine(&core, (k + 2 + extra) as u64);
    let wallet_address = core.state().new_address(false);
    let foreign_address = if spec.sweepable_foreign {
      let secp = bitcoin::secp256k1::Secp256k1::new();
      let pk = bitcoin::CompressedPublicKey::from_private_key(&secp, &sweep_private_key(network)).unwrap();
      Address::p2wpkh(&pk, network)
    } else {
      Address::from_script(&ScriptBuf::new_p2wpkh(&bitcoin::WPubkeyHash::from_byte_array([0; 20])), network).unwrap()
    };

    let runes: Vec<Rune> = spec.rune_names.iter().map(|o| Rune(RUNE_BASE + o)).collect();
    let mut rune_ids = Vec::new();
    let mut reveal_height = 0;
    if k > 0 {
      for i in 0..k {
        core.broadcast_tx(TransactionTemplate {
          inputs: &[(1 + i, 0, 0, Witness::new())],
          p2tr: true,
          ..Default::default()
        });
      }
      let after = Self::mine(&core, u64::from(Runestone::COMMIT_CONFIRMATIONS));
      let commit_height = after + 1 - usize::from(Runestone::COMMIT_CONFIRMATIONS);
      for (i, rune) in runes.iter().enumerate() {
        let tapscript = bitcoin::script::Builder::new()
          .push_slice::<&bitcoin::script::PushBytes>(rune.commitment().as_slice().try_into().unwrap())
          .into_script();
        let mut witness = Witness::new();
        witness.push(tapscript);
        witness.push([]);
        let runestone = Runestone {
          etching: Some(Etching {
            rune: Some(*rune),
            premine: Some(premine()),
            terms: if spec.mintable == Some(i) {
              Some(Terms { amount: Some(100), cap: Some(1000), ..Default::default() })
            } else {
              None
            },
            ..Default::default()
          }),
          ..Default::default()
        };
        core.broadcast_tx(TransactionTemplate {
          inputs: &[(commit_height, 1 + i, 0, witness)],
          op_return: Some(runestone.encipher()),
          outputs: 1,
          ..Default::default()
        });
      }
      reveal_height = Self::mine(&core, 1);
      for i in 0..k {
        rune_ids.push(RuneId { block: reveal_height as u64, tx: (1 + i) as u32 });
      }
    }

    // distribution transaction
    let n = spec.outputs.len();
    let mut outpoints = Vec::new();
    let mut inscriptions: Vec<Vec<ord::InscriptionId>> = vec![Vec::new(); n];
    if n > 0 {
      // envelopes for the inscribed outputs, pointer = first sat of the output
      let mut builder = bitcoin::script::Builder::new();
      let mut offset = 0u64;
      let mut order = Vec::new();
      for (j, o) in spec.outputs.iter().enumerate() {
        assert!(o.value > 0);
        for _ in 0..o.inscriptions {
          let inscription = ord::Inscription {
            content_type: Some(b"text/plain".to_vec()),
            body: Some(format!("w{j}").into_bytes()),
            pointer: if offset == 0 { None } else { Some(ord::Inscription::pointer_value(offset)) },
            ..Default::default()
          };
          builder = inscription.append_reveal_script_to_builder(builder);
          order.push(j);
        }
        offset += o.value;
      }
      let mut witness = Witness::new();
      if !order.is_empty() {
        witness.push(builder.into_script().as_bytes());
        witness.push([]);
      }
      let mut inputs: Vec<(usize, usize, usize, Witness)> = Vec::new();
      if k > 0 {
        for i in 0..k {
          inputs.push((reveal_height, 1 + i, 0, if i == 0 { witness.clone() } else { Witness::new() }));
        }
      } else {
        inputs.push((k + 2, 0, 0, witness.clone()));
      }
      for i in 0..extra {
        inputs.push((k + 3 + i, 0, 0, Witness::new()));
      }
      let total: u64 = inputs.len() as u64 * 50 * 100_000_000;
      let mut edicts = Vec::new();
      for (j, o) in spec.outputs.iter().enumerate() {
        for (r, amount) in &o.runes {
          edicts.push(Edict { id: rune_ids[*r], amount: *amount, output: j as u32 });
        }
      }
      for id in &rune_ids {
        // burn what is not distributed (the OP_RETURN is appended as output n)
        edicts.push(Edict { id: *id, amount: 0, output: n as u32 });
      }
      let values: Vec<u64> = spec.outputs.iter().map(|o| o.value).collect();
      let txid = core.broadcast_tx(TransactionTemplate {
        inputs: &inputs,
        fee: total % n as u64,
        outputs: n,
        output_values: &values,
        recipient: Some(wallet_address.clone()),
        op_return: if k > 0 { Some(Runestone { edicts, ..Default::default() }.encipher()) } else { None },
        ..Default::default()
      });
      Self::mine(&core, 1);
      for j in 0..n {
        outpoints.push(OutPoint { txid, vout: j as u32 });
      }
      for (index, j) in order.iter().enumerate() {
        inscriptions[*j].push(ord::InscriptionId { txid, index: index as u32 });
      }
    }

    // foreign outputs
    let mut foreign_outpoints = Vec::new();
    let mut foreign_inscription = None;
    if spec.foreign > 0 {
      let witness = if spec.foreign_inscribed {
        ordkit::inscription_witness(b"text/plain", b"foreign")
      } else {
        Witness::new()
      };
      let total: u64 = 50 * 100_000_000;
      let txid = core.broadcast_tx(TransactionTemplate {
        inputs: &[(k + 1, 0, 0, witness)],
        fee: total % spec.foreign as u64,
        outputs: spec.foreign,
        recipient: if spec.sweepable_foreign { Some(foreign_address.clone()) } else { None },
        ..Default::default()
      });
      Self::mine(&core, 1);
      for j in 0..spec.foreign {
        foreign_outpoints.push(OutPoint { txid, vout: j as u32 });
      }
      if spec.foreign_inscribed {
        foreign_inscription = Some(ord::InscriptionId { txid, index: 0 });
      }
    }
    if spec.cardinals > 0 {
      Self::mine(&core, spec.cardinals as u64);
    }

    for (j, o) in spec.outputs.iter().enumerate() {
      if o.locked {
        core.lock(outpoints[j]);
      }
    }

    let dir = tempfile::TempDir::new().unwrap();
    std::fs::create_dir_all(dir.path().join("server")).unwrap();
    std::fs::create_dir_all(dir.path().join("cli")).unwrap();
    let server = hook::spawn_server(&format!(
      "ord {} --bitcoin-rpc-url {} --cookie-file {} --bitcoin-data-dir {} --datadir {} {} {} server --no-sync --http-port 0 --address 127.0.0.1",
      if spec.regtest { "--regtest" } else { "" },
      core.url(),
      core.cookie_file().display(),
      dir.path().join("server").display(),
      dir.path().join("server").display(),
      if (k > 0 || spec.regtest) && !spec.no_rune_index { "--index-runes" } else { "" },
      if spec.no_inscription_index {
        "--no-index-inscriptions --index-addresses"
      } else if spec.sweepable_foreign {
        "--index-addresses"
      } else {
        ""
      },
    ));
    server.update().expect("index update");

    let world = World {
      core,
      server,
      dir,
      spec,
      rune_ids,
      runes,
      outpoints,
      inscriptions,
      foreign_outpoints,
      foreign_inscription,
      wallet_address,
      foreign_address,
    };
    world.cli(&["create"]).expect("wallet create");
    world.validate();
    world
  }

  /// the prepared outputs must be what the real index says they are
  fn validate(&self) {
    for (j, o) in self.spec.outputs.iter().enumerate() {
      if !self.spec.no_inscription_index {
        let got = self.server.inscriptions(self.outpoints[j]).unwrap_or_default();
        assert_eq!(got, self.inscriptions[j], "world: inscriptions of output {j}");
      }
      if self.spec.regtest && !self.spec.no_rune_index {
        let mut want: Vec<(RuneId, u128)> = Vec::new();
        for (r, a) in &o.runes {
          match want.iter_mut().find(|(id, _)| *id == self.rune_ids[*r]) {
            Some(e) => e.1 += a,
            None => want.push((self.rune_ids[*r], *a)),
          }
        }
        want.retain(|(_, a)| *a > 0);
        want.sort();
        let got = self.server.rune_balances(self.outpoints[j]).unwrap_or_default();
        assert_eq!(got, want, "world: runes of output {j}");
      }
    }
  }

  pub fn chain_args(&self) -> Vec<String> {
    let mut v: Vec<String> = vec!["ord".into()];
    if self.spec.regtest {
      v.push("--regtest".into());
      if !self.spec.no_rune_index {
        v.push("--index-runes".into());
      }
    }
    v.extend([
      "--bitcoin-rpc-url".to_string(),
      self.core.url(),
      "--cookie-file".into(),
      self.core.cookie_file().display().to_string(),
      "--datadir".into(),
      self.dir.path().join("cli").display().to_string(),
    ]);
    v
  }

  /// `ord <options> wallet --server-url <url> <args>` in-process; the index is brought
  /// up to the node's tip first (the server runs with --no-sync).
  pub fn cli(&self, args: &[&str]) -> Result<bool, String> {
    self.server.update().map_err(|e| format!("index update: {e}"))?;
    let mut v = self.chain_args();
    v.extend(["wallet".to_string(), "--server-url".into(), self.server.url()]);
    v.extend(args.iter().map(|s| s.to_string()));
    // the wallet looks at ORD_* environment variables; none are set by the harness
    hook::run_cli(&v)
  }

  /// like `cli`, with `input` as the process's standard input while the command runs
  pub fn cli_with_stdin(&self, args: &[&str], input: &str) -> Result<bool, String> {
    use std::os::fd::AsRawFd;
    let path = self.file("stdin.txt", input);
    let f = std::fs::File::open(path).unwrap();
    let saved = unsafe { libc::dup(0) };
    unsafe { libc::dup2(f.as_raw_fd(), 0) };
    let r = self.cli(args);
    unsafe {
      libc::dup2(saved, 0);
      libc::close(saved);
    }
    r
  }

  pub fn file(&self, name: &str, content: &str) -> String {
    let p = self.dir.path().join(name);
    std::fs::write(&p, content).unwrap();
    p.display().to_string()
  }

  pub fn mempool(&self) -> Vec<bitcoin::Transaction> {
    self.core.mempool()
  }

  pub fn clear_mempool(&self) {
    self.core.state().mempool.clear();
  }

  pub fn mine_and_index(&self) {
    self.core.mine_blocks(1);
    self.server.update().expect("index update");
  }

  pub fn value_of(&self, outpoint: &OutPoint) -> Option<Amount> {
    self.core.get_utxo_amount(outpoint)
  }

  pub fn txid_of_outputs(&self) -> Option<Txid> {
    self.outpoints.first().map(|o| o.txid)
  }
}

impl Drop for World {
  fn drop(&mut self) {
    self.server.shutdown();
  }
}

pub fn base64(data: &[u8]) -> String {
  const T: &[u8; 64] = b"ABCDEFGHIJKLMNOPQRSTUVWXYZabcdefghijklmnopqrstuvwxyz0123456789+/";
  let mut s = String::new();
  for c in data.chunks(3) {
    let b = [c[0], *c.get(1).unwrap_or(&0), *c.get(2).unwrap_or(&0)];
    let n = (u32::from(b[0]) << 16) | (u32::from(b[1]) << 8) | u32::from(b[2]);
    s.push(T[(n >> 18) as usize & 63] as char);
    s.push(T[(n >> 12) as usize & 63] as char);
    s.push(if c.len() > 1 { T[(n >> 6) as usize & 63] as char } else { '=' });
    s.push(if c.len() > 2 { T[n as usize & 63] as char } else { '=' });
  }
  s
}
