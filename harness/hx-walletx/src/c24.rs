//! C24 — accepting an offer only signs the advertised trade.
//!
//! End to end: `ord wallet offer accept` (the real `Accept::run`, in-process through the
//! command-line parser) against a mock node and an in-process `ord server` on a real index.
//!
//! case line = model part ++ harness part
//!   model part  : dry amount want bc n  pin*  m  sig*
//!       pin = 0 sig | 1 runes_opt insc_opt sig ; runes_opt/insc_opt = 0 | 1 k x_1..x_k
//!       sig = 0 | 1 id | 2 id | 3
//!   harness part: world (0 mainnet, 1 regtest)  pay  (kind idx)*n     kind 0 = foreign, 1 = wallet
//! obs: [0] signed+broadcast | [1] dry-run ok | [2 reason]
use crate::world::*;
use bitcoin::{
  absolute::LockTime, psbt::Psbt, transaction::Version, Amount, OutPoint, ScriptBuf, Sequence, Transaction, TxIn,
  TxOut, Witness,
};
use bitcoin::hashes::Hash as _;
use hxlib::*;
use std::cell::RefCell;

fn spec(kind: u8) -> WorldSpec {
  let regtest = kind == 1;
  let mut outputs = vec![
    OutSpec { value: 20_000, ..Default::default() },
    OutSpec { value: 10_000, inscriptions: 1, ..Default::default() },
    OutSpec { value: 10_000, inscriptions: 2, ..Default::default() },
    OutSpec { value: 12_000, inscriptions: 1, ..Default::default() },
  ];
  if regtest {
    outputs.push(OutSpec { value: 10_000, inscriptions: 1, runes: vec![(0, 5)], ..Default::default() });
    outputs.push(OutSpec { value: 10_000, runes: vec![(0, 7)], ..Default::default() });
  }
  WorldSpec {
    regtest,
    rune_names: if regtest { vec![0] } else { vec![] },
    mintable: None,
    outputs,
    foreign: 4,
    foreign_inscribed: false,
    cardinals: 1,
    no_rune_index: false,
    no_inscription_index: kind == 2,
    sweepable_foreign: false,
  }
}

thread_local! {
  static WORLDS: RefCell<[Option<World>; 3]> = const { RefCell::new([None, None, None]) };
}

fn with_world<T>(kind: u8, f: impl FnOnce(&World) -> T) -> T {
  WORLDS.with(|w| {
    let mut w = w.borrow_mut();
    let slot = &mut w[usize::from(kind)];
    if slot.is_none() {
      *slot = Some(World::new(spec(kind)));
    }
    f(slot.as_ref().unwrap())
  })
}

/// number of wallet outputs of the world
fn n_wallet(regtest: bool) -> usize {
  if regtest {
    6
  } else {
    4
  }
}

/// inscription table index (1-based, world order) of the inscriptions on wallet output j
fn insc_table(j: usize) -> Vec<u64> {
  match j {
    1 => vec![1],
    2 => vec![2, 3],
    3 => vec![4],
    4 => vec![5],
    _ => vec![],
  }
}
fn runes_of(j: usize) -> Vec<u64> {
  match j {
    4 | 5 => vec![1],
    _ => vec![],
  }
}
fn value_of(j: usize) -> u64 {
  match j {
    0 => 20_000,
    3 => 12_000,
    _ => 10_000,
  }
}

#[derive(Clone, Copy, PartialEq, Debug)]
enum Sig {
  None,
  Script(u64),
  Witness(u64),
  Both,
}

fn push_sig(l: &mut L, s: Sig) {
  match s {
    Sig::None => l.push(0u8),
    Sig::Script(i) => {
      l.push(1u8);
      l.push(i)
    }
    Sig::Witness(i) => {
      l.push(2u8);
      l.push(i)
    }
    Sig::Both => l.push(3u8),
  }
}

fn witness_bytes(id: u64) -> Witness {
  match id {
    1 => Witness::from_slice(&[&[0u8; 64]]), // what the mock node's signer produces
    2 => Witness::from_slice(&[&[1u8; 64]]),
    4 => Witness::new(), // present but empty
    _ => Witness::from_slice(&[&[id as u8; 32][..], &[7u8; 33][..]]),
  }
}
fn script_bytes(id: u64) -> ScriptBuf {
  match id {
    5 => ScriptBuf::new(), // present but empty
    _ => ScriptBuf::from_bytes(vec![2, id as u8, id as u8]),
  }
}

struct Case {
  dry: bool,
  amount: u64,
  want: u64,
  /// world kind: 0 mainnet, 1 regtest with rune index, 2 mainnet without inscription index
  kind: u8,
  regtest: bool,
  pay: u64,
  ins: Vec<(bool, usize, Sig)>, // (wallet?, index, pre)
  /// the node's simulaterawtransaction answer is forced to this value (guarded mockcore hook
  /// VERIF_SIMULATE_OVERRIDE / VERIF_SIMULATE_BALANCE_CHANGE)
  forced: Option<i64>,
}

/// the node's `simulaterawtransaction` answer for this case (mock node: sum over wallet
/// addresses on mainnet; on regtest the mock compares mainnet-encoded addresses and
/// therefore always answers 0)
fn node_balance_change(c: &Case) -> i64 {
  if let Some(v) = c.forced {
    return v;
  }
  if c.regtest {
    return 0;
  }
  let spent: u64 = c.ins.iter().filter(|i| i.0).map(|i| value_of(i.1)).sum();
  c.pay as i64 - spent as i64
}

fn encode(c: &Case) -> Line {
  let mut l = L::new();
  l.push(c.dry);
  l.push(c.amount);
  l.push(c.want);
  l.push(node_balance_change(c));
  l.push(c.ins.len());
  for (wallet, idx, pre) in &c.ins {
    if *wallet {
      l.push(1u8);
      if c.regtest {
        l.push(1u8);
        let r = runes_of(*idx);
        l.push(r.len());
        for x in r {
          l.push(x);
        }
      } else {
        l.push(0u8);
      }
      if c.kind == 2 {
        l.push(0u8);
      } else {
        l.push(1u8);
        let t = insc_table(*idx);
        l.push(t.len());
        for x in t {
          l.push(x);
        }
      }
    } else {
      l.push(0u8);
    }
    push_sig(&mut l, *pre);
  }
  if c.dry {
    l.push(0u8);
  } else {
    // the mock node finalizes every input with its own 64-byte witness
    l.push(c.ins.len());
    for _ in &c.ins {
      push_sig(&mut l, Sig::Witness(1));
    }
  }
  l.push(c.kind);
  l.push(c.pay);
  for (wallet, idx, _) in &c.ins {
    l.push(*wallet);
    l.push(*idx);
  }
  if c.forced.is_some() {
    l.push(1u8);
  }
  l.done()
}

fn read_sig(c: &mut Cur) -> Sig {
  match c.u8() {
    1 => Sig::Script(c.u64()),
    2 => Sig::Witness(c.u64()),
    3 => Sig::Both,
    _ => Sig::None,
  }
}

fn decode(line: &Line) -> Case {
  let mut c = Cur::new(line);
  let dry = c.bool();
  let amount = c.u64();
  let want = c.u64();
  let bc = c.z().i64();
  let n = c.usize();
  let mut pres = Vec::new();
  for _ in 0..n {
    if c.bool() {
      if c.bool() {
        let k = c.usize();
        for _ in 0..k {
          c.u64();
        }
      }
      if c.bool() {
        let k = c.usize();
        for _ in 0..k {
          c.u64();
        }
      }
    }
    pres.push(read_sig(&mut c));
  }
  let m = c.usize();
  for _ in 0..m {
    read_sig(&mut c);
  }
  let kind = c.u8();
  let regtest = kind == 1;
  let pay = c.u64();
  let mut ins = Vec::new();
  for pre in pres {
    let wallet = c.bool();
    let idx = c.usize();
    ins.push((wallet, idx, pre));
  }
  let forced = if !c.at_end() && c.bool() { Some(bc) } else { None };
  Case { dry, amount, want, kind, regtest, pay, ins, forced }
}

const PRE_KINDS: [Sig; 7] = [
  Sig::None,
  Sig::Witness(1),
  Sig::Witness(2),
  Sig::Script(3),
  Sig::Both,
  Sig::Witness(4),
  Sig::Script(5),
];

pub fn gen(rng: &mut Rng, tier: &str) -> Vec<Line> {
  let n = if tier == "thorough" { 1500 } else { 160 };
  let mut v = Vec::new();
  for i in 0..n {
    let kind: u8 = if i % 3 == 2 { 1 } else if i % 16 == 0 { 2 } else { 0 };
    let regtest = kind == 1;
    // a well-formed offer for wallet output 1 or 3 ...
    let seller = *rng.pick(&[1usize, 3, 1, 3, 4]);
    let seller = if seller == 4 && !regtest { 1 } else { seller };
    let n_foreign = rng.range(1, 2) as usize;
    let mut ins: Vec<(bool, usize, Sig)> = (0..n_foreign).map(|f| (false, f, Sig::Witness(1))).collect();
    let pos = rng.below(ins.len() as u64 + 1) as usize;
    ins.insert(pos, (true, seller, Sig::None));
    let delta = *rng.pick(&[0u64, 1, 1000, 100_000_000]);
    let mut c = Case {
      dry: rng.chance(1, 2),
      amount: if regtest { 0 } else { delta },
      want: insc_table(seller)[0],
      kind,
      regtest,
      pay: value_of(seller) + delta,
      ins,
      forced: None,
    };
    // ... then up to two mutations
    let muts = *rng.pick(&[0u64, 1, 1, 1, 2]);
    for _ in 0..muts {
      match rng.below(14) {
        0 => c.amount += 1 + rng.below(3),
        1 => c.pay = c.pay.saturating_sub(1 + rng.below(2000)),
        2 => c.want = rng.below(6),
        3 => {
          // another wallet input
          let j = rng.below(n_wallet(regtest) as u64) as usize;
          if !c.ins.iter().any(|i| i.0 && i.1 == j) {
            let pre = *rng.pick(&[Sig::None, Sig::Witness(1)]);
            c.ins.push((true, j, pre));
          }
        }
        4 => {
          // replace the seller output
          let j = rng.below(n_wallet(regtest) as u64) as usize;
          if !c.ins.iter().any(|i| i.0 && i.1 == j) {
            for i in c.ins.iter_mut() {
              if i.0 {
                i.1 = j;
              }
            }
          }
        }
        5 => c.ins.retain(|i| !i.0), // no wallet input
        6 | 7 => {
          let k = rng.below(c.ins.len() as u64) as usize;
          c.ins[k].2 = *rng.pick(&PRE_KINDS);
        }
        8 => {
          let f = c.ins.iter().filter(|i| !i.0).count();
          if f < 4 {
            c.ins.push((false, f, *rng.pick(&PRE_KINDS)));
          }
        }
        9 => c.dry = !c.dry,
        10 => {
          // pay exactly what the (possibly changed) wallet inputs are worth plus the amount
          let spent: u64 = c.ins.iter().filter(|i| i.0).map(|i| value_of(i.1)).sum();
          c.pay = spent + c.amount;
        }
        11 => {
          if let Some(i) = c.ins.iter_mut().find(|i| !i.0) {
            i.2 = Sig::Witness(2)
          }
        }
        12 => {
          // the offer pays MORE than the named amount
          let spent: u64 = c.ins.iter().filter(|i| i.0).map(|i| value_of(i.1)).sum();
          c.pay = spent + c.amount + *rng.pick(&[1u64, 2, 1000, 100_000_000]);
        }
        _ => {
          // the offer COSTS the wallet the named amount
          let spent: u64 = c.ins.iter().filter(|i| i.0).map(|i| value_of(i.1)).sum();
          c.amount = *rng.pick(&[1u64, 546, 5_000]);
          c.pay = spent.saturating_sub(c.amount).max(1);
        }
      }
    }
    // a third of the cases: the node's simulated balance change is set directly
    if i % 3 == 1 {
      let a = *rng.pick(&[0u64, 1, 10_000, 100_000_000, 2_100_000_000_000_000]);
      let big: i64 = 2_100_000_000_000_000;
      let huge: i64 = 9_000_000_000_000_000;
      let ai = a as i64;
      let bc = *rng.pick(&[ai, ai, ai, -ai, -ai, ai + 1, ai - 1, 0, 2 * ai, big, -big, huge, -huge]);
      c.amount = a;
      c.forced = Some(bc);
    }
    if c.ins.is_empty() {
      c.ins.push((false, 0, Sig::Witness(1)));
    }
    v.push(encode(&c));
  }
  v
}

fn classify(msg: &str) -> u8 {
  let m = msg;
  if m.contains("inputs owned by wallet") && !m.contains("no inputs") {
    1
  } else if m.contains("PSBT contains no inputs owned by wallet") {
    2
  } else if m.contains("contains runes") {
    3
  } else if m.contains("index must have inscription index") {
    4
  } else if m.contains("outgoing input contains no inscriptions") {
    6
  } else if m.contains("inscriptions") && m.contains("outgoing input") {
    5
  } else if m.contains("unexpected outgoing inscription") {
    7
  } else if m.contains("unexpected balance change") {
    8
  } else if m.contains("was not signed by wallet") {
    14
  } else if m.contains("signature changed after signing") {
    15
  } else if m.contains("seller input must not be signed") {
    10
  } else if m.contains("buyer inputs must be signed") {
    11
  } else if m.contains("input length mismatch") {
    12
  } else if m.contains("input contains both scriptsig and witness") {
    9 // before signing (9) and after signing (13) carry the same text; the mock never produces 13
  } else {
    0
  }
}

pub fn run(line: &Line) -> Outcome {
  let c = decode(line);
  guarded("accept", || {
    // the case line must be the one this harness derives from its own world table
    if encode(&c) != *line {
      return Outcome {
        obs: L::new().p(99u8).done(),
        oracle: Err("[harness] case line is not consistent with the world table".into()),
        cat: "harness/inconsistent".into(),
      };
    }
    with_world(c.kind, |w| {
      let table: Vec<ord::InscriptionId> = w.inscriptions.iter().flatten().cloned().collect();
      let want_id = if c.want >= 1 && (c.want as usize) <= table.len() {
        table[c.want as usize - 1]
      } else {
        ord::InscriptionId { txid: bitcoin::Txid::from_byte_array([0x11; 32]), index: 0 }
      };
      let mut tx = Transaction { version: Version(2), lock_time: LockTime::ZERO, input: vec![], output: vec![] };
      for (wallet, idx, _) in &c.ins {
        let op: OutPoint = if *wallet { w.outpoints[*idx] } else { w.foreign_outpoints[*idx] };
        tx.input.push(TxIn {
          previous_output: op,
          script_sig: ScriptBuf::new(),
          sequence: Sequence::MAX,
          witness: Witness::new(),
        });
      }
      tx.output.push(TxOut { value: Amount::from_sat(c.pay), script_pubkey: w.wallet_address.script_pubkey() });
      tx.output.push(TxOut { value: Amount::from_sat(5_000), script_pubkey: w.foreign_address.script_pubkey() });
      let mut psbt = Psbt::from_unsigned_tx(tx.clone()).unwrap();
      for (k, (_, _, pre)) in c.ins.iter().enumerate() {
        match pre {
          Sig::None => {}
          Sig::Script(i) => psbt.inputs[k].final_script_sig = Some(script_bytes(*i)),
          Sig::Witness(i) => psbt.inputs[k].final_script_witness = Some(witness_bytes(*i)),
          Sig::Both => {
            psbt.inputs[k].final_script_sig = Some(script_bytes(3));
            psbt.inputs[k].final_script_witness = Some(witness_bytes(1));
          }
        }
      }
      let b64 = base64(&psbt.serialize());
      w.clear_mempool();
      let amount = format!("{}sat", c.amount);
      let id = want_id.to_string();
      let mut args = vec!["offer", "accept", "--inscription", &id, "--amount", &amount, "--psbt", &b64];
      if c.dry {
        args.push("--dry-run");
      }
      mockcore::VERIF_SIMULATE_BALANCE_CHANGE.store(c.forced.unwrap_or(0), std::sync::atomic::Ordering::SeqCst);
      mockcore::VERIF_SIMULATE_OVERRIDE.store(c.forced.is_some(), std::sync::atomic::Ordering::SeqCst);
      let r = w.cli(&args);
      mockcore::VERIF_SIMULATE_OVERRIDE.store(false, std::sync::atomic::Ordering::SeqCst);
      let broadcast = w.mempool();
      w.clear_mempool();

      // ---- S: the property's clauses, evaluated on what the harness built
      let owned: Vec<usize> = c.ins.iter().enumerate().filter(|(_, i)| i.0).map(|(k, _)| k).collect();
      let clauses_pre = || -> Result<(), String> {
        if c.kind == 2 {
          return Err("the server has no inscription index, the named inscription cannot be checked".into());
        }
        if owned.len() != 1 {
          return Err(format!("{} wallet inputs", owned.len()));
        }
        let j = c.ins[owned[0]].1;
        if w.inscriptions[j] != vec![want_id] {
          return Err(format!("seller output holds {:?}, named {}", w.inscriptions[j], want_id));
        }
        if !w.spec.outputs[j].runes.is_empty() {
          return Err("seller output holds runes".into());
        }
        if !c.regtest || c.forced.is_some() {
          // what the node reports: forced, or (mainnet) payment to the wallet minus the spent output
          let bc = c.forced.unwrap_or(c.pay as i64 - value_of(j) as i64);
          if i128::from(bc) != i128::from(c.amount) {
            return Err(format!("the wallet's balance changes by {bc}, the named amount is {}", c.amount));
          }
        }
        for (k, i) in c.ins.iter().enumerate() {
          if k != owned[0] && matches!(i.2, Sig::None) {
            return Err(format!("input {k} unsigned"));
          }
        }
        Ok(())
      };
      let (obs, cat, oracle) = match &r {
        Ok(_) => {
          let pre = clauses_pre();
          if c.dry {
            let o = if !broadcast.is_empty() {
              Err("dry run broadcast a transaction".to_string())
            } else {
              pre.map_err(|e| format!("dry-run accepted although {e}"))
            };
            (L::new().p(1u8).done(), "dry/ok".to_string(), o)
          } else {
            let mut o = pre.map_err(|e| format!("signed although {e}"));
            if broadcast.len() != 1 {
              o = Err(format!("accepted but {} transactions broadcast", broadcast.len()));
            } else if o.is_ok() {
              // signatures of the other inputs unchanged
              for (k, i) in c.ins.iter().enumerate() {
                if k == owned[0] {
                  continue;
                }
                let same = match i.2 {
                  Sig::Witness(id) => {
                    broadcast[0].input[k].witness == witness_bytes(id) && broadcast[0].input[k].script_sig.is_empty()
                  }
                  Sig::Script(id) => {
                    broadcast[0].input[k].script_sig == script_bytes(id) && broadcast[0].input[k].witness.is_empty()
                  }
                  _ => false,
                };
                if !same {
                  o = Err(format!("signed and broadcast although the signature of input {k} changed"));
                }
              }
            }
            (L::new().p(0u8).done(), "sign/ok".to_string(), o)
          }
        }
        Err(msg) => {
          let code = classify(msg);
          let o = if !broadcast.is_empty() {
            Err(format!("rejected ({msg}) but a transaction was broadcast"))
          } else if code == 0 {
            Err(format!("[harness] unclassified error: {msg}"))
          } else {
            Ok(())
          };
          (
            L::new().p(2u8).p(code).done(),
            format!("{}/reject{code}", if c.dry { "dry" } else { "sign" }),
            o,
          )
        }
      };
      Outcome { obs, oracle, cat }
    })
  })
}
