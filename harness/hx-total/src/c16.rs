//! C16 — indexing a valid chain never fails.
//!
//! A case is a whole regtest chain:
//!   iso pre nblocks mid { subsidy ntx { tx }* }*     (iso = 1: index this chain in a child process)
//!   tx:  nin { txnum vout nwit { len bytes }* }*  nout { value len script-bytes }*
//! `pre` empty blocks are mined first; `txnum` numbers all transactions of the chain in block
//! order (genesis coinbase = 0, every coinbase counts).  The chain is installed in an in-process
//! mock node and indexed by the real `ord::Index` under six configurations, once after block
//! `mid` and once at the tip, inside catch_unwind.
//! observation: per configuration 0 ok | 1 error | -2 panic.   S: all must be ok.
//!
//! Validity kept by the generator (and re-checked on replay): every input spends an existing
//! unspent non-OP_RETURN output created earlier (possibly in the same block), outputs never
//! exceed inputs, the coinbase claims at most subsidy + fees, at least one output per
//! transaction.  Script/witness validity and coinbase maturity are not enforced: the indexer
//! cannot observe them (it never executes scripts and never looks at maturity).
use crate::{c27, c28};
use bitcoin::{
  absolute::LockTime, hashes::Hash, script, transaction::Version, Amount, OutPoint, ScriptBuf, Sequence, Transaction, TxIn, TxOut,
  Txid, Witness,
};
use hxlib::*;
use ord::{Inscription, InscriptionId, ParsedEnvelope};
use ordinals::{varint, Artifact, Edict, Etching, Rune, RuneId, Runestone, Terms};
use std::collections::BTreeMap;

pub const CONFIGS: [&[&str]; 6] = [
  &[],
  &["--index-sats"],
  &["--index-addresses"],
  &["--index-sats", "--index-addresses", "--index-transactions"],
  &["--index-runes"],
  &["--no-index-inscriptions", "--index-runes"],
];

const COIN: u64 = 100_000_000;

#[derive(Clone)]
pub struct InS {
  pub txnum: usize,
  pub vout: u32,
  pub witness: Vec<Vec<u8>>,
}
#[derive(Clone)]
pub struct OutS {
  pub value: u64,
  pub script: Vec<u8>,
}
#[derive(Clone)]
pub struct TxS {
  pub ins: Vec<InS>,
  pub outs: Vec<OutS>,
}
#[derive(Clone)]
pub struct BlockS {
  pub subsidy: u64,
  pub txs: Vec<TxS>,
}
#[derive(Clone)]
pub struct ChainS {
  /// run this chain in a child process (it carries payloads whose failure mode is an abort)
  pub iso: bool,
  pub pre: u64,
  pub mid: usize,
  pub blocks: Vec<BlockS>,
}

impl ChainS {
  pub fn line(&self) -> Line {
    let mut l = L::new().p(self.iso).p(self.pre).p(self.blocks.len()).p(self.mid);
    for b in &self.blocks {
      l.push(b.subsidy);
      l.push(b.txs.len());
      for t in &b.txs {
        l.push(t.ins.len());
        for i in &t.ins {
          l.push(i.txnum);
          l.push(i.vout);
          l.push(i.witness.len());
          for w in &i.witness {
            l.bytes(w);
          }
        }
        l.push(t.outs.len());
        for o in &t.outs {
          l.push(o.value);
          l.bytes(&o.script);
        }
      }
    }
    l.done()
  }

  pub fn parse(case: &Line) -> ChainS {
    let mut c = Cur::new(case);
    let iso = c.bool();
    let pre = c.u64();
    let nb = c.usize();
    let mid = c.usize();
    let mut blocks = Vec::new();
    for _ in 0..nb {
      let subsidy = c.u64();
      let ntx = c.usize();
      let mut txs = Vec::new();
      for _ in 0..ntx {
        let nin = c.usize();
        let ins = (0..nin)
          .map(|_| {
            let txnum = c.usize();
            let vout = c.u32();
            let nw = c.usize();
            let witness = (0..nw).map(|_| c.bytes()).collect();
            InS { txnum, vout, witness }
          })
          .collect();
        let nout = c.usize();
        let outs = (0..nout)
          .map(|_| {
            let value = c.u64();
            let script = c.bytes();
            OutS { value, script }
          })
          .collect();
        txs.push(TxS { ins, outs });
      }
      blocks.push(BlockS { subsidy, txs });
    }
    ChainS { iso, pre, mid, blocks }
  }
}

/// A mock node plus the bookkeeping needed to build valid spends.
pub struct Node {
  pub core: mockcore::Handle,
  /// every transaction of the chain in block order: (txid, outputs, height, index in block)
  pub txs: Vec<(Txid, Vec<TxOut>, u32, u32)>,
  pub spent: std::collections::HashSet<(usize, u32)>,
}

impl Node {
  pub fn new(pre: u64) -> Node {
    let core = ordkit::regtest_core();
    let genesis = core.tx(0, 0);
    let mut n = Node { core, txs: vec![(genesis.compute_txid(), genesis.output.clone(), 0, 0)], spent: Default::default() };
    // the genesis coinbase is not spendable
    n.spent.insert((0, 0));
    for _ in 0..pre {
      n.apply(&BlockS { subsidy: 50 * COIN, txs: vec![] }).unwrap();
    }
    n
  }

  pub fn height(&self) -> u32 {
    self.txs.last().unwrap().2
  }

  pub fn build(&self, t: &TxS, pending: &[(Txid, Vec<TxOut>)], base: usize) -> Result<Transaction, String> {
    let mut total: u64 = 0;
    let mut input = Vec::new();
    for i in &t.ins {
      let (txid, outs) = if i.txnum < self.txs.len() {
        (self.txs[i.txnum].0, &self.txs[i.txnum].1)
      } else if i.txnum >= base && i.txnum - base < pending.len() {
        (pending[i.txnum - base].0, &pending[i.txnum - base].1)
      } else {
        return Err("input refers to an unknown transaction".into());
      };
      let o = outs.get(i.vout as usize).ok_or("input refers to an unknown output")?;
      if o.script_pubkey.is_op_return() {
        return Err("input spends an OP_RETURN output".into());
      }
      total = total.checked_add(o.value.to_sat()).ok_or("input overflow")?;
      input.push(TxIn {
        previous_output: OutPoint { txid, vout: i.vout },
        script_sig: ScriptBuf::new(),
        sequence: Sequence::MAX,
        witness: Witness::from_slice(&i.witness),
      });
    }
    let mut out_total: u64 = 0;
    for o in &t.outs {
      out_total = out_total.checked_add(o.value).ok_or("output overflow")?;
    }
    if t.ins.is_empty() || t.outs.is_empty() || out_total > total {
      return Err("transaction without inputs/outputs or creating value".into());
    }
    let output = t.outs.iter().map(|o| TxOut { value: Amount::from_sat(o.value), script_pubkey: ScriptBuf::from_bytes(o.script.clone()) }).collect();
    Ok(Transaction { version: Version(2), lock_time: LockTime::ZERO, input, output })
  }

  /// mine one block; returns the transactions (without the coinbase)
  pub fn apply(&mut self, b: &BlockS) -> Result<Vec<Transaction>, String> {
    if b.subsidy > 50 * COIN {
      return Err("subsidy above the schedule".into());
    }
    let base = self.txs.len() + 1; // the coinbase comes first
    let mut pending: Vec<(Txid, Vec<TxOut>)> = Vec::new();
    let mut built = Vec::new();
    let mut spent_now = Vec::new();
    for t in &b.txs {
      let tx = self.build(t, &pending, base)?;
      for i in &t.ins {
        if self.spent.contains(&(i.txnum, i.vout)) || spent_now.contains(&(i.txnum, i.vout)) {
          return Err("double spend".into());
        }
        spent_now.push((i.txnum, i.vout));
      }
      pending.push((tx.compute_txid(), tx.output.clone()));
      built.push(tx);
    }
    {
      let mut st = self.core.state();
      for tx in &built {
        st.mempool.push(tx.clone());
      }
    }
    let block = self.core.mine_blocks_with_subsidy(1, b.subsidy).pop().unwrap();
    let height = self.height() + 1;
    for (i, tx) in block.txdata.iter().enumerate() {
      self.txs.push((tx.compute_txid(), tx.output.clone(), height, i as u32));
    }
    self.spent.extend(spent_now);
    Ok(built)
  }
}

// ------------------------------------------------------------------ generator

struct Gen<'a> {
  rng: &'a mut Rng,
  node: Node,
  /// spendable outputs: (txnum, vout, value, is_p2tr, height)
  live: Vec<(usize, u32, u64, bool, u32)>,
  inscriptions: Vec<InscriptionId>,
  runes: Vec<RuneId>,
  /// named-rune commitments waiting for confirmations: (txnum, vout, rune)
  commits: Vec<(usize, u32, Rune)>,
  feats: BTreeMap<&'static str, u64>,
  /// percentage of inscriptions that carry an over-declared-length properties field
  over_bias: u64,
  over_next: usize,
}

fn p2wpkh() -> Vec<u8> {
  let mut v = vec![0x00, 0x14];
  v.extend_from_slice(&[7u8; 20]);
  v
}
fn p2tr() -> Vec<u8> {
  let mut v = vec![0x51, 0x20];
  v.extend_from_slice(&[0x11u8; 32]);
  v
}

impl<'a> Gen<'a> {
  fn feat(&mut self, k: &'static str) {
    *self.feats.entry(k).or_insert(0) += 1;
  }

  fn junk_or_id(&mut self) -> Vec<u8> {
    match self.rng.below(6) {
      0 | 1 | 2 if !self.inscriptions.is_empty() => {
        let id = *self.rng.pick(&self.inscriptions);
        let mut v = ord::verif::envelope::inscription_id_value(id);
        if self.rng.chance(1, 6) {
          v.push(0); // trailing zero: rejected form
        }
        v
      }
      3 => {
        let n = *self.rng.pick(&[0usize, 1, 31, 32, 33, 36, 37, 64]);
        self.rng.bytes(n)
      }
      4 => vec![0u8; 32],
      _ => {
        let n = self.rng.range(32, 36) as usize;
        self.rng.bytes(n)
      }
    }
  }

  fn properties_field(&mut self) -> (Option<Vec<u8>>, Option<Vec<u8>>) {
    let br = Some(b"br".to_vec());
    if self.rng.below(100) < self.over_bias {
      // a container or string declaring a length far beyond the input (plain or inside brotli)
      // dense chains walk through the whole list (starting at a random place), plain first, then compressed
      let all = c28::overdeclared();
      if self.over_next == 0 {
        self.over_next = 1 + self.rng.below(2 * all.len() as u64) as usize;
      }
      let k = self.over_next;
      self.over_next += 7; // 7 is coprime to the list length: every entry is reached
      let b = all[k % all.len()].clone();
      self.feat("overdeclared");
      return if (k / all.len()) % 2 == 1 { (Some(c28::brotli_compress(&b)), br) } else { (Some(b), None) };
    }
    match self.rng.below(10) {
      9 => {
        // crafted gallery with missing / malformed ids or odd txids
        let all = c28::idless_galleries();
        let b = self.rng.pick(&all).clone();
        self.feat("idless-gallery");
        if self.rng.chance(1, 4) { (Some(c28::brotli_compress(&b)), br) } else { (Some(b), None) }
      }
      0 => (Some(c28::malformed(self.rng)), None),
      1 => {
        // valid properties whose gallery points at existing inscriptions
        let mut p = c28::rand_props(self.rng, false);
        for it in p.gallery.iter_mut() {
          if !self.inscriptions.is_empty() && self.rng.chance(2, 3) {
            it.id = Some(*self.rng.pick(&self.inscriptions));
          }
        }
        let packed = self.rng.chance(1, 2);
        let b = if packed { ord::verif::envelope::properties_to_packed_cbor(&p) } else { ord::verif::envelope::properties_to_inline_cbor(&p) };
        (b, None)
      }
      2 => {
        let p = c28::rand_props(self.rng, false);
        let b = ord::verif::envelope::properties_to_inline_cbor(&p).unwrap_or_default();
        (Some(c28::brotli_compress(&b)), br)
      }
      3 => {
        let n = self.rng.range(1000, 400_000) as usize;
        (Some(c28::brotli_compress(&vec![0u8; n])), br) // bomb
      }
      4 => {
        let n = self.rng.below(40) as usize;
        (Some(self.rng.bytes(n)), br) // brotli garbage
      }
      5 => {
        let b = c28::malformed(self.rng);
        (Some(c28::brotli_compress(&b)), br)
      }
      6 => (Some(c28::malformed(self.rng)), Some(b"gzip".to_vec())),
      _ => (None, None),
    }
  }

  fn inscription(&mut self, total_in: u64) -> Inscription {
    let mask = if self.rng.chance(1, 3) { 0b111 } else { self.rng.below(1 << 11) as u32 };
    let big = self.rng.chance(1, 10);
    let mut i = c27::rand_insc(self.rng, mask, big);
    if self.rng.chance(1, 2) {
      i.content_type = Some(self.rng.pick(&[&b"text/plain;charset=utf-8"[..], b"image/png", b"text/html", b"application/json", b"\xff\xfe", b""]).to_vec());
    }
    if self.rng.chance(1, 10) {
      i.content_encoding = Some(self.rng.pick(&[&b"br"[..], b"gzip", b"\xff"]).to_vec());
    }
    if mask & (1 << 3) != 0 {
      i.delegate = Some(self.junk_or_id());
    }
    if mask & (1 << 10) != 0 || self.rng.chance(1, 6) {
      let n = self.rng.range(1, 3);
      i.parents = (0..n).map(|_| self.junk_or_id()).collect();
    }
    if mask & (1 << 6) != 0 {
      i.pointer = Some(match self.rng.below(5) {
        0 => Inscription::pointer_value(self.rng.below(total_in.max(1) * 2)),
        1 => Inscription::pointer_value(u64::MAX),
        2 => vec![0u8; 9],
        3 => self.rng.bytes(12),
        _ => Inscription::pointer_value(self.rng.below(total_in.max(1))),
      });
    }
    if mask & (1 << 4) != 0 {
      i.metadata = Some(if self.rng.chance(1, 2) { c28::malformed(self.rng) } else { vec![0xa1, 0x61, 0x61, 0x01] });
    }
    if mask & (1 << 7) != 0 || self.rng.chance(1, 5) || self.rng.below(100) < self.over_bias {
      let (p, e) = self.properties_field();
      i.properties = p;
      i.property_encoding = e;
    }
    if mask & (1 << 9) != 0 {
      i.rune = Some(match self.rng.below(3) {
        0 => Rune(self.rng.u128_any_width()).commitment(),
        1 => vec![0xff; 17],
        _ => self.rng.bytes(3),
      });
    }
    i
  }

  fn witness(&mut self, total_in: u64, commit: Option<Rune>) -> Vec<Vec<u8>> {
    let mut pre = if self.rng.chance(1, 2) { c27::key_prefix(self.rng) } else { vec![] };
    if let Some(r) = commit {
      // the etching commitment is a data push in the tapscript
      c27::push_bytes(&mut pre, &r.commitment(), 0);
      self.feat("commit-reveal");
    }
    match self.rng.below(10) {
      0 if commit.is_none() && self.over_bias == 0 => vec![],
      1 | 2 if commit.is_none() && self.over_bias == 0 => c27::rand_witness(self.rng),
      _ => {
        let k = match self.rng.below(10) {
          _ if self.over_bias > 0 => self.rng.range(4, 10),
          0 if commit.is_some() => 0,
          0..=6 => 1,
          7 | 8 => self.rng.range(2, 4),
          _ => self.rng.range(5, 40), // many envelopes
        };
        let is: Vec<Inscription> = (0..k).map(|_| self.inscription(total_in)).collect();
        let mut script = Inscription::append_batch_reveal_script(&is, script::Builder::from(pre)).into_bytes();
        if self.rng.chance(1, 12) {
          // hand-made envelopes after the built ones (pushnum, stutter, unknown tags, truncation)
          script.extend_from_slice(&c27::rand_script(self.rng));
        }
        self.feat("envelopes");
        match self.rng.below(8) {
          0 => vec![script, c27::control_block(), vec![0x50, 1, 2]],
          1 => vec![vec![1; 64], script, c27::control_block()],
          _ => vec![script, c27::control_block()],
        }
      }
    }
  }

  fn rune_id(&mut self) -> RuneId {
    match self.rng.below(8) {
      0..=4 if !self.runes.is_empty() => *self.rng.pick(&self.runes),
      5 => RuneId { block: self.rng.below(u64::from(self.node.height()) + 3), tx: self.rng.below(4) as u32 },
      6 => RuneId { block: u64::MAX, tx: u32::MAX },
      _ => RuneId { block: 1, tx: 0 },
    }
  }

  fn amount(&mut self) -> u128 {
    match self.rng.below(8) {
      0 => 0,
      1 => 1,
      2 => u128::MAX,
      3 => u128::MAX / 2 + 1,
      4 => u128::from(u64::MAX),
      5 => self.rng.below(1000).into(),
      _ => self.rng.u128_any_width(),
    }
  }

  /// OP_RETURN OP_13 payload written by hand around the runestone grammar
  fn raw_runestone(&mut self, n_out: u32) -> Vec<u8> {
    let mut ints: Vec<u128> = Vec::new();
    let tags: [u128; 20] = [2, 4, 6, 8, 10, 12, 14, 16, 18, 20, 22, 126, 1, 3, 5, 127, 24, 25, 128, u128::MAX];
    for _ in 0..self.rng.below(8) {
      let t = *self.rng.pick(&tags);
      ints.push(t);
      let v = match t {
        2 => *self.rng.pick(&[1u128, 3, 5, 7, 2, 4, 8, u128::MAX, 1 << 127]),
        20 => self.rune_id().block.into(),
        22 => u128::from(*self.rng.pick(&[0u32, 1, n_out.saturating_sub(1), n_out, n_out + 1, u32::MAX])),
        1 => *self.rng.pick(&[0u128, 38, 39, 255, 256]),
        3 => *self.rng.pick(&[0u128, 1, (1 << 27) - 1, 1 << 27, u128::from(u32::MAX), 1 << 32]),
        5 => *self.rng.pick(&[0x41u128, 0xd800, 0x10ffff, 0x110000, u128::from(u32::MAX)]),
        _ => self.amount(),
      };
      if !self.rng.chance(1, 15) {
        ints.push(v);
      }
    }
    if self.rng.chance(1, 2) {
      ints.push(0); // body
      for _ in 0..self.rng.below(5) {
        let id = self.rune_id();
        ints.push(id.block.into());
        ints.push(id.tx.into());
        ints.push(self.amount());
        ints.push(u128::from(*self.rng.pick(&[0u32, 1, n_out.saturating_sub(1), n_out, n_out + 1, u32::MAX])));
      }
      if self.rng.chance(1, 5) {
        ints.push(self.amount()); // trailing integers
      }
    }
    let mut payload = Vec::new();
    for n in ints {
      match self.rng.below(30) {
        0 => {
          // overlong: continuation bytes beyond 128 bits
          payload.extend_from_slice(&[0xff; 19]);
          payload.push(0x7f);
        }
        1 => payload.extend_from_slice(&[0x80, 0x80, 0x00]), // non-minimal zero
        _ => payload.extend_from_slice(&varint::encode(n)),
      }
    }
    match self.rng.below(12) {
      0 => payload.push(0x80), // truncated varint
      1 => {
        let n = payload.len();
        payload.truncate(self.rng.below(n as u64 + 1) as usize)
      }
      _ => {}
    }
    let mut s = vec![0x6a, 0x5d];
    match self.rng.below(10) {
      0 => {}
      1 => {
        // split into many pushes, some non-minimal
        for chunk in payload.chunks(3) {
          c27::push_bytes(&mut s, chunk, self.rng.below(4));
        }
      }
      2 => {
        c27::push_bytes(&mut s, &payload, 0);
        s.push(*self.rng.pick(&[0x51u8, 0x4f, 0x61, 0x6a, 0xac])); // opcode in the payload
        c27::push_bytes(&mut s, &[1], 0);
      }
      3 => {
        c27::push_bytes(&mut s, &payload, 0);
        s.extend_from_slice(&[0x4c, 0x05, 1]); // truncated push: invalid script
      }
      _ => {
        for chunk in payload.chunks(520) {
          c27::push_bytes(&mut s, chunk, 0);
        }
      }
    }
    s
  }

  fn runestone(&mut self, n_out: u32, named: Option<Rune>) -> Vec<u8> {
    if named.is_none() && self.rng.chance(1, 3) {
      self.feat("runestone-raw");
      return self.raw_runestone(n_out);
    }
    let mut r = Runestone::default();
    if named.is_some() || self.rng.chance(1, 3) {
      let terms = if self.rng.chance(2, 3) {
        let h = u64::from(self.node.height());
        Some(Terms {
          amount: if self.rng.chance(5, 6) { Some(self.amount()) } else { None },
          cap: if self.rng.chance(5, 6) { Some(*self.rng.pick(&[0u128, 1, 2, 5, u128::MAX, 1 << 64])) } else { None },
          height: (
            if self.rng.chance(1, 4) { Some(self.rng.below(h + 6)) } else { None },
            if self.rng.chance(1, 4) { Some(self.rng.below(h + 12)) } else { None },
          ),
          offset: (
            if self.rng.chance(1, 4) { Some(self.rng.below(4)) } else { None },
            if self.rng.chance(1, 4) { Some(*self.rng.pick(&[0u64, 1, 5, u64::MAX])) } else { None },
          ),
        })
      } else {
        None
      };
      r.etching = Some(Etching {
        divisibility: if self.rng.chance(1, 2) { Some(self.rng.below(39) as u8) } else { None },
        premine: if self.rng.chance(2, 3) { Some(self.amount()) } else { None },
        rune: named,
        spacers: if self.rng.chance(1, 3) { Some(self.rng.below(1 << 12) as u32) } else { None },
        symbol: if self.rng.chance(1, 2) { Some(*self.rng.pick(&['$', '\u{1f9ff}', 'x'])) } else { None },
        terms,
        turbo: self.rng.chance(1, 4),
      });
      self.feat(if named.is_some() { "etch-named" } else { "etch-reserved" });
    }
    if self.rng.chance(1, 2) {
      r.mint = Some(self.rune_id());
      self.feat("mint");
    }
    for _ in 0..self.rng.below(5) {
      let id = if r.etching.is_some() && self.rng.chance(1, 3) { RuneId { block: 0, tx: 0 } } else { self.rune_id() };
      r.edicts.push(Edict {
        id,
        amount: self.amount(),
        output: *self.rng.pick(&[0u32, 1, n_out.saturating_sub(1), n_out, n_out, n_out + 1]),
      });
      self.feat("edict");
    }
    if self.rng.chance(1, 4) {
      r.pointer = Some(*self.rng.pick(&[0u32, n_out.saturating_sub(1), n_out, u32::MAX]));
    }
    match std::panic::catch_unwind(|| r.encipher()) {
      Ok(s) => s.into_bytes(),
      Err(_) => self.raw_runestone(n_out),
    }
  }

  fn tx(&mut self, base: usize, pending: &[(Txid, Vec<TxOut>)]) -> Option<TxS> {
    if self.live.is_empty() {
      return None;
    }
    let height = self.node.height() + 1;
    // a matured etching commitment, if any
    let mut named = None;
    let mut ins = Vec::new();
    let mut total = 0u64;
    if let Some(p) = self.commits.iter().position(|(t, v, _)| {
      self.live.iter().any(|l| l.0 == *t && l.1 == *v && height >= l.4 + 6)
    }) {
      if self.rng.chance(1, 2) {
        let (t, v, rune) = self.commits.remove(p);
        let k = self.live.iter().position(|l| l.0 == t && l.1 == v).unwrap();
        let l = self.live.remove(k);
        total += l.2;
        named = Some(rune);
        ins.push((l, true));
      }
    }
    let extra = if !ins.is_empty() {
      self.rng.below(2)
    } else if self.rng.chance(1, 12) {
      self.rng.range(4, 9) // many inputs
    } else {
      self.rng.range(1, 3)
    };
    for _ in 0..extra {
      if self.live.is_empty() {
        break;
      }
      // prefer recent outputs (same-block spends, inscribed outputs)
      let k = if self.rng.chance(1, 2) { self.live.len() - 1 - self.rng.below((self.live.len() as u64).min(4)) as usize } else { self.rng.below(self.live.len() as u64) as usize };
      let l = self.live.remove(k);
      total += l.2;
      ins.push((l, false));
    }
    let ins: Vec<InS> = ins
      .into_iter()
      .map(|(l, is_commit)| {
        let witness = if is_commit {
          self.witness(total, named)
        } else if self.rng.chance(1, 2) {
          self.witness(total, None)
        } else {
          vec![]
        };
        InS { txnum: l.0, vout: l.1, witness }
      })
      .collect();
    // outputs
    let n_out = match self.rng.below(8) {
      0 => 1,
      1..=4 => self.rng.range(2, 3),
      5 | 6 => self.rng.range(4, 6),
      _ => self.rng.range(7, 12),
    } as usize;
    let mut outs: Vec<OutS> = Vec::new();
    let want_rune = named.is_some() || self.rng.chance(2, 5);
    let rune_at = if want_rune { Some(self.rng.below(n_out as u64) as usize) } else { None };
    let mut left = total;
    // fee: usually small, sometimes everything (inscriptions spent as fee)
    let fee = match self.rng.below(10) {
      0 => left,
      1 => 0,
      2 => left / 2,
      _ => left.min(self.rng.below(10_000)),
    };
    left -= fee;
    for j in 0..n_out {
      let script = if Some(j) == rune_at {
        self.runestone(n_out as u32, named)
      } else {
        match self.rng.below(14) {
          0..=4 => p2wpkh(),
          5..=8 => p2tr(),
          9 => {
            // OP_RETURN that is not a runestone / second runestone
            let mut s = vec![0x6a];
            if self.rng.chance(1, 2) {
              s.extend_from_slice(&self.raw_runestone(n_out as u32)[1..]);
            } else {
              let n = self.rng.below(20) as usize;
              s.extend_from_slice(&self.rng.bytes(n));
            }
            s
          }
          10 => vec![],
          11 => {
            let n = self.rng.below(40) as usize;
            let mut s = self.rng.bytes(n);
            if s.first() == Some(&0x6a) {
              s[0] = 0x61;
            }
            s
          }
          12 => vec![0x51], // anyone-can-spend
          _ => {
            // commitment output for a later named etching
            p2tr()
          }
        }
      };
      let is_ret = script.first() == Some(&0x6a);
      let value = if is_ret {
        if self.rng.chance(1, 10) { left.min(self.rng.below(1000)) } else { 0 }
      } else if j + 1 == n_out {
        left
      } else {
        match self.rng.below(8) {
          0 => 0,
          1 => left.min(1),
          2 => left.min(546),
          3 => left,
          _ => left / (n_out - j) as u64,
        }
      };
      left -= value;
      outs.push(OutS { value, script });
    }
    let t = TxS { ins, outs };
    let tx = self.node.build(&t, pending, base).expect("generator builds valid transactions");
    // bookkeeping for later spends / references
    let txnum = base + pending.len();
    for (v, o) in t.outs.iter().enumerate() {
      if o.script.first() != Some(&0x6a) {
        let is_p2tr = o.script == p2tr();
        self.live.push((txnum, v as u32, o.value, is_p2tr, height));
        if is_p2tr && self.rng.chance(1, 3) {
          let name = Rune(Rune::RESERVED - 1 - self.rng.u128_any_width() % (1 << 100));
          self.commits.push((txnum, v as u32, name));
        }
      }
    }
    let txid = tx.compute_txid();
    let n_env = ParsedEnvelope::from_transaction(&tx).len();
    for k in 0..n_env.min(50) {
      self.inscriptions.push(InscriptionId { txid, index: k as u32 });
    }
    if let Some(Artifact::Runestone(r)) = Runestone::decipher(&tx) {
      if r.etching.is_some() {
        self.runes.push(RuneId { block: height.into(), tx: (pending.len() + 1) as u32 });
      }
    }
    Some(t)
  }

  fn block(&mut self, max_tx: u64) -> BlockS {
    let subsidy = match self.rng.below(10) {
      0 => 0,
      1 => self.rng.below(50 * COIN),
      2 => 1,
      _ => 50 * COIN,
    };
    let base = self.node.txs.len() + 1;
    let mut pending: Vec<(Txid, Vec<TxOut>)> = Vec::new();
    let mut txs = Vec::new();
    for _ in 0..self.rng.below(max_tx + 1) {
      if let Some(t) = self.tx(base, &pending) {
        let tx = self.node.build(&t, &pending, base).unwrap();
        pending.push((tx.compute_txid(), tx.output.clone()));
        txs.push(t);
      }
    }
    let b = BlockS { subsidy, txs };
    self.node.apply(&b).expect("generated block is valid");
    // the new coinbase is spendable (p2tr)
    let (_, outs, h, _) = &self.node.txs[base - 1];
    let (v, h) = (outs[0].value.to_sat(), *h);
    self.live.push((base - 1, 0, v, true, h));
    if self.rng.chance(1, 3) {
      let name = Rune(Rune::RESERVED - 1 - self.rng.u128_any_width() % (1 << 100));
      self.commits.push((base - 1, 0, name));
    }
    b
  }
}

fn gen_chain(rng: &mut Rng, long: bool, over_bias: u64) -> (ChainS, String) {
  let pre = if long { rng.range(101, 112) } else { rng.below(3) };
  let node = Node::new(pre);
  let mut g = Gen { rng, node, live: Vec::new(), inscriptions: Vec::new(), runes: Vec::new(), commits: Vec::new(), feats: BTreeMap::new(), over_bias, over_next: 0 };
  // coinbases of the empty blocks are spendable
  for n in 1..=pre as usize {
    let (_, outs, h, _) = &g.node.txs[n];
    g.live.push((n, 0, outs[0].value.to_sat(), true, *h));
  }
  let nblocks = g.rng.range(4, 14) as usize;
  let max_tx = g.rng.range(1, 6);
  let mut blocks = Vec::new();
  for _ in 0..nblocks {
    blocks.push(g.block(max_tx));
  }
  let mid = g.rng.below(nblocks as u64) as usize;
  let mut f: Vec<String> = g.feats.keys().map(|k| k.to_string()).collect();
  f.sort();
  let iso = g.feats.contains_key("overdeclared");
  (ChainS { iso, pre, mid, blocks }, f.join("+"))
}

pub fn gen(rng: &mut Rng, tier: &str) -> Vec<Line> {
  let n = if tier == "thorough" { 400 } else { 48 };
  let mut v = Vec::new();
  for j in 0..n {
    // the first chains of every run are dense in over-declared CBOR lengths, the others carry a few
    let (c, _) = gen_chain(rng, j % 6 == 5, if j < 5 { 90 } else { 0 });
    v.push(c.line());
  }
  v
}

// ------------------------------------------------------------------ run

fn tmp() -> tempfile::TempDir {
  if std::path::Path::new("/dev/shm").is_dir() {
    tempfile::Builder::new().prefix("hx-total").tempdir_in("/dev/shm").unwrap()
  } else {
    tempfile::TempDir::new().unwrap()
  }
}

fn update(index: &ord::Index) -> i32 {
  match std::panic::catch_unwind(std::panic::AssertUnwindSafe(|| index.update())) {
    Ok(Ok(())) => 0,
    Ok(Err(_)) => 1,
    Err(_) => -2,
  }
}

/// Chains flagged `iso` run in a child process: an allocation failure inside the indexer aborts
/// the process instead of unwinding and must still be attributed to its case.
pub fn run(case: &Line) -> Outcome {
  if std::env::var_os("HX_CHILD").is_some() || case.first().map_or(true, |z| z.mag == 0) {
    return run_here(case);
  }
  let dir = tmp();
  let file = dir.path().join("case.txt");
  std::fs::write(&file, fmt_line(case) + "\n").unwrap();
  let out = dir.path().join("out");
  let status = std::process::Command::new(std::env::current_exe().unwrap())
    .args(["C16", "replay", file.to_str().unwrap(), out.to_str().unwrap()])
    .env("HX_CHILD", "1")
    .stdout(std::process::Stdio::null())
    .stderr(std::process::Stdio::null())
    .status();
  let read = |n: &str| std::fs::read_to_string(out.join(n)).unwrap_or_default();
  match status {
    Ok(st) if st.success() => {
      let obs = parse_line(read("impl.txt").trim());
      let verdict = read("oracle.txt");
      let oracle = if verdict.trim() == "ok" { Ok(()) } else { Err(verdict.trim().trim_start_matches("FAIL ").to_string()) };
      let meta = read("meta.json");
      let cat = meta.split("\"categories\": {\"").nth(1).and_then(|r| r.split('"').next()).unwrap_or("chain/unknown").to_string();
      Outcome { obs, oracle, cat }
    }
    other => {
      let mut obs = L::new();
      for _ in 0..6 {
        obs.push(Z { neg: true, mag: 2 });
      }
      let why = match other {
        Ok(st) => format!("{st}"),
        Err(e) => format!("spawn failed: {e}"),
      };
      Outcome { obs: obs.done(), oracle: Err(format!("the indexing process died ({why}): abort / allocation failure / stack overflow while indexing this chain")), cat: "chain/aborted".into() }
    }
  }
}

fn run_here(case: &Line) -> Outcome {
  let chain = ChainS::parse(case);
  let all_ok = || L::new().p(0u8).p(0u8).p(0u8).p(0u8).p(0u8).p(0u8).done();
  let t0 = std::time::Instant::now();
  let mut node = Node::new(chain.pre);
  let t1 = t0.elapsed();
  let dirs: Vec<tempfile::TempDir> = CONFIGS.iter().map(|_| tmp()).collect();
  let indexes: Vec<ord::Index> = CONFIGS.iter().zip(&dirs).map(|(flags, d)| ordkit::open_index(&node.core, d.path(), flags)).collect();
  let t2 = t0.elapsed();
  let mut status = [0i32; 6];
  let mut messages: Vec<String> = Vec::new();
  let mut step = |node: &Node, status: &mut [i32; 6], messages: &mut Vec<String>, at: usize| {
    let _ = node;
    for (k, index) in indexes.iter().enumerate() {
      if status[k] != 0 {
        continue;
      }
      let r = match std::panic::catch_unwind(std::panic::AssertUnwindSafe(|| index.update())) {
        Ok(Ok(())) => 0,
        Ok(Err(e)) => {
          messages.push(format!("config {k} ({}) error after block {at}: {e}", CONFIGS[k].join(" ")));
          1
        }
        Err(p) => {
          let m = p.downcast_ref::<&str>().map(|s| s.to_string()).or_else(|| p.downcast_ref::<String>().cloned()).unwrap_or_default();
          messages.push(format!("config {k} ({}) panic after block {at}: {m}", CONFIGS[k].join(" ")));
          -2
        }
      };
      status[k] = r;
    }
  };
  for (j, b) in chain.blocks.iter().enumerate() {
    if let Err(e) = node.apply(b) {
      return Outcome { obs: all_ok(), oracle: Ok(()), cat: format!("trivial/invalid-case: {e}") };
    }
    if j == chain.mid {
      step(&node, &mut status, &mut messages, j);
    }
  }
  step(&node, &mut status, &mut messages, chain.blocks.len());
  let _ = update;
  if std::env::var("HX_TIMING").is_ok() {
    eprintln!("node {:?} open {:?} total {:?} blocks {} pre {}", t1, t2 - t1, t0.elapsed(), chain.blocks.len(), chain.pre);
  }
  // what the chain made the indexer do (category only)
  let mut cat = String::from(if chain.pre > 100 { "chain/long" } else { "chain/short" });
  if status.iter().all(|s| *s == 0) {
    if let Ok(d) = indexes[3].verif_dump() {
      let n = d.sequence_number_to_inscription_entry.len();
      cat.push_str(match n {
        0 => "/insc0",
        1..=9 => "/insc1-9",
        10..=99 => "/insc10-99",
        _ => "/insc100+",
      });
      if d.inscription_number_to_sequence_number.iter().any(|(n, _)| *n < 0) {
        cat.push_str("/cursed");
      }
      if !d.sequence_number_to_children.is_empty() {
        cat.push_str("/children");
      }
      if !d.gallery_sequence_numbers.is_empty() {
        cat.push_str("/gallery");
      }
    }
    if let Ok(d) = indexes[4].verif_dump() {
      let n = d.rune_id_to_rune_entry.len();
      cat.push_str(match n {
        0 => "/runes0",
        1..=3 => "/runes1-3",
        _ => "/runes4+",
      });
      if d.rune_id_to_rune_entry.iter().any(|(_, e)| e.burned > 0) {
        cat.push_str("/burned");
      }
      if d.rune_id_to_rune_entry.iter().any(|(_, e)| e.mints > 0) {
        cat.push_str("/minted");
      }
      if d.rune_id_to_rune_entry.iter().any(|(_, e)| !e.spaced_rune.rune.is_reserved()) {
        cat.push_str("/named");
      }
    }
  }
  let mut obs = L::new();
  for s in status {
    obs.push(s);
  }
  let oracle = if messages.is_empty() { Ok(()) } else { Err(messages.join(" | ")) };
  Outcome { obs: obs.done(), oracle, cat }
}
