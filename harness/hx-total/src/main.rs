//! Harness for C16: chain-level malformed stream against the real `ord::Index`.
use hxlib::*;

// adversarial witness / properties generators shared with the envelope harness
#[allow(dead_code)]
#[path = "../../hx-envelope/src/c27.rs"]
mod c27;
#[allow(dead_code)]
#[path = "../../hx-envelope/src/c28.rs"]
mod c28;
mod c16;

fn main() {
  let args = parse_args();
  match args.prop.as_str() {
    "C16" => drive(&args, c16::gen, c16::run),
    p => {
      eprintln!("unknown property {p}");
      std::process::exit(2);
    }
  }
}
