//! Harness for the scheduling / crash / reorg properties C12, C13, C14.
//!
//! A case is a history (same wire format as coq/Index/Sched.v run_sched):
//!   interval maxsp commit_iv fixed headers_mode seed ops...
//!   ops: 1 k  mine k blocks      2  update        3 d n  reorg (drop d, mine n)
//!        4    reopen             5 c set commit interval (reopens)
//!        6 j  update in a child process that aborts after its j-th redb commit
//!             (j = 0: in the middle of the first block), then reopen
//!        7 h  node reports headers = h from now on
//! Observation per update (2): code blocks nsavepoints last_sp commits nstarts starts... flag
//!             per crash  (6): blocks nsavepoints last_sp commits nstarts starts...
use hxlib::*;
use std::sync::{mpsc, Arc};
use std::time::Duration;

const WATCHDOG: Duration = Duration::from_secs(90);

struct World {
  core: mockcore::Handle,
  dir: tempfile::TempDir,
  content_flags: Vec<String>,
  iv: u64,
  mx: u64,
  ci: u64,
  index: Option<Arc<ord::Index>>,
  rng: Rng,
  // spendable outputs: (height, tx index, vout, value), never spent on any branch
  unspent: Vec<(usize, usize, usize, u64)>,
  abandoned: bool,
}

impl World {
  fn flags(&self) -> Vec<String> {
    let mut f = self.content_flags.clone();
    f.extend([
      "--commit-interval".into(),
      self.ci.to_string(),
      "--savepoint-interval".into(),
      self.iv.to_string(),
      "--max-savepoints".into(),
      self.mx.to_string(),
    ]);
    f
  }

  fn index(&mut self) -> Arc<ord::Index> {
    if self.index.is_none() {
      let flags = self.flags();
      let refs: Vec<&str> = flags.iter().map(|s| s.as_str()).collect();
      self.index = Some(Arc::new(ordkit::open_index(&self.core, self.dir.path(), &refs)));
    }
    self.index.clone().unwrap()
  }

  fn close(&mut self) {
    self.index = None;
  }

  fn tip(&self) -> usize {
    self.core.height() as usize
  }

  /// mine one block with a few generated transactions
  fn mine_one(&mut self) {
    let ntx = if self.unspent.is_empty() { 0 } else { self.rng.below(3) };
    for _ in 0..ntx {
      if self.unspent.is_empty() {
        break;
      }
      let i = self.rng.below(self.unspent.len() as u64) as usize;
      let (h, t, v, value) = self.unspent.swap_remove(i);
      if value < 20_000 {
        continue;
      }
      let witness = if self.rng.chance(1, 2) {
        ordkit::inscription_witness(b"text/plain", &self.rng.bytes(4))
      } else {
        bitcoin::Witness::new()
      };
      let nout = self.rng.range(1, 3) as usize;
      // the mock node insists on (total - fee) being divisible by the output count
      let base_fee = *self.rng.pick(&[0u64, 0, 1000, 5000]);
      let fee = base_fee + (value - base_fee) % nout as u64;
      let mut vals = Vec::new();
      let mut rest = value - fee;
      for k in 0..nout {
        let x = if k + 1 == nout { rest } else { self.rng.range(1, rest / 2) };
        vals.push(x);
        rest -= x;
      }
      let op_return = self.rng.chance(1, 6).then(|| {
        bitcoin::script::Builder::new()
          .push_opcode(bitcoin::opcodes::all::OP_RETURN)
          .into_script()
      });
      self.core.broadcast_tx(mockcore::TransactionTemplate {
        inputs: &[(h, t, v, witness)],
        fee,
        outputs: nout,
        output_values: &vals,
        op_return,
        ..Default::default()
      });
    }
    // occasionally under-claim the subsidy: lost sats go to the null outpoint
    let blocks = if self.rng.chance(1, 5) {
      self.core.mine_blocks_with_subsidy(1, 40 * 100_000_000)
    } else {
      self.core.mine_blocks(1)
    };
    let height = self.tip();
    for (ti, tx) in blocks[0].txdata.iter().enumerate() {
      for (vo, out) in tx.output.iter().enumerate() {
        if !out.script_pubkey.is_op_return() && out.value.to_sat() > 0 {
          self.unspent.push((height, ti, vo, out.value.to_sat()));
        }
      }
    }
  }

  fn reorg(&mut self, d: usize, n: usize) {
    for _ in 0..d {
      if self.tip() == 0 {
        break;
      }
      self.core.invalidate_tip();
    }
    // mempool of the mock node is not reorg-aware: drop pending transactions
    self.core.state().mempool.clear();
    let tip = self.tip();
    self.unspent.retain(|(h, _, _, _)| *h <= tip);
    for _ in 0..n {
      self.mine_one();
    }
  }
}

/// index files live on tmpfs when available: every redb commit is fsynced,
/// which dominates the run time on a real disk
fn scratch_dir() -> tempfile::TempDir {
  if std::path::Path::new("/dev/shm").is_dir() {
    tempfile::tempdir_in("/dev/shm").unwrap()
  } else {
    tempfile::tempdir().unwrap()
  }
}

fn stat(dump: &ord::index::verif::Dump, key: u64) -> u64 {
  dump.statistic_to_count.iter().find(|(k, _)| *k == key).map(|(_, v)| *v).unwrap_or(0)
}

fn observe(index: &ord::Index, out: &mut L) -> ord::index::verif::Dump {
  let dump = index.verif_dump().expect("dump");
  out.push(dump.height_to_block_header.len());
  out.push(index.verif_savepoints().expect("savepoints").len());
  out.push(stat(&dump, 17));
  out.push(stat(&dump, 2));
  let starts: Vec<u32> = dump.write_transaction_starting_block_count_to_timestamp.iter().map(|(k, _)| *k).collect();
  out.push(starts.len());
  for s in starts {
    out.push(s);
  }
  dump
}

/// from-scratch index of the node's current best chain (optionally only its
/// first `limit` blocks), same content flags, default scheduling
fn scratch(w: &World, limit: Option<usize>) -> ord::index::verif::Dump {
  let dir = scratch_dir();
  let mut flags = w.content_flags.clone();
  if let Some(l) = limit {
    flags.push("--height-limit".into());
    flags.push(l.to_string());
  }
  let refs: Vec<&str> = flags.iter().map(|s| s.as_str()).collect();
  let index = ordkit::open_index(&w.core, dir.path(), &refs);
  index.update().expect("scratch update");
  ordkit::content(index.verif_dump().expect("scratch dump"))
}

fn first_difference(a: &ord::index::verif::Dump, b: &ord::index::verif::Dump) -> String {
  macro_rules! cmp {
    ($($f:ident),*) => { $( if a.$f != b.$f { return format!("table {} differs: {} vs {} entries", stringify!($f), a.$f.len(), b.$f.len()); } )* };
  }
  cmp!(
    outpoint_to_utxo_entry, sat_to_satpoint, sat_to_sequence_number, script_pubkey_to_outpoint,
    sequence_number_to_children, latest_child_to_collection, collection_to_latest_child, gallery_sequence_numbers,
    height_to_block_header, height_to_last_sequence_number, home_inscriptions, inscription_id_to_sequence_number,
    inscription_number_to_sequence_number, outpoint_to_rune_balances, rune_id_to_rune_entry, rune_to_rune_id,
    sequence_number_to_inscription_entry, sequence_number_to_rune_id, sequence_number_to_satpoint, statistic_to_count,
    transaction_id_to_rune, transaction_id_to_transaction
  );
  "no difference".into()
}

fn run_case(prop: &str, case: &Line) -> Outcome {
  let mut c = Cur::new(case);
  let iv = c.u64();
  let mx = c.u64();
  let ci = c.u64();
  let _fixed = c.u64();
  let mode = c.u64();
  let seed = c.u64();
  let mut rng = Rng::new(seed);
  let all_flags = ["--index-sats", "--index-addresses", "--index-runes", "--index-transactions"];
  let mut content_flags: Vec<String> = Vec::new();
  for f in all_flags {
    if rng.chance(1, 2) {
      content_flags.push(f.into());
    }
  }
  // sometimes no inscription index, sometimes no content index at all (headers only): reorg detection,
  // savepoints and commits must behave the same
  if rng.chance(1, 4) {
    if rng.chance(1, 2) {
      content_flags.clear();
    }
    content_flags.push("--no-index-inscriptions".into());
  }
  mockcore::VERIF_HEADERS.store(if mode == 0 { -1 } else if mode == 1 { -2 } else { 0 }, std::sync::atomic::Ordering::SeqCst);
  let mut w = World {
    core: ordkit::regtest_core(),
    dir: scratch_dir(),
    content_flags,
    iv,
    mx,
    ci,
    index: None,
    rng,
    unspent: Vec::new(),
    abandoned: false,
  };
  let mut obs = L::new();
  let mut oracle: Result<(), String> = Ok(());
  let fail = |oracle: &mut Result<(), String>, m: String| {
    if oracle.is_ok() {
      *oracle = Err(m);
    }
  };
  let mut cats: Vec<&str> = Vec::new();
  // C13: a twin index of the same node with the same settings that is never crashed; after every
  // completed update the crashed-and-resumed index must report the same result and hold the same content
  let twin_dir = scratch_dir();
  let mut twin: Option<Arc<ord::Index>> = None;
  let mut crashed_since_compare = false;
  let mut crash_kinds: Vec<String> = Vec::new();
  let mut n_updates = 0;
  let mut stale_possible; // node chain not longer than the index: stale blocks may legitimately stay
  let mut check_content = false;
  let mut reorg_pending = false; // the node changed branch at some point of the history
  let last_update_pos = case.iter().rposition(|z| z.mag == 2 && !z.neg).unwrap_or(0);
  while !c.at_end() && !w.abandoned {
    match c.u64() {
      1 => {
        let k = c.usize();
        for _ in 0..k {
          w.mine_one();
        }
      }
      2 => {
        n_updates += 1;
        if c.i > last_update_pos {
          check_content = true;
        }
        let index = w.index();
        let before = index.verif_dump().expect("dump").height_to_block_header.len();
        // the node offers no block beyond the index: after a branch change the index may
        // legitimately still hold the old branch (nothing tells it otherwise)
        stale_possible = w.tip() + 1 <= before && reorg_pending;
        let (tx, rx) = mpsc::channel();
        let idx = index.clone();
        let worker = std::thread::spawn(move || {
          let r = idx.update();
          drop(idx);
          let _ = tx.send(r.map_err(|e| format!("{e:#}")));
        });
        let received = rx.recv_timeout(WATCHDOG);
        if received.is_ok() {
          let _ = worker.join();
        }
        match received {
          Err(_) => {
            obs.push(2u8);
            cats.push("livelock");
            fail(&mut oracle, format!("[livelock] update() did not return within {WATCHDOG:?}"));
            w.abandoned = true;
          }
          Ok(r) => {
            let code: u8 = match &r {
              Ok(()) => 0,
              Err(e) if e.contains("unrecoverable reorg") => 1,
              Err(_) => 3,
            };
            obs.push(code);
            let dump = observe(&index, &mut obs);
            let flag = index.status(false).expect("status").unrecoverably_reorged;
            obs.push(flag);
            if prop == "C13" {
              if twin.is_none() {
                let flags = w.flags();
                let refs: Vec<&str> = flags.iter().map(|s| s.as_str()).collect();
                twin = Some(Arc::new(ordkit::open_index(&w.core, twin_dir.path(), &refs)));
              }
              let t = twin.clone().unwrap();
              let tr = t.update().map_err(|e| format!("{e:#}"));
              let tcode: u8 = match &tr {
                Ok(()) => 0,
                Err(e) if e.contains("unrecoverable reorg") => 1,
                Err(_) => 3,
              };
              if crashed_since_compare {
                if tcode != code {
                  fail(&mut oracle, format!("[resume-differs] after crash(es) at {crash_kinds:?} and resume, update() returned code {code} but an uninterrupted twin index returned {tcode}"));
                } else if code == 0 {
                  let a = ordkit::content(index.verif_dump().expect("dump"));
                  let b = ordkit::content(t.verif_dump().expect("twin dump"));
                  if a != b {
                    fail(&mut oracle, format!("[resume-differs] after crash(es) at {crash_kinds:?} and resume the index differs from an uninterrupted twin: {}", first_difference(&a, &b)));
                  }
                }
              }
            }
            match (&r, code) {
              (Ok(()), _) => {
                if !stale_possible && check_content {
                  check_content = false;
                  let want = scratch(&w, None);
                  let got = ordkit::content(dump);
                  if got != want {
                    fail(&mut oracle, format!("[stale-or-wrong-content] update() returned Ok but the index differs from a from-scratch index of the best chain: {}", first_difference(&got, &want)));
                  }
                } else if stale_possible {
                  cats.push("trivial-node-not-ahead");
                }
              }
              (Err(_), 1) => {
                cats.push("unrecoverable");
                if !flag {
                  fail(&mut oracle, "[unflagged] update() reported an unrecoverable reorg but status().unrecoverably_reorged is false".into());
                }
              }
              (Err(e), _) => fail(&mut oracle, format!("[update-error] update() failed: {e}")),
            }
          }
        }
      }
      3 => {
        let d = c.usize();
        let n = c.usize();
        w.reorg(d, n);
        check_content = true;
        reorg_pending = true;
        cats.push(if n > d { "reorg-longer" } else { "reorg-not-longer" });
      }
      4 => {
        w.close();
        twin = None;
      }
      5 => {
        w.ci = c.u64();
        w.close();
        twin = None;
      }
      6 => {
        let j = c.u64();
        w.close();
        let exe = std::env::current_exe().unwrap();
        let (kind, n) = if j == 0 { ("block", 1) } else { ("commit", j) };
        let status = std::process::Command::new(exe)
          .arg("child")
          .arg(w.dir.path())
          .arg(w.core.url())
          .arg(w.core.cookie_file())
          .arg(kind)
          .arg(n.to_string())
          .args(w.flags())
          .stdout(std::process::Stdio::null())
          .stderr(std::process::Stdio::null())
          .status()
          .expect("spawn child");
        cats.push(if status.success() { "crash-not-reached" } else { "crashed" });
        if !status.success() {
          crashed_since_compare = true;
          crash_kinds.push(format!("{kind}:{n}"));
        }
        if prop == "C13" {
          if twin.is_none() {
            let flags = w.flags();
            let refs: Vec<&str> = flags.iter().map(|s| s.as_str()).collect();
            twin = Some(Arc::new(ordkit::open_index(&w.core, twin_dir.path(), &refs)));
          }
          let _ = twin.clone().unwrap().update();
        }
        check_content = true;
        let index = w.index();
        let dump = observe(&index, &mut obs);
        let blocks = dump.height_to_block_header.len();
        // consistent = the state of some fully indexed height of the chain the index was following
        let on_best_chain = dump
          .height_to_block_header
          .last()
          .map(|(h, header)| w.core.state().hashes.get(*h as usize) == Some(&header.block_hash()))
          .unwrap_or(true);
        if on_best_chain {
          let want = scratch(&w, Some(blocks));
          let got = ordkit::content(dump);
          if got != want {
            fail(&mut oracle, format!("[crash-inconsistent] after a crash at {kind}:{n} the reopened index ({blocks} blocks) differs from a from-scratch index of those blocks: {}", first_difference(&got, &want)));
          }
        } else {
          cats.push("crash-on-stale-branch");
        }
      }
      7 => {
        let h = c.u64();
        mockcore::VERIF_HEADERS.store(h as i64, std::sync::atomic::Ordering::SeqCst);
      }
      _ => break,
    }
  }
  cats.sort();
  cats.dedup();
  let cat = if n_updates == 0 { "trivial-no-update".to_string() } else { format!("{prop}/{}", if cats.is_empty() { "plain".to_string() } else { cats.join("+") }) };
  Outcome { obs: obs.done(), oracle, cat }
}

// ------------------------------------------------------------------ generators

fn header(rng: &mut Rng, iv: u64, mx: u64, ci: u64, mode: u64) -> L {
  L::new().p(iv).p(mx).p(ci).p(1u8).p(mode).p(rng.next() >> 16)
}

fn pick_params(rng: &mut Rng) -> (u64, u64, u64) {
  match rng.below(6) {
    0 => (10, 2, 5000), // defaults
    1 => (3, 2, 5000),
    2 => (5, 3, 4),
    3 => (4, 1, 2),
    4 => (2, 4, 1),
    _ => (rng.range(1, 7), rng.range(1, 4), rng.range(1, 9)),
  }
}

fn gen_c14(rng: &mut Rng, tier: &str) -> Vec<Line> {
  let n = if tier == "thorough" { 1200 } else { 70 };
  let mut v = Vec::new();
  // the two livelock histories of the pinned commit (DESIGN section 10) and their neighbours
  for (blocks, depth) in [(5u64, 2u64), (4, 1), (6, 3)] {
    let mut l = header(rng, 10, 2, 5000, 0);
    for _ in 0..blocks - 1 {
      l = l.p(1u8).p(1u8).p(2u8);
    }
    v.push(l.p(3u8).p(depth).p(depth + 1).p(2u8).done());
  }
  for (blocks, depth) in [(29u64, 12u64), (29, 11), (30, 12), (33, 13), (15, 3), (27, 7), (27, 12)] {
    let mut l = header(rng, 10, 2, 5000, 0);
    for _ in 0..blocks - 1 {
      l = l.p(1u8).p(1u8).p(2u8);
    }
    v.push(l.p(3u8).p(depth).p(depth + 1).p(2u8).done());
  }
  for _ in 0..n {
    let (iv, mx, ci) = pick_params(rng);
    let mode = *rng.pick(&[0u64, 0, 1]);
    let mut l = header(rng, iv, mx, ci, mode);
    let steps = rng.range(2, 7);
    let mut height = 0u64;
    for _ in 0..steps {
      // advance in one update or block by block
      let k = rng.range(1, 2 * iv + 3);
      if rng.chance(1, 2) {
        l = l.p(1u8).p(k).p(2u8);
      } else {
        for _ in 0..k {
          l = l.p(1u8).p(1u8).p(2u8);
        }
      }
      height += k;
      if rng.chance(1, 5) {
        l = l.p(4u8);
      }
      // reorg depth: mostly shallow, sometimes up to a bit beyond the recoverable bound
      let d = if rng.chance(2, 3) { rng.range(1, iv.min(height)) } else { rng.range(1, (mx * iv + iv).min(height)) };
      let d = d.min(height);
      let extra = if rng.chance(1, 8) { 0 } else { rng.range(1, 4) };
      let nn = if extra == 0 { rng.range(0, d) } else { d + extra };
      l = l.p(3u8).p(d).p(nn);
      height = height.saturating_sub(d) + nn;
      if rng.chance(1, 4) {
        // nested: reorg again before updating
        let d2 = rng.range(1, 3.min(height)).min(height);
        l = l.p(3u8).p(d2).p(d2 + 1);
        height = height.saturating_sub(d2) + d2 + 1;
      }
      l = l.p(2u8);
      if rng.chance(1, 3) {
        l = l.p(2u8);
      }
    }
    v.push(l.done());
  }
  v
}

fn gen_c12(rng: &mut Rng, tier: &str) -> Vec<Line> {
  let n = if tier == "thorough" { 1200 } else { 70 };
  let mut v = Vec::new();
  for _ in 0..n {
    let (iv, mx, _) = pick_params(rng);
    let ci = *rng.pick(&[1u64, 2, 3, 7, 5000]);
    let mode = *rng.pick(&[0u64, 1, 1]);
    let mut l = header(rng, iv, mx, ci, mode);
    if mode == 1 && rng.chance(1, 2) {
      // node far ahead of what the index has seen: no savepoints yet
      l = l.p(7u8).p(rng.range(30, 200));
    }
    let calls = rng.range(1, 8);
    for _ in 0..calls {
      l = l.p(1u8).p(rng.range(1, 9));
      if rng.chance(2, 3) {
        l = l.p(2u8);
      }
      if rng.chance(1, 4) {
        l = l.p(4u8);
      }
      if rng.chance(1, 4) {
        l = l.p(5u8).p(*rng.pick(&[1u64, 2, 3, 7, 5000]));
      }
    }
    v.push(l.p(2u8).done());
  }
  v
}

fn gen_c13(rng: &mut Rng, tier: &str) -> Vec<Line> {
  let n = if tier == "thorough" { 500 } else { 36 };
  let mut v = Vec::new();
  for _ in 0..n {
    let (iv, mx, ci) = pick_params(rng);
    let mut l = header(rng, iv, mx, ci, 0);
    let k0 = rng.range(1, 2 * iv + 2);
    l = l.p(1u8).p(k0).p(2u8);
    let with_reorg = rng.chance(1, 3);
    if with_reorg {
      let d = rng.range(1, 3.min(k0));
      l = l.p(3u8).p(d).p(d + rng.range(1, 3));
    } else {
      l = l.p(1u8).p(rng.range(1, 2 * iv + 2));
    }
    // crash after the j-th commit of the next update (0 = mid first block), then resume
    let j = rng.range(0, 14);
    l = l.p(6u8).p(j).p(2u8);
    if rng.chance(1, 2) {
      l = l.p(1u8).p(rng.range(1, 4)).p(6u8).p(rng.range(0, 6)).p(2u8);
    }
    if rng.chance(1, 2) {
      // after the crash and resume: a few more blocks, then a shallow reorg the uninterrupted run handles the same way
      l = l.p(1u8).p(rng.range(1, iv + 1)).p(2u8);
      let d = rng.range(1, iv.min(3));
      l = l.p(3u8).p(d).p(d + rng.range(1, 2)).p(2u8);
    }
    v.push(l.done());
  }
  v
}

fn child(args: &[String]) -> ! {
  // child <dir> <rpc_url> <cookie> <kind> <n> flags...
  let dir = std::path::PathBuf::from(&args[0]);
  let index = ordkit::open_index_url(&args[1], &args[2], &dir, &args[5..].to_vec());
  ord::verif::sched::arm(&args[3], args[4].parse().unwrap());
  let r = index.update();
  ord::verif::sched::disarm();
  drop(index);
  std::process::exit(if r.is_ok() { 0 } else { 0 });
}

fn main() {
  let a: Vec<String> = std::env::args().collect();
  if a.len() > 1 && a[1] == "child" {
    child(&a[2..]);
  }
  let args = parse_args();
  let prop = args.prop.clone();
  match prop.as_str() {
    "C12" => drive(&args, gen_c12, |c| guarded("C12", || run_case("C12", c))),
    "C13" => drive(&args, gen_c13, |c| guarded("C13", || run_case("C13", c))),
    "C14" => drive(&args, gen_c14, |c| guarded("C14", || run_case("C14", c))),
    p => {
      eprintln!("unknown property {p}");
      std::process::exit(2);
    }
  }
  // update() threads that never returned must not keep the process alive
  std::process::exit(0);
}
