//! Minimal arbitrary-precision naturals for the oracles (no bignum crate is available offline).
//! Little-endian base 2^32 limbs, no leading zero limbs.
use std::cmp::Ordering;

#[derive(Clone, Debug, PartialEq, Eq)]
pub struct Big(pub Vec<u32>);

impl Big {
  pub fn zero() -> Big {
    Big(Vec::new())
  }
  pub fn from_u128(mut x: u128) -> Big {
    let mut v = Vec::new();
    while x > 0 {
      v.push(x as u32);
      x >>= 32;
    }
    Big(v)
  }
  pub fn is_zero(&self) -> bool {
    self.0.is_empty()
  }
  fn trim(mut self) -> Big {
    while self.0.last() == Some(&0) {
      self.0.pop();
    }
    self
  }
  pub fn mul_small(&self, m: u32) -> Big {
    let mut out = Vec::with_capacity(self.0.len() + 1);
    let mut carry = 0u64;
    for &l in &self.0 {
      let t = u64::from(l) * u64::from(m) + carry;
      out.push(t as u32);
      carry = t >> 32;
    }
    if carry > 0 {
      out.push(carry as u32);
    }
    Big(out).trim()
  }
  pub fn add(&self, o: &Big) -> Big {
    let n = self.0.len().max(o.0.len());
    let mut out = Vec::with_capacity(n + 1);
    let mut carry = 0u64;
    for i in 0..n {
      let t = u64::from(*self.0.get(i).unwrap_or(&0)) + u64::from(*o.0.get(i).unwrap_or(&0)) + carry;
      out.push(t as u32);
      carry = t >> 32;
    }
    if carry > 0 {
      out.push(carry as u32);
    }
    Big(out).trim()
  }
  pub fn add_small(&self, a: u32) -> Big {
    self.add(&Big::from_u128(a.into()))
  }
  /// self - o, None if negative
  pub fn sub(&self, o: &Big) -> Option<Big> {
    if self.cmp(o) == Ordering::Less {
      return None;
    }
    let mut out = Vec::with_capacity(self.0.len());
    let mut borrow = 0i64;
    for i in 0..self.0.len() {
      let mut t = i64::from(self.0[i]) - i64::from(*o.0.get(i).unwrap_or(&0)) - borrow;
      if t < 0 {
        t += 1 << 32;
        borrow = 1;
      } else {
        borrow = 0;
      }
      out.push(t as u32);
    }
    Some(Big(out).trim())
  }
  pub fn mul(&self, o: &Big) -> Big {
    let mut acc = vec![0u64; self.0.len() + o.0.len() + 1];
    for (i, &a) in self.0.iter().enumerate() {
      let mut carry = 0u64;
      for (j, &b) in o.0.iter().enumerate() {
        let t = acc[i + j] + u64::from(a) * u64::from(b) + carry;
        acc[i + j] = t & 0xffff_ffff;
        carry = t >> 32;
      }
      let mut k = i + o.0.len();
      while carry > 0 {
        let t = acc[k] + carry;
        acc[k] = t & 0xffff_ffff;
        carry = t >> 32;
        k += 1;
      }
    }
    Big(acc.into_iter().map(|x| x as u32).collect()).trim()
  }
  pub fn divrem_small(&self, d: u32) -> (Big, u32) {
    let mut out = vec![0u32; self.0.len()];
    let mut rem = 0u64;
    for i in (0..self.0.len()).rev() {
      let cur = (rem << 32) | u64::from(self.0[i]);
      out[i] = (cur / u64::from(d)) as u32;
      rem = cur % u64::from(d);
    }
    (Big(out).trim(), rem as u32)
  }
  pub fn pow10(k: usize) -> Big {
    let mut b = Big::from_u128(1);
    for _ in 0..k {
      b = b.mul_small(10);
    }
    b
  }
  pub fn cmp(&self, o: &Big) -> Ordering {
    if self.0.len() != o.0.len() {
      return self.0.len().cmp(&o.0.len());
    }
    for i in (0..self.0.len()).rev() {
      if self.0[i] != o.0[i] {
        return self.0[i].cmp(&o.0[i]);
      }
    }
    Ordering::Equal
  }
  pub fn to_u128(&self) -> Option<u128> {
    if self.0.len() > 4 {
      return None;
    }
    let mut x = 0u128;
    for (i, &l) in self.0.iter().enumerate() {
      x |= u128::from(l) << (32 * i);
    }
    Some(x)
  }
  pub fn to_u64(&self) -> Option<u64> {
    self.to_u128().and_then(|x| u64::try_from(x).ok())
  }
  /// value of a string of ASCII decimal digits (any length); None if a non-digit occurs or empty
  pub fn from_decimal(s: &str) -> Option<Big> {
    if s.is_empty() {
      return None;
    }
    let mut b = Big::zero();
    for c in s.chars() {
      let d = c.to_digit(10)?;
      if !c.is_ascii_digit() {
        return None;
      }
      b = b.mul_small(10).add_small(d);
    }
    Some(b)
  }
}
