//! C34 — displayed rune amounts parse back; to_integer exact or a characterised error.
//! case: [0, amount, div, sym]   -> Pile display: 0 :: code points            (sym = 0: None)
//!       [1, div, chars..]       -> Decimal::from_str then to_integer(div):
//!                                  [0, value, scale, 0, n] | [0, value, scale, 1] | [1]
//!       [2, value, scale, div]  -> Decimal{value, scale}.to_integer(div): [0, n] | [1]
use crate::big::Big;
use hxlib::*;
use ord::decimal::Decimal;
use ordinals::Pile;
use std::cmp::Ordering;

pub fn boundary_u128(rng: &mut Rng, n_rand: usize) -> Vec<u128> {
  let mut v = vec![0u128, 1, 9, 10, 11, u128::MAX, u128::MAX - 1, u128::MAX / 10, u128::MAX / 10 + 1];
  let mut p = 1u128;
  for _ in 0..39 {
    v.extend([p.wrapping_sub(1), p, p.wrapping_add(1), p.wrapping_mul(7), p.wrapping_mul(3).wrapping_add(p / 10)]);
    p = p.saturating_mul(10);
  }
  for k in [32u32, 63, 64, 65, 96, 127] {
    let q = 1u128 << k;
    v.extend([q - 1, q, q + 1]);
  }
  for _ in 0..n_rand {
    v.push(rng.u128_any_width());
  }
  // amounts with trailing decimal zeros (the display strips them)
  for _ in 0..n_rand / 2 {
    let z = rng.below(39) as u32;
    let m = 10u128.pow(z);
    v.push((rng.u128_any_width() % (u128::MAX / m)).wrapping_mul(m));
  }
  v
}

fn digits(rng: &mut Rng, len: usize) -> String {
  (0..len).map(|_| (b'0' + rng.below(10) as u8) as char).collect()
}

/// grammar-based decimal strings (shared with C31)
pub fn decimal_strings(rng: &mut Rng, n: usize) -> Vec<String> {
  let mut v: Vec<String> = [
    "", ".", "0", "0.", ".0", "1.1", "1.10", "+1.5", "1.+5", "1.+50", "+.5", "+", "+.", "-1", "1.-5", "1..2", "1.2.3", " 1", "1 ", "1e3", "1.5e3",
    "340282366920938463463374607431768211455", "340282366920938463463374607431768211456", "340282366920938463463374607431768211455.0",
    "340282366920938463463374607431768211455.1", "34028236692093846346337460743176821145.5", "34028236692093846346337460743176821145.6",
    "0.340282366920938463463374607431768211455", "0.340282366920938463463374607431768211456", "١.٢", "1.٢", "0x10", "1_000", "1,5", "NaN", "inf",
  ]
  .iter()
  .map(|s| s.to_string())
  .collect();
  for k in [37usize, 38, 39, 40, 41, 100, 254, 255, 256, 257, 300, 400] {
    v.push(format!("0.{}1", "0".repeat(k - 1)));
    v.push(format!("1.{}", "0".repeat(k)));
    v.push(format!("0.{}", "9".repeat(k)));
    v.push(format!("{}.5", "0".repeat(k)));
    v.push(format!("0.5{}", "0".repeat(k)));
  }
  let ints = ["", "0", "1", "00", "007", "+1", "+0", "18446744073709551615", "18446744073709551616", "4294967296",
    "340282366920938463463374607431768211455", "340282366920938463463374607431768211456", "34028236692093846346337460743176821145",
    "3402823669209384634633746074317682114", "999999999999999999999999999999999999999", "+340282366920938463463374607431768211455"];
  for _ in 0..n {
    let int = match rng.below(4) {
      0 => rng.pick(&ints).to_string(),
      1 => rng.u128_any_width().to_string(),
      2 => {
        // 10^k boundary region
        let k = rng.below(40) as usize;
        let len = rng.range(1, 3) as usize;
        format!("{}{}", digits(rng, len), "0".repeat(k))
      }
      _ => {
        let len = rng.below(42) as usize;
        digits(rng, len)
      }
    };
    let frac = match rng.below(8) {
      0 => None,
      1 => Some(String::new()),
      2 => Some("0".repeat(rng.below(60) as usize)),
      3 => {
        let len = rng.below(400) as usize;
        Some(digits(rng, len))
      }
      4 => {
        let lead = rng.below(45) as usize;
        let len = rng.range(1, 6) as usize;
        let trail = rng.below(45) as usize;
        Some(format!("{}{}{}", "0".repeat(lead), digits(rng, len), "0".repeat(trail)))
      }
      _ => {
        let len = rng.below(40) as usize;
        Some(digits(rng, len))
      }
    };
    let mut s = match frac {
      None => int,
      Some(f) => format!("{int}.{f}"),
    };
    // malformed stream
    if rng.chance(1, 8) {
      let cs: Vec<char> = s.chars().collect();
      let pos = rng.below(cs.len() as u64 + 1) as usize;
      let ins = *rng.pick(&['+', '-', '.', ' ', 'e', 'a', '٣', '\u{a0}', '_', ',', '\u{0}', '１']);
      let mut t: Vec<char> = cs[..pos].to_vec();
      t.push(ins);
      t.extend_from_slice(&cs[pos..]);
      s = t.into_iter().collect();
    }
    v.push(s);
  }
  v
}

pub fn gen(rng: &mut Rng, tier: &str) -> Vec<Line> {
  let n_rand: usize = if tier == "thorough" { 40_000 } else { 1_000 };
  let mut v = Vec::new();
  // amounts x every divisibility 0..=38
  let amounts = boundary_u128(rng, n_rand);
  for &a in &amounts {
    for d in 0..=38u8 {
      let sym: u32 = match rng.below(4) {
        0 => 0,
        1 => '$' as u32,
        2 => '¤' as u32,
        _ => '\u{1F9FF}' as u32,
      };
      v.push(L::new().p(0u8).p(a).p(d).p(sym).done());
    }
  }
  // decimal strings x divisibility
  for s in decimal_strings(rng, n_rand * 30) {
    let d: u8 = match rng.below(6) {
      0 => 0,
      1 => 38,
      2 => rng.below(256) as u8,
      _ => rng.below(39) as u8,
    };
    let mut l = L::new().p(1u8).p(d);
    for c in s.chars() {
      l.push(c as u32);
    }
    v.push(l.done());
  }
  // to_integer directly
  for i in 0..n_rand * 10 {
    let value = amounts[i % amounts.len()];
    let scale = if rng.chance(1, 5) { rng.below(256) as u8 } else { rng.below(40) as u8 };
    let d = if rng.chance(1, 5) { rng.below(256) as u8 } else { rng.below(40) as u8 };
    v.push(L::new().p(2u8).p(value).p(scale).p(d).done());
  }
  v
}

/// independent reading of a decimal string: Some((numerator, fractional digit count)) with
/// value = numerator / 10^digits, for strings of the form [+]digits? [. digits?] (not both empty)
pub fn decimal_denotation(s: &str) -> Option<(Big, usize)> {
  let (i, f) = match s.split_once('.') {
    Some((i, f)) => (i, Some(f)),
    None => (s, None),
  };
  let ival = if i.is_empty() {
    if f.map_or(true, |f| f.is_empty()) {
      return None;
    }
    Big::zero()
  } else {
    Big::from_decimal(i.strip_prefix('+').unwrap_or(i))?
  };
  let f = f.unwrap_or("");
  let fval = if f.is_empty() { Big::zero() } else { Big::from_decimal(f)? };
  Some((ival.mul(&Big::pow10(f.len())).add(&fval), f.len()))
}

fn check_to_integer(value: u128, scale: u8, d: u8, r: &Result<u128, ()>) -> Result<(), String> {
  // exact value * 10^d / 10^scale
  let num = Big::from_u128(value).mul(&Big::pow10(d.into()));
  match r {
    Ok(x) => {
      if Big::from_u128(*x).mul(&Big::pow10(scale.into())).cmp(&num) != Ordering::Equal {
        return Err(format!("to_integer({value}e-{scale}, {d}) = {x} is not the denoted number of base units"));
      }
    }
    Err(()) => {
      if d >= scale {
        // error must be an overflow: value * 10^(d-scale) does not fit (or the power itself)
        let exact = Big::from_u128(value).mul(&Big::pow10(usize::from(d - scale)));
        let pow_fits = Big::pow10(usize::from(d - scale)).to_u128().is_some();
        if exact.to_u128().is_some() && pow_fits {
          return Err(format!("to_integer({value}e-{scale}, {d}) failed although {value}*10^{} fits", d - scale));
        }
      }
    }
  }
  Ok(())
}

pub fn run(case: &Line) -> Outcome {
  let mut c = Cur::new(case);
  match c.u8() {
    0 => {
      let amount = c.u128();
      let d = c.u8();
      let sym = c.u32();
      guarded("pile", || {
        let symbol = if sym == 0 { None } else { Some(char::from_u32(sym).unwrap()) };
        let s = Pile { amount, divisibility: d, symbol }.to_string();
        let mut obs = L::new().p(0u8);
        for ch in s.chars() {
          obs.push(ch as u32);
        }
        let suffix = format!("\u{A0}{}", symbol.unwrap_or('¤'));
        let mut oracle = Ok(());
        match s.strip_suffix(&suffix) {
          None => oracle = Err(format!("Pile({amount},{d}) prints {s:?} without the symbol suffix")),
          Some(num) => {
            match num.parse::<Decimal>().map(|dec| dec.to_integer(d)) {
              Ok(Ok(x)) if x == amount => {}
              other => oracle = Err(format!("Pile({amount},{d}) prints {num:?} which parses back to {other:?}")),
            }
            match decimal_denotation(num) {
              Some((n, k)) if n.mul(&Big::pow10(d.into())).cmp(&Big::from_u128(amount).mul(&Big::pow10(k))) == Ordering::Equal => {}
              other => oracle = Err(format!("Pile({amount},{d}) prints {num:?} which denotes {other:?}")),
            }
          }
        }
        let cat = format!("pile/{}", if s.contains('.') { "fraction" } else { "whole" });
        Outcome { obs: obs.done(), oracle, cat }
      })
    }
    1 => {
      let d = c.u8();
      let mut s = String::new();
      while !c.at_end() {
        s.push(char::from_u32(c.u32()).unwrap_or('\u{fffd}'));
      }
      guarded("decimal", || {
        let r = s.parse::<Decimal>();
        let den = decimal_denotation(&s);
        match r {
          Err(_) => Outcome {
            obs: L::new().p(1u8).done(),
            oracle: Ok(()),
            cat: format!("decimal/err/{}", if den.is_some() { "well-formed" } else { "malformed" }),
          },
          Ok(dec) => {
            let mut oracle = Ok(());
            match &den {
              None => oracle = Err(format!("{s:?} is not a decimal number but parses to {dec:?}")),
              Some((n, k)) => {
                // value / 10^scale == n / 10^k
                if Big::from_u128(dec.value).mul(&Big::pow10(*k)).cmp(&n.mul(&Big::pow10(dec.scale.into()))) != Ordering::Equal {
                  oracle = Err(format!("{s:?} parses to {dec:?} which is a different number"));
                }
              }
            }
            let t = dec.to_integer(d).map_err(|_| ());
            if oracle.is_ok() {
              oracle = check_to_integer(dec.value, dec.scale, d, &t);
            }
            let (obs, cat) = match t {
              Ok(x) => (L::new().p(0u8).p(dec.value).p(dec.scale).p(0u8).p(x).done(), "decimal/ok/integer"),
              Err(()) => (
                L::new().p(0u8).p(dec.value).p(dec.scale).p(1u8).done(),
                if d < dec.scale { "decimal/ok/excess-precision" } else { "decimal/ok/overflow" },
              ),
            };
            Outcome { obs, oracle, cat: cat.to_string() }
          }
        }
      })
    }
    _ => {
      let value = c.u128();
      let scale = c.u8();
      let d = c.u8();
      guarded("to_integer", || {
        let t = Decimal { value, scale }.to_integer(d).map_err(|_| ());
        let oracle = check_to_integer(value, scale, d, &t);
        let (obs, cat) = match t {
          Ok(x) => (L::new().p(0u8).p(x).done(), "to_integer/ok"),
          Err(()) => (L::new().p(1u8).done(), if d < scale { "to_integer/excess-precision" } else { "to_integer/overflow" }),
        };
        Outcome { obs, oracle, cat: cat.to_string() }
      })
    }
  }
}
