//! C33 — rune-name unlock schedule monotone and consistent with unlock_height.
//! case: [0, net, h] -> obs = [minimum_at_height(net, Height(h))]
//!       [1, net, r] -> obs = [0] (None) | [1, height]
//! net: 0 Bitcoin, 1 Testnet, 2 Signet, 3 Regtest, 4 Testnet4
use crate::c32::{first_with_letters, try_impl};
use bitcoin::Network;
use hxlib::*;
use ordinals::{Height, Rune};

pub fn network(i: u8) -> Network {
  match i {
    0 => Network::Bitcoin,
    1 => Network::Testnet,
    2 => Network::Signet,
    3 => Network::Regtest,
    _ => Network::Testnet4,
  }
}

const HALVING: u32 = 210_000;
const INTERVAL: u32 = HALVING / 12;

fn min_at(net: u8, h: u32) -> u128 {
  Rune::minimum_at_height(network(net), Height(h)).0
}

pub fn gen(rng: &mut Rng, tier: &str) -> Vec<Line> {
  let thorough = tier == "thorough";
  let mut v = Vec::new();
  for net in 0..5u8 {
    // generators must survive a panicking implementation: fall back to the documented activation heights
    let start = try_impl(|| Rune::first_rune_height(network(net))).unwrap_or([840_000, 2_520_000, 0, 0, 0][usize::from(net)]);
    let mut hs: Vec<u32> = vec![0, 1, 2, u32::MAX, u32::MAX - 1, u32::MAX - 2];
    for k in 0..=12u32 {
      let b = start + k * INTERVAL;
      for d in 0..=4u32 {
        hs.push((b + d).saturating_sub(3));
      }
    }
    let stride: u32 = if thorough { 1 } else if net == 0 || net == 3 { 17 } else { 211 };
    let phase = rng.below(stride.into()) as u32;
    let mut o = phase;
    while o <= HALVING {
      hs.push((start + o).saturating_sub(1));
      o += stride;
    }
    for _ in 0..200 {
      hs.push(rng.next() as u32);
      hs.push(start.saturating_sub(rng.below(1000) as u32));
      hs.push(start + HALVING + rng.below(1000) as u32);
    }
    for (j, &h) in hs.iter().enumerate() {
      v.push(L::new().p(0u8).p(net).p(h).done());
      // names at the minimum of this height and its neighbours
      if thorough || j % 3 == 0 || j < 80 {
        // names at the implementation's own minimum (skipped if it panics; `run` reports that)
        if let Some(m) = try_impl(|| min_at(net, h)) {
          for r in [m, m.wrapping_sub(1), m.wrapping_add(1)] {
            v.push(L::new().p(1u8).p(net).p(r).done());
          }
        }
      }
    }
    // names: table boundaries, reserved boundary, random of every width
    let mut rs: Vec<u128> = vec![0, 1, u128::MAX, Rune::RESERVED, Rune::RESERVED - 1, Rune::RESERVED + 1];
    for k in 1..=28 {
      if let Some(f) = first_with_letters(k) {
        rs.extend([f, f.wrapping_sub(1), f + 1]);
      }
    }
    for _ in 0..(if thorough { 200_000 } else { 3_000 }) {
      rs.push(rng.u128_any_width());
      // 1..12 letter names are where the interpolation lives
      let k = rng.range(1, 13) as u32;
      let lo = first_with_letters(k).unwrap();
      let hi = first_with_letters(k + 1).unwrap();
      rs.push(lo + rng.u128() % (hi - lo));
    }
    for r in rs {
      v.push(L::new().p(1u8).p(net).p(r).done());
    }
  }
  v
}

pub fn run(case: &Line) -> Outcome {
  let mut c = Cur::new(case);
  let op = c.u8();
  let net = c.u8();
  match op {
    0 => {
      let h = c.u32();
      guarded("minimum", || {
        let start = Rune::first_rune_height(network(net));
        let m = min_at(net, h);
        let mut oracle = Ok(());
        // monotone against the neighbours
        if h < u32::MAX && min_at(net, h + 1) > m {
          oracle = Err(format!("net {net}: minimum increases from height {h} to {}", h + 1));
        }
        if h > 0 && min_at(net, h - 1) < m {
          oracle = Err(format!("net {net}: minimum increases from height {} to {h}", h - 1));
        }
        // 13-letter names always etchable
        if m > first_with_letters(13).unwrap() {
          oracle = Err(format!("net {net}: minimum at {h} is above the first 13-letter name"));
        }
        // schedule complete
        if u64::from(h) + 1 >= u64::from(start) + u64::from(HALVING) && m != 0 {
          oracle = Err(format!("net {net}: minimum at {h} is {m} after the schedule completed"));
        }
        let zone = if u64::from(h) + 1 < u64::from(start) {
          "before".to_string()
        } else if u64::from(h) + 1 >= u64::from(start) + u64::from(HALVING) {
          "after".to_string()
        } else {
          format!("interval{}", (h + 1 - start) / INTERVAL)
        };
        Outcome { obs: L::new().p(m).done(), oracle, cat: format!("minimum/net{net}/{zone}") }
      })
    }
    _ => {
      let r = c.u128();
      guarded("unlock", || {
        let start = Rune::first_rune_height(network(net));
        let u = Rune(r).unlock_height(network(net));
        let mut oracle = Ok(());
        let (obs, cat) = match u {
          None => {
            if r < first_with_letters(27).unwrap() {
              oracle = Err(format!("net {net}: non-reserved name {r} has no unlock height"));
            }
            (L::new().p(0u8).done(), "unlock/reserved".to_string())
          }
          Some(Height(u)) => {
            if r >= first_with_letters(27).unwrap() {
              oracle = Err(format!("net {net}: reserved name {r} has unlock height {u}"));
            }
            if min_at(net, u) > r {
              oracle = Err(format!("net {net}: name {r} reported unlocked at {u} but minimum there is {}", min_at(net, u)));
            }
            if u > 0 && min_at(net, u - 1) <= r {
              oracle = Err(format!("net {net}: name {r} reported unlocked at {u} but already etchable at {}", u - 1));
            }
            let zone = if u == 0 { "zero".to_string() } else { format!("interval{}", u.saturating_sub(start) / INTERVAL) };
            (L::new().p(1u8).p(u).done(), format!("unlock/net{net}/{zone}"))
          }
        };
        Outcome { obs, oracle, cat }
      })
    }
  }
}
