//! C32 — rune names <-> integers; print/parse consistent.
//! case: [0, n]          -> obs = code points of Rune(n).to_string()
//!       [1, chars..]    -> Rune::from_str: [0, n] | [1] (any error)
//!       [2, n, spacers] -> code points of SpacedRune{rune, spacers}.to_string()
//!       [3, chars..]    -> SpacedRune::from_str: [0, n, spacers] | [1]
//!       [4, n]          -> commitment bytes
//!       [5, n]          -> [is_reserved]
use crate::big::Big;
use hxlib::*;
use ordinals::{Rune, SpacedRune};
use std::cmp::Ordering;

/// first name with k letters: 26^0 + .. + 26^(k-1) - 1 (None once it exceeds u128)
pub fn first_with_letters(k: u32) -> Option<u128> {
  let mut t: u128 = 0;
  for _ in 0..k {
    t = t.checked_mul(26)?.checked_add(1)?;
  }
  Some(t - 1)
}

/// Run implementation code from a GENERATOR: a panic there must not kill the harness (the case
/// that exposes it is found by `run`, inside `guarded`); the caller falls back or skips.
pub fn try_impl<T>(f: impl FnOnce() -> T) -> Option<T> {
  std::panic::catch_unwind(std::panic::AssertUnwindSafe(f)).ok()
}

/// the name of rune n in modified base-26, computed independently of the implementation
/// (generators build their inputs with this, never with Rune's Display)
pub fn name_of(n: u128) -> String {
  // digits of n + 1 in bijective base 26, using (n / 26, n % 26) to stay inside u128 for n = MAX
  let mut letters = Vec::new();
  let mut q = n; // invariant: remaining value is q + 1
  loop {
    letters.push((b'A' + (q % 26) as u8) as char);
    q /= 26;
    if q == 0 {
      break;
    }
    q -= 1;
  }
  letters.iter().rev().collect()
}

/// successor of a name in name order (A..Z, AA..): the name of the next integer, with no bound
pub fn name_succ(name: &mut Vec<u8>) {
  for i in (0..name.len()).rev() {
    if name[i] == b'Z' {
      name[i] = b'A';
    } else {
      name[i] += 1;
      return;
    }
  }
  name.insert(0, b'A');
}

/// printed form of a spaced rune, computed independently of the implementation
pub fn spaced_name_of(n: u128, spacers: u32) -> String {
  let name: Vec<char> = name_of(n).chars().collect();
  let mut s = String::new();
  for (i, c) in name.iter().enumerate() {
    s.push(*c);
    if i + 1 < name.len() && i < 32 && spacers & (1u32 << i) != 0 {
      s.push('•');
    }
  }
  s
}

fn chars_line(op: u8, s: &str) -> Line {
  let mut l = L::new().p(op);
  for c in s.chars() {
    l.push(c as u32);
  }
  l.done()
}

fn line_string(c: &mut Cur) -> String {
  let mut s = String::new();
  while !c.at_end() {
    s.push(char::from_u32(c.u32()).unwrap_or('\u{fffd}'));
  }
  s
}

pub fn interesting_runes(rng: &mut Rng, n_rand: usize) -> Vec<u128> {
  let mut v = vec![0u128, 1, 25, 26, 27, u128::MAX, u128::MAX - 1, u128::MAX - 2, Rune::RESERVED, Rune::RESERVED - 1, Rune::RESERVED + 1];
  for k in 1..=28 {
    if let Some(f) = first_with_letters(k) {
      v.push(f);
      v.push(f.wrapping_sub(1));
      v.push(f.wrapping_add(1));
    }
  }
  for k in 0..128 {
    let p = 1u128 << k;
    v.extend([p - 1, p, p + 1]);
  }
  for _ in 0..n_rand {
    v.push(rng.u128_any_width());
  }
  for _ in 0..n_rand / 4 {
    v.push(rng.u128());
  }
  v
}

pub fn random_name(rng: &mut Rng, len: usize) -> String {
  let style = rng.below(4);
  (0..len)
    .map(|i| match style {
      0 => 'A',
      1 => 'Z',
      2 if i == 0 => *rng.pick(&['A', 'B', 'C', 'Y', 'Z']),
      _ => (b'A' + rng.below(26) as u8) as char,
    })
    .collect()
}

pub fn gen(rng: &mut Rng, tier: &str) -> Vec<Line> {
  let n_rand: usize = if tier == "thorough" { 1_000_000 } else { 12_000 };
  let mut v = Vec::new();
  let runes = interesting_runes(rng, n_rand);
  for &n in &runes {
    v.push(L::new().p(0u8).p(n).done());
    v.push(L::new().p(4u8).p(n).done());
    v.push(L::new().p(5u8).p(n).done());
  }
  // spaced display: rune x masks (all 32 bits, low bits, single bits)
  for (i, &n) in runes.iter().enumerate() {
    let masks = [rng.next() as u32, (rng.next() as u32) & 0x0fff_ffff, 1u32 << rng.below(32), u32::MAX, 0, (rng.next() & rng.next()) as u32];
    let k = if i < 600 { masks.len() } else { 2 };
    for &m in &masks[..k] {
      v.push(L::new().p(2u8).p(n).p(m).done());
    }
  }
  // parse: printed names (round trip from the other side), names of 1..=30 letters around the
  // u128 boundary, names with a non-letter somewhere, the empty string
  v.push(chars_line(1, ""));
  v.push(chars_line(3, ""));
  for &n in runes.iter().take(2000) {
    v.push(chars_line(1, &name_of(n)));
  }
  v.push(chars_line(1, "BCGDENLQRQWDSLRUGSNLBTMFIJAV"));
  v.push(chars_line(1, "BCGDENLQRQWDSLRUGSNLBTMFIJAW"));
  v.push(chars_line(1, "BCGDENLQRQWDSLRUGSNLBTMFIJAU"));
  // the overflow frontier of the parser, taken systematically: the 1500 names that follow
  // u128::MAX in name order (the first ones are out of range by 1, 2, ...), and for every split
  // point the names whose prefix value sits at floor(MAX / 26^l) + d (l trailing letters, d around 0):
  // these are the inputs on which each checked step of from_str is the first one to overflow
  // (found missing by seeded change r4-C32-1: an off-by-one bound on the 27-letter prefix)
  {
    let mut name: Vec<u8> = name_of(u128::MAX).into_bytes();
    for k in 0..1500 {
      name_succ(&mut name);
      let s = String::from_utf8(name.clone()).unwrap();
      v.push(chars_line(1, &s));
      if k < 200 {
        let mut t: Vec<char> = s.chars().collect();
        t.insert(1 + rng.below(t.len() as u64 - 1) as usize, if k % 2 == 0 { '.' } else { '•' });
        v.push(chars_line(3, &t.iter().collect::<String>()));
      }
    }
    let mut q = u128::MAX;
    for l in 1..=27usize {
      q /= 26;
      for d in -3i32..=3 {
        let Some(pv) = (if d < 0 { q.checked_sub((-d) as u128) } else { q.checked_add(d as u128) }) else { continue };
        let prefix = name_of(pv);
        let suffixes: Vec<String> = if l == 1 {
          (0..26u8).map(|c| ((b'A' + c) as char).to_string()).collect()
        } else {
          let mut w = vec!["A".repeat(l), "Z".repeat(l), format!("{}A", "Z".repeat(l - 1)), format!("{}Z", "A".repeat(l - 1))];
          for _ in 0..4 {
            w.push(random_name(rng, l));
          }
          w
        };
        for suf in suffixes {
          v.push(chars_line(1, &format!("{prefix}{suf}")));
        }
      }
    }
  }
  for len in 1..=30usize {
    for _ in 0..(n_rand / 60).max(20) {
      v.push(chars_line(1, &random_name(rng, len)));
    }
  }
  for _ in 0..n_rand / 4 {
    let len = rng.range(1, 30) as usize;
    let mut s: Vec<char> = random_name(rng, len).chars().collect();
    let pos = rng.below(len as u64) as usize;
    s[pos] = *rng.pick(&['a', '@', '[', '.', '•', ' ', '0', 'É', '\u{0}', '\u{10ffff}', 'z', '`']);
    v.push(chars_line(1, &s.iter().collect::<String>()));
  }
  // spaced parse: printed forms with either spacer character, then mutations
  for i in 0..n_rand {
    let n = runes[rng.below(runes.len() as u64) as usize];
    let sp = match i % 3 {
      0 => rng.next() as u32,
      1 => (rng.next() & rng.next()) as u32,
      _ => 1u32 << rng.below(28),
    };
    let printed = spaced_name_of(n, sp);
    let mut s: String = printed.chars().map(|c| if c == '•' && rng.chance(1, 2) { '.' } else { c }).collect();
    match rng.below(10) {
      0 => s.insert(0, '.'),
      1 => s.push('•'),
      2 => {
        let cs: Vec<char> = s.chars().collect();
        let pos = rng.below(cs.len() as u64 + 1) as usize;
        let mut t: Vec<char> = cs[..pos].to_vec();
        t.push(*rng.pick(&['.', '•', 'a', ' ', 'A', 'Z']));
        t.extend_from_slice(&cs[pos..]);
        s = t.into_iter().collect();
      }
      _ => {}
    }
    v.push(chars_line(3, &s));
  }
  // names of 1..=30 letters with spacers everywhere
  for _ in 0..n_rand / 2 {
    let len = rng.range(1, 30) as usize;
    let name = random_name(rng, len);
    let mut s = String::new();
    let dense = rng.chance(1, 3);
    for c in name.chars() {
      s.push(c);
      if rng.chance(if dense { 9 } else { 2 }, 10) {
        s.push(if rng.chance(1, 2) { '.' } else { '•' });
      }
    }
    if rng.chance(2, 3) {
      while s.ends_with('.') || s.ends_with('•') {
        s.pop();
      }
    }
    v.push(chars_line(3, &s));
  }
  v
}

/// independent reading of a rune name: Some(Ok(n)) value, Some(Err) out of range, None = not a name
pub fn name_value(s: &str) -> Option<Result<u128, ()>> {
  if s.is_empty() || !s.chars().all(|c| c.is_ascii_uppercase()) {
    return None;
  }
  // bijective base 26: sum (d_i + 1) * 26^(k-i), minus one
  let mut v = Big::zero();
  for c in s.chars() {
    v = v.mul_small(26).add_small(c as u32 - 'A' as u32 + 1);
  }
  let v = v.sub(&Big::from_u128(1)).unwrap();
  Some(match v.to_u128() {
    Some(x) => Ok(x),
    None => Err(()),
  })
}

/// independent reading of a spaced rune: letters and spacer positions.
/// Some(Ok((n, spacers))) | Some(Err) must be rejected | None = judged elsewhere (empty string)
pub fn spaced_value(s: &str) -> Option<Result<(u128, u32), ()>> {
  if s.is_empty() {
    return None;
  }
  let mut letters = String::new();
  let mut spacers: u64 = 0;
  let mut prev_spacer = false;
  for c in s.chars() {
    match c {
      'A'..='Z' => {
        letters.push(c);
        prev_spacer = false;
      }
      '.' | '•' => {
        if letters.is_empty() || prev_spacer {
          return Some(Err(()));
        }
        if letters.len() <= 40 {
          spacers |= 1u64 << (letters.len() - 1);
        }
        prev_spacer = true;
      }
      _ => return Some(Err(())),
    }
  }
  if prev_spacer {
    return Some(Err(()));
  }
  match name_value(&letters) {
    Some(Ok(n)) => Some(Ok((n, u32::try_from(spacers).expect("a name within u128 has at most 28 letters")))),
    _ => Some(Err(())),
  }
}

pub fn run(case: &Line) -> Outcome {
  let mut c = Cur::new(case);
  match c.u8() {
    0 => {
      let n = c.u128();
      guarded("show", || {
        let s = Rune(n).to_string();
        let mut oracle = Ok(());
        match name_value(&s) {
          Some(Ok(m)) if m == n => {}
          other => oracle = Err(format!("Rune({n}) prints as {s:?} which denotes {other:?}")),
        }
        match s.parse::<Rune>() {
          Ok(r) if r == Rune(n) => {}
          other => oracle = Err(format!("Rune({n}) prints as {s:?} which parses to {other:?}")),
        }
        let cat = format!("show/len{}", s.chars().count());
        Outcome { obs: chars_line(0, &s)[1..].to_vec(), oracle, cat }
      })
    }
    1 => {
      let s = line_string(&mut c);
      guarded("parse", || {
        let r = s.parse::<Rune>();
        let expect = name_value(&s);
        let (obs, cat) = match &r {
          Ok(r) => (L::new().p(0u8).p(r.0).done(), "parse/ok".to_string()),
          // rune::Error is not nameable from outside the crate; the label is only a category
          Err(e) if format!("{e:?}") == "Range" => (L::new().p(1u8).done(), "parse/err-range".to_string()),
          Err(_) => (L::new().p(1u8).done(), "parse/err-char".to_string()),
        };
        let oracle = match (&r, expect) {
          (Ok(r), Some(Ok(n))) if r.0 == n => {
            // and printing gives the string back (one-to-one)
            if r.to_string() == s { Ok(()) } else { Err(format!("{s:?} parses to {} which prints as {:?}", r.0, r.to_string())) }
          }
          (Err(_), Some(Err(()))) | (Err(_), None) if !s.is_empty() => Ok(()),
          _ if s.is_empty() && r.is_err() => Ok(()), // the empty string is not a name and must be rejected
          (got, exp) => Err(format!("{s:?} parses to {got:?}, denotes {exp:?}")),
        };
        let cat = if s.is_empty() { "trivial/parse-empty".to_string() } else { cat };
        Outcome { obs, oracle, cat }
      })
    }
    2 => {
      let n = c.u128();
      let sp = c.u32();
      guarded("spaced-show", || {
        let s = SpacedRune::new(Rune(n), sp).to_string();
        let len = Rune(n).to_string().chars().count() as u32;
        let kept = if len - 1 >= 32 { sp } else { sp & ((1u32 << (len - 1)) - 1) };
        let mut oracle = Ok(());
        match spaced_value(&s) {
          Some(Ok((m, k))) if m == n && k == kept => {}
          other => oracle = Err(format!("SpacedRune({n},{sp:#x}) prints as {s:?} which denotes {other:?}, expected spacers {kept:#x}")),
        }
        match s.parse::<SpacedRune>() {
          Ok(r) if r.rune == Rune(n) && r.spacers == kept => {}
          other => oracle = Err(format!("SpacedRune({n},{sp:#x}) prints as {s:?} which parses to {other:?}")),
        }
        let cat = format!("spaced-show/{}", if kept == sp { "all-kept" } else if kept == 0 { "all-dropped" } else { "some-dropped" });
        Outcome { obs: chars_line(0, &s)[1..].to_vec(), oracle, cat }
      })
    }
    3 => {
      let s = line_string(&mut c);
      guarded("spaced-parse", || {
        let r = s.parse::<SpacedRune>();
        let expect = spaced_value(&s);
        let (obs, cat) = match &r {
          Ok(r) => (L::new().p(0u8).p(r.rune.0).p(r.spacers).done(), format!("spaced-parse/ok/{}", if r.spacers == 0 { "plain" } else { "spacers" })),
          Err(e) => {
            use ordinals::spaced_rune::Error as E;
            let k = match e {
              E::LeadingSpacer => "leading",
              E::TrailingSpacer => "trailing",
              E::DoubleSpacer => "double",
              E::Character(_) => "character",
              E::Rune(_) => "rune",
            };
            (L::new().p(1u8).done(), format!("spaced-parse/err-{k}"))
          }
        };
        let oracle = match (&r, expect) {
          _ if s.is_empty() => Ok(()),
          (Ok(r), Some(Ok((n, sp)))) if r.rune.0 == n && r.spacers == sp => Ok(()),
          (Err(_), Some(Err(()))) => Ok(()),
          (got, exp) => Err(format!("{s:?} parses to {got:?}, denotes {exp:?}")),
        };
        let cat = if s.is_empty() { "trivial/spaced-empty".to_string() } else { cat };
        Outcome { obs, oracle, cat }
      })
    }
    4 => {
      let n = c.u128();
      guarded("commitment", || {
        let b = Rune(n).commitment();
        let mut oracle = Ok(());
        let mut back = Big::zero();
        for &x in b.iter().rev() {
          back = back.mul_small(256).add_small(x.into());
        }
        if back.cmp(&Big::from_u128(n)) != Ordering::Equal || b.len() > 16 || b.last() == Some(&0) {
          oracle = Err(format!("commitment({n}) = {b:?}"));
        }
        let mut obs = L::new();
        obs.raw(&b);
        Outcome { obs: obs.done(), oracle, cat: format!("commitment/len{}", b.len()) }
      })
    }
    _ => {
      let n = c.u128();
      guarded("reserved", || {
        let r = Rune(n).is_reserved();
        let letters = Rune(n).to_string().chars().count();
        let first27 = first_with_letters(27).unwrap();
        let oracle = if r == (letters >= 27) && r == (n >= first27) && Rune::RESERVED == first27 {
          Ok(())
        } else {
          Err(format!("Rune({n}) has {letters} letters, is_reserved = {r}"))
        };
        Outcome { obs: L::new().p(r).done(), oracle, cat: format!("reserved/{r}") }
      })
    }
  }
}
