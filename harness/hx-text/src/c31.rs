//! C31 — text parsers are total and never accept by overflow.
//! case: [0, fk, fn, chars..] -> Sat::from_str        [0, n] | [1] | [-2]
//!         (fk, fn): classification of Rust's own f64 parse of the text before a final '%'
//!         and of (x / 100.0 * LAST).round() (trusted f64 semantics): 0 parse error / not a
//!         percentile, 1 NaN, 2 +-inf, 3 finite negative, 4 finite non-negative with fn = n
//!       [1, chars..] -> Rune::from_str        [0, n] | [1]
//!       [2, chars..] -> SpacedRune::from_str  [0, n, spacers] | [1]
//!       [3, chars..] -> RuneId::from_str      [0, block, tx] | [1]
//!       [4, chars..] -> Decimal::from_str     [0, value, scale] | [1]
//!       [5, chars..] -> InscriptionId::from_str [0, txid_hi, txid_lo, index] | [1]
//!       [6, chars..] -> SatPoint::from_str    [0, txid_hi, txid_lo, vout, offset] | [1]
//!       [7, chars..] -> Outgoing::from_str    [0, 0, sat] | [0, 1, txid_hi, txid_lo, vout, offset] | [0, 2, txid_hi, txid_lo, index]
//!                                             | [0, 3, value, scale, rune, spacers] | [4] (dispatched to bitcoin::Amount, Ok or Err) | [1]
//!       [8, chars..] -> query::Block          [0, 0, height] | [0, 1, hash_hi, hash_lo] | [1]
//!       [9, chars..] -> query::Inscription    [0, 0, txid_hi, txid_lo, index] | [0, 1, number] | [0, 2, sat] | [1]
//!       [10, chars..] -> query::Rune          [0, 0, rune, spacers] | [0, 1, block, tx] | [0, 2, number] | [1]
use crate::big::Big;
use crate::{c32, c34};
use hxlib::*;
use ord::decimal::Decimal;
use ord::outgoing::Outgoing;
use ord::subcommand::server::query::verif_text::{parse_block, parse_inscription, parse_rune, BlockQuery, InscriptionQuery, RuneQuery};
use ord::InscriptionId;
use ordinals::{Rune, RuneId, Sat, SatPoint, SpacedRune};
use std::cmp::Ordering;

const SUPPLY: u64 = 2_099_999_997_690_000;
const HALVING: u64 = 210_000;

fn str_line(head: &[Z], s: &str) -> Line {
  let mut l: Line = head.to_vec();
  for c in s.chars() {
    l.push((c as u32).into());
  }
  l
}

fn rest_string(c: &mut Cur) -> String {
  let mut s = String::new();
  while !c.at_end() {
    s.push(char::from_u32(c.u32()).unwrap_or('\u{fffd}'));
  }
  s
}

/// trusted f64 classification for the percentile notation
fn fclass(s: &str) -> (u8, u128) {
  let Some(prefix) = s.strip_suffix('%') else { return (0, 0) };
  match prefix.parse::<f64>() {
    Err(_) => (0, 0),
    Ok(x) if x.is_nan() => (1, 0),
    Ok(x) if x.is_infinite() => (2, 0),
    Ok(x) if x < 0.0 => (3, 0),
    Ok(x) => {
      let last = (SUPPLY - 1) as f64;
      let n = (x / 100.0 * last).round();
      if n.is_infinite() {
        (2, 0)
      } else {
        // n is a non-negative integer-valued f64 (or -0.0)
        (4, n as u128)
      }
    }
  }
}

fn sat_case(s: &str) -> Line {
  let (k, n) = fclass(s);
  str_line(&[0u8.into(), k.into(), n.into()], s)
}

// ------------------------------------------------------------------ generators
fn digits(rng: &mut Rng, len: usize) -> String {
  (0..len).map(|_| (b'0' + rng.below(10) as u8) as char).collect()
}

/// unsigned integer literals with values around the interesting boundaries
fn int_lit(rng: &mut Rng, around: &[u128]) -> String {
  let base = *rng.pick(around);
  let v = match rng.below(6) {
    0 => base,
    1 => base.wrapping_sub(1),
    2 => base.wrapping_add(1),
    3 => base.wrapping_add(rng.below(1000).into()),
    4 => base.wrapping_sub(rng.below(1000).into()),
    _ => rng.u128_any_width(),
  };
  let mut s = v.to_string();
  match rng.below(12) {
    0 => s.insert(0, '+'),
    1 => s.insert(0, '0'),
    2 => s.insert_str(0, "000"),
    3 => s = format!("{s}{}", digits(rng, 20)), // beyond u128
    4 => s.insert(0, '-'),
    _ => {}
  }
  s
}

const B32: u128 = 1 << 32;
const B64: u128 = 1 << 64;

fn mutate(rng: &mut Rng, s: &str) -> String {
  let cs: Vec<char> = s.chars().collect();
  let pos = rng.below(cs.len() as u64 + 1) as usize;
  let pool = ['+', '-', '.', ':', ' ', 'e', 'a', 'Z', '°', '′', '″', '‴', '%', '•', 'i', '٣', '\u{a0}', '\u{0}', '１', 'É', '\u{10ffff}'];
  let mut t: Vec<char> = cs[..pos].to_vec();
  match rng.below(3) {
    0 => {
      t.push(*rng.pick(&pool));
      t.extend_from_slice(&cs[pos..]);
    }
    1 if pos < cs.len() => {
      t.push(*rng.pick(&pool));
      t.extend_from_slice(&cs[pos + 1..]);
    }
    _ if pos < cs.len() => t.extend_from_slice(&cs[pos + 1..]),
    _ => {}
  }
  t.into_iter().collect()
}

fn random_unicode(rng: &mut Rng) -> String {
  let len = rng.below(24) as usize;
  let pool: Vec<char> = "0123456789abcxyzABCXYZ.:+-%°′″‴• i\u{a0}".chars().collect();
  (0..len)
    .map(|_| {
      if rng.chance(4, 5) {
        *rng.pick(&pool)
      } else {
        loop {
          if let Some(c) = char::from_u32(rng.below(0x11_0000) as u32) {
            break c;
          }
        }
      }
    })
    .collect()
}

fn interesting_sats(rng: &mut Rng, n: usize) -> Vec<u64> {
  let mut v = vec![0u64, 1, SUPPLY - 1, SUPPLY - 2, 50 * 100_000_000 - 1, 50 * 100_000_000];
  let mut start = 0u64;
  for e in 0..33u32 {
    let sub = (50u64 * 100_000_000) >> e;
    v.extend([start, start + 1, start.saturating_sub(1), start + sub, start + sub - 1, start + 2016 * sub, start + 2016 * sub - 1]);
    start += HALVING * sub;
  }
  for _ in 0..n {
    v.push(rng.below(SUPPLY));
    v.push(rng.u64_any_width() % SUPPLY);
  }
  v
}

/// (height, offset in block) of sat x < SUPPLY, by walking the epochs (no implementation code)
fn block_of(x: u64) -> (u64, u64) {
  let mut start = 0u64;
  for e in 0..33u64 {
    let sub = (50u64 * 100_000_000) >> e;
    if x < start + HALVING * sub {
      return (e * HALVING + (x - start) / sub, (x - start) % sub);
    }
    start += HALVING * sub;
  }
  unreachable!("x < SUPPLY")
}

fn sat_strings(rng: &mut Rng, n: usize) -> Vec<String> {
  let mut v: Vec<String> = [
    "", "0", "+0", "-0", "2099999997689999", "2099999997690000", "18446744073709551615", "18446744073709551616", "a", "nvtdijuwxlp",
    "nvtdijuwxlq", "nvtdijuwxlo", "zzzzzzzzzzzzzz", "zzzzzzzzzzzzzzzzzzzzzzzzzzzzzzzzzzzzzzzzzzzzzzzzzz", "aA", "a0", "a.b", "a%", "a°",
    "0.0", "0.5000000000", "0.4999999999", "209999.0", "210000.2499999999", "210000.2500000000", "6929999.0", "6930000.0", "4294967295.0",
    "4294967296.0", "0.18446744073709551616", ".", "1.", ".1", "+1.+1", "1.1.1",
    "0°0′0″0‴", "0°0′0″", "0°0′0″5000000000‴", "0°0′0″4999999999‴", "0°1′1″0‴", "1°0′0″0‴", "5°0′336″0‴", "5°209999′1007″0‴", "6°0′0″0‴",
    "715827882°0′0″0‴", "715827883°0′0″0‴", "715827882°209999′1343″0‴", "4294967295°0′0″0‴", "4294967296°0′0″0‴", "20452°0′0″0‴", "3408°0′0″0‴",
    "3408°95296′1792″0‴", "3408°95295′1791″0‴", "0°210000′0″0‴", "0°0′2016″0‴", "0°0′1″0‴", "0°0′0″0‴x", "0°0′0″0‴‴", "0°0″0′0‴", "°′″‴", "0°0′0",
    "+0°+0′+0″+0‴", "0°0′0″18446744073709551616‴",
    "0%", "100%", "100.00000000000001%", "101%", "50%", "-0%", "-1%", "-0.0000001%", "-1e-400%", "1e2%", "1e400%", "nan%", "NaN%", "NAN%", "-nan%",
    "+nan%", "inf%", "-inf%", "+inf%", "infinity%", "Infinity%", "%", "%%", "5%5", " 5%", "5 %", "0x10%", "1_0%", "99.99999999999999%",
    "99.999999999999999999%", "4.761904762e-14%", "0.00000000000005%", ".5%", "5.%", "1e-320%", "1e+1%", "１%",
  ]
  .iter()
  .map(|s| s.to_string())
  .collect();
  let sats = interesting_sats(rng, n / 8);
  for &x in &sats {
    v.push(x.to_string());
    // the four printed notations, built without the implementation
    v.push(c32::name_of(u128::from(SUPPLY - x) - 1).to_ascii_lowercase());
    let (h, third) = block_of(x);
    v.push(format!("{h}.{third}"));
    v.push(format!("{}°{}′{}″{}‴", h / (6 * HALVING), h % HALVING, h % 2016, third));
    v.push(format!("{}%", (x as f64 / (SUPPLY - 1) as f64) * 100.0));
  }
  // over-long names whose value is k * 2^64 + v with v in or just past [0, SUPPLY]: out of range, but a
  // parser accumulating in wrapping u64 arithmetic would accept them as sat SUPPLY - v (seeded r4-C31-1)
  for i in 0..(n / 20).max(300) {
    let k: u128 = match i % 4 {
      0 => 1 + u128::from(rng.below(4)),
      1 => 1 + u128::from(rng.below(100_000)),
      _ => u128::from(rng.next() | 1),
    };
    let w: u128 = match i % 5 {
      0 => u128::from(rng.below(3)),
      1 => u128::from(SUPPLY) - u128::from(rng.below(3)),
      2 => u128::from(SUPPLY) + 1 + u128::from(rng.below(1000)),
      _ => u128::from(rng.below(SUPPLY + 1)),
    };
    let x = (k << 64) + w;
    v.push(c32::name_of(x - 1).to_ascii_lowercase());
  }
  for i in 0..n {
    let s = match i % 6 {
      0 => int_lit(rng, &[0, SUPPLY.into(), B32, B64, u128::MAX]),
      1 => {
        let len = rng.range(1, 14) as usize;
        (0..len).map(|_| (b'a' + if rng.chance(1, 3) { 25 } else { rng.below(26) as u8 }) as char).collect()
      }
      2 => {
        let h = int_lit(rng, &[0, 209_999, 210_000, 6_929_999, 6_930_000, B32]);
        let o = int_lit(rng, &[0, 5_000_000_000, 2_500_000_000, 1, B64]);
        format!("{h}.{o}")
      }
      3 | 4 => {
        let c = int_lit(rng, &[0, 1, 5, 6, 3408, 715_827_882, B32]);
        let (e, p) = if rng.chance(2, 3) {
          // consistent epoch/period offsets
          let h = rng.below(33 * HALVING);
          ((h % HALVING).to_string(), (h % 2016).to_string())
        } else {
          (int_lit(rng, &[0, 209_999, 210_000, B32]), int_lit(rng, &[0, 2015, 2016, B32]))
        };
        let b = int_lit(rng, &[0, 5_000_000_000, 1, B64]);
        if rng.chance(1, 6) {
          format!("{c}°{e}′{p}″")
        } else {
          format!("{c}°{e}′{p}″{b}‴")
        }
      }
      _ => {
        let x = match rng.below(5) {
          0 => f64::from_bits(rng.next()),
          1 => rng.below(101) as f64,
          2 => 100.0 * (rng.next() as f64 / u64::MAX as f64),
          3 => 100.0 + (rng.next() as f64 / u64::MAX as f64) * 1e-10,
          _ => (rng.next() as f64 / u64::MAX as f64) * 1e-12,
        };
        match rng.below(3) {
          0 => format!("{x}%"),
          1 => format!("{x:e}%"),
          _ => format!("{x:.20}%"),
        }
      }
    };
    v.push(if rng.chance(1, 7) { mutate(rng, &s) } else { s });
  }
  for _ in 0..n / 10 {
    v.push(random_unicode(rng));
  }
  v
}

fn rune_strings(rng: &mut Rng, n: usize) -> Vec<String> {
  let mut v = vec!["".to_string(), "A".into(), "BCGDENLQRQWDSLRUGSNLBTMFIJAV".into(), "BCGDENLQRQWDSLRUGSNLBTMFIJAW".into()];
  for i in 0..n {
    let len = rng.range(1, 40) as usize;
    let s = c32::random_name(rng, len);
    v.push(if i % 5 == 0 { mutate(rng, &s) } else { s });
  }
  v
}

fn spaced_strings(rng: &mut Rng, n: usize) -> Vec<String> {
  let mut v: Vec<String> = ["", ".", "•", "A", "A.", ".A", "A..B", "A.B", "A•B.C"].iter().map(|s| s.to_string()).collect();
  // 28..40 letters with a spacer after every possible letter
  for len in [27usize, 28, 31, 32, 33, 34, 35, 40] {
    for pos in 1..=len {
      let name: String = "A".repeat(len);
      let (a, b) = name.split_at(pos);
      v.push(format!("{a}.{b}"));
      v.push(format!("{a}•{b}"));
    }
  }
  for i in 0..n {
    let len = rng.range(1, 40) as usize;
    let name = c32::random_name(rng, len);
    let mut s = String::new();
    let dense = rng.chance(1, 3);
    for c in name.chars() {
      s.push(c);
      if rng.chance(if dense { 9 } else { 2 }, 10) {
        s.push(if rng.chance(1, 2) { '.' } else { '•' });
      }
    }
    if rng.chance(3, 4) {
      while s.ends_with('.') || s.ends_with('•') {
        s.pop();
      }
    }
    v.push(if i % 6 == 0 { mutate(rng, &s) } else { s });
  }
  v
}

fn rune_id_strings(rng: &mut Rng, n: usize) -> Vec<String> {
  let mut v: Vec<String> = ["", ":", "0:0", "1:1", "0:1", "18446744073709551615:4294967295", "18446744073709551616:0", "0:4294967296", "1:2:3", "+1:+2", "1:", ":1", "-1:1", "1 :1"]
    .iter()
    .map(|s| s.to_string())
    .collect();
  for i in 0..n {
    let b = int_lit(rng, &[0, 840_000, B32, B64, u128::MAX]);
    let t = int_lit(rng, &[0, 1, B32, B64]);
    let s = format!("{b}:{t}");
    v.push(if i % 5 == 0 { mutate(rng, &s) } else { s });
  }
  v
}

fn hex64(rng: &mut Rng) -> String {
  let style = rng.below(4);
  (0..64)
    .map(|_| {
      let d = rng.below(16) as u32;
      let c = char::from_digit(d, 16).unwrap();
      match style {
        0 => c,
        1 => c.to_ascii_uppercase(),
        2 => '0',
        _ => {
          if rng.chance(1, 2) {
            c.to_ascii_uppercase()
          } else {
            c
          }
        }
      }
    })
    .collect()
}

fn hexish(rng: &mut Rng) -> String {
  let mut h = hex64(rng);
  match rng.below(10) {
    0 => {
      h.pop();
    }
    1 => h.push('a'),
    2 => {
      let pos = rng.below(64) as usize;
      h.replace_range(pos..pos + 1, "g");
    }
    _ => {}
  }
  h
}

fn inscription_id_strings(rng: &mut Rng, n: usize) -> Vec<String> {
  let z = "0".repeat(64);
  let mut v: Vec<String> = vec![String::new(), format!("{z}i0"), format!("{z}i"), format!("{z}i+1"), format!("{z}i01"), format!("{z}i4294967295"), format!("{z}i4294967296"), format!("{z}I0"), format!("{z}:0"), format!("{z}i-1"), format!("{z}i٣"), format!("{}→i0", "0".repeat(63))];
  for i in 0..n {
    let s = format!("{}i{}", hexish(rng), int_lit(rng, &[0, 1, B32, B64]));
    v.push(if i % 6 == 0 { mutate(rng, &s) } else { s });
  }
  v
}

fn satpoint_strings(rng: &mut Rng, n: usize) -> Vec<String> {
  let z = "0".repeat(64);
  let mut v: Vec<String> = vec![String::new(), ":".into(), "::".into(), format!("{z}:0:0"), format!("{z}:0"), format!("{z}:00:0"), format!("{z}:+0:0"), format!("{z}:0:+0"), format!("{z}:0:00"), format!("{z}:4294967295:18446744073709551615"), format!("{z}:4294967296:0"), format!("{z}:0:18446744073709551616"), format!("{z}:0:0:0"), format!("{z}:+:0"), format!("{z}::0")];
  for i in 0..n {
    let vout = match rng.below(3) {
      0 => rng.below(1 << 33).to_string(),
      _ => int_lit(rng, &[0, 1, 9, 10, B32]),
    };
    let s = format!("{}:{}:{}", hexish(rng), vout, int_lit(rng, &[0, 1, B32, B64]));
    v.push(if i % 6 == 0 { mutate(rng, &s) } else { s });
  }
  v
}

fn outgoing_strings(rng: &mut Rng, n: usize) -> Vec<String> {
  let z = "0".repeat(64);
  let mut v: Vec<String> = [
    "", "a", "sat", "btc", "nvtdijuwxlp", "nvtdijuwxlq", "abcdefghijkl", "0 btc", "0btc", "0.0btc", ".0btc", "1 sat", "1 sats", "1sats", "1 satoshis", "1 satoshiss",
    "1  btc", "1 BTC", "1.btc", "1 bits", "1 msat", "1.5 msats", "21000000 btc", "21000001 btc", "0.000000001 btc", "1\u{a0}btc", "1 btc ", " 1 btc", "1 xbtc",
    "1:A", "1 : A", "1.5:A•B", "1.5\u{a0}:\u{2003}AB.C", ".5:ZZZ", "5.:A", "1:", ":A", "1:a", "1::A", "1:A:B", "1:A B", "1 2:A", "1:.A", "1:A.", "1:A..B", "1\n:\nA", "1\t:\r\nA",
    "340282366920938463463374607431768211455:A", "340282366920938463463374607431768211456:A", "340282366920938463463374607431768211455.1:A",
    "1:BCGDENLQRQWDSLRUGSNLBTMFIJAV", "1:BCGDENLQRQWDSLRUGSNLBTMFIJAW", "1:AAAAAAAAAAAAAAAAAAAAAAAAAAAAAAAAA.A", "١:A", "١ btc", "1٣ sats", ".１btc", "1.٣:A", "１",
  ]
  .iter()
  .map(|s| s.to_string())
  .collect();
  v.push(format!("0.{}1:A", "0".repeat(38)));
  v.push(format!("0.{}1:A", "0".repeat(300)));
  v.push(format!("{z}:0:0"));
  v.push(format!("{z}i0"));
  v.push(format!("{z}:0:٣"));
  let units = ["bit", "btc", "cbtc", "mbtc", "msat", "nbtc", "pbtc", "sat", "satoshi", "ubtc", "sats", "btcs", "BTC", "xbt", "satoshis"];
  let ws = ["", " ", "  ", "\t", "\u{a0}", "\u{2003}", "\u{3000}", "\u{200b}", "\n"];
  for i in 0..n {
    let num = match rng.below(5) {
      0 => int_lit(rng, &[0, 1, 21_000_000, B64, u128::MAX]),
      1 => {
        let k = rng.range(1, 45) as usize;
        format!(".{}", digits(rng, k))
      }
      2 => {
        let k = rng.range(0, 45) as usize;
        format!("{}.{}", rng.u128_any_width(), digits(rng, k))
      }
      3 => {
        let a = rng.range(1, 42) as usize;
        let b = rng.range(1, 300) as usize;
        format!("{}.{}", digits(rng, a), digits(rng, b))
      }
      _ => rng.below(1000).to_string(),
    };
    let s = match i % 5 {
      0 => format!("{num}{}{}", if rng.chance(1, 2) { " " } else { "" }, rng.pick(&units)),
      1 | 2 => {
        let name = spaced_strings(rng, 1).pop().unwrap();
        let (w1, w2) = (*rng.pick(&ws), *rng.pick(&ws));
        format!("{num}{w1}:{w2}{name}")
      }
      3 => satpoint_strings(rng, 1).pop().unwrap(),
      _ => {
        if rng.chance(1, 2) {
          inscription_id_strings(rng, 1).pop().unwrap()
        } else {
          let len = rng.range(1, 13) as usize;
          (0..len).map(|_| (b'a' + rng.below(26) as u8) as char).collect()
        }
      }
    };
    v.push(if i % 7 == 0 { mutate(rng, &s) } else { s });
  }
  v
}

fn number_strings(rng: &mut Rng, n: usize) -> Vec<String> {
  let mut v: Vec<String> = ["0", "-0", "-1", "-", "+1", "2147483647", "2147483648", "-2147483648", "-2147483649", "4294967295", "4294967296", "18446744073709551615", "18446744073709551616", "--1", "-+1", "1-"]
    .iter()
    .map(|s| s.to_string())
    .collect();
  v.push("9".repeat(63));
  v.push("9".repeat(64));
  v.push(format!("-{}", "0".repeat(63)));
  v.push(format!("-{}", "0".repeat(64)));
  v.push(format!("{}1", "0".repeat(62)));
  v.push(format!("{}1", "0".repeat(63)));
  for _ in 0..n {
    let mut s = int_lit(rng, &[0, 1 << 31, B32, B64]);
    if rng.chance(1, 3) {
      s.insert(0, '-');
    }
    v.push(s);
  }
  v
}

pub fn gen(rng: &mut Rng, tier: &str) -> Vec<Line> {
  let n: usize = if tier == "thorough" { 800_000 } else { 14_000 };
  let mut v = Vec::new();
  for s in sat_strings(rng, n) {
    v.push(sat_case(&s));
  }
  for s in rune_strings(rng, n / 4) {
    v.push(str_line(&[1u8.into()], &s));
  }
  for s in spaced_strings(rng, n / 2) {
    v.push(str_line(&[2u8.into()], &s));
  }
  for s in rune_id_strings(rng, n / 4) {
    v.push(str_line(&[3u8.into()], &s));
  }
  for s in c34::decimal_strings(rng, n / 2) {
    v.push(str_line(&[4u8.into()], &s));
  }
  for s in inscription_id_strings(rng, n / 8) {
    v.push(str_line(&[5u8.into()], &s));
    v.push(str_line(&[9u8.into()], &s));
  }
  for s in satpoint_strings(rng, n / 6) {
    v.push(str_line(&[6u8.into()], &s));
  }
  for s in outgoing_strings(rng, n / 2) {
    v.push(str_line(&[7u8.into()], &s));
  }
  // explorer queries: every notation they dispatch on
  for s in number_strings(rng, n / 10) {
    v.push(str_line(&[8u8.into()], &s));
    v.push(str_line(&[9u8.into()], &s));
    v.push(str_line(&[10u8.into()], &s));
  }
  for _ in 0..n / 10 {
    v.push(str_line(&[8u8.into()], &hexish(rng)));
  }
  for s in sat_strings(rng, n / 10) {
    v.push(str_line(&[9u8.into()], &s));
  }
  for s in spaced_strings(rng, n / 10) {
    v.push(str_line(&[10u8.into()], &s));
  }
  for s in rune_id_strings(rng, n / 10) {
    v.push(str_line(&[10u8.into()], &s));
  }
  for _ in 0..n / 10 {
    let s = random_unicode(rng);
    let op = *rng.pick(&[1u8, 2, 3, 4, 5, 6, 7, 8, 9, 10]);
    v.push(str_line(&[op.into()], &s));
  }
  v
}

// ------------------------------------------------------------------ oracles (independent, arbitrary precision)
/// [+]digits -> value
fn lit(s: &str) -> Option<Big> {
  Big::from_decimal(s.strip_prefix('+').unwrap_or(s))
}

fn subsidy_of_epoch(e: u64) -> u64 {
  if e < 33 {
    (50u64 * 100_000_000) >> e
  } else {
    0
  }
}

/// first sat of block h, by summation over the epochs (independent of Epoch::STARTING_SATS)
fn starting_sat(h: u64) -> u64 {
  let e = h / HALVING;
  let mut s = 0u64;
  for i in 0..e.min(33) {
    s += HALVING * subsidy_of_epoch(i);
  }
  s + (h - e * HALVING) * subsidy_of_epoch(e)
}

/// Some(sat) if (height, offset) designates a sat
fn sat_at(h: &Big, offset: &Big) -> Option<u64> {
  let h = h.to_u64()?;
  if h / HALVING >= 33 {
    return None;
  }
  let o = offset.to_u64()?;
  if o >= subsidy_of_epoch(h / HALVING) {
    return None;
  }
  Some(starting_sat(h) + o)
}

/// what a sat string denotes: Some(Some(n)) a sat, Some(None) nothing (must be rejected),
/// None: percentile (judged separately)
fn sat_denotation(s: &str) -> Option<Option<u64>> {
  if s.chars().any(|c| c.is_ascii_lowercase()) {
    if !s.chars().all(|c| c.is_ascii_lowercase()) {
      return Some(None);
    }
    let mut x = Big::zero();
    for c in s.chars() {
      x = x.mul_small(26).add_small(c as u32 - 'a' as u32 + 1);
    }
    return Some(Big::from_u128(SUPPLY.into()).sub(&x).and_then(|n| n.to_u64()));
  }
  if s.contains('°') {
    let parse = || -> Option<u64> {
      let (c, rest) = s.split_once('°')?;
      let (e, rest) = rest.split_once('′')?;
      let (p, rest) = rest.split_once('″')?;
      let (b, rest) = match rest.split_once('‴') {
        Some((b, rest)) => (lit(b)?, rest),
        None => (Big::zero(), rest),
      };
      if !rest.is_empty() {
        return None;
      }
      let (c, e, p) = (lit(c)?, lit(e)?.to_u64()?, lit(p)?.to_u64()?);
      if e >= HALVING || p >= 2016 {
        return None;
      }
      let c = c.to_u64()?;
      if c > 100 {
        return None; // epoch >= 33: no subsidy, no sat
      }
      // the block with this cycle, epoch offset and period offset
      for k in 0..6u64 {
        let h = (c * 6 + k) * HALVING + e;
        if h % 2016 == p {
          return sat_at(&Big::from_u128(h.into()), &b);
        }
      }
      None
    };
    return Some(parse());
  }
  if s.contains('%') {
    return None;
  }
  if s.contains('.') {
    let parse = || -> Option<u64> {
      let (h, o) = s.split_once('.')?;
      sat_at(&lit(h)?, &lit(o)?)
    };
    return Some(parse());
  }
  Some(lit(s).and_then(|n| n.to_u64()).filter(|&n| n < SUPPLY))
}

/// 64 lower-case hex digits -> (high, low) 128-bit halves
fn hash_halves(hex: &str) -> (u128, u128) {
  (u128::from_str_radix(&hex[..32], 16).unwrap(), u128::from_str_radix(&hex[32..], 16).unwrap())
}

fn inscription_id_denotes(s: &str, id: &InscriptionId) -> Result<(), String> {
  let ok = s.is_ascii()
    && s.len() >= 66
    && s[..64].to_ascii_lowercase() == id.txid.to_string()
    && &s[64..65] == "i"
    && lit(&s[65..]).and_then(|v| v.to_u64()) == Some(u64::from(id.index));
  if ok {
    Ok(())
  } else {
    Err(format!("{s:?} parses to {id:?}"))
  }
}

pub fn run(case: &Line) -> Outcome {
  let mut c = Cur::new(case);
  match c.u8() {
    0 => {
      let fk = c.u8();
      let fnv = c.u128();
      let s = rest_string(&mut c);
      guarded("sat", || {
        let r = s.parse::<Sat>();
        let notation = if s.chars().any(|c| c.is_ascii_lowercase()) {
          "name"
        } else if s.contains('°') {
          "degree"
        } else if s.contains('%') {
          "percentile"
        } else if s.contains('.') {
          "decimal"
        } else {
          "integer"
        };
        let mut oracle = Ok(());
        if fclass(&s) != (fk, fnv) {
          oracle = Err(format!("stale f64 classification in case line for {s:?}"));
        }
        match (&r, sat_denotation(&s)) {
          (Ok(sat), Some(Some(n))) if sat.0 == n => {}
          (Ok(sat), Some(d)) => oracle = Err(format!("{s:?} parses to Sat({}) but denotes {d:?}", sat.0)),
          (Ok(sat), None) => {
            // percentile: finite, non-negative, at most 100, and the sat is in range and near x% of LAST
            let x = s.strip_suffix('%').and_then(|p| p.parse::<f64>().ok());
            match x {
              Some(x) if x.is_finite() && x >= 0.0 && sat.0 < SUPPLY => {
                let want = x / 100.0 * (SUPPLY - 1) as f64;
                if (sat.0 as f64 - want).abs() > 1.0 {
                  oracle = Err(format!("{s:?} parses to Sat({}) far from {want}", sat.0));
                }
              }
              other => oracle = Err(format!("{s:?} (percentile {other:?}) parses to Sat({})", sat.0)),
            }
          }
          (Err(_), _) => {}
        }
        let (obs, cat) = match &r {
          Ok(sat) => (L::new().p(0u8).p(sat.0).done(), format!("sat/{notation}/ok")),
          Err(_) => (L::new().p(1u8).done(), format!("sat/{notation}/err")),
        };
        Outcome { obs, oracle, cat }
      })
    }
    1 => {
      let s = rest_string(&mut c);
      guarded("rune", || {
        let r = s.parse::<Rune>();
        let oracle = match (&r, c32::name_value(&s)) {
          (Ok(r), Some(Ok(n))) if r.0 == n => Ok(()),
          (Ok(r), d) => Err(format!("{s:?} parses to Rune({}) but denotes {d:?}", r.0)),
          (Err(_), _) => Ok(()),
        };
        let (obs, cat) = match &r {
          Ok(r) => (L::new().p(0u8).p(r.0).done(), "rune/ok"),
          Err(_) => (L::new().p(1u8).done(), "rune/err"),
        };
        Outcome { obs, oracle, cat: cat.to_string() }
      })
    }
    2 => {
      let s = rest_string(&mut c);
      guarded("spaced", || {
        let r = s.parse::<SpacedRune>();
        let oracle = match (&r, c32::spaced_value(&s)) {
          (Ok(r), Some(Ok((n, sp)))) if r.rune.0 == n && r.spacers == sp => Ok(()),
          (Ok(r), d) => Err(format!("{s:?} parses to {r:?} but denotes {d:?}")),
          (Err(_), _) => Ok(()),
        };
        let letters = s.chars().filter(|c| c.is_ascii_uppercase()).count();
        let (obs, cat) = match &r {
          Ok(r) => (L::new().p(0u8).p(r.rune.0).p(r.spacers).done(), "spaced/ok".to_string()),
          Err(_) => (L::new().p(1u8).done(), format!("spaced/err/{}", if letters > 32 { "long" } else if letters > 28 { "29-32" } else { "short" })),
        };
        Outcome { obs, oracle, cat }
      })
    }
    3 => {
      let s = rest_string(&mut c);
      guarded("rune-id", || {
        let r = s.parse::<RuneId>();
        let den = s.split_once(':').and_then(|(b, t)| Some((lit(b)?.to_u64()?, u32::try_from(lit(t)?.to_u64()?).ok()?)));
        let oracle = match (&r, den) {
          (Ok(id), Some((b, t))) if id.block == b && id.tx == t => Ok(()),
          (Ok(id), d) => Err(format!("{s:?} parses to {id:?} but denotes {d:?}")),
          (Err(_), _) => Ok(()),
        };
        let (obs, cat) = match &r {
          Ok(id) => (L::new().p(0u8).p(id.block).p(id.tx).done(), "rune-id/ok"),
          Err(_) => (L::new().p(1u8).done(), "rune-id/err"),
        };
        Outcome { obs, oracle, cat: cat.to_string() }
      })
    }
    5 => {
      let s = rest_string(&mut c);
      guarded("inscription-id", || {
        let r = s.parse::<InscriptionId>();
        let oracle = match &r {
          Ok(id) => inscription_id_denotes(&s, id),
          Err(_) => Ok(()),
        };
        let (obs, cat) = match &r {
          Ok(id) => {
            let (hi, lo) = hash_halves(&id.txid.to_string());
            (L::new().p(0u8).p(hi).p(lo).p(id.index).done(), "inscription-id/ok")
          }
          Err(_) => (L::new().p(1u8).done(), "inscription-id/err"),
        };
        Outcome { obs, oracle, cat: cat.to_string() }
      })
    }
    6 => {
      let s = rest_string(&mut c);
      guarded("satpoint", || {
        let r = s.parse::<SatPoint>();
        let oracle = match &r {
          Ok(sp) => {
            let parts: Vec<&str> = s.split(':').collect();
            if parts.len() == 3
              && parts[0].len() == 64
              && parts[0].to_ascii_lowercase() == sp.outpoint.txid.to_string()
              && parts[1] == sp.outpoint.vout.to_string()
              && lit(parts[2]).and_then(|o| o.to_u64()) == Some(sp.offset)
            {
              Ok(())
            } else {
              Err(format!("{s:?} parses to {sp:?}"))
            }
          }
          Err(_) => Ok(()),
        };
        let (obs, cat) = match &r {
          Ok(sp) => {
            let (hi, lo) = hash_halves(&sp.outpoint.txid.to_string());
            (L::new().p(0u8).p(hi).p(lo).p(sp.outpoint.vout).p(sp.offset).done(), "satpoint/ok")
          }
          Err(_) => (L::new().p(1u8).done(), "satpoint/err"),
        };
        Outcome { obs, oracle, cat: cat.to_string() }
      })
    }
    7 => {
      let s = rest_string(&mut c);
      guarded("outgoing", || {
        let r = s.parse::<Outgoing>();
        let (obs, cat, oracle) = match &r {
          Ok(Outgoing::Amount(_)) => (L::new().p(4u8).done(), "outgoing/amount-ok".to_string(), Ok(())),
          // bitcoin::Amount::from_str is not modelled: Ok and Err of the amount branch are one observation.
          // The model reads the regexes' \d as an ASCII digit; a string with a non-ASCII digit that the real
          // AMOUNT regex lets through must then be REJECTED by Amount::from_str for model and code to agree
          // (an Ok would show up as [4] against the model's [1]).
          Err(e) if format!("{e:?}").starts_with("AmountParse") && s.is_ascii() => (L::new().p(4u8).done(), "outgoing/amount-err".to_string(), Ok(())),
          Err(e) if format!("{e:?}").starts_with("AmountParse") => (L::new().p(1u8).done(), "outgoing/amount-err-non-ascii".to_string(), Ok(())),
          Ok(Outgoing::Sat(sat)) => (
            L::new().p(0u8).p(0u8).p(sat.0).done(),
            "outgoing/sat".to_string(),
            if sat_denotation(&s) == Some(Some(sat.0)) && s.chars().all(|c| c.is_ascii_lowercase()) { Ok(()) } else { Err(format!("{s:?} parses to sat {}", sat.0)) },
          ),
          Ok(Outgoing::SatPoint(sp)) => {
            let (hi, lo) = hash_halves(&sp.outpoint.txid.to_string());
            let parts: Vec<&str> = s.split(':').collect();
            let ok = parts.len() == 3
              && parts[0].to_ascii_lowercase() == sp.outpoint.txid.to_string()
              && parts[1] == sp.outpoint.vout.to_string()
              && lit(parts[2]).and_then(|o| o.to_u64()) == Some(sp.offset);
            (
              L::new().p(0u8).p(1u8).p(hi).p(lo).p(sp.outpoint.vout).p(sp.offset).done(),
              "outgoing/satpoint".to_string(),
              if ok { Ok(()) } else { Err(format!("{s:?} parses to {sp:?}")) },
            )
          }
          Ok(Outgoing::InscriptionId(id)) => {
            let (hi, lo) = hash_halves(&id.txid.to_string());
            (L::new().p(0u8).p(2u8).p(hi).p(lo).p(id.index).done(), "outgoing/inscription-id".to_string(), inscription_id_denotes(&s, id))
          }
          Ok(Outgoing::Rune { decimal, rune }) => {
            let ok = s.split_once(':').map_or(false, |(l, r)| {
              let (num, name) = (l.trim_end(), r.trim_start());
              let dec_ok = match c34::decimal_denotation(num) {
                Some((n, k)) => Big::from_u128(decimal.value).mul(&Big::pow10(k)).cmp(&n.mul(&Big::pow10(decimal.scale.into()))) == Ordering::Equal,
                None => false,
              };
              dec_ok && c32::spaced_value(name) == Some(Ok((rune.rune.0, rune.spacers)))
            });
            (
              L::new().p(0u8).p(3u8).p(decimal.value).p(decimal.scale).p(rune.rune.0).p(rune.spacers).done(),
              "outgoing/rune".to_string(),
              if ok { Ok(()) } else { Err(format!("{s:?} parses to {decimal:?} of {rune:?}")) },
            )
          }
          Err(e) => {
            let d = format!("{e:?}");
            let k = d.split(|c: char| !c.is_alphanumeric()).next().unwrap_or("").to_string();
            (L::new().p(1u8).done(), format!("outgoing/err/{k}"), Ok(()))
          }
        };
        Outcome { obs, oracle, cat }
      })
    }
    8 => {
      let s = rest_string(&mut c);
      guarded("query-block", || {
        let r = parse_block(&s);
        let (obs, cat, oracle) = match &r {
          Ok(BlockQuery::Height(h)) => (
            L::new().p(0u8).p(0u8).p(*h).done(),
            "query-block/height",
            if lit(&s).and_then(|v| v.to_u64()) == Some(u64::from(*h)) { Ok(()) } else { Err(format!("{s:?} parses to height {h}")) },
          ),
          Ok(BlockQuery::Hash(hash)) => {
            let (hi, lo) = hash_halves(&hash.to_string());
            (
              L::new().p(0u8).p(1u8).p(hi).p(lo).done(),
              "query-block/hash",
              if s.len() == 64 && s.to_ascii_lowercase() == hash.to_string() { Ok(()) } else { Err(format!("{s:?} parses to hash {hash}")) },
            )
          }
          Err(_) => (L::new().p(1u8).done(), "query-block/err", Ok(())),
        };
        Outcome { obs, oracle, cat: cat.to_string() }
      })
    }
    9 => {
      let s = rest_string(&mut c);
      guarded("query-inscription", || {
        let r = parse_inscription(&s);
        let (obs, cat, oracle) = match &r {
          Ok(InscriptionQuery::Id(id)) => {
            let (hi, lo) = hash_halves(&id.txid.to_string());
            (L::new().p(0u8).p(0u8).p(hi).p(lo).p(id.index).done(), "query-inscription/id", inscription_id_denotes(&s, id))
          }
          Ok(InscriptionQuery::Number(n)) => {
            let (neg, body) = match s.strip_prefix('-') {
              Some(b) => (true, b),
              None => (false, s.as_str()),
            };
            let ok = Big::from_decimal(body).and_then(|v| v.to_u64()).map(|v| if neg { -(v as i128) } else { v as i128 }) == Some(i128::from(*n));
            (
              L::new().p(0u8).p(1u8).p(*n).done(),
              "query-inscription/number",
              if ok { Ok(()) } else { Err(format!("{s:?} parses to inscription number {n}")) },
            )
          }
          Ok(InscriptionQuery::Sat(sat)) => (
            L::new().p(0u8).p(2u8).p(sat.0).done(),
            "query-inscription/sat",
            if sat_denotation(&s) == Some(Some(sat.0)) && s.chars().all(|c| c.is_ascii_lowercase()) { Ok(()) } else { Err(format!("{s:?} parses to sat {}", sat.0)) },
          ),
          Err(_) => (L::new().p(1u8).done(), "query-inscription/err", Ok(())),
        };
        Outcome { obs, oracle, cat: cat.to_string() }
      })
    }
    10 => {
      let s = rest_string(&mut c);
      guarded("query-rune", || {
        let r = parse_rune(&s);
        let (obs, cat, oracle) = match &r {
          Ok(RuneQuery::Spaced(sr)) => (
            L::new().p(0u8).p(0u8).p(sr.rune.0).p(sr.spacers).done(),
            "query-rune/spaced",
            if c32::spaced_value(&s) == Some(Ok((sr.rune.0, sr.spacers))) { Ok(()) } else { Err(format!("{s:?} parses to {sr:?}")) },
          ),
          Ok(RuneQuery::Id(id)) => {
            let den = s.split_once(':').and_then(|(b, t)| Some((lit(b)?.to_u64()?, u32::try_from(lit(t)?.to_u64()?).ok()?)));
            (
              L::new().p(0u8).p(1u8).p(id.block).p(id.tx).done(),
              "query-rune/id",
              if den == Some((id.block, id.tx)) { Ok(()) } else { Err(format!("{s:?} parses to {id:?}")) },
            )
          }
          Ok(RuneQuery::Number(n)) => (
            L::new().p(0u8).p(2u8).p(*n).done(),
            "query-rune/number",
            if Big::from_decimal(&s).and_then(|v| v.to_u64()) == Some(*n) { Ok(()) } else { Err(format!("{s:?} parses to rune number {n}")) },
          ),
          Err(_) => (L::new().p(1u8).done(), "query-rune/err", Ok(())),
        };
        Outcome { obs, oracle, cat: cat.to_string() }
      })
    }
    _ => {
      let s = rest_string(&mut c);
      guarded("decimal", || {
        let r = s.parse::<Decimal>();
        let oracle = match (&r, c34::decimal_denotation(&s)) {
          (Ok(dec), Some((n, k))) => {
            if Big::from_u128(dec.value).mul(&Big::pow10(k)).cmp(&n.mul(&Big::pow10(dec.scale.into()))) == Ordering::Equal {
              Ok(())
            } else {
              Err(format!("{s:?} parses to {dec:?} which is a different number"))
            }
          }
          (Ok(dec), None) => Err(format!("{s:?} is not a decimal number but parses to {dec:?}")),
          (Err(_), _) => Ok(()),
        };
        let (obs, cat) = match &r {
          Ok(dec) => (L::new().p(0u8).p(dec.value).p(dec.scale).done(), "decimal/ok"),
          Err(_) => (L::new().p(1u8).done(), "decimal/err"),
        };
        Outcome { obs, oracle, cat: cat.to_string() }
      })
    }
  }
}
