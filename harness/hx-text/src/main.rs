//! Harness for the text group (C31-C34): rune names, unlock schedule, decimal amounts, text parsers.
use hxlib::*;

fn main() {
  let args = parse_args();
  match args.prop.as_str() {
    p => {
      eprintln!("unknown property {p}");
      std::process::exit(2);
    }
  }
}
