//! Harness for the text group (C31-C34): rune names, unlock schedule, decimal amounts, text parsers.
use hxlib::*;

mod big;
mod c31;
mod c32;
mod c33;
mod c34;

fn main() {
  let args = parse_args();
  match args.prop.as_str() {
    "C31" => drive(&args, c31::gen, c31::run),
    "C32" => drive(&args, c32::gen, c32::run),
    "C33" => drive(&args, c33::gen, c33::run),
    "C34" => drive(&args, c34::gen, c34::run),
    p => {
      eprintln!("unknown property {p}");
      std::process::exit(2);
    }
  }
}
