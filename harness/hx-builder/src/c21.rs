//! C21 — batch inscribing produces exactly the inscriptions and locations it reports.
//!
//! case (see coq/Wallet/Batch.v run_C21):
//!   mode n postage etching premine nP (value offset)*nP nS value*nS fund
//!     fund 0: plenty of cardinals; 1/2/3: the first cardinal (the sat's output, 400 sat) cannot pay
//!     and the next output is runic / inscribed / locked, a large cardinal follows; 4/5/6: the same
//!     without the large cardinal -> the planner must refuse (obs [-3])
//!     fund 7: end to end through the real command `ord wallet batch` (satpoints mode) against the
//!     mock node and an in-process ord server; the satpoint outputs are the wallet's large outputs
//!     mode 0 same-sat, 1 satpoints, 2 separate-outputs, 3 shared-output
//! obs  nOut values.. nPtr pointers.. (vout offset)*n  rune(0 | 1 vout)  nInputs commitInputIndex
//!
//! Per case a regtest mock node is prepared with one transaction whose outputs are the wallet's
//! outputs (parents' outputs with the parent inscriptions at the given offsets, satpoint outputs,
//! cardinals). The hooked planner (ord::wallet::batch::plan::verif::run = what `ord wallet batch`
//! does from the batch file to the unsigned commit and signed reveal) is run on that wallet state.
//! X: reveal output values, pointers parsed back from the reveal transaction's envelopes and
//!    the reported (vout, offset)s are compared with the model.
//! S: commit and reveal are mined, a real index is updated, and every reported id / location,
//!    the parents' new locations, the commit transaction's inputs and the etched rune are read
//!    back from the index.
use bitcoin::{
  absolute::LockTime, transaction::Version, Amount, OutPoint, ScriptBuf, Sequence, Transaction, TxIn,
  TxOut, Witness,
};
use hxlib::*;
use ord::wallet::batch;
use ord::{FeeRate, InscriptionId};
use ordinals::{Rune, SatPoint, SpacedRune};
use std::collections::{BTreeMap, BTreeSet};

const RUNE_BASE: u128 = 99246114928149462; // AAAAAAAAAAAAA

#[derive(Clone, Debug)]
pub struct Case {
  pub mode: u64,
  pub n: usize,
  pub postage: u64,
  pub etching: bool,
  pub premine: bool,
  pub parents: Vec<(u64, u64)>,
  pub sats: Vec<u64>,
  pub fund: u64,
}

impl Case {
  fn line(&self) -> Line {
    let mut l = L::new().p(self.mode).p(self.n).p(self.postage).p(self.etching).p(self.premine);
    l.push(self.parents.len());
    for (v, o) in &self.parents {
      l.push(*v);
      l.push(*o);
    }
    l.push(self.sats.len());
    for v in &self.sats {
      l.push(*v);
    }
    l.push(self.fund);
    l.done()
  }
  fn parse(l: &Line) -> Case {
    let mut c = Cur::new(l);
    let mode = c.u64();
    let n = c.usize();
    let postage = c.u64();
    let etching = c.bool();
    let premine = c.bool();
    let np = c.usize();
    let parents = (0..np).map(|_| (c.u64(), c.u64())).collect();
    let ns = c.usize();
    let sats = (0..ns).map(|_| c.u64()).collect();
    let fund = if c.at_end() { 0 } else { c.u64() };
    Case { mode, n, postage, etching, premine, parents, sats, fund }
  }
}

fn script(i: u8) -> ScriptBuf {
  let mut s = vec![0x00u8, 0x14];
  s.extend([i.wrapping_add(1); 20]);
  ScriptBuf::from_bytes(s)
}

pub fn run(line: &Line) -> Outcome {
  let case = Case::parse(line);
  let cat = format!(
    "mode{}/f{}/n{}/p{}/{}",
    case.mode,
    case.fund,
    case.n.min(3),
    case.parents.len().min(2),
    if case.etching {
      if case.premine {
        "etch+premine"
      } else {
        "etch"
      }
    } else {
      "plain"
    }
  );
  guarded(&cat.clone(), move || match if case.fund == 7 { run_e2e(&case) } else { run_case(&case) } {
    Ok((obs, oracle)) => Outcome { obs, oracle, cat },
    // a wallet whose cardinal outputs (400 sat) cannot fund the batch must be refused
    Err(e) if case.fund >= 4 && e.starts_with("planner:") => {
      Outcome { obs: L::new().p(-3i64).done(), oracle: Ok(()), cat: format!("{cat}/refused") }
    }
    Err(e) => Outcome {
      obs: L::new().p(-3i64).done(),
      oracle: Err(format!("planner or harness error: {e}")),
      cat: format!("{cat}/error"),
    },
  })
}

fn run_case(case: &Case) -> Result<(Line, Result<(), String>), String> {
  let core = ordkit::regtest_core();
  let dir = tempfile::tempdir().map_err(|e| e.to_string())?;
  core.mine_blocks(1);
  let coinbase = core.tx(1, 0);

  // ---- wallet outputs: parents, satpoints, cardinals, all created by one transaction
  let mut outputs: Vec<TxOut> = Vec::new();
  let mut builder = bitcoin::script::Builder::new();
  let mut position = 0u64;
  for (j, (v, off)) in case.parents.iter().enumerate() {
    let inscription = ord::Inscription {
      content_type: Some(b"text/plain".to_vec()),
      body: Some(format!("parent {j}").into_bytes()),
      pointer: Some(ord::Inscription::pointer_value(position + off)),
      ..Default::default()
    };
    builder = inscription.append_reveal_script_to_builder(builder);
    outputs.push(TxOut { value: Amount::from_sat(*v), script_pubkey: script(j as u8) });
    position += v;
  }
  let first_sat_output = outputs.len();
  for (i, v) in case.sats.iter().enumerate() {
    outputs.push(TxOut { value: Amount::from_sat(*v), script_pubkey: script(40 + i as u8) });
  }
  let first_cardinal = outputs.len();
  // fund 0: [30M, 5000, 777] all cardinal
  // fund 1..3: [400 cardinal, 200k runic/inscribed/locked, 30M cardinal, 100 cardinal]
  // fund 4..6: [400 cardinal, 200k runic/inscribed/locked, 100 cardinal]
  let funding: Vec<u64> = match case.fund {
    0 => vec![30_000_000, 5_000, 777],
    1..=3 => vec![400, 200_000, 30_000_000, 100],
    _ => vec![400, 200_000, 100],
  };
  for (i, v) in funding.iter().enumerate() {
    outputs.push(TxOut { value: Amount::from_sat(*v), script_pubkey: script(80 + i as u8) });
  }
  let encumbered: Option<usize> = if case.fund == 0 { None } else { Some(first_cardinal + 1) };
  let mut witness = Witness::new();
  if !case.parents.is_empty() {
    witness.push(builder.into_script().as_bytes());
    witness.push([]);
  }
  let setup = Transaction {
    version: Version(2),
    lock_time: LockTime::ZERO,
    input: vec![TxIn {
      previous_output: OutPoint { txid: coinbase.compute_txid(), vout: 0 },
      script_sig: ScriptBuf::new(),
      sequence: Sequence::MAX,
      witness,
    }],
    output: outputs.clone(),
  };
  let setup_txid = setup.compute_txid();
  core.state().mempool.push(setup);
  core.mine_blocks(1);

  let mut utxos: BTreeMap<OutPoint, TxOut> = BTreeMap::new();
  for (i, o) in outputs.iter().enumerate() {
    utxos.insert(OutPoint { txid: setup_txid, vout: i as u32 }, o.clone());
  }
  let parent_ids: Vec<InscriptionId> =
    (0..case.parents.len()).map(|j| InscriptionId { txid: setup_txid, index: j as u32 }).collect();
  let mut wallet_inscriptions: BTreeMap<SatPoint, Vec<InscriptionId>> = BTreeMap::new();
  let mut parents_arg = Vec::new();
  for (j, (_, off)) in case.parents.iter().enumerate() {
    let sp = SatPoint { outpoint: OutPoint { txid: setup_txid, vout: j as u32 }, offset: *off };
    wallet_inscriptions.entry(sp).or_default().push(parent_ids[j]);
    parents_arg.push((parent_ids[j], sp));
  }
  // the encumbered output is runic, inscribed or locked in the wallet state given to the planner
  let mut runic: BTreeSet<OutPoint> = BTreeSet::new();
  let mut locked: BTreeSet<OutPoint> = BTreeSet::new();
  if let Some(e) = encumbered {
    let o = OutPoint { txid: setup_txid, vout: e as u32 };
    match (case.fund - 1) % 3 {
      0 => {
        runic.insert(o);
      }
      1 => {
        wallet_inscriptions
          .entry(SatPoint { outpoint: o, offset: 7 })
          .or_default()
          .push(InscriptionId { txid: setup_txid, index: 1000 });
      }
      _ => {
        locked.insert(o);
      }
    }
  }
  // cardinal = not a parent's output, not the output of a satpoint named by an entry, not encumbered
  let cardinals: BTreeSet<OutPoint> = (0..outputs.len())
    .filter(|i| *i >= first_sat_output && !(case.mode == 1 && *i < first_sat_output + case.n) && Some(*i) != encumbered)
    .map(|i| OutPoint { txid: setup_txid, vout: i as u32 })
    .collect();

  // ---- the index knows the parents before the batch is planned
  let index = ordkit::open_index(&core, dir.path(), &["--index-runes"]);
  index.update().map_err(|e| format!("index update: {e}"))?;
  for (j, id) in parent_ids.iter().enumerate() {
    let want = SatPoint { outpoint: OutPoint { txid: setup_txid, vout: j as u32 }, offset: case.parents[j].1 };
    let got = index.get_inscription_satpoint_by_id(*id).map_err(|e| e.to_string())?;
    if got != Some(want) {
      return Err(format!("harness: parent {j} was prepared at {got:?}, wanted {want}"));
    }
  }

  // ---- the batch file
  let mode = match case.mode {
    0 => batch::Mode::SameSat,
    1 => batch::Mode::SatPoints,
    2 => batch::Mode::SeparateOutputs,
    _ => batch::Mode::SharedOutput,
  };
  let mut entries = Vec::new();
  for i in 0..case.n {
    let path = dir.path().join(format!("inscription{i}.txt"));
    std::fs::write(&path, format!("child {i}")).map_err(|e| e.to_string())?;
    let delegating = case.postage % 2 == 0 && i % 2 == 1 && !parent_ids.is_empty();
    entries.push(batch::Entry {
      file: if delegating { None } else { Some(path) },
      delegate: if delegating { Some(parent_ids[0]) } else { None },
      metaprotocol: if i % 3 == 2 { Some("hx".into()) } else { None },
      satpoint: if case.mode == 1 {
        Some(SatPoint { outpoint: OutPoint { txid: setup_txid, vout: (first_sat_output + i) as u32 }, offset: 0 })
      } else {
        None
      },
      ..Default::default()
    });
  }
  let rune = Rune(RUNE_BASE + u128::from(case.postage % 1000));
  let premine_amount: u128 = if case.premine { 1000 } else { 0 };
  let etching = if case.etching {
    Some(batch::Etching {
      rune: SpacedRune { rune, spacers: 0 },
      symbol: '$',
      divisibility: 0,
      supply: format!("{}", premine_amount + 1000).parse().map_err(|_| "decimal".to_string())?,
      premine: format!("{premine_amount}").parse().map_err(|_| "decimal".to_string())?,
      terms: Some(batch::Terms {
        amount: "10".parse().map_err(|_| "decimal".to_string())?,
        cap: 100,
        height: None,
        offset: None,
      }),
      turbo: false,
    })
  } else {
    None
  };
  let file = batch::File {
    mode,
    parents: parent_ids.clone(),
    postage: if case.mode == 1 { None } else { Some(case.postage) },
    reinscribe: false,
    sat: None,
    // same-sat batches may name the sat to inscribe: a sat in the middle of the big cardinal
    // output, so that the commit transaction needs an alignment output and the commit output
    // is not output 0
    satpoint: if case.mode == 0 && case.postage % 3 == 0 && case.fund == 0 {
      Some(SatPoint { outpoint: OutPoint { txid: setup_txid, vout: first_cardinal as u32 }, offset: 1_000 + case.postage })
    } else {
      None
    },
    inscriptions: entries,
    etching,
  };

  let settings = ordkit::settings(&core, dir.path(), &["--index-runes"]);
  // in satpoints mode the commit output carries only the reveal fee, which the builder rejects
  // as dust below 330 sat: use rates at which the batch is accepted
  let fee_rate = FeeRate::try_from(if case.mode == 1 { [3.0, 10.0][case.n % 2] } else { [1.0, 2.5, 10.0][case.n % 3] }).unwrap();
  let res = ord::wallet::batch::plan::verif::run(
    &file,
    settings,
    "ord",
    utxos.clone(),
    wallet_inscriptions.clone(),
    locked.clone(),
    runic.clone(),
    parents_arg,
    fee_rate,
  )
  .map_err(|e| format!("planner: {e}"))?;

  // ---- observation
  let mut l = L::new();
  l.push(res.reveal_tx.output.len());
  for o in &res.reveal_tx.output {
    l.push(o.value.to_sat());
  }
  let envelopes = ord::ParsedEnvelope::from_transaction(&res.reveal_tx);
  l.push(envelopes.len());
  for e in &envelopes {
    l.push(e.payload.pointer().unwrap_or(u64::MAX));
  }
  for info in &res.output.inscriptions {
    l.push(info.location.outpoint.vout);
    l.push(info.location.offset);
  }
  match res.output.rune.as_ref().and_then(|r| r.location) {
    Some(loc) => {
      l.push(1u8);
      l.push(loc.vout);
    }
    None => l.push(0u8),
  }
  let commit_txid_obs = res.commit_tx.compute_txid();
  l.push(res.reveal_tx.input.len());
  l.push(res.reveal_tx.input.iter().position(|i| i.previous_output.txid == commit_txid_obs).unwrap_or(usize::MAX >> 8));

  // ---- S: mine both transactions and read everything back from a real index
  let oracle = (|| -> Result<(), String> {
    let reveal_txid = res.reveal_tx.compute_txid();
    let commit_txid = res.commit_tx.compute_txid();
    if res.output.inscriptions.len() != case.n {
      return Err(format!("{} inscriptions reported for {} entries", res.output.inscriptions.len(), case.n));
    }
    // the commit transaction spends only cardinal outputs of the wallet
    for i in &res.commit_tx.input {
      if !cardinals.contains(&i.previous_output) {
        return Err(format!("commit transaction spends {} which is not a cardinal output", i.previous_output));
      }
    }
    for (j, _) in case.parents.iter().enumerate() {
      if res.reveal_tx.input[j].previous_output != (OutPoint { txid: setup_txid, vout: j as u32 }) {
        return Err(format!("reveal input {j} is not parent {j}'s output"));
      }
    }
    if res.reveal_tx.input.iter().filter(|i| i.previous_output.txid == commit_txid).count() != 1 {
      return Err("reveal does not spend exactly one commit output".into());
    }
    // the reveal must be valid on a real node (the mock node does not verify scripts): the
    // commit input is a taproot script-path spend whose signature covers all previous outputs
    verify_reveal_spend(&res.reveal_tx, &res.commit_tx, &utxos)?;
    core.state().mempool.push(res.commit_tx.clone());
    core.mine_blocks(if case.etching { 6 } else { 1 });
    core.state().mempool.push(res.reveal_tx.clone());
    core.mine_blocks(1);
    index.update().map_err(|e| format!("index update: {e}"))?;
    for (i, info) in res.output.inscriptions.iter().enumerate() {
      let want_id = InscriptionId { txid: reveal_txid, index: i as u32 };
      if info.id != want_id {
        return Err(format!("inscription {i} reported with id {}", info.id));
      }
      let got = index.get_inscription_satpoint_by_id(info.id).map_err(|e| e.to_string())?;
      if got != Some(info.location) {
        return Err(format!("inscription {i}: reported at {}, indexed at {got:?}", info.location));
      }
      let out = &res.reveal_tx.output[info.location.outpoint.vout as usize];
      if out.script_pubkey.as_bytes() != info.destination.clone().assume_checked().script_pubkey().as_bytes() {
        return Err(format!("inscription {i}: reported destination does not own the reported output"));
      }
    }
    let extra = InscriptionId { txid: reveal_txid, index: case.n as u32 };
    if index.get_inscription_by_id(extra).map_err(|e| e.to_string())?.is_some() {
      return Err("the index has more inscriptions in the reveal than reported".into());
    }
    if res.output.parents != parent_ids {
      return Err("reported parents differ from the batch file".into());
    }
    for (j, id) in parent_ids.iter().enumerate() {
      let want = SatPoint { outpoint: OutPoint { txid: reveal_txid, vout: j as u32 }, offset: case.parents[j].1 };
      let got = index.get_inscription_satpoint_by_id(*id).map_err(|e| e.to_string())?;
      if got != Some(want) {
        return Err(format!("parent {j} indexed at {got:?}, expected {want}"));
      }
    }
    match (&res.output.rune, case.etching) {
      (None, false) => {}
      (Some(info), true) => {
        let entry = index.rune(rune).map_err(|e| e.to_string())?;
        let Some((id, entry, _)) = entry else {
          return Err("the etched rune is not in the index".into());
        };
        if entry.spaced_rune != info.rune || entry.premine != premine_amount {
          return Err(format!("rune indexed as {} premine {}", entry.spaced_rune, entry.premine));
        }
        match (info.location, case.premine) {
          (None, false) => {}
          (Some(loc), true) => {
            let balances = index.get_rune_balances_for_output(loc).map_err(|e| e.to_string())?;
            let ok = balances
              .map(|b| b.iter().any(|(r, p)| *r == info.rune && p.amount == premine_amount))
              .unwrap_or(false);
            if !ok {
              return Err(format!("premine of rune {id} not found at the reported output {loc}"));
            }
          }
          other => return Err(format!("rune location {other:?} inconsistent with premine")),
        }
      }
      (a, b) => return Err(format!("rune report {:?} inconsistent with etching = {b}", a.is_some())),
    }
    Ok(())
  })();
  Ok((l.done(), oracle))
}

/// The real command: `ord wallet batch --batch <file> --fee-rate 3` run in-process (hook
/// ord::verif::walletx) against the mock node and an in-process `ord server` on a real index.
/// The wallet owns (in outpoint order) the satpoint outputs (100k+ sat each, the best candidates
/// for funding), the parents' outputs and one 30k-sat cardinal; every other wallet output
/// (coinbases) is locked in the node. The transactions the command broadcast are taken from the
/// node's mempool.
fn run_e2e(case: &Case) -> Result<(Line, Result<(), String>), String> {
  use ord::verif::walletx as hook;
  let core = ordkit::regtest_core();
  let dir = tempfile::tempdir().map_err(|e| e.to_string())?;
  core.mine_blocks(1);
  let coinbase = core.tx(1, 0);
  let wallet_script = core.state().new_address(false).script_pubkey();
  let n = case.n;
  let mut outputs: Vec<TxOut> = Vec::new();
  for v in case.sats.iter().take(n) {
    outputs.push(TxOut { value: Amount::from_sat(*v), script_pubkey: wallet_script.clone() });
  }
  let mut position: u64 = case.sats.iter().take(n).sum();
  let mut builder = bitcoin::script::Builder::new();
  for (j, (v, off)) in case.parents.iter().enumerate() {
    let inscription = ord::Inscription {
      content_type: Some(b"text/plain".to_vec()),
      body: Some(format!("parent {j}").into_bytes()),
      pointer: Some(ord::Inscription::pointer_value(position + off)),
      ..Default::default()
    };
    builder = inscription.append_reveal_script_to_builder(builder);
    outputs.push(TxOut { value: Amount::from_sat(*v), script_pubkey: wallet_script.clone() });
    position += v;
  }
  outputs.push(TxOut { value: Amount::from_sat(30_000), script_pubkey: wallet_script.clone() });
  let mut witness = Witness::new();
  if !case.parents.is_empty() {
    witness.push(builder.into_script().as_bytes());
    witness.push([]);
  }
  let setup = Transaction {
    version: Version(2),
    lock_time: LockTime::ZERO,
    input: vec![TxIn {
      previous_output: OutPoint { txid: coinbase.compute_txid(), vout: 0 },
      script_sig: ScriptBuf::new(),
      sequence: Sequence::MAX,
      witness,
    }],
    output: outputs.clone(),
  };
  let setup_txid = setup.compute_txid();
  core.state().mempool.push(setup);
  core.mine_blocks(1);
  core.lock(OutPoint { txid: core.tx(2, 0).compute_txid(), vout: 0 });
  let mut utxos: BTreeMap<OutPoint, TxOut> = BTreeMap::new();
  for (i, o) in outputs.iter().enumerate() {
    utxos.insert(OutPoint { txid: setup_txid, vout: i as u32 }, o.clone());
  }
  let sat_outpoints: Vec<OutPoint> = (0..n).map(|i| OutPoint { txid: setup_txid, vout: i as u32 }).collect();
  let parent_ids: Vec<InscriptionId> =
    (0..case.parents.len()).map(|j| InscriptionId { txid: setup_txid, index: j as u32 }).collect();

  std::fs::create_dir_all(dir.path().join("server")).map_err(|e| e.to_string())?;
  std::fs::create_dir_all(dir.path().join("cli")).map_err(|e| e.to_string())?;
  let server = hook::spawn_server(&format!(
    "ord --regtest --bitcoin-rpc-url {} --cookie-file {} --bitcoin-data-dir {} --datadir {} --index-runes server --no-sync --http-port 0 --address 127.0.0.1",
    core.url(),
    core.cookie_file().display(),
    dir.path().join("server").display(),
    dir.path().join("server").display(),
  ));
  let cli = |args: &[&str]| -> Result<bool, String> {
    server.update()?;
    let mut v: Vec<String> = vec![
      "ord".into(),
      "--regtest".into(),
      "--index-runes".into(),
      "--bitcoin-rpc-url".into(),
      core.url(),
      "--cookie-file".into(),
      core.cookie_file().display().to_string(),
      "--datadir".into(),
      dir.path().join("cli").display().to_string(),
      "wallet".into(),
      "--server-url".into(),
      server.url(),
    ];
    v.extend(args.iter().map(|s| s.to_string()));
    hook::run_cli(&v)
  };
  let result = (|| -> Result<(Line, Result<(), String>), String> {
    cli(&["create"]).map_err(|e| format!("wallet create: {e}"))?;
    // the batch file
    let mut yaml = String::from("mode: satpoints\n");
    if !parent_ids.is_empty() {
      yaml.push_str("parents:\n");
      for id in &parent_ids {
        yaml.push_str(&format!("- {id}\n"));
      }
    }
    yaml.push_str("inscriptions:\n");
    for i in 0..n {
      let path = dir.path().join(format!("inscription{i}.txt"));
      std::fs::write(&path, format!("child {i}")).map_err(|e| e.to_string())?;
      yaml.push_str(&format!("- file: {}\n  satpoint: {}:0\n", path.display(), sat_outpoints[i]));
    }
    let batch_path = dir.path().join("batch.yaml");
    std::fs::write(&batch_path, yaml).map_err(|e| e.to_string())?;
    let before = core.mempool().len();
    cli(&["batch", "--batch", &batch_path.display().to_string(), "--fee-rate", "3", "--no-backup"])
      .map_err(|e| format!("planner: ord wallet batch: {e}"))?;
    let mempool = core.mempool();
    let new: Vec<Transaction> = mempool[before..].to_vec();
    if new.len() != 2 {
      return Err(format!("the command broadcast {} transactions", new.len()));
    }
    let (commit, reveal) = if new[1].input.iter().any(|i| i.previous_output.txid == new[0].compute_txid()) {
      (new[0].clone(), new[1].clone())
    } else {
      (new[1].clone(), new[0].clone())
    };
    let reveal_txid = reveal.compute_txid();
    let np = case.parents.len();

    // S
    let oracle = (|| -> Result<(), String> {
      for i in &commit.input {
        if sat_outpoints.contains(&i.previous_output) {
          return Err(format!(
            "the commit transaction spends {}, the output the reveal is to inscribe (commit and reveal double-spend it)",
            i.previous_output
          ));
        }
        if i.previous_output != (OutPoint { txid: setup_txid, vout: (n + np) as u32 }) {
          return Err(format!("the commit transaction spends {} which is not the wallet's cardinal output", i.previous_output));
        }
      }
      for (i, o) in sat_outpoints.iter().enumerate() {
        if reveal.input.get(np + i).map(|x| x.previous_output) != Some(*o) {
          return Err(format!("reveal input {} is not satpoint {i}'s output", np + i));
        }
      }
      let mut spent = BTreeSet::new();
      for i in commit.input.iter().chain(reveal.input.iter()) {
        if !spent.insert(i.previous_output) {
          return Err(format!("{} is spent twice by commit and reveal", i.previous_output));
        }
      }
      // the node signed the wallet inputs: strip those witnesses for the script-path check
      let mut bare = reveal.clone();
      for (k, i) in bare.input.iter_mut().enumerate() {
        if k != np + n {
          i.witness = Witness::new();
        }
      }
      verify_reveal_spend(&bare, &commit, &utxos)?;
      core.mine_blocks(1);
      if !core.mempool().is_empty() {
        return Err("the mock node did not mine both transactions".into());
      }
      server.update()?;
      for i in 0..n {
        let id = InscriptionId { txid: reveal_txid, index: i as u32 };
        let want = SatPoint { outpoint: OutPoint { txid: reveal_txid, vout: (np + i) as u32 }, offset: 0 };
        let got = server.index.get_inscription_satpoint_by_id(id).map_err(|e| e.to_string())?;
        if got != Some(want) {
          return Err(format!("inscription {i} indexed at {got:?}, the command reports {want}"));
        }
      }
      for (j, id) in parent_ids.iter().enumerate() {
        let want = SatPoint { outpoint: OutPoint { txid: reveal_txid, vout: j as u32 }, offset: case.parents[j].1 };
        let got = server.index.get_inscription_satpoint_by_id(*id).map_err(|e| e.to_string())?;
        if got != Some(want) {
          return Err(format!("parent {j} indexed at {got:?}, expected {want}"));
        }
      }
      Ok(())
    })();

    // observation in the format of the hooked cases; the reported locations are what
    // Plan::output prints for satpoints mode: (parents + i, 0)
    let mut l = L::new();
    l.push(reveal.output.len());
    for o in &reveal.output {
      l.push(o.value.to_sat());
    }
    let envelopes = ord::ParsedEnvelope::from_transaction(&reveal);
    l.push(envelopes.len());
    for e in &envelopes {
      l.push(e.payload.pointer().unwrap_or(u64::MAX));
    }
    for i in 0..n {
      l.push(np + i);
      l.push(0u8);
    }
    l.push(0u8);
    l.push(reveal.input.len());
    l.push(reveal.input.iter().position(|i| i.previous_output.txid == commit.compute_txid()).unwrap_or(usize::MAX >> 8));
    Ok((l.done(), oracle))
  })();
  server.shutdown();
  result
}

/// Consensus validity of the reveal's commit input, checked directly: witness = [signature,
/// reveal script, control block]; the control block must commit the script to the commit
/// output's taproot key, and the signature must be a valid BIP-340 signature, by the key the
/// script checks, of the BIP-341 script-spend sighash over the previous outputs in input order.
fn verify_reveal_spend(
  reveal: &Transaction,
  commit: &Transaction,
  utxos: &BTreeMap<OutPoint, TxOut>,
) -> Result<(), String> {
  use bitcoin::hashes::Hash;
  use bitcoin::secp256k1::{schnorr, Message, Secp256k1, XOnlyPublicKey};
  use bitcoin::sighash::{Prevouts, SighashCache};
  use bitcoin::taproot::{ControlBlock, LeafVersion, TapLeafHash};
  use bitcoin::{Script, TapSighashType};
  let commit_txid = commit.compute_txid();
  let mut prevouts: Vec<TxOut> = Vec::new();
  let mut ci = None;
  for (k, i) in reveal.input.iter().enumerate() {
    if i.previous_output.txid == commit_txid {
      ci = Some(k);
      prevouts.push(
        commit.output.get(i.previous_output.vout as usize).ok_or("reveal spends a missing commit output")?.clone(),
      );
    } else {
      prevouts.push(
        utxos.get(&i.previous_output).ok_or(format!("reveal spends {} which is not a wallet output", i.previous_output))?.clone(),
      );
      if !(i.witness.is_empty()) {
        return Err(format!("reveal input {k} (a wallet output) already carries a witness"));
      }
    }
  }
  let ci = ci.ok_or("reveal does not spend the commit")?;
  let w = &reveal.input[ci].witness;
  if w.len() != 3 {
    return Err(format!("commit input witness has {} elements", w.len()));
  }
  let (sig, script, control) = (w.nth(0).unwrap(), Script::from_bytes(w.nth(1).unwrap()), w.nth(2).unwrap());
  let secp = Secp256k1::verification_only();
  // the key the reveal script checks: <32-byte key> OP_CHECKSIG ...
  let mut ins = script.instructions();
  let key = match ins.next() {
    Some(Ok(bitcoin::script::Instruction::PushBytes(b))) if b.len() == 32 => {
      XOnlyPublicKey::from_slice(b.as_bytes()).map_err(|e| format!("reveal script key: {e}"))?
    }
    _ => return Err("reveal script does not start with a 32-byte key".into()),
  };
  match ins.next() {
    Some(Ok(bitcoin::script::Instruction::Op(op))) if op == bitcoin::opcodes::all::OP_CHECKSIG => {}
    _ => return Err("reveal script: key is not followed by OP_CHECKSIG".into()),
  }
  // control block commits the script to the commit output's key
  let control = ControlBlock::decode(control).map_err(|e| format!("control block: {e}"))?;
  let spk = &prevouts[ci].script_pubkey;
  if !spk.is_p2tr() {
    return Err("commit output is not taproot".into());
  }
  let output_key = XOnlyPublicKey::from_slice(&spk.as_bytes()[2..34]).map_err(|e| format!("commit output key: {e}"))?;
  if !control.verify_taproot_commitment(&secp, output_key, script) {
    return Err("the control block does not commit the reveal script to the commit output's key".into());
  }
  // signature over the script-spend sighash
  let sighash = SighashCache::new(reveal)
    .taproot_script_spend_signature_hash(
      ci,
      &Prevouts::All(&prevouts),
      TapLeafHash::from_script(script, LeafVersion::TapScript),
      TapSighashType::Default,
    )
    .map_err(|e| format!("sighash: {e}"))?;
  let sig = schnorr::Signature::from_slice(sig).map_err(|e| format!("signature encoding ({} bytes): {e}", sig.len()))?;
  secp
    .verify_schnorr(&sig, &Message::from_digest(sighash.to_byte_array()), &key)
    .map_err(|_| "the reveal's tapscript signature does not verify against the previous outputs in input order (the reveal could never be mined)".to_string())
}

pub fn gen(rng: &mut Rng, tier: &str) -> Vec<Line> {
  let n_cases = if tier == "thorough" { 300 } else { 32 };
  let mut v = Vec::new();
  for k in 0..n_cases {
    let mode = (k % 4) as u64;
    let n = *rng.pick(&[1usize, 1, 2, 3, 4, 6]);
    // satpoints mode always with parents in half of the batches, the other modes often with >= 2
    let np = if mode == 1 { *rng.pick(&[1usize, 1, 2, 2, 3, 0]) } else { *rng.pick(&[0usize, 0, 1, 2, 2, 3]) };
    let parents: Vec<(u64, u64)> = (0..np)
      .map(|_| {
        let val = *rng.pick(&[546u64, 600, 10_000, 12_345, 330]);
        let off = *rng.pick(&[0, 0, 1, val - 1, val / 2]);
        (val, off)
      })
      .collect();
    let postage = *rng.pick(&[330u64, 546, 1_000, 10_000, 9_999]) + rng.below(3);
    // wallet funding: every second batch has a first cardinal that cannot pay, next to a runic /
    // inscribed / locked output; a quarter of those have no other cardinal (must be refused)
    // (deterministic schedule, so that a quick run has every kind in every mode)
    let idx = (k / 8) * 4 + k % 4;
    let fund = if (k / 4) % 2 == 1 { 1 + (idx % 3) as u64 + if idx % 5 == 4 { 3 } else { 0 } } else { 0 };
    let spare = if fund == 0 { rng.below(2) as usize } else { 0 };
    let sats: Vec<u64> =
      if mode == 1 { (0..n + spare).map(|_| *rng.pick(&[546u64, 1_000, 10_000, 7_777])).collect() } else { Vec::new() };
    let etching = rng.chance(1, 3);
    let premine = etching && rng.chance(2, 3);
    v.push(Case { mode, n, postage, etching, premine, parents, sats, fund }.line());
  }
  // end to end through `ord wallet batch`, satpoints mode, 1-3 satpoints, with and without parents
  let n_e2e = if tier == "thorough" { 24 } else { 4 };
  for k in 0..n_e2e {
    let n = 1 + k % 3;
    let np = if k % 2 == 0 { 0 } else { 1 + (k / 2) % 2 };
    let parents: Vec<(u64, u64)> = (0..np)
      .map(|_| {
        let val = *rng.pick(&[546u64, 10_000, 12_345]);
        (val, *rng.pick(&[0, 1, val - 1]))
      })
      .collect();
    let sats: Vec<u64> = (0..n).map(|_| 100_000 + rng.below(50_000)).collect();
    v.push(Case { mode: 1, n, postage: 0, etching: false, premine: false, parents, sats, fund: 7 }.line());
  }
  v
}
