//! C20 — ordinal-aware sends never misdirect or burn inscriptions.
//!
//! case (see coq/Wallet/Builder.v run_C20):
//!   0 k j target_kind target_amount recipient change0 change1 outgoing_id outgoing_offset
//!     nU (id value)* nI (id offset)* nR id* nL id*
//!        -> TransactionBuilder::new(..).build_transaction() with fee rate k/2^j
//!           obs [0 n_in ids.. n_out (script value)..] | [1 kind detail] | [-2] panic
//!   1 n_inputs script*  -> [vsize of the dummy transaction]
//!   2 k j v             -> [FeeRate(k/2^j).fee(v)]
//!   3 script            -> [minimal_non_dust, len, is_op_return, is_witness_program]
//!   4 target prefer_under nU (id value)* nI (id offset)* nR id* nL id* nS id*
//!                       -> select_cardinal_utxo (hook) on the pool = wallet ids minus the nS ones
//!
//! Outpoint ids and script codes are mapped to real OutPoints / scripts injectively and in an
//! order-preserving way (BTreeSet iteration order = id order), and mapped back for the observation.
use bitcoin::{
  absolute::LockTime, hashes::Hash, transaction::Version, Address, Amount, Network, OutPoint, ScriptBuf, Sequence,
  Transaction, TxIn, TxOut, Txid, Witness,
};
use hxlib::*;
use ord::wallet::transaction_builder::Error as BErr;
use ord::{FeeRate, InscriptionId, Target, TransactionBuilder};
use ordinals::SatPoint;
use std::collections::{BTreeMap, BTreeSet};

const NETWORK: Network = Network::Bitcoin;
const MAX_SUPPLY: u64 = 2_100_000_000_000_000;

// ------------------------------------------------------------------ id <-> real data
pub fn outpoint_of(id: u64) -> OutPoint {
  let mut b = [0u8; 32];
  b[..8].copy_from_slice(&(id / 4).to_be_bytes());
  b[31] = 0x77;
  OutPoint { txid: Txid::from_byte_array(b), vout: (id % 4) as u32 }
}

pub fn id_of(o: &OutPoint) -> u64 {
  let b = o.txid.to_byte_array();
  u64::from_be_bytes(b[..8].try_into().unwrap()) * 4 + u64::from(o.vout)
}

pub fn script_of(code: u64) -> ScriptBuf {
  let kind = code % 8;
  let idx = code / 8;
  let fill = |n: usize| -> Vec<u8> {
    let mut v = vec![0xA0u8 ^ kind as u8; n];
    v[0] = idx as u8;
    v[1] = (idx >> 8) as u8;
    v
  };
  let mut s: Vec<u8> = Vec::new();
  match kind {
    0 => {
      s.extend([0x51, 0x20]);
      s.extend(fill(32));
    }
    1 => {
      s.extend([0x00, 0x14]);
      s.extend(fill(20));
    }
    2 => {
      s.extend([0x76, 0xa9, 0x14]);
      s.extend(fill(20));
      s.extend([0x88, 0xac]);
    }
    3 => {
      s.extend([0xa9, 0x14]);
      s.extend(fill(20));
      s.push(0x87);
    }
    4 => {
      s.extend([0x00, 0x20]);
      s.extend(fill(32));
    }
    5 => {
      assert!(idx <= 75);
      s.extend([0x6a, idx as u8]);
      s.extend(vec![0x42u8; idx as usize]);
    }
    _ => {
      s.extend(vec![0x51u8; 1 + idx as usize]);
    }
  }
  ScriptBuf::from_bytes(s)
}

fn rate_of(k: u64, j: u64) -> f64 {
  (k as f64) / (2f64).powi(j as i32)
}

fn dummy_vsize(n_inputs: usize, outputs: &[TxOut]) -> usize {
  Transaction {
    version: Version(2),
    lock_time: LockTime::ZERO,
    input: (0..n_inputs)
      .map(|_| TxIn {
        previous_output: OutPoint::null(),
        script_sig: ScriptBuf::new(),
        sequence: Sequence::ENABLE_RBF_NO_LOCKTIME,
        witness: Witness::from_slice(&[&[0u8; 64]]),
      })
      .collect(),
    output: outputs.to_vec(),
  }
  .vsize()
}

// ------------------------------------------------------------------ case structure
#[derive(Clone, Debug)]
pub struct Case {
  pub k: u64,
  pub j: u64,
  pub tkind: u64,
  pub tamount: u64,
  pub recipient: u64,
  pub change0: u64,
  pub change1: u64,
  pub out_id: u64,
  pub out_off: u64,
  pub utxos: Vec<(u64, u64)>,
  pub inscr: Vec<(u64, u64)>,
  pub runic: Vec<u64>,
  pub locked: Vec<u64>,
}

impl Case {
  pub fn line(&self) -> Line {
    let mut l = L::new()
      .p(0u8)
      .p(self.k)
      .p(self.j)
      .p(self.tkind)
      .p(self.tamount)
      .p(self.recipient)
      .p(self.change0)
      .p(self.change1)
      .p(self.out_id)
      .p(self.out_off);
    l.push(self.utxos.len());
    for (a, b) in &self.utxos {
      l.push(*a);
      l.push(*b);
    }
    l.push(self.inscr.len());
    for (a, b) in &self.inscr {
      l.push(*a);
      l.push(*b);
    }
    l.push(self.runic.len());
    for a in &self.runic {
      l.push(*a);
    }
    l.push(self.locked.len());
    for a in &self.locked {
      l.push(*a);
    }
    l.done()
  }

  pub fn parse(c: &mut Cur) -> Case {
    let k = c.u64();
    let j = c.u64();
    let tkind = c.u64();
    let tamount = c.u64();
    let recipient = c.u64();
    let change0 = c.u64();
    let change1 = c.u64();
    let out_id = c.u64();
    let out_off = c.u64();
    let n = c.usize();
    let utxos = (0..n).map(|_| (c.u64(), c.u64())).collect();
    let n = c.usize();
    let inscr = (0..n).map(|_| (c.u64(), c.u64())).collect();
    let n = c.usize();
    let runic = (0..n).map(|_| c.u64()).collect();
    let n = c.usize();
    let locked = (0..n).map(|_| c.u64()).collect();
    Case { k, j, tkind, tamount, recipient, change0, change1, out_id, out_off, utxos, inscr, runic, locked }
  }

  fn target(&self) -> Target {
    match self.tkind {
      0 => Target::Postage,
      1 => Target::ExactPostage(Amount::from_sat(self.tamount)),
      _ => Target::Value(Amount::from_sat(self.tamount)),
    }
  }
}

// ------------------------------------------------------------------ run
fn err_obs(e: &BErr) -> (u64, u64) {
  match e {
    BErr::DuplicateAddress(_) => (0, 0),
    BErr::Dust { dust_value, .. } => (1, dust_value.to_sat()),
    BErr::InvalidAddress(_) => (2, 0),
    BErr::NotEnoughCardinalUtxos => (3, 0),
    BErr::NotInWallet(_) => (4, 0),
    BErr::OutOfRange(_, max) => (5, *max),
    BErr::UtxoContainsAdditionalInscriptions { inscribed_satpoint, .. } => (6, inscribed_satpoint.offset),
    BErr::ValueOverflow => (7, 0),
  }
}

pub fn run_build(case: &Case) -> Outcome {
  let recipient = script_of(case.recipient);
  let c0s = script_of(case.change0);
  let c1s = script_of(case.change1);
  let change = [
    Address::from_script(&c0s, NETWORK).expect("change0 must be an address kind"),
    Address::from_script(&c1s, NETWORK).expect("change1 must be an address kind"),
  ];
  let mut amounts: BTreeMap<OutPoint, TxOut> = BTreeMap::new();
  for (id, v) in &case.utxos {
    // the script of a wallet UTXO is never read by the builder; vary it anyway
    amounts.insert(outpoint_of(*id), TxOut { value: Amount::from_sat(*v), script_pubkey: script_of(8 * (100 + id % 3) + id % 5) });
  }
  // order preservation self-check
  {
    let ids: Vec<u64> = amounts.keys().map(id_of).collect();
    assert!(ids.windows(2).all(|w| w[0] < w[1]), "outpoint order is not id order");
  }
  let mut inscriptions: BTreeMap<SatPoint, Vec<InscriptionId>> = BTreeMap::new();
  for (n, (id, off)) in case.inscr.iter().enumerate() {
    inscriptions
      .entry(SatPoint { outpoint: outpoint_of(*id), offset: *off })
      .or_default()
      .push(InscriptionId { txid: Txid::from_byte_array([n as u8 + 1; 32]), index: n as u32 });
  }
  let locked: BTreeSet<OutPoint> = case.locked.iter().map(|i| outpoint_of(*i)).collect();
  let runic: BTreeSet<OutPoint> = case.runic.iter().map(|i| outpoint_of(*i)).collect();
  let outgoing = SatPoint { outpoint: outpoint_of(case.out_id), offset: case.out_off };
  let fee_rate = FeeRate::try_from(rate_of(case.k, case.j)).expect("fee rate");
  let values: BTreeMap<u64, u64> = amounts.iter().map(|(o, t)| (id_of(o), t.value.to_sat())).collect();
  let inscr_keys: BTreeSet<(u64, u64)> = inscriptions.keys().map(|s| (id_of(&s.outpoint), s.offset)).collect();

  let well_formed = {
    let mut total: u128 = 0;
    let mut ok = true;
    for v in values.values() {
      total += u128::from(*v);
      ok &= *v > 0;
    }
    // an OP_RETURN recipient (a burn) needs an explicit amount of at least one sat
    let burn_ok = case.recipient % 8 != 5 || (case.tkind != 0 && case.tamount >= 1);
    ok && burn_ok && total <= u128::from(MAX_SUPPLY)
  };

  let tname = ["postage", "exact", "value"][case.tkind.min(2) as usize];
  let cat0 = format!("{tname}/r{}", case.recipient % 8);
  let case2 = case.clone();
  let recipient2 = recipient.clone();
  let out = guarded(&cat0, move || {
    let case = &case2;
    let builder = TransactionBuilder::new(
      outgoing,
      inscriptions,
      amounts,
      locked,
      runic,
      recipient2.clone(),
      change.clone(),
      fee_rate,
      case.target(),
      NETWORK,
    );
    match builder.build_transaction() {
      Err(e) => {
        let (kind, detail) = err_obs(&e);
        Outcome { obs: L::new().p(1u8).p(kind).p(detail).done(), oracle: Ok(()), cat: format!("err/{kind}") }
      }
      Ok(tx) => {
        let code_of = |s: &ScriptBuf| -> u64 {
          if *s == recipient2 {
            case.recipient
          } else if *s == c0s {
            case.change0
          } else if *s == c1s {
            case.change1
          } else {
            0xffff_ffff
          }
        };
        let mut l = L::new().p(0u8);
        l.push(tx.input.len());
        for i in &tx.input {
          l.push(id_of(&i.previous_output));
        }
        l.push(tx.output.len());
        for o in &tx.output {
          l.push(code_of(&o.script_pubkey));
          l.push(o.value.to_sat());
        }
        let oracle = clauses(case, &tx, &values, &inscr_keys, &recipient2, &c0s, &c1s, fee_rate);
        let aligned = if tx.output[0].script_pubkey == recipient2 { "aligned" } else { "padded" };
        Outcome {
          obs: l.done(),
          oracle,
          cat: format!("ok/{tname}/in{}/out{}/{aligned}", tx.input.len().min(4), tx.output.len()),
        }
      }
    }
  });
  if out.obs == panic_obs() && !well_formed {
    // not a well-formed call (a zero-valued UTXO, more than 21e14 sat in total, or an OP_RETURN
    // recipient without an explicit amount >= 1 sat): the panic is compared with the model
    // but is not held against the property
    return Outcome { obs: out.obs, oracle: Ok(()), cat: "trivial/ill-formed-call/panic".into() };
  }
  out
}

/// S: the clauses of the property statement, evaluated on a returned transaction.
#[allow(clippy::too_many_arguments)]
fn clauses(
  case: &Case,
  tx: &Transaction,
  values: &BTreeMap<u64, u64>,
  inscr: &BTreeSet<(u64, u64)>,
  recipient: &ScriptBuf,
  c0: &ScriptBuf,
  c1: &ScriptBuf,
  fee_rate: FeeRate,
) -> Result<(), String> {
  let ins: Vec<u64> = tx.input.iter().map(|i| id_of(&i.previous_output)).collect();
  // inputs: wallet outputs, no duplicates, the outgoing one is spent
  let mut seen = BTreeSet::new();
  for i in &ins {
    if !values.contains_key(i) {
      return Err(format!("input {i} is not a wallet output"));
    }
    if !seen.insert(*i) {
      return Err(format!("input {i} spent twice"));
    }
  }
  if !ins.contains(&case.out_id) {
    return Err("outgoing outpoint not spent".into());
  }
  if case.out_off >= values[&case.out_id] {
    return Err("outgoing offset outside its output".into());
  }
  // no runic, locked or other inscribed output is spent besides the outgoing one
  let inscribed: BTreeSet<u64> = inscr.iter().map(|p| p.0).collect();
  for i in &ins {
    if *i != case.out_id {
      if case.runic.contains(i) {
        return Err(format!("runic output {i} spent"));
      }
      if case.locked.contains(i) {
        return Err(format!("locked output {i} spent"));
      }
      if inscribed.contains(i) {
        return Err(format!("inscribed output {i} spent"));
      }
    }
  }
  // position of a sat of input `id` at `off` in the input sat stream
  let pos = |id: u64, off: u64| -> u128 {
    let mut p: u128 = 0;
    for i in &ins {
      if *i == id {
        return p + u128::from(off);
      }
      p += u128::from(values[i]);
    }
    unreachable!()
  };
  // output index and offset that a stream position lands on (None = fees)
  let land = |p: u128| -> Option<(usize, u128)> {
    let mut start: u128 = 0;
    for (n, o) in tx.output.iter().enumerate() {
      let v = u128::from(o.value.to_sat());
      if p < start + v {
        return Some((n, p - start));
      }
      start += v;
    }
    None
  };
  // the outgoing sat is the first sat of the single recipient output
  let rcount = tx.output.iter().filter(|o| o.script_pubkey == *recipient).count();
  if rcount != 1 {
    return Err(format!("{rcount} recipient outputs"));
  }
  let rix = tx.output.iter().position(|o| o.script_pubkey == *recipient).unwrap();
  match land(pos(case.out_id, case.out_off)) {
    Some((n, 0)) if n == rix => {}
    other => return Err(format!("outgoing sat lands at {other:?}, recipient output is {rix}")),
  }
  // no other inscription goes to the recipient or into fees
  for (id, off) in inscr {
    if ins.contains(id) && (*id, *off) != (case.out_id, case.out_off) {
      if *off >= values[id] {
        continue; // not a sat of that output
      }
      match land(pos(*id, *off)) {
        None => return Err(format!("inscription at {id}:{off} goes to fees")),
        Some((n, _)) if n == rix => return Err(format!("inscription at {id}:{off} goes to the recipient")),
        _ => {}
      }
    }
  }
  // every other output is wallet change, no output is dust
  for (n, o) in tx.output.iter().enumerate() {
    if n != rix && o.script_pubkey != *c0 && o.script_pubkey != *c1 {
      return Err(format!("output {n} is neither recipient nor change"));
    }
    if o.value < o.script_pubkey.minimal_non_dust() {
      return Err(format!("output {n} is dust: {} < {}", o.value.to_sat(), o.script_pubkey.minimal_non_dust().to_sat()));
    }
  }
  if tx.output.len() >= 2 {
    let mut scripts = BTreeSet::new();
    for o in &tx.output {
      if !scripts.insert(o.script_pubkey.clone()) {
        return Err("an address is used by two outputs".into());
      }
    }
  }
  // value / postage bounds
  let rv = tx.output[rix].value.to_sat();
  // "one output's fee": what adding one 43-vbyte output to this transaction would cost
  let vs = dummy_vsize(tx.input.len(), &tx.output);
  let slop = u128::from(fee_rate.fee(vs + 43).to_sat()) - u128::from(fee_rate.fee(vs).to_sat());
  let change_dust = u128::from(c0.minimal_non_dust().max(c1.minimal_non_dust()).to_sat());
  match case.tkind {
    0 => {
      if u128::from(rv) > 20_000 + slop {
        return Err(format!("postage {rv} above cap 20000 + {slop}"));
      }
    }
    1 => {
      // an explicit postage can only be exceeded by what cannot become a change output:
      // less than a change output's dust limit plus the fee of that output
      if u128::from(rv) > u128::from(case.tamount) + change_dust + slop {
        return Err(format!("postage {rv} above requested {} + {change_dust} + {slop}", case.tamount));
      }
    }
    _ => {
      if rv < case.tamount {
        return Err(format!("recipient receives {rv} < requested {}", case.tamount));
      }
    }
  }
  // the fee is exactly rate x estimated signed size
  let tin: u128 = ins.iter().map(|i| u128::from(values[i])).sum();
  let tout: u128 = tx.output.iter().map(|o| u128::from(o.value.to_sat())).sum();
  if tout > tin {
    return Err("outputs exceed inputs".into());
  }
  let expected = fee_rate.fee(dummy_vsize(tx.input.len(), &tx.output)).to_sat();
  if tin - tout != u128::from(expected) {
    return Err(format!("fee {} differs from rate x vsize = {expected}", tin - tout));
  }
  Ok(())
}

pub fn run(line: &Line) -> Outcome {
  let mut c = Cur::new(line);
  match c.u64() {
    0 => {
      let case = Case::parse(&mut c);
      run_build(&case)
    }
    1 => {
      let n = c.usize();
      let mut outs = Vec::new();
      while !c.at_end() {
        outs.push(TxOut { value: Amount::from_sat(1), script_pubkey: script_of(c.u64()) });
      }
      let v = dummy_vsize(n, &outs);
      Outcome { obs: L::new().p(v).done(), oracle: Ok(()), cat: "aux/vsize".into() }
    }
    2 => {
      let (k, j, v) = (c.u64(), c.u64(), c.usize());
      let f = FeeRate::try_from(rate_of(k, j)).unwrap().fee(v).to_sat();
      Outcome { obs: L::new().p(f).done(), oracle: Ok(()), cat: "aux/fee".into() }
    }
    3 => {
      let s = script_of(c.u64());
      Outcome {
        obs: L::new()
          .p(s.minimal_non_dust().to_sat())
          .p(s.len())
          .p(s.is_op_return())
          .p(s.is_witness_program())
          .done(),
        oracle: Ok(()),
        cat: "aux/dust".into(),
      }
    }
    4 => run_select(&mut c),
    _ => Outcome { obs: L::new().p(-1i64).done(), oracle: Ok(()), cat: "trivial/unknown-opcode".into() },
  }
}

/// opcode 4: the private `select_cardinal_utxo` through the hook, with the clauses of theorem (a)
/// as oracle.
fn run_select(c: &mut Cur) -> Outcome {
  let target = c.u64();
  let prefer_under = c.bool();
  let n = c.usize();
  let us: Vec<(u64, u64)> = (0..n).map(|_| (c.u64(), c.u64())).collect();
  let n = c.usize();
  let ins: Vec<(u64, u64)> = (0..n).map(|_| (c.u64(), c.u64())).collect();
  let n = c.usize();
  let runic: Vec<u64> = (0..n).map(|_| c.u64()).collect();
  let n = c.usize();
  let locked: Vec<u64> = (0..n).map(|_| c.u64()).collect();
  let n = c.usize();
  let spent: Vec<u64> = (0..n).map(|_| c.u64()).collect();
  let mut amounts: BTreeMap<OutPoint, TxOut> = BTreeMap::new();
  for (id, v) in &us {
    amounts.insert(outpoint_of(*id), TxOut { value: Amount::from_sat(*v), script_pubkey: script_of(0) });
  }
  let values: BTreeMap<u64, u64> = amounts.iter().map(|(o, t)| (id_of(o), t.value.to_sat())).collect();
  let mut inscriptions: BTreeMap<SatPoint, Vec<InscriptionId>> = BTreeMap::new();
  for (id, off) in &ins {
    inscriptions
      .entry(SatPoint { outpoint: outpoint_of(*id), offset: *off })
      .or_default()
      .push(InscriptionId { txid: Txid::from_byte_array([7; 32]), index: 0 });
  }
  let change = [
    Address::from_script(&script_of(0), NETWORK).unwrap(),
    Address::from_script(&script_of(8), NETWORK).unwrap(),
  ];
  let pool: BTreeSet<u64> = values.keys().filter(|i| !spent.contains(i)).copied().collect();
  let cat = format!("select/{}", if prefer_under { "under" } else { "over" });
  guarded(&cat.clone(), move || {
    let builder = TransactionBuilder::new(
      SatPoint { outpoint: outpoint_of(0), offset: 0 },
      inscriptions,
      amounts,
      locked.iter().map(|i| outpoint_of(*i)).collect(),
      runic.iter().map(|i| outpoint_of(*i)).collect(),
      script_of(16),
      change,
      FeeRate::try_from(1.0).unwrap(),
      Target::Postage,
      NETWORK,
    );
    let spent_o: Vec<OutPoint> = spent.iter().map(|i| outpoint_of(*i)).collect();
    match ord::wallet::transaction_builder::verif::select_cardinal_utxo(builder, &spent_o, target, prefer_under) {
      Err(e) => {
        let (kind, detail) = err_obs(&e);
        // an error is only justified when no cardinal outpoint is left in the pool
        let any = pool
          .iter()
          .any(|i| !runic.contains(i) && !locked.contains(i) && !ins.iter().any(|(o, _)| o == i));
        Outcome {
          obs: L::new().p(1u8).p(kind).p(detail).done(),
          oracle: if any { Err("NotEnoughCardinalUtxos although a cardinal outpoint is in the pool".into()) } else { Ok(()) },
          cat: format!("{cat}/none"),
        }
      }
      Ok((o, v, rest)) => {
        let id = id_of(&o);
        let rest_ids: Vec<u64> = rest.iter().map(id_of).collect();
        let mut l = L::new().p(0u8).p(id).p(v.to_sat());
        l.push(rest_ids.len());
        for r in &rest_ids {
          l.push(*r);
        }
        let oracle = (|| {
          if !pool.contains(&id) {
            return Err(format!("{id} was not in the pool"));
          }
          if runic.contains(&id) || locked.contains(&id) || ins.iter().any(|(o, _)| *o == id) {
            return Err(format!("{id} is runic, locked or inscribed"));
          }
          if values.get(&id) != Some(&v.to_sat()) {
            return Err("wrong value".to_string());
          }
          let want: Vec<u64> = pool.iter().filter(|i| **i != id).copied().collect();
          if rest_ids != want {
            return Err("the pool did not lose exactly the selected outpoint".to_string());
          }
          Ok(())
        })();
        Outcome { obs: l.done(), oracle, cat: format!("{cat}/some") }
      }
    }
  })
}

// ------------------------------------------------------------------ generator
const RATES: &[(u64, u64)] = &[
  (0, 0),
  (1, 1),
  (1, 0),
  (9, 2),
  (3, 2),
  (5, 2),
  (11, 3),
  (1, 3),
  (10, 0),
  (100, 0),
  (1000, 0),
  (1_000_000, 0),
  (1 << 62, 0),
];

fn dust_of(code: u64) -> u64 {
  script_of(code).minimal_non_dust().to_sat()
}

fn pick_script(rng: &mut Rng, recipient: bool) -> u64 {
  let kind = if recipient {
    *rng.pick(&[0, 0, 0, 1, 1, 2, 3, 4, 5, 5, 0, 1])
  } else {
    *rng.pick(&[0, 0, 0, 0, 0, 0, 1, 2, 3, 4])
  };
  let idx = if kind == 5 { *rng.pick(&[0, 1, 20, 32, 75]) } else { rng.below(3) };
  idx * 8 + kind
}

fn pick_value(rng: &mut Rng, dust: u64) -> u64 {
  match rng.below(12) {
    0 => dust - 1,
    1 => dust,
    2 => 546,
    3 => 9_999,
    4 => 10_000,
    5 => 20_000,
    6 => 20_001,
    7 => rng.range(1, 1_000),
    8 => rng.range(1, 100_000),
    9 => rng.range(1, 1_000_000_000),
    10 => *rng.pick(&[294, 330, 540, 1, 2, 50_000, 100_000_000]),
    _ => rng.range(1_000, 40_000),
  }
}

fn gen_case(rng: &mut Rng) -> Case {
  let (k, j) = *rng.pick(RATES);
  let (k, j) = if rng.chance(1, 2) { *rng.pick(&[(1, 0), (1, 1), (9, 2), (10, 0), (5, 2)]) } else { (k, j) };
  let recipient = if rng.chance(1, 60) { 6 + 8 * rng.below(3) } else { pick_script(rng, true) };
  let (mut change0, mut change1) = if rng.chance(4, 5) {
    (0, 8) // two taproot addresses, what the wallet hands out
  } else {
    (pick_script(rng, false), pick_script(rng, false))
  };
  if change0 == change1 && !rng.chance(1, 10) {
    change1 += 8;
  }
  if rng.chance(1, 50) {
    if rng.chance(1, 2) {
      change0 = if recipient % 8 < 5 { recipient } else { change0 }
    } else {
      change1 = if recipient % 8 < 5 { recipient } else { change1 }
    }
    if change0 == change1 {
      change1 += 8;
    }
  }
  let dust = dust_of(change1).max(1);
  let n = if rng.chance(1, 3) { rng.range(1, 3) } else { rng.range(1, 12) } as usize;
  let mut ids = BTreeSet::new();
  while ids.len() < n {
    ids.insert(rng.below(40));
  }
  let mut utxos: Vec<(u64, u64)> = ids.iter().map(|i| (*i, pick_value(rng, dust))).collect();
  if rng.chance(1, 200) {
    let i = rng.below(n as u64) as usize;
    utxos[i].1 = *rng.pick(&[0, u64::MAX, 1 << 63, MAX_SUPPLY, MAX_SUPPLY + 1]);
  }
  let mut inscr: Vec<(u64, u64)> = Vec::new();
  let inscr_rate = *rng.pick(&[0, 1, 1, 2, 4]);
  for (id, v) in &utxos {
    if rng.below(8) < inscr_rate {
      let cnt = if rng.chance(1, 4) { 2 } else { 1 };
      for _ in 0..cnt {
        let off = match rng.below(6) {
          0 => 0,
          1 => 1,
          2 => dust - 1,
          3 => v.saturating_sub(1),
          4 => dust,
          _ => rng.below((*v).max(1)),
        };
        let off = if *v > 0 && !rng.chance(1, 100) { off.min(v - 1) } else { off };
        inscr.push((*id, off));
      }
    }
  }
  if rng.chance(1, 50) {
    inscr.push((rng.below(44), rng.below(1000)));
  }
  inscr.sort();
  inscr.dedup();
  let mut runic = Vec::new();
  let mut locked = Vec::new();
  let rl = *rng.pick(&[0, 0, 1, 2]);
  for (id, _) in &utxos {
    if rng.below(8) < rl {
      runic.push(*id);
    }
    if rng.below(8) < rl {
      locked.push(*id);
    }
  }
  if rng.chance(1, 40) {
    runic.push(rng.below(44));
    locked.push(rng.below(44));
    runic.sort();
    runic.dedup();
    locked.sort();
    locked.dedup();
  }
  // outgoing
  let (out_id, out_off) = if !inscr.is_empty() && rng.chance(2, 3) {
    *rng.pick(&inscr)
  } else {
    let (id, v) = *rng.pick(&utxos);
    let off = match rng.below(9) {
      0 | 1 | 2 => 0,
      3 => 1,
      4 => dust - 1,
      5 => dust,
      6 => v.saturating_sub(1),
      7 => rng.below(v.max(1)),
      _ => {
        if rng.chance(1, 4) {
          v
        } else {
          rng.below(v.max(1))
        }
      }
    };
    (id, off)
  };
  let (out_id, out_off) = if rng.chance(1, 80) { (rng.below(44), out_off) } else { (out_id, out_off) };
  // target
  let rd = dust_of(recipient);
  let total: u64 = utxos.iter().map(|u| u.1).fold(0u64, |a, b| a.saturating_add(b));
  let (tkind, tamount) = match rng.below(5) {
    0 | 1 => (0, 0),
    2 => (
      1,
      match rng.below(8) {
        0 => rd.saturating_sub(1),
        1 => rd,
        2 => 546,
        3 => 1_000,
        4 => 10_000,
        5 => 20_000,
        6 => rng.range(1, 100_000),
        _ => rng.range(rd, rd + 2_000),
      },
    ),
    _ => (
      2,
      match rng.below(9) {
        0 => rd.saturating_sub(1),
        1 => rd,
        2 => 546,
        3 => 10_000,
        4 => 20_001,
        5 => rng.range(1, 1_000_000_000),
        6 => rng.below(total.max(1)),
        7 => total,
        _ => rng.range(rd, rd + 30_000),
      },
    ),
  };
  Case { k, j, tkind, tamount, recipient, change0, change1, out_id, out_off, utxos, inscr, runic, locked }
}

/// Cases aimed at the arithmetic of add_value / strip_value: the outgoing output does not cover
/// target + fee and the cardinal outputs sit within a few sat of the amounts the passes compare with.
fn gen_targeted(rng: &mut Rng) -> Case {
  let mut c = gen_case(rng);
  let (k, j) = *rng.pick(&[(1, 0), (1, 1), (9, 2), (3, 2), (5, 2), (11, 3), (10, 0), (100, 0), (1000, 0), (1, 3)]);
  c.k = k;
  c.j = j;
  c.change0 = 0;
  c.change1 = 8;
  if c.recipient % 8 > 5 || c.recipient == 0 || c.recipient == 8 {
    c.recipient = 16 + rng.below(5);
  }
  c.inscr.clear();
  c.runic.clear();
  c.locked.clear();
  let rate = FeeRate::try_from(rate_of(k, j)).unwrap();
  let rs = script_of(c.recipient);
  let rd = rs.minimal_non_dust().to_sat();
  let out_v = rng.range(rd.max(1), rd + 400);
  let off = if rng.chance(1, 4) { rng.below(out_v.min(400)) } else { 0 };
  let n_extra = rng.range(1, 4) as usize;
  let min_value = match c.tkind {
    0 => rd,
    _ => {
      c.tamount = match rng.below(4) {
        0 => rd,
        1 => 10_000,
        2 => rng.range(rd, 30_000),
        _ => rng.range(rd, 2_000),
      };
      c.tamount
    }
  };
  let mut outs = vec![TxOut { value: Amount::from_sat(1), script_pubkey: rs }];
  let mut n_in = 1;
  if off != 0 {
    outs.insert(0, TxOut { value: Amount::from_sat(1), script_pubkey: script_of(8) });
    if off < 330 {
      n_in += 1;
    }
  }
  let fee0 = rate.fee(dummy_vsize(n_in, &outs)).to_sat();
  let add = rate.fee(57).to_sat();
  let deficit = (min_value + fee0).saturating_sub(out_v - off);
  let mut utxos = vec![(10u64, out_v)];
  if off != 0 && off < 330 {
    utxos.push((3, rng.range(330 - off, 330 - off + 300)));
  }
  // variant aimed at the re-estimating loop: the cardinal outputs together bring the recipient
  // output within a few sat of min_value + fee(vsize with all of them as inputs)
  if rng.chance(1, 2) {
    let fee_all = rate.fee(dummy_vsize(n_in + n_extra, &outs)).to_sat();
    let need = (min_value + fee_all).saturating_sub(out_v - off);
    let mut left = need;
    for i in 0..n_extra {
      let share = if i + 1 == n_extra { left } else { rng.below(left + 1) };
      left -= share;
      let wiggle = if i + 1 == n_extra { *rng.pick(&[0i64, 0, 1, -1, 2, -2, 330, 331]) } else { 0 };
      utxos.push((20 + i as u64, share.saturating_add_signed(wiggle).max(1)));
    }
    utxos.sort();
    c.utxos = utxos;
    c.out_id = 10;
    c.out_off = off;
    return c;
  }
  // split the deficit over n_extra cardinal outputs, each within a few sat of deficit_i + add
  let mut left = deficit;
  for i in 0..n_extra {
    let share = if i + 1 == n_extra { left } else { rng.below(left + 1) };
    left -= share;
    let wiggle = *rng.pick(&[0i64, 0, 1, -1, 2, 3, 5, 331, 330, 329, 400, -3]);
    let strip = if rng.chance(1, 6) { *rng.pick(&[10_000u64, 20_000, 20_001, 10_330, 10_331]) + rate.fee(43).to_sat() } else { 0 };
    let v = (share + add + strip).saturating_add_signed(wiggle).max(1);
    utxos.push((20 + i as u64, v));
  }
  utxos.sort();
  c.utxos = utxos;
  c.out_id = 10;
  c.out_off = off;
  c
}

pub fn gen(rng: &mut Rng, tier: &str) -> Vec<Line> {
  let n: usize = if tier == "thorough" { 1_000_000 } else { 24_000 };
  let mut v = Vec::new();
  // auxiliary ties: dust / script length table, vsize, fee
  for kind in 0..8u64 {
    for idx in [0u64, 1, 2, 20, 32, 75] {
      if kind == 5 || idx <= 2 {
        v.push(L::new().p(3u8).p(idx * 8 + kind).done());
      }
    }
  }
  for n_in in (0..=13u64).chain([252, 253, 254, 300]) {
    for _ in 0..6 {
      let mut l = L::new().p(1u8).p(n_in);
      let n_out = *rng.pick(&[0u64, 1, 1, 2, 2, 3, 3, 4, 10]);
      for _ in 0..n_out {
        l.push(pick_script(rng, true));
      }
      v.push(l.done());
    }
  }
  {
    let mut l = L::new().p(1u8).p(2u8);
    for _ in 0..253 {
      l.push(0u8);
    }
    v.push(l.done());
  }
  for (k, j) in RATES {
    for vs in [0u64, 1, 2, 3, 43, 57, 58, 99, 100, 153, 154, 211, 1000, 100_000] {
      v.push(L::new().p(2u8).p(*k).p(*j).p(vs).done());
    }
    for _ in 0..20 {
      v.push(L::new().p(2u8).p(*k).p(*j).p(rng.range(60, 2000)).done());
    }
  }
  for i in 0..n {
    let c = if i % 4 == 3 { gen_targeted(rng) } else { gen_case(rng) };
    v.push(c.line());
  }
  // the coin selection alone
  for _ in 0..n / 6 {
    let c = gen_case(rng);
    let target = match rng.below(4) {
      0 => c.utxos[rng.below(c.utxos.len() as u64) as usize].1,
      1 => c.utxos[rng.below(c.utxos.len() as u64) as usize].1.saturating_add(1),
      2 => c.utxos[rng.below(c.utxos.len() as u64) as usize].1.saturating_sub(1),
      _ => rng.range(0, 30_000),
    };
    let mut l = L::new().p(4u8).p(target).p(rng.chance(1, 2));
    l.push(c.utxos.len());
    for (a, b) in &c.utxos {
      l.push(*a);
      l.push(*b);
    }
    l.push(c.inscr.len());
    for (a, b) in &c.inscr {
      l.push(*a);
      l.push(*b);
    }
    l.push(c.runic.len());
    for a in &c.runic {
      l.push(*a);
    }
    l.push(c.locked.len());
    for a in &c.locked {
      l.push(*a);
    }
    let spent: Vec<u64> = c.utxos.iter().filter(|_| rng.chance(1, 5)).map(|u| u.0).collect();
    l.push(spent.len());
    for a in &spent {
      l.push(*a);
    }
    v.push(l.done());
  }
  v
}
