//! Harness for the wallet transaction builder (C20) and batch planner (C21).
use hxlib::*;

mod c20;
mod c21;

fn main() {
  let args = parse_args();
  match args.prop.as_str() {
    "C20" => drive(&args, c20::gen, c20::run),
    "C21" => drive(&args, c21::gen, c21::run),
    p => {
      eprintln!("unknown property {p}");
      std::process::exit(2);
    }
  }
}
