//! S: an independent reading of docs/src/runes/specification.md ("Deciphering")
//! and of the text of property C25, written without looking at the Coq model
//! and without calling any parsing code of `ordinals` (only its data types).
//!
//! Flaw order of the property: invalid script / non-push opcode, bad varint, the
//! first message-structure error in stream order (truncated field, trailing
//! integers, bad edict rune ID, bad edict output), supply overflow,
//! unrecognized flag, unrecognized even tag.  All violations that exist are
//! collected stage by stage and the first one is reported.
//!
//! Two places where the prose of specification.md is looser than the reference
//! implementation's tests; the tests are followed here:
//!  - the `Terms` and `Turbo` flags are recognized only inside an etching
//!    (test `terms_flag_without_etching_flag_produces_cenotaph`);
//!  - a varint may have 19 bytes (the 19th carrying at most 2 bits), cf. C26.
use ordinals::{Artifact, Cenotaph, Edict, Etching, Flaw, Rune, RuneId, Runestone, Terms};
use std::collections::BTreeMap;

fn cenotaph(flaw: Flaw) -> Option<Artifact> {
  Some(Artifact::Cenotaph(Cenotaph { flaw: Some(flaw), etching: None, mint: None }))
}

/// "Data pushes are opcodes 0 through 78 inclusive"; a push that runs past the
/// end of the script is an invalid script.
fn payload_of(s: &[u8]) -> Result<Vec<u8>, Flaw> {
  let mut out = Vec::new();
  let mut i = 2usize;
  while i < s.len() {
    let op = s[i];
    i += 1;
    if op >= 79 {
      return Err(Flaw::Opcode);
    }
    let lenlen = match op {
      76 => 1,
      77 => 2,
      78 => 4,
      _ => 0,
    };
    let mut n = usize::from(op);
    if lenlen > 0 {
      if s.len() - i < lenlen {
        return Err(Flaw::InvalidScript);
      }
      n = 0;
      for k in (0..lenlen).rev() {
        n = n * 256 + usize::from(s[i + k]);
      }
      i += lenlen;
    }
    if s.len() - i < n {
      return Err(Flaw::InvalidScript);
    }
    out.extend_from_slice(&s[i..i + n]);
    i += n;
  }
  Ok(out)
}

/// LEB128, at most 19 bytes, value below 2^128, terminated.
fn leb128_all(p: &[u8]) -> Option<Vec<u128>> {
  let mut out = Vec::new();
  let mut i = 0usize;
  while i < p.len() {
    let t = p[i..].iter().position(|b| b & 0x80 == 0)?;
    if t >= 19 {
      return None;
    }
    let mut v: u128 = 0;
    for j in (0..=t).rev() {
      let d = u128::from(p[i + j] & 0x7f);
      if v > (u128::MAX >> 7) {
        return None;
      }
      v = (v << 7) | d;
    }
    out.push(v);
    i += t + 1;
  }
  Some(out)
}

fn take<T>(fields: &mut BTreeMap<u128, Vec<u128>>, tag: u128, k: usize, f: impl Fn(&[u128]) -> Option<T>) -> Option<T> {
  let vals = fields.get(&tag)?.clone();
  if vals.len() < k {
    return None;
  }
  let r = f(&vals[..k])?;
  if vals.len() == k {
    fields.remove(&tag);
  } else {
    fields.insert(tag, vals[k..].to_vec());
  }
  Some(r)
}

pub fn spec_decipher(scripts: &[Vec<u8>]) -> Option<Artifact> {
  let n_out = scripts.len() as u128;
  // first output beginning OP_RETURN OP_13
  let s = scripts.iter().find(|s| s.len() >= 2 && s[0] == 0x6a && s[1] == 0x5d)?;
  let payload = match payload_of(s) {
    Ok(p) => p,
    Err(f) => return cenotaph(f),
  };
  let Some(ints) = leb128_all(&payload) else {
    return cenotaph(Flaw::Varint);
  };

  // untyped message
  let mut violations: Vec<Flaw> = Vec::new();
  let mut fields: BTreeMap<u128, Vec<u128>> = BTreeMap::new();
  let mut edicts: Vec<Edict> = Vec::new();
  let mut k = 0usize;
  let mut body: Option<&[u128]> = None;
  while k < ints.len() {
    if ints[k] == 0 {
      body = Some(&ints[k + 1..]);
      break;
    }
    if k + 1 == ints.len() {
      violations.push(Flaw::TruncatedField);
      break;
    }
    fields.entry(ints[k]).or_default().push(ints[k + 1]);
    k += 2;
  }
  if let Some(body) = body {
    let (mut base_block, mut base_tx) = (0u128, 0u128);
    let mut j = 0usize;
    while j < body.len() {
      if body.len() - j < 4 {
        violations.push(Flaw::TrailingIntegers);
        break;
      }
      let (db, dt, amount, output) = (body[j], body[j + 1], body[j + 2], body[j + 3]);
      // delta decoding; everything must stay inside u64 / u32
      let in64 = |x: u128| x <= u128::from(u64::MAX);
      let in32 = |x: u128| x <= u128::from(u32::MAX);
      let ok_id = in64(db) && in32(dt) && {
        let block = base_block + db;
        let tx = if db == 0 { base_tx + dt } else { dt };
        in64(block) && in32(tx) && !(block == 0 && tx > 0)
      };
      if !ok_id {
        violations.push(Flaw::EdictRuneId);
        break;
      }
      let block = base_block + db;
      let tx = if db == 0 { base_tx + dt } else { dt };
      if output > n_out {
        violations.push(Flaw::EdictOutput);
        break;
      }
      base_block = block;
      base_tx = tx;
      edicts.push(Edict { id: RuneId { block: block as u64, tx: tx as u32 }, amount, output: output as u32 });
      j += 4;
    }
  }

  // typed runestone
  let flags = take(&mut fields, 2, 1, |v| Some(v[0])).unwrap_or(0);
  let mut unrecognized = flags & !1;
  let to64 = |v: &[u128]| u64::try_from(v[0]).ok();
  let etching = if flags & 1 != 0 {
    unrecognized &= !0b110;
    let divisibility = take(&mut fields, 1, 1, |v| u8::try_from(v[0]).ok().filter(|d| *d <= 38));
    let premine = take(&mut fields, 6, 1, |v| Some(v[0]));
    let rune = take(&mut fields, 4, 1, |v| Some(Rune(v[0])));
    let spacers = take(&mut fields, 3, 1, |v| u32::try_from(v[0]).ok().filter(|s| *s <= 0x7ff_ffff));
    let symbol = take(&mut fields, 5, 1, |v| u32::try_from(v[0]).ok().and_then(char::from_u32));
    let terms = if flags & 2 != 0 {
      Some(Terms {
        cap: take(&mut fields, 8, 1, |v| Some(v[0])),
        amount: take(&mut fields, 10, 1, |v| Some(v[0])),
        height: (take(&mut fields, 12, 1, to64), take(&mut fields, 14, 1, to64)),
        offset: (take(&mut fields, 16, 1, to64), take(&mut fields, 18, 1, to64)),
      })
    } else {
      None
    };
    Some(Etching { divisibility, premine, rune, spacers, symbol, terms, turbo: flags & 4 != 0 })
  } else {
    None
  };
  let mint = take(&mut fields, 20, 2, |v| {
    let block = u64::try_from(v[0]).ok()?;
    let tx = u32::try_from(v[1]).ok()?;
    (!(block == 0 && tx > 0)).then_some(RuneId { block, tx })
  });
  let pointer = take(&mut fields, 22, 1, |v| u32::try_from(v[0]).ok().filter(|p| u128::from(*p) < n_out));

  if let Some(e) = &etching {
    let premine = e.premine.unwrap_or(0);
    let cap = e.terms.and_then(|t| t.cap).unwrap_or(0);
    let amount = e.terms.and_then(|t| t.amount).unwrap_or(0);
    let fits = cap.checked_mul(amount).and_then(|m| m.checked_add(premine)).is_some();
    if !fits {
      violations.push(Flaw::SupplyOverflow);
    }
  }
  if unrecognized != 0 {
    violations.push(Flaw::UnrecognizedFlag);
  }
  if fields.keys().any(|t| t % 2 == 0) {
    violations.push(Flaw::UnrecognizedEvenTag);
  }

  Some(match violations.first() {
    Some(f) => Artifact::Cenotaph(Cenotaph { flaw: Some(*f), etching: etching.and_then(|e| e.rune), mint }),
    None => Artifact::Runestone(Runestone { edicts, etching, mint, pointer }),
  })
}

/// WF of the property: "every well-formed runestone that ord enciphers".
/// `n` = number of outputs of the transaction carrying it.
pub fn well_formed(r: &Runestone, n: usize) -> bool {
  let id_ok = |id: &RuneId| !(id.block == 0 && id.tx > 0);
  let n = n as u64;
  n <= u64::from(u32::MAX)
    && r.edicts.iter().all(|e| id_ok(&e.id) && u64::from(e.output) <= n)
    && r.mint.as_ref().map(id_ok).unwrap_or(true)
    && r.pointer.map(|p| u64::from(p) < n).unwrap_or(true)
    && r
      .etching
      .map(|e| {
        e.divisibility.map(|d| d <= 38).unwrap_or(true)
          && e.spacers.map(|s| s <= 0x7ff_ffff).unwrap_or(true)
          && {
            let cap = e.terms.and_then(|t| t.cap).unwrap_or(0);
            let amount = e.terms.and_then(|t| t.amount).unwrap_or(0);
            cap.checked_mul(amount).and_then(|m| m.checked_add(e.premine.unwrap_or(0))).is_some()
          }
      })
      .unwrap_or(true)
}
