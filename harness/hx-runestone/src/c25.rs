//! C25 — runestones round-trip; deciphering is total with the documented flaws.
//!
//! Wire format (same text as at the top of coq/Codec/Runestone.v), all integers >= 0:
//!   scripts   := count {len {byte}}                 output scripts ({x} = repetition)
//!   x?        := 0 | 1 x
//!   runestone := n_edicts {block tx amount output} etching? mint? pointer?
//!   etching   := divisibility? premine? rune? spacers? symbol? terms? turbo(0|1)
//!   terms     := amount? cap? height_start? height_end? offset_start? offset_end?
//!   mint      := block tx
//!   artifact  := 0                                   None
//!              | 1 runestone                         Some(Artifact::Runestone)
//!              | 2 flaw rune? mint?                  Some(Artifact::Cenotaph); flaw = declaration index in flaw.rs
//! case  0 scripts                    -> artifact                      (Runestone::decipher)
//! case  1 scripts_pre scripts_post runestone
//!                                    -> len {byte} artifact           (encipher bytes, then decipher of pre ++ [encipher r] ++ post)
//! case  2 {byte}                     -> {0 len {byte} | 1 opcode} end  (script.instructions(); end = 2 finished, 3 error)
//! case  3 {byte}                     -> {byte}                         (Builder::new().push_slice(bytes))
//! A Rust panic is the line `-2`.
use crate::spec;
use bitcoin::{
  absolute::LockTime,
  script::{self, Instruction, PushBytes},
  transaction::Version,
  Amount, ScriptBuf, Transaction, TxOut,
};
use hxlib::*;
use ordinals::{varint, Artifact, Edict, Etching, Flaw, Rune, RuneId, Runestone, Terms};

// ------------------------------------------------------------------ wire

fn w_opt<T: Into<Z>>(l: &mut L, o: Option<T>) {
  l.opt(o)
}

fn w_id_opt(l: &mut L, o: Option<RuneId>) {
  match o {
    None => l.push(0u8),
    Some(id) => {
      l.push(1u8);
      l.push(id.block);
      l.push(id.tx);
    }
  }
}

fn w_runestone(l: &mut L, r: &Runestone) {
  l.push(r.edicts.len());
  for e in &r.edicts {
    l.push(e.id.block);
    l.push(e.id.tx);
    l.push(e.amount);
    l.push(e.output);
  }
  match &r.etching {
    None => l.push(0u8),
    Some(e) => {
      l.push(1u8);
      w_opt(l, e.divisibility);
      w_opt(l, e.premine);
      w_opt(l, e.rune.map(|r| r.0));
      w_opt(l, e.spacers);
      w_opt(l, e.symbol.map(|c| c as u32));
      match &e.terms {
        None => l.push(0u8),
        Some(t) => {
          l.push(1u8);
          w_opt(l, t.amount);
          w_opt(l, t.cap);
          w_opt(l, t.height.0);
          w_opt(l, t.height.1);
          w_opt(l, t.offset.0);
          w_opt(l, t.offset.1);
        }
      }
      l.push(e.turbo);
    }
  }
  w_id_opt(l, r.mint);
  w_opt(l, r.pointer);
}

fn w_artifact(l: &mut L, a: &Option<Artifact>) {
  match a {
    None => l.push(0u8),
    Some(Artifact::Runestone(r)) => {
      l.push(1u8);
      w_runestone(l, r);
    }
    Some(Artifact::Cenotaph(c)) => {
      l.push(2u8);
      match c.flaw {
        Some(f) => l.push(f as u8),
        None => l.push(-1i32),
      }
      w_opt(l, c.etching.map(|r| r.0));
      w_id_opt(l, c.mint);
    }
  }
}

fn w_scripts(l: &mut L, ss: &[Vec<u8>]) {
  l.push(ss.len());
  for s in ss {
    l.bytes(s);
  }
}

fn r_scripts(c: &mut Cur) -> Vec<Vec<u8>> {
  let n = c.usize();
  (0..n).map(|_| c.bytes()).collect()
}

fn r_opt_u128(c: &mut Cur) -> Option<u128> {
  c.opt_u128()
}

fn r_runestone(c: &mut Cur) -> Runestone {
  let n = c.usize();
  let edicts = (0..n)
    .map(|_| {
      let block = c.u64();
      let tx = c.u32();
      let amount = c.u128();
      let output = c.u32();
      Edict { id: RuneId { block, tx }, amount, output }
    })
    .collect();
  let etching = if c.bool() {
    let divisibility = r_opt_u128(c).map(|v| u8::try_from(v).unwrap());
    let premine = r_opt_u128(c);
    let rune = r_opt_u128(c).map(Rune);
    let spacers = r_opt_u128(c).map(|v| u32::try_from(v).unwrap());
    let symbol = r_opt_u128(c).map(|v| char::from_u32(u32::try_from(v).unwrap()).unwrap());
    let terms = if c.bool() {
      let amount = r_opt_u128(c);
      let cap = r_opt_u128(c);
      let u = |v: u128| u64::try_from(v).unwrap();
      let hs = r_opt_u128(c).map(u);
      let he = r_opt_u128(c).map(u);
      let os = r_opt_u128(c).map(u);
      let oe = r_opt_u128(c).map(u);
      Some(Terms { amount, cap, height: (hs, he), offset: (os, oe) })
    } else {
      None
    };
    let turbo = c.bool();
    Some(Etching { divisibility, premine, rune, spacers, symbol, terms, turbo })
  } else {
    None
  };
  let mint = if c.bool() {
    let block = c.u64();
    let tx = c.u32();
    Some(RuneId { block, tx })
  } else {
    None
  };
  let pointer = r_opt_u128(c).map(|v| u32::try_from(v).unwrap());
  Runestone { edicts, etching, mint, pointer }
}

fn tx_of(scripts: &[Vec<u8>]) -> Transaction {
  Transaction {
    version: Version::TWO,
    lock_time: LockTime::ZERO,
    input: Vec::new(),
    output: scripts.iter().map(|s| TxOut { value: Amount::from_sat(0), script_pubkey: ScriptBuf::from_bytes(s.clone()) }).collect(),
  }
}

// ------------------------------------------------------------------ generators

const U64M: u128 = u64::MAX as u128;
const U32M: u128 = u32::MAX as u128;

/// a u128 around the interesting boundaries
fn edge128(rng: &mut Rng) -> u128 {
  match rng.below(12) {
    0 => 0,
    1 => 1,
    2 => u128::MAX,
    3 => u128::MAX - 1,
    4 => U64M,
    5 => U64M + 1,
    6 => U32M,
    7 => U32M + 1,
    8 => 1u128 << rng.below(128),
    9 => (1u128 << rng.below(128)).wrapping_sub(1),
    _ => rng.u128_any_width(),
  }
}
fn edge64(rng: &mut Rng) -> u64 {
  match rng.below(8) {
    0 => 0,
    1 => 1,
    2 => u64::MAX,
    3 => u64::MAX - 1,
    4 => u32::MAX as u64,
    5 => u32::MAX as u64 + 1,
    _ => rng.u64_any_width(),
  }
}
fn edge32(rng: &mut Rng) -> u32 {
  match rng.below(6) {
    0 => 0,
    1 => 1,
    2 => u32::MAX,
    3 => u32::MAX - 1,
    _ => (rng.u64_any_width() & 0xffff_ffff) as u32,
  }
}
fn a_char(rng: &mut Rng) -> char {
  let cands = [0u32, 0x24, 0xa4, 0xd7ff, 0xe000, 0x10ffff, 0x1f9ff, 0x2022];
  if rng.chance(1, 2) {
    char::from_u32(*rng.pick(&cands)).unwrap()
  } else {
    loop {
      if let Some(c) = char::from_u32(rng.below(0x110000) as u32) {
        return c;
      }
    }
  }
}

fn opt<T>(rng: &mut Rng, present: bool, f: impl FnOnce(&mut Rng) -> T) -> Option<T> {
  if present {
    Some(f(rng))
  } else {
    None
  }
}

/// scripts that do not start with OP_RETURN OP_13
fn filler(rng: &mut Rng) -> Vec<u8> {
  match rng.below(10) {
    0 => vec![],
    1 => vec![0x6a],
    2 => vec![0x6a, 0x01, 0x5d],
    3 => vec![0x6a, 0x5c, 0x01, 0x00],
    4 => vec![0x5d, 0x6a],
    5 => vec![0x6a, 0x4c],
    6 => vec![0x4e, 0xff, 0xff],
    7 => {
      let mut v = vec![0x00, 0x14];
      v.extend(rng.bytes(20));
      v
    }
    8 => {
      let mut v = vec![0x51, 0x20];
      v.extend(rng.bytes(32));
      v
    }
    _ => vec![0x6a, 0x5e, 0x5d],
  }
}

fn any_script(rng: &mut Rng) -> Vec<u8> {
  match rng.below(4) {
    0 => vec![0x6a, 0x5d, 0x02, 0x14, 0x01],
    1 => vec![0x6a, 0x5d],
    _ => filler(rng),
  }
}

/// A runestone chosen by a presence mask (bit per optional field) with extreme values.
/// `spoil`: which well-formedness condition to break (0 = none).
fn a_runestone(rng: &mut Rng, mask: u32, n_out: usize, n_edicts: usize, spoil: u64) -> Runestone {
  let b = |i: u32| mask >> i & 1 == 1;
  let valid_id = |rng: &mut Rng| -> RuneId {
    match rng.below(8) {
      0 => RuneId { block: 0, tx: 0 },
      1 => RuneId { block: u64::MAX, tx: u32::MAX },
      2 => RuneId { block: 1, tx: 0 },
      3 => RuneId { block: 840_000, tx: 1 },
      _ => {
        let block = edge64(rng);
        RuneId { block, tx: if block == 0 { 0 } else { edge32(rng) } }
      }
    }
  };
  // a small pool so that ids repeat and arrive unsorted
  let pool: Vec<RuneId> = (0..4).map(|_| valid_id(rng)).collect();
  let mut edicts: Vec<Edict> = (0..n_edicts)
    .map(|_| {
      let id = if rng.chance(3, 4) { *rng.pick(&pool) } else { valid_id(rng) };
      let output = match rng.below(4) {
        0 => n_out as u32,
        1 => 0,
        _ => rng.below(n_out as u64 + 1) as u32,
      };
      Edict { id, amount: edge128(rng), output }
    })
    .collect();
  let mut etching = opt(rng, b(0), |rng| {
    let terms = opt(rng, b(6), |rng| Terms {
      amount: opt(rng, b(7), edge128),
      cap: opt(rng, b(8), edge128),
      height: (opt(rng, b(9), edge64), opt(rng, b(10), edge64)),
      offset: (opt(rng, b(11), edge64), opt(rng, b(12), edge64)),
    });
    Etching {
      divisibility: opt(rng, b(1), |rng| *rng.pick(&[0u8, 1, 18, 37, 38])),
      premine: opt(rng, b(2), edge128),
      rune: opt(rng, b(3), |rng| Rune(edge128(rng))),
      spacers: opt(rng, b(4), |rng| match rng.below(4) {
        0 => 0,
        1 => 0x7ff_ffff,
        2 => 1,
        _ => rng.below(0x800_0000) as u32,
      }),
      symbol: opt(rng, b(5), a_char),
      terms,
      turbo: b(13),
    }
  });
  // keep the supply inside u128 unless spoiled: shrink cap/amount/premine
  if let Some(e) = etching.as_mut() {
    let fits = |e: &Etching| {
      let cap = e.terms.and_then(|t| t.cap).unwrap_or(0);
      let amount = e.terms.and_then(|t| t.amount).unwrap_or(0);
      cap.checked_mul(amount).and_then(|m| m.checked_add(e.premine.unwrap_or(0))).is_some()
    };
    if !fits(e) && spoil != 5 {
      match rng.below(3) {
        0 => {
          // boundary: cap * amount + premine == u128::MAX exactly
          if let Some(t) = e.terms.as_mut() {
            if t.cap.is_some() && t.amount.is_some() && e.premine.is_some() {
              let cap = u128::from(rng.u64_any_width()).max(1);
              let amount = u128::from(rng.u64_any_width() >> 1);
              t.cap = Some(cap);
              t.amount = Some(amount);
              e.premine = Some(u128::MAX - cap * amount);
            }
          }
        }
        _ => {}
      }
      while !fits(e) {
        if let Some(t) = e.terms.as_mut() {
          if let Some(c) = t.cap.as_mut() {
            *c >>= 17;
          }
          if let Some(a) = t.amount.as_mut() {
            *a >>= 13;
          }
        }
        if let Some(p) = e.premine.as_mut() {
          *p >>= 1;
        }
      }
    }
  }
  let mut mint = opt(rng, b(14), valid_id);
  let mut pointer = opt(rng, b(15), |rng| match rng.below(3) {
    0 => 0,
    1 => n_out as u32 - 1,
    _ => rng.below(n_out as u64) as u32,
  });
  match spoil {
    1 => {
      if let Some(e) = edicts.first_mut() {
        e.id = RuneId { block: 0, tx: 1 + edge32(rng) / 2 };
      }
    }
    2 => {
      if let Some(e) = edicts.last_mut() {
        e.output = n_out as u32 + 1 + (edge32(rng) >> 2);
      }
    }
    3 => mint = Some(RuneId { block: 0, tx: 1 + edge32(rng) / 2 }),
    4 => pointer = Some(n_out as u32 + (edge32(rng) >> 2)),
    5 => {
      if let Some(e) = etching.as_mut() {
        e.premine = Some(u128::MAX);
        e.terms = Some(Terms { cap: Some(1 + edge128(rng) / 2), amount: Some(1 + edge128(rng) / 2), ..e.terms.unwrap_or_default() });
      }
    }
    6 => {
      if let Some(e) = etching.as_mut() {
        e.divisibility = Some(*rng.pick(&[39u8, 40, 255, 128]));
      }
    }
    7 => {
      if let Some(e) = etching.as_mut() {
        e.spacers = Some(*rng.pick(&[0x800_0000u32, u32::MAX, 0x800_0001]));
      }
    }
    _ => {}
  }
  Runestone { edicts, etching, mint, pointer }
}

fn roundtrip_case(rng: &mut Rng, mask: u32, n_edicts: usize, spoil: u64) -> Line {
  let n_pre = if rng.chance(1, 2) { 0 } else { rng.below(3) as usize };
  let n_post = rng.below(3) as usize;
  let pre: Vec<Vec<u8>> = (0..n_pre).map(|_| filler(rng)).collect();
  let post: Vec<Vec<u8>> = (0..n_post).map(|_| any_script(rng)).collect();
  let n_out = n_pre + 1 + n_post;
  let r = a_runestone(rng, mask, n_out, n_edicts, spoil);
  let mut l = L::new().p(1u8);
  w_scripts(&mut l, &pre);
  w_scripts(&mut l, &post);
  w_runestone(&mut l, &r);
  l.done()
}

/// push `data` with a chosen encoding (0 = shortest, 1..3 = PUSHDATA1/2/4 forced)
fn push_with(out: &mut Vec<u8>, data: &[u8], style: u64) {
  let n = data.len();
  match style {
    1 if n < 0x100 => {
      out.push(0x4c);
      out.push(n as u8);
    }
    2 if n < 0x10000 => {
      out.push(0x4d);
      out.extend_from_slice(&(n as u16).to_le_bytes());
    }
    3 => {
      out.push(0x4e);
      out.extend_from_slice(&(n as u32).to_le_bytes());
    }
    _ => {
      if n < 0x4c {
        out.push(n as u8);
      } else if n < 0x100 {
        out.push(0x4c);
        out.push(n as u8);
      } else {
        out.push(0x4d);
        out.extend_from_slice(&(n as u16).to_le_bytes());
      }
    }
  }
  out.extend_from_slice(data);
}

/// OP_RETURN OP_13 followed by the payload cut into pushes of random sizes and encodings
fn script_of_payload(rng: &mut Rng, payload: &[u8]) -> Vec<u8> {
  let mut s = vec![0x6a, 0x5d];
  let mut i = 0;
  if rng.chance(1, 8) {
    s.push(0x00); // empty push
  }
  while i < payload.len() {
    let max = payload.len() - i;
    let n = match rng.below(4) {
      0 => max,
      1 => 1,
      _ => 1 + rng.below(max as u64) as usize,
    };
    let style = if rng.chance(1, 3) { rng.below(4) } else { 0 };
    push_with(&mut s, &payload[i..i + n], style);
    i += n;
    if rng.chance(1, 16) {
      s.push(0x00);
    }
  }
  s
}

fn varints(ints: &[u128]) -> Vec<u8> {
  let mut p = Vec::new();
  for n in ints {
    varint::encode_to_vec(*n, &mut p);
  }
  p
}

const KNOWN_TAGS: [u128; 14] = [2, 4, 6, 8, 10, 12, 14, 16, 18, 20, 22, 1, 3, 5];

/// value for a tag, around that field's acceptance boundary
fn value_for(rng: &mut Rng, tag: u128, n_out: usize) -> u128 {
  let around = |rng: &mut Rng, m: u128| match rng.below(4) {
    0 => m,
    1 => m.wrapping_add(1),
    2 => m.saturating_sub(1),
    _ => rng.below((m.min(u64::MAX as u128) as u64).saturating_add(1)) as u128,
  };
  if rng.chance(1, 6) {
    return edge128(rng);
  }
  match tag {
    2 => match rng.below(6) {
      0 => 1,
      1 => 3,
      2 => 7,
      3 => 5,
      4 => rng.below(16) as u128 | if rng.chance(1, 4) { 1 << 127 } else { 0 },
      _ => 1u128 << rng.below(128) | rng.below(8) as u128,
    },
    1 => around(rng, 38).min(if rng.chance(1, 2) { 300 } else { u128::MAX }),
    3 => around(rng, 0x7ff_ffff),
    5 => *rng.pick(&[0x24u128, 0xd7ff, 0xd800, 0xdfff, 0xe000, 0x10ffff, 0x110000, U32M, U32M + 1]),
    12 | 14 | 16 | 18 => around(rng, U64M),
    20 => match rng.below(4) {
      0 => 0,
      1 => around(rng, U32M),
      2 => around(rng, U64M),
      _ => rng.below(5) as u128,
    },
    22 => around(rng, n_out as u128),
    _ => edge128(rng),
  }
}

/// tag/value pairs of a message whose flags and fields fit together (an etching's
/// fields only with the Etching flag, terms only with the Terms flag), in random
/// order, each value around its acceptance boundary; bent in at most a few places
fn coherent_fields(rng: &mut Rng, n_out: usize) -> Vec<u128> {
  let etching = rng.chance(2, 3);
  let terms = etching && rng.chance(1, 2);
  let turbo = etching && rng.chance(1, 2);
  let mut pairs: Vec<(u128, u128)> = Vec::new();
  let mut flags = u128::from(etching) | u128::from(terms) << 1 | u128::from(turbo) << 2;
  match rng.below(24) {
    0 => flags |= 1 << rng.range(3, 127),
    1 => flags = (flags & !1) | 2,
    2 => flags = (flags & !1) | 4,
    _ => {}
  }
  if flags != 0 || rng.chance(1, 8) {
    pairs.push((2, flags));
  }
  let mild = |rng: &mut Rng, tag: u128| -> u128 {
    // mostly acceptable values
    match tag {
      1 => rng.below(39) as u128,
      3 => rng.below(0x800_0000) as u128,
      5 => a_char(rng) as u128,
      12 | 14 | 16 | 18 => edge64(rng) as u128,
      22 => rng.below(n_out as u64) as u128,
      _ => {
        if rng.chance(1, 2) {
          rng.below(1 << 20) as u128
        } else {
          edge128(rng)
        }
      }
    }
  };
  let add = |rng: &mut Rng, pairs: &mut Vec<(u128, u128)>, tag: u128| {
    let v = if rng.chance(1, 8) { value_for(rng, tag, n_out) } else { mild(rng, tag) };
    pairs.push((tag, v));
  };
  if etching {
    for tag in [4u128, 1, 3, 5, 6] {
      if rng.chance(1, 2) {
        add(rng, &mut pairs, tag);
      }
    }
  }
  if terms {
    for tag in [10u128, 8, 12, 14, 16, 18] {
      if rng.chance(1, 2) {
        add(rng, &mut pairs, tag);
      }
    }
    // supply = premine + cap * amount right at the u128 boundary
    if rng.chance(1, 5) {
      pairs.retain(|(t, _)| *t != 6 && *t != 8 && *t != 10);
      let cap = u128::from(rng.u64_any_width()).max(1);
      let amount = u128::from(rng.u64_any_width() >> 1).max(1);
      let premine = (u128::MAX - cap * amount).wrapping_add(rng.below(3) as u128).wrapping_sub(1);
      pairs.push((8, cap));
      pairs.push((10, amount));
      pairs.push((6, premine));
    }
  }
  if rng.chance(1, 3) {
    let block = if rng.chance(1, 8) { 0 } else { edge64(rng) as u128 };
    let tx = if block == 0 && rng.chance(3, 4) { 0 } else { edge32(rng) as u128 };
    pairs.push((20, block));
    pairs.push((20, tx));
  }
  if rng.chance(1, 3) {
    add(rng, &mut pairs, 22);
  }
  if rng.chance(1, 8) {
    pairs.push((*rng.pick(&[7u128, 127, 129, u128::MAX, 9]), edge128(rng)));
  }
  if rng.chance(1, 20) {
    pairs.push((*rng.pick(&[24u128, 126, 128, 26]), edge128(rng)));
  }
  if rng.chance(1, 20) && !pairs.is_empty() {
    let d = *rng.pick(&pairs);
    pairs.push((d.0, value_for(rng, d.0, n_out)));
  }
  // order between different tags is irrelevant: shuffle, keeping the two mint values in order
  for i in (1..pairs.len()).rev() {
    let j = rng.below(i as u64 + 1) as usize;
    if pairs[i].0 != pairs[j].0 {
      pairs.swap(i, j);
    }
  }
  pairs.iter().flat_map(|(t, v)| [*t, *v]).collect()
}

/// an integer sequence around the message grammar
fn message_ints(rng: &mut Rng, n_out: usize) -> Vec<u128> {
  let mut ints = Vec::new();
  let coherent = rng.chance(3, 5);
  if coherent {
    ints = coherent_fields(rng, n_out);
  }
  let n_fields = if coherent { 0 } else { rng.below(9) };
  let mut etching_like = !coherent && rng.chance(1, 2);
  for _ in 0..n_fields {
    let tag = match rng.below(10) {
      0 => *rng.pick(&[24u128, 126, 128, 1 << 64, u128::MAX - 1, 26]), // unknown even
      1 => *rng.pick(&[7u128, 127, 129, u128::MAX, 9]),                // unknown odd
      2 if !ints.is_empty() => ints[(rng.below(ints.len() as u64 / 2) * 2) as usize], // duplicate
      _ => *rng.pick(&KNOWN_TAGS),
    };
    let mut v = value_for(rng, tag, n_out);
    if tag == 2 && etching_like {
      v |= 1;
      etching_like = false;
    }
    ints.push(tag);
    ints.push(v);
    if tag == 20 && rng.chance(2, 3) {
      ints.push(20);
      ints.push(value_for(rng, 20, n_out));
    }
  }
  if etching_like && rng.chance(1, 2) {
    ints.insert(0, 2);
    ints.insert(1, *rng.pick(&[1u128, 3, 5, 7, 7, 3]));
  }
  match rng.below(8) {
    0 => {
      // truncated field
      ints.push(*rng.pick(&KNOWN_TAGS));
    }
    1 | 2 | 3 => {
      // body
      ints.push(0);
      let k = rng.below(5);
      let (mut block, mut tx) = (0u128, 0u128);
      for _ in 0..k {
        let db = match rng.below(8) {
          0 => U64M.saturating_sub(block),
          1 => U64M.saturating_sub(block) + 1,
          2 => edge128(rng),
          3 | 4 => 0,
          _ => rng.below(1000) as u128,
        };
        let dt = match rng.below(8) {
          0 => U32M.saturating_sub(if db == 0 { tx } else { 0 }),
          1 => U32M.saturating_sub(if db == 0 { tx } else { 0 }) + 1,
          2 => edge128(rng),
          3 => 0,
          _ => rng.below(50) as u128,
        };
        let out = match rng.below(8) {
          0 => n_out as u128 + 1,
          1 => U32M + 1,
          2 => edge128(rng),
          3 => n_out as u128,
          _ => rng.below(n_out as u64 + 1) as u128,
        };
        ints.extend_from_slice(&[db, dt, edge128(rng), out]);
        block = block.saturating_add(db);
        tx = if db == 0 { tx.saturating_add(dt) } else { dt };
      }
      if rng.chance(1, 4) {
        for _ in 0..rng.range(1, 3) {
          ints.push(rng.below(3) as u128);
        }
      }
    }
    _ => {}
  }
  ints
}

fn tx_case(rng: &mut Rng, script: Vec<u8>) -> Line {
  let n_pre = if rng.chance(1, 2) { 0 } else { rng.below(3) as usize };
  let n_post = rng.below(3) as usize;
  tx_case_n(rng, script, n_pre, n_post)
}

fn tx_case_n(rng: &mut Rng, script: Vec<u8>, n_pre: usize, n_post: usize) -> Line {
  let mut ss: Vec<Vec<u8>> = (0..n_pre).map(|_| filler(rng)).collect();
  ss.push(script);
  ss.extend((0..n_post).map(|_| any_script(rng)));
  let mut l = L::new().p(0u8);
  w_scripts(&mut l, &ss);
  l.done()
}

fn random_script(rng: &mut Rng) -> Vec<u8> {
  let mut s = Vec::new();
  match rng.below(6) {
    0 => {}
    1 => s.push(0x6a),
    _ => {
      s.push(0x6a);
      s.push(0x5d);
    }
  }
  let n = rng.below(12);
  for _ in 0..n {
    match rng.below(12) {
      0 => s.push(*rng.pick(&[0x4f, 0x50, 0x51, 0x5d, 0x60, 0x61, 0x6a, 0xac, 0xff, 0x4f])), // non-push opcodes
      1 => {
        // truncated direct push
        let n = rng.range(1, 75) as u8;
        s.push(n);
        let have = rng.below(u64::from(n)) as usize;
        s.extend(rng.bytes(have));
      }
      2 => {
        // pushdata with a length that may exceed what follows
        let op = *rng.pick(&[0x4cu8, 0x4d, 0x4e]);
        s.push(op);
        let ll = match op {
          0x4c => 1,
          0x4d => 2,
          _ => 4,
        };
        let have_len = if rng.chance(1, 4) { rng.below(ll) as usize } else { ll as usize };
        let want = rng.below(40) as u32 | if rng.chance(1, 8) { 0xffff_ff00 } else { 0 };
        s.extend_from_slice(&want.to_le_bytes()[..have_len.min(4)]);
        if have_len == ll as usize {
          let have = if rng.chance(2, 3) { (want as usize).min(64) } else { rng.below(40) as usize };
          s.extend(rng.bytes(have));
        }
      }
      3 => {
        let k = rng.below(6) as usize;
        s.extend(rng.bytes(k));
      }
      _ => {
        // well-formed push of varint-like data
        let ints: Vec<u128> = (0..rng.below(5)).map(|_| if rng.chance(1, 2) { rng.below(24) as u128 } else { edge128(rng) }).collect();
        let mut p = varints(&ints);
        if rng.chance(1, 10) {
          p.push(0x80 | rng.next() as u8); // unterminated varint
        }
        let style = if rng.chance(1, 3) { rng.below(4) } else { 0 };
        push_with(&mut s, &p, style);
      }
    }
  }
  s
}

pub fn gen(rng: &mut Rng, tier: &str) -> Vec<Line> {
  let thorough = tier == "thorough";
  let scale: usize = if thorough { 50 } else { 1 };
  let mut v = Vec::new();

  // ---- op 1: structured runestones
  // every single optional field alone, every field dropped from the full set
  for bit in 0..16u32 {
    for mask in [1u32 << bit, (1 << bit) | 1, (1 << bit) | 1 | (1 << 6), 0xffff & !(1 << bit)] {
      for ne in [0usize, 1, 3] {
        v.push(roundtrip_case(rng, mask, ne, 0));
      }
    }
  }
  // all subsets of the 16 presence bits (thorough) / a random sample of them (quick)
  if thorough {
    for mask in 0..=0xffffu32 {
      let ne = rng.below(4) as usize;
      v.push(roundtrip_case(rng, mask, ne, 0));
    }
  }
  for _ in 0..9_000 * scale {
    let mask = (rng.next() & 0xffff) as u32 | if rng.chance(2, 3) { 1 } else { 0 };
    let ne = match rng.below(10) {
      0 => 0,
      1 => rng.range(9, 60) as usize,
      _ => rng.range(0, 8) as usize,
    };
    v.push(roundtrip_case(rng, mask, ne, 0));
  }
  // not well-formed in exactly one way
  for _ in 0..1_500 * scale {
    let mask = (rng.next() & 0xffff) as u32 | 1;
    let ne = rng.range(1, 5) as usize;
    let spoil = rng.range(1, 7);
    v.push(roundtrip_case(rng, mask, ne, spoil));
  }

  // ---- op 0: integer sequences around the message grammar
  for _ in 0..14_000 * scale {
    let n_pre = if rng.chance(1, 2) { 0 } else { rng.below(3) as usize };
    let n_post = rng.below(3) as usize;
    let ints = message_ints(rng, n_pre + 1 + n_post);
    let mut payload = varints(&ints);
    match rng.below(40) {
      0 => payload.push(0x80),
      1 => payload.extend_from_slice(&[0xff; 19]),
      2 => {
        payload.extend_from_slice(&[0xff; 18]);
        payload.push(0x04);
      }
      3 => {
        payload.extend_from_slice(&[0x80; 18]);
        payload.push(0x03);
      }
      _ => {}
    }
    let mut s = script_of_payload(rng, &payload);
    match rng.below(40) {
      0 => s.push(*rng.pick(&[0x4fu8, 0x51, 0x6a, 0x5d, 0xff])),
      1 => s.push(*rng.pick(&[0x01u8, 0x4c, 0x4d, 0x4e, 0x4b])),
      2 => {
        s.push(0x4d);
        s.push(0x05);
      }
      _ => {}
    }
    v.push(tx_case_n(rng, s, n_pre, n_post));
  }
  // ---- op 0: systematic sweeps (deterministic)
  // (a) every taken tag at every acceptance boundary, inside an etching with terms
  {
    let common: [u128; 14] = [0, 1, 37, 38, 39, 255, 256, U32M - 1, U32M, U32M + 1, U64M, U64M + 1, u128::MAX - 1, u128::MAX];
    let extra: [u128; 12] = [0x7ff_fffe, 0x7ff_ffff, 0x800_0000, 0xd7ff, 0xd800, 0xdfff, 0xe000, 0x10ffff, 0x110000, 2, 3, 4];
    for tag in KNOWN_TAGS {
      for val in common.iter().chain(extra.iter()) {
        for flags in [3u128, 0] {
          let ints: Vec<u128> = if tag == 20 { vec![2, flags, 20, *val, 20, 0] } else if tag == 2 { vec![2, *val] } else { vec![2, flags, tag, *val] };
          let mut sc = vec![0x6a, 0x5d];
          push_with(&mut sc, &varints(&ints), 0);
          let mut l = L::new().p(0u8);
          w_scripts(&mut l, &[sc.clone(), vec![0x51], vec![0x51], vec![0x51]]);
          v.push(l.done());
          if tag == 20 {
            let ints = vec![2, flags, 20, 1, 20, *val];
            let mut sc = vec![0x6a, 0x5d];
            push_with(&mut sc, &varints(&ints), 0);
            let mut l = L::new().p(0u8);
            w_scripts(&mut l, &[sc]);
            v.push(l.done());
          }
        }
      }
    }
  }
  // (b) every combination of violations: message-structure flaw kind x supply overflow x
  //     unrecognized flag x unrecognized even tag, with / without rune name and mint
  for msg in 0..5u32 {
    for bits in 0..32u32 {
      let (supply, flag, even, rune, mint) = (bits & 1 != 0, bits & 2 != 0, bits & 4 != 0, bits & 8 != 0, bits & 16 != 0);
      let mut ints: Vec<u128> = vec![2, 3 | if flag { 1 << 100 } else { 0 }];
      if rune {
        ints.extend_from_slice(&[4, 12345]);
      }
      if supply {
        ints.extend_from_slice(&[6, u128::MAX, 8, 1, 10, 1]);
      } else {
        ints.extend_from_slice(&[6, u128::MAX - 1, 8, 1, 10, 1]);
      }
      if mint {
        ints.extend_from_slice(&[20, 7, 20, 3]);
      }
      if even {
        ints.extend_from_slice(&[126, 0]);
      }
      match msg {
        1 => ints.push(22),
        2 => ints.extend_from_slice(&[0, 1, 1, 5, 0, 9]),
        3 => ints.extend_from_slice(&[0, 1, 1, 5, 0, 0, 1, 5, 0]),
        4 => ints.extend_from_slice(&[0, 1, 1, 5, 0, 1, 1, 5, 2]),
        _ => {}
      }
      let mut sc = vec![0x6a, 0x5d];
      push_with(&mut sc, &varints(&ints), 0);
      let mut l = L::new().p(0u8);
      w_scripts(&mut l, &[sc]);
      v.push(l.done());
    }
  }
  // ---- op 0: random scripts
  for _ in 0..5_000 * scale {
    let s = random_script(rng);
    v.push(tx_case(rng, s));
  }
  // transactions without outputs / only fillers
  v.push(L::new().p(0u8).p(0u8).done());
  for _ in 0..200 {
    let n = rng.below(4) as usize;
    let ss: Vec<Vec<u8>> = (0..n).map(|_| filler(rng)).collect();
    let mut l = L::new().p(0u8);
    w_scripts(&mut l, &ss);
    v.push(l.done());
  }

  // ---- op 2: Instructions iterator on random scripts
  for _ in 0..4_000 * scale {
    let mut l = L::new().p(2u8);
    let s = if rng.chance(1, 2) { random_script(rng) } else { let n = rng.below(24) as usize; rng.bytes(n) };
    l.raw(&s);
    v.push(l.done());
  }
  // all one- and two-byte scripts' first bytes
  for a in 0..=255u8 {
    v.push(L::new().p(2u8).p(a).done());
    v.push(L::new().p(2u8).p(a).p(1u8).p(0xaau8).done());
  }
  // ---- op 3: push_slice at every length class boundary
  for n in [0usize, 1, 2, 74, 75, 76, 77, 254, 255, 256, 257, 1000, 65535, 65536, 65537, 70000] {
    let mut l = L::new().p(3u8);
    l.raw(&rng.bytes(n));
    v.push(l.done());
  }
  for _ in 0..300 {
    let n = if rng.chance(1, 4) { *rng.pick(&[75usize, 76, 255, 256, 257]) } else { rng.below(600) as usize };
    let mut l = L::new().p(3u8);
    l.raw(&rng.bytes(n));
    v.push(l.done());
  }
  v
}

// ------------------------------------------------------------------ run

fn flaw_name(a: &Option<Artifact>) -> String {
  match a {
    None => "none".into(),
    Some(Artifact::Runestone(_)) => "runestone".into(),
    Some(Artifact::Cenotaph(c)) => format!("cenotaph/{:?}", c.flaw.unwrap_or(Flaw::Varint)),
  }
}

fn shape(r: &Runestone) -> String {
  format!(
    "edicts{}/{}{}{}",
    match r.edicts.len() {
      0 => "0",
      1..=3 => "1-3",
      4..=8 => "4-8",
      _ => "9+",
    },
    match &r.etching {
      None => "noetch",
      Some(e) if e.terms.is_some() => "etch+terms",
      Some(_) => "etch",
    },
    if r.mint.is_some() { "+mint" } else { "" },
    if r.pointer.is_some() { "+ptr" } else { "" },
  )
}

/// S for any transaction: the artifact equals the independent reading of the
/// specification (flaw order, kept name/mint, None iff no OP_RETURN OP_13 output)
fn check_against_spec(scripts: &[Vec<u8>], got: &Option<Artifact>) -> Result<(), String> {
  let want = spec::spec_decipher(scripts);
  if &want != got {
    return Err(format!("decipher = {got:?}, independent reading of the specification = {want:?}"));
  }
  let has_magic = scripts.iter().any(|s| s.starts_with(&[0x6a, 0x5d]));
  if got.is_none() == has_magic {
    return Err(format!("decipher is_none = {}, but an OP_RETURN OP_13 output exists = {has_magic}", got.is_none()));
  }
  Ok(())
}

pub fn run(case: &Line) -> Outcome {
  let mut c = Cur::new(case);
  match c.u8() {
    0 => {
      let scripts = r_scripts(&mut c);
      guarded("tx", || {
        let tx = tx_of(&scripts);
        let got = Runestone::decipher(&tx);
        let mut obs = L::new();
        w_artifact(&mut obs, &got);
        let mut oracle = check_against_spec(&scripts, &got);
        // S: a deciphered runestone is one "that ord enciphers": put its encipherment in the
        // place of the original output and decipher again -> the same runestone
        if let Some(Artifact::Runestone(r)) = &got {
          let pos = scripts.iter().position(|s| s.starts_with(&[0x6a, 0x5d])).unwrap();
          let mut again = scripts.clone();
          again[pos] = r.encipher().into_bytes();
          let back = Runestone::decipher(&tx_of(&again));
          if back != got {
            oracle = Err(format!("re-enciphering the deciphered {r:?} deciphers to {back:?}"));
          }
          if !spec::well_formed(r, scripts.len()) {
            oracle = Err(format!("deciphered runestone {r:?} is not well-formed for {} outputs", scripts.len()));
          }
        }
        let cat = if scripts.is_empty() { "trivial/tx/no-outputs".to_string() } else { format!("tx/{}", flaw_name(&got)) };
        Outcome { obs: obs.done(), oracle, cat }
      })
    }
    1 => guarded("roundtrip", || {
      let pre = r_scripts(&mut c);
      let post = r_scripts(&mut c);
      let r = r_runestone(&mut c);
      let enc = r.encipher().into_bytes();
      let mut scripts = pre.clone();
      scripts.push(enc.clone());
      scripts.extend(post.iter().cloned());
      let tx = tx_of(&scripts);
      let got = Runestone::decipher(&tx);
      let mut obs = L::new();
      obs.bytes(&enc);
      w_artifact(&mut obs, &got);
      let wf = spec::well_formed(&r, scripts.len()) && !pre.iter().any(|s| s.starts_with(&[0x6a, 0x5d]));
      let mut oracle = check_against_spec(&scripts, &got);
      if wf {
        // round trip really executed: same runestone, edicts ordered by id (stable)
        let mut edicts = r.edicts.clone();
        edicts.sort_by(|a, b| (a.id.block, a.id.tx).cmp(&(b.id.block, b.id.tx)));
        let want = Some(Artifact::Runestone(Runestone { edicts, etching: r.etching, mint: r.mint, pointer: r.pointer }));
        if got != want {
          oracle = Err(format!("round trip: well-formed {r:?} in a transaction with {} outputs deciphers to {got:?}", scripts.len()));
        }
      }
      let cat = if wf { format!("rt/wf/{}", shape(&r)) } else { format!("rt/notwf/{}", flaw_name(&got)) };
      Outcome { obs: obs.done(), oracle, cat }
    }),
    2 => {
      let bs = c.rest_bytes();
      guarded("instr", || {
        let script = ScriptBuf::from_bytes(bs.clone());
        let mut obs = L::new();
        let mut ok = true;
        let mut pushes = 0;
        let mut consumed = 0usize;
        for i in script.instructions() {
          match i {
            Ok(Instruction::PushBytes(p)) => {
              obs.push(0u8);
              obs.bytes(p.as_bytes());
              pushes += 1;
              consumed += p.len();
            }
            Ok(Instruction::Op(op)) => {
              obs.push(1u8);
              obs.push(op.to_u8());
            }
            Err(_) => {
              ok = false;
              break;
            }
          }
        }
        obs.push(if ok { 2u8 } else { 3u8 });
        // sanity only (the property's oracle is on ops 0/1): pushed bytes never exceed the script
        let oracle = if consumed <= bs.len() { Ok(()) } else { Err("instructions pushed more bytes than the script has".to_string()) };
        let cat = if bs.is_empty() { "trivial/instr/empty".to_string() } else { format!("instr/{}{}", if ok { "ok" } else { "err" }, if pushes > 0 { "+push" } else { "" }) };
        Outcome { obs: obs.done(), oracle, cat }
      })
    }
    _ => {
      let bs = c.rest_bytes();
      guarded("push", || {
        let pb: &PushBytes = bs.as_slice().try_into().unwrap();
        let s = script::Builder::new().push_slice(pb).into_script();
        let mut obs = L::new();
        obs.raw(s.as_bytes());
        // S: the encoded push reads back as exactly one push of the same bytes
        let mut it = s.instructions();
        let oracle = match (it.next(), it.next()) {
          (Some(Ok(Instruction::PushBytes(p))), None) if p.as_bytes() == bs.as_slice() => Ok(()),
          other => Err(format!("push_slice of {} bytes reads back as {other:?}", bs.len())),
        };
        let cat = format!(
          "push/{}",
          match bs.len() {
            0..=75 => "direct",
            76..=255 => "pushdata1",
            256..=65535 => "pushdata2",
            _ => "pushdata4",
          }
        );
        Outcome { obs: obs.done(), oracle, cat }
      })
    }
  }
}
