//! Harness for the runestone codec (property C25), anchored in crates/ordinals.
use hxlib::*;

mod c25;
mod spec;

fn main() {
  let args = parse_args();
  match args.prop.as_str() {
    "C25" => drive(&args, c25::gen, c25::run),
    p => {
      eprintln!("unknown property {p}");
      std::process::exit(2);
    }
  }
}
