//! C27 — inscription envelopes round-trip; envelope parsing total.
//!
//! case (see coq/Codec/Envelope.v run_C27):
//!   0 mode (lp pre) k insc..    build the batch reveal script after `pre` with the real builder,
//!                               put it into a witness of shape `mode`, parse with
//!                               ParsedEnvelope::from_transaction
//!                               obs = (lp script) n env..
//!   1 n (m (lp elem)..)..       parse a transaction given by the witnesses of its n inputs
//!                               obs = n env..
//!   2 p                         pointer_value(p) then pointer() of it
//!   3 bytes..                   Inscription{pointer: Some(bytes)}.pointer()
//!   4 txid(32) index            InscriptionId::value
//!   5 bytes..                   InscriptionId::from_value
//!   9                           constants compiled into ord
use bitcoin::{
  absolute::LockTime, hashes::Hash, script, transaction::Version, OutPoint, ScriptBuf, Sequence, Transaction, TxIn, Txid,
  Witness,
};
use hxlib::*;
use ord::{Inscription, InscriptionId, ParsedEnvelope};

const TAGS: [u8; 10] = [1, 9, 7, 3, 11, 2, 5, 13, 17, 19];

fn put_optb(l: &mut L, o: &Option<Vec<u8>>) {
  match o {
    None => l.push(0u8),
    Some(b) => {
      l.push(1u8);
      l.bytes(b)
    }
  }
}

fn get_optb(c: &mut Cur) -> Option<Vec<u8>> {
  if c.bool() {
    Some(c.bytes())
  } else {
    None
  }
}

/// content fields only (flags are outputs)
fn put_insc_in(l: &mut L, i: &Inscription) {
  put_optb(l, &i.body);
  put_optb(l, &i.content_encoding);
  put_optb(l, &i.content_type);
  put_optb(l, &i.delegate);
  put_optb(l, &i.metadata);
  put_optb(l, &i.metaprotocol);
  l.push(i.parents.len());
  for p in &i.parents {
    l.bytes(p);
  }
  put_optb(l, &i.pointer);
  put_optb(l, &i.properties);
  put_optb(l, &i.property_encoding);
  put_optb(l, &i.rune);
}

fn get_insc_in(c: &mut Cur) -> Inscription {
  let body = get_optb(c);
  let content_encoding = get_optb(c);
  let content_type = get_optb(c);
  let delegate = get_optb(c);
  let metadata = get_optb(c);
  let metaprotocol = get_optb(c);
  let np = c.usize();
  let parents = (0..np).map(|_| c.bytes()).collect();
  let pointer = get_optb(c);
  let properties = get_optb(c);
  let property_encoding = get_optb(c);
  let rune = get_optb(c);
  Inscription {
    body,
    content_encoding,
    content_type,
    delegate,
    duplicate_field: false,
    incomplete_field: false,
    metadata,
    metaprotocol,
    parents,
    pointer,
    properties,
    property_encoding,
    rune,
    unrecognized_even_field: false,
  }
}

fn put_insc_out(l: &mut L, i: &Inscription) {
  put_optb(l, &i.body);
  put_optb(l, &i.content_encoding);
  put_optb(l, &i.content_type);
  put_optb(l, &i.delegate);
  l.push(i.duplicate_field);
  l.push(i.incomplete_field);
  put_optb(l, &i.metadata);
  put_optb(l, &i.metaprotocol);
  l.push(i.parents.len());
  for p in &i.parents {
    l.bytes(p);
  }
  put_optb(l, &i.pointer);
  put_optb(l, &i.properties);
  put_optb(l, &i.property_encoding);
  put_optb(l, &i.rune);
  l.push(i.unrecognized_even_field);
}

fn put_envs(l: &mut L, es: &[ParsedEnvelope]) {
  l.push(es.len());
  for e in es {
    l.push(e.input);
    l.push(e.offset);
    l.push(e.pushnum);
    l.push(e.stutter);
    put_insc_out(l, &e.payload);
  }
}

fn tx_of(witnesses: Vec<Witness>) -> Transaction {
  Transaction {
    version: Version(2),
    lock_time: LockTime::ZERO,
    input: witnesses
      .into_iter()
      .map(|witness| TxIn {
        previous_output: OutPoint::null(),
        script_sig: ScriptBuf::new(),
        sequence: Sequence::ENABLE_RBF_NO_LOCKTIME,
        witness,
      })
      .collect(),
    output: Vec::new(),
  }
}

pub fn control_block() -> Vec<u8> {
  let mut v = vec![0xc0u8];
  v.extend_from_slice(&[32u8; 7]);
  v
}

fn witness_of(mode: u8, script: &[u8]) -> Witness {
  let elems: Vec<Vec<u8>> = match mode {
    0 => vec![script.to_vec(), vec![]],
    1 => vec![script.to_vec(), control_block(), vec![0x50, 1]],
    2 => vec![script.to_vec()],
    3 => vec![script.to_vec(), vec![0x50]],
    _ => vec![vec![7], script.to_vec(), control_block()],
  };
  Witness::from_slice(&elems)
}

// ------------------------------------------------------------------ generators

const SIZES: [usize; 22] =
  [0, 1, 2, 3, 74, 75, 76, 77, 254, 255, 256, 257, 519, 520, 521, 1039, 1040, 1041, 1560, 1561, 10000, 65535];

pub fn rand_bytes(rng: &mut Rng, n: usize) -> Vec<u8> {
  match rng.below(4) {
    0 => vec![0u8; n],
    1 => (0..n).map(|i| i as u8).collect(),
    _ => rng.bytes(n),
  }
}

pub fn rand_value(rng: &mut Rng, big: bool) -> Vec<u8> {
  let n = if big && rng.chance(1, 3) {
    // the two largest sizes only in the per-field boundary cases (model run time)
    *rng.pick(&SIZES[..SIZES.len() - 2])
  } else if big && rng.chance(1, 40) {
    10000
  } else if rng.chance(1, 8) {
    0
  } else {
    rng.range(1, 40) as usize
  };
  rand_bytes(rng, n)
}

pub fn rand_insc(rng: &mut Rng, mask: u32, big: bool) -> Inscription {
  let mut f = |bit: u32, rng: &mut Rng| if mask & (1 << bit) != 0 { Some(rand_value(rng, big)) } else { None };
  let body = f(0, rng);
  let content_encoding = f(1, rng);
  let content_type = f(2, rng);
  let delegate = f(3, rng);
  let metadata = f(4, rng);
  let metaprotocol = f(5, rng);
  let pointer = f(6, rng);
  let properties = f(7, rng);
  let property_encoding = f(8, rng);
  let rune = f(9, rng);
  let np = if mask & (1 << 10) != 0 { rng.range(1, 3) } else { 0 };
  let parents = (0..np)
    .map(|_| {
      if rng.chance(3, 4) {
        let mut txid = [0u8; 32];
        txid.copy_from_slice(&rng.bytes(32));
        ord::verif::envelope::inscription_id_value(InscriptionId { txid: Txid::from_byte_array(txid), index: rng.u64_any_width() as u32 })
      } else {
        rand_value(rng, false)
      }
    })
    .collect();
  Inscription {
    body,
    content_encoding,
    content_type,
    delegate,
    duplicate_field: false,
    incomplete_field: false,
    metadata,
    metaprotocol,
    parents,
    pointer,
    properties,
    property_encoding,
    rune,
    unrecognized_even_field: false,
  }
}

fn build_case(mode: u8, pre: &[u8], is: &[Inscription]) -> Line {
  let mut l = L::new().p(0u8).p(mode);
  l.bytes(pre);
  l.push(is.len());
  for i in is {
    put_insc_in(&mut l, i);
  }
  l.done()
}

pub fn key_prefix(rng: &mut Rng) -> Vec<u8> {
  // <32-byte key> OP_CHECKSIG, as the wallet's reveal script starts
  let mut v = vec![32u8];
  v.extend_from_slice(&rng.bytes(32));
  v.push(0xac);
  v
}

pub fn push_bytes(out: &mut Vec<u8>, d: &[u8], style: u64) {
  // style 0: minimal length prefix as push_slice; 1: PUSHDATA1; 2: PUSHDATA2; 3: PUSHDATA4
  let n = d.len();
  match style {
    0 if n < 0x4c => out.push(n as u8),
    0 | 1 if n < 0x100 => {
      out.push(0x4c);
      out.push(n as u8)
    }
    0 | 1 | 2 if n < 0x10000 => {
      out.push(0x4d);
      out.extend_from_slice(&(n as u16).to_le_bytes())
    }
    _ => {
      out.push(0x4e);
      out.extend_from_slice(&(n as u32).to_le_bytes())
    }
  }
  out.extend_from_slice(d);
}

pub fn rand_tag(rng: &mut Rng) -> Vec<u8> {
  match rng.below(10) {
    0..=5 => vec![*rng.pick(&TAGS)],
    6 => vec![*rng.pick(&[0u8, 4, 6, 66, 15, 255, 21, 22])],
    7 => vec![rng.next() as u8],
    8 => vec![*rng.pick(&TAGS), rng.next() as u8],
    _ => vec![],
  }
}

/// one envelope written by hand (not by the builder), with optional irregularities
pub fn hand_envelope(rng: &mut Rng, out: &mut Vec<u8>) {
  out.push(0x00);
  out.push(0x63);
  let st = if rng.chance(1, 8) { rng.range(1, 3) } else { 0 };
  push_bytes(out, b"ord", st);
  let nf = rng.below(6);
  for _ in 0..nf {
    if rng.chance(1, 10) {
      // pushnum as tag or value
      out.push(*rng.pick(&[0x4fu8, 0x51, 0x52, 0x53, 0x55, 0x59, 0x5b, 0x5d, 0x60]));
    } else {
      let t = rand_tag(rng);
      let st = if rng.chance(1, 10) { rng.range(1, 3) } else { 0 };
      push_bytes(out, &t, st);
    }
    if rng.chance(1, 12) {
      continue; // odd number of pushes
    }
    if rng.chance(1, 12) {
      out.push(*rng.pick(&[0x4fu8, 0x51, 0x52, 0x60]));
    } else {
      let n = if rng.chance(1, 20) { *rng.pick(&[0usize, 75, 76, 255, 256, 520, 521]) } else { rng.below(6) as usize };
      let v = rng.bytes(n);
      let st = if rng.chance(1, 10) { rng.range(1, 3) } else { 0 };
      push_bytes(out, &v, st);
    }
  }
  if rng.chance(1, 2) {
    out.push(0x00);
    for _ in 0..rng.below(3) {
      let n = rng.below(5) as usize;
      let v = rng.bytes(n);
      push_bytes(out, &v, 0);
    }
  }
  match rng.below(16) {
    0 => {}                  // missing OP_ENDIF
    1 => out.push(0x63),     // nested OP_IF aborts the envelope
    2 => out.push(0xac),     // other opcode aborts
    _ => out.push(0x68),
  }
}

pub fn rand_script(rng: &mut Rng) -> Vec<u8> {
  let mut out = Vec::new();
  match rng.below(10) {
    0 => {
      let n = rng.below(40) as usize;
      return rng.bytes(n);
    }
    1 => {
      // random bytes biased to the interesting opcodes
      let n = rng.below(30);
      for _ in 0..n {
        out.push(*rng.pick(&[0x00u8, 0x00, 0x63, 0x63, 0x68, 0x03, 0x6f, 0x72, 0x64, 0x01, 0x4c, 0x4d, 0x4e, 0x4f, 0x51, 0x60, 0x61, 0xac, 0xff]));
      }
      return out;
    }
    _ => {}
  }
  let n = rng.range(1, 8);
  for _ in 0..n {
    match rng.below(16) {
      0..=6 => hand_envelope(rng, &mut out),
      7 => out.push(0x00), // stutter
      8 => {
        out.push(0x00);
        out.push(0x63)
      }
      9 => {
        let t = rand_tag(rng);
        push_bytes(&mut out, &t, 0)
      }
      10 => out.push(*rng.pick(&[0x61u8, 0xac, 0x50, 0x65, 0x6a, 0x87, 0xb1, 0xba, 0xff])),
      11 => out.extend_from_slice(&key_prefix(rng)),
      12 => push_bytes(&mut out, b"ord", rng.below(4)),
      13 => {
        // an envelope made by the real builder
        let mask = rng.below(1 << 11) as u32;
        let i = rand_insc(rng, mask, false);
        out.extend_from_slice(i.append_reveal_script_to_builder(script::Builder::new()).as_bytes());
      }
      14 => out.push(*rng.pick(&[0x4fu8, 0x51, 0x60])),
      _ => {
        let n = rng.below(4) as usize;
        let v = rng.bytes(n);
        push_bytes(&mut out, &v, rng.below(4))
      }
    }
  }
  // script errors: truncated / oversized pushes
  match rng.below(12) {
    0 => {
      out.push(rng.range(1, 75) as u8);
    }
    1 => {
      out.push(0x4c);
    }
    2 => {
      out.push(0x4d);
      out.push(0xff);
    }
    3 => {
      out.extend_from_slice(&[0x4e, 0xff, 0xff, 0xff, 0xff]);
      out.extend_from_slice(&rng.bytes(3));
    }
    4 => {
      let k = out.len();
      if k > 0 {
        out.truncate(rng.below(k as u64) as usize);
      }
    }
    5 => {
      let k = out.len();
      if k > 0 {
        let j = rng.below(k as u64) as usize;
        out[j] = rng.next() as u8;
      }
    }
    _ => {}
  }
  out
}

pub fn rand_witness(rng: &mut Rng) -> Vec<Vec<u8>> {
  let script = rand_script(rng);
  match rng.below(12) {
    0 => vec![],
    1 => vec![script],
    2 => vec![script, vec![0x50]],
    3 => vec![script, vec![0x50, 0xaa, 0xbb]],
    4 => vec![script, control_block(), vec![0x50]],
    5 => vec![vec![1, 2], script, control_block(), vec![0x50, 0]],
    6 => vec![vec![1, 2], vec![3], script, control_block()],
    7 => vec![script, vec![0x51]],
    8 => vec![control_block(), script], // script in last position: the other element is parsed
    _ => vec![script, control_block()],
  }
}

fn tx_case(ws: &[Vec<Vec<u8>>]) -> Line {
  let mut l = L::new().p(1u8);
  l.push(ws.len());
  for w in ws {
    l.push(w.len());
    for e in w {
      l.bytes(e);
    }
  }
  l.done()
}

pub fn gen(rng: &mut Rng, tier: &str) -> Vec<Line> {
  let thorough = tier == "thorough";
  let mut v = Vec::new();
  v.push(L::new().p(9u8).done());

  // ---- op 0: builder -> parser
  // every subset of the 11 fields, small values
  for mask in 0..(1u32 << 11) {
    let i = rand_insc(rng, mask, false);
    let pre = if mask % 3 == 0 { key_prefix(rng) } else { vec![] };
    v.push(build_case(0, &pre, &[i]));
  }
  // each field at each boundary size
  for bit in 0..10u32 {
    for &n in &SIZES {
      let mut i = rand_insc(rng, 0, false);
      let val = Some(rand_bytes(rng, n));
      match bit {
        0 => i.body = val,
        1 => i.content_encoding = val,
        2 => i.content_type = val,
        3 => i.delegate = val,
        4 => i.metadata = val,
        5 => i.metaprotocol = val,
        6 => i.pointer = val,
        7 => i.properties = val,
        8 => i.property_encoding = val,
        _ => i.rune = val,
      }
      v.push(build_case(0, &[], &[i]));
    }
  }
  v.push(build_case(0, &[], &[rand_insc(rng, 1, false), {
    let mut i = rand_insc(rng, 0, false);
    i.body = Some(rand_bytes(rng, 70000));
    i.content_type = Some(rand_bytes(rng, 66000));
    i
  }]));
  // random: several inscriptions per script, mixed sizes, witness shapes, prefixes
  let n_build = if thorough { 60_000 } else { 2_500 };
  for _ in 0..n_build {
    let k = match rng.below(8) {
      0 => 0,
      1..=3 => 1,
      4..=5 => 2,
      6 => 3,
      _ => rng.range(4, 6),
    } as usize;
    let is: Vec<Inscription> = (0..k)
      .map(|_| {
        let mask = if rng.chance(1, 4) { (1 << 11) - 1 } else { rng.below(1 << 11) as u32 };
        let big = rng.chance(1, 6);
        rand_insc(rng, mask, big)
      })
      .collect();
    let mode = match rng.below(10) {
      0 => 1,
      1 => 2,
      2 => 3,
      3 => 4,
      _ => 0,
    };
    let pre = match rng.below(10) {
      0..=3 => vec![],
      4..=6 => key_prefix(rng),
      7 => vec![0x00],             // stutter before the first envelope
      8 => vec![0x00, 0x63],       // OP_FALSE OP_IF then an envelope
      _ => {
        let n = rng.below(6) as usize;
        rng.bytes(n)
      }
    };
    v.push(build_case(mode, &pre, &is));
  }

  // ---- op 1: arbitrary witnesses
  v.push(tx_case(&[]));
  v.push(tx_case(&[vec![]]));
  let n_tx = if thorough { 400_000 } else { 20_000 };
  for _ in 0..n_tx {
    let n = match rng.below(6) {
      0 => 2,
      1 => 3,
      _ => 1,
    };
    let ws: Vec<Vec<Vec<u8>>> = (0..n).map(|_| rand_witness(rng)).collect();
    v.push(tx_case(&ws));
  }

  // ---- op 2/3: pointers
  for k in 0..64u32 {
    let p = 1u64 << k;
    for n in [p.wrapping_sub(1), p, p.wrapping_add(1)] {
      v.push(L::new().p(2u8).p(n).done());
    }
  }
  v.push(L::new().p(2u8).p(u64::MAX).done());
  let n_small = if thorough { 100_000 } else { 3_000 };
  for _ in 0..n_small {
    v.push(L::new().p(2u8).p(rng.u64_any_width()).done());
  }
  for _ in 0..n_small {
    let n = rng.below(13) as usize;
    let mut b = rng.bytes(n);
    for x in b.iter_mut() {
      if rng.chance(1, 3) {
        *x = 0
      }
    }
    if rng.chance(1, 2) {
      for x in b.iter_mut().skip(8) {
        *x = 0
      }
    }
    let mut l = L::new().p(3u8);
    l.raw(&b);
    v.push(l.done());
  }

  // ---- op 4/5: inscription ids
  let idxs: Vec<u32> = {
    let mut t = vec![0u32, 1, 255, 256, 257, 65535, 65536, 65537, 0xff_ffff, 0x100_0000, 0x100_0001, u32::MAX - 1, u32::MAX, 0x0100_0000, 0x00ff_0000, 0x0000_ff00];
    for _ in 0..n_small {
      t.push(rng.u64_any_width() as u32);
    }
    t
  };
  for idx in idxs {
    let mut l = L::new().p(4u8);
    let txid = if rng.chance(1, 8) { vec![0u8; 32] } else { rng.bytes(32) };
    l.raw(&txid);
    l.push(idx);
    v.push(l.done());
  }
  for len in 0..=40usize {
    for z in 0..3 {
      let mut b = rng.bytes(len);
      if z == 1 && len > 0 {
        b[len - 1] = 0;
      }
      if z == 2 {
        for x in b.iter_mut().skip(32) {
          *x = 0
        }
      }
      let mut l = L::new().p(5u8);
      l.raw(&b);
      v.push(l.done());
    }
  }
  for _ in 0..n_small {
    let len = rng.range(30, 38) as usize;
    let mut b = rng.bytes(len);
    for x in b.iter_mut().skip(32) {
      if rng.chance(1, 2) {
        *x = 0
      }
    }
    let mut l = L::new().p(5u8);
    l.raw(&b);
    v.push(l.done());
  }
  v
}

// ------------------------------------------------------------------ run

fn norm_chunked(o: &Option<Vec<u8>>) -> Option<Vec<u8>> {
  match o {
    Some(v) if v.is_empty() => None,
    other => other.clone(),
  }
}

/// S for the build/parse operation: k envelopes in order, consecutive offsets, same content
fn check_roundtrip(is: &[Inscription], es: &[ParsedEnvelope]) -> Result<(), String> {
  if es.len() != is.len() {
    return Err(format!("built {} inscriptions, parsed {} envelopes", is.len(), es.len()));
  }
  for (j, (i, e)) in is.iter().zip(es).enumerate() {
    let p = &e.payload;
    if e.input != 0 || e.offset as usize != j {
      return Err(format!("envelope {j} has input {} offset {}", e.input, e.offset));
    }
    if e.pushnum || e.stutter || p.incomplete_field || p.unrecognized_even_field {
      return Err(format!("envelope {j} has a curse flag set: pushnum {} stutter {} incomplete {} uneven {}", e.pushnum, e.stutter, p.incomplete_field, p.unrecognized_even_field));
    }
    let same = p.body == i.body
      && p.content_encoding == i.content_encoding
      && p.content_type == i.content_type
      && p.delegate == i.delegate
      && p.metadata == norm_chunked(&i.metadata)
      && p.metaprotocol == i.metaprotocol
      && p.parents == i.parents
      && p.pointer == i.pointer
      && p.properties == norm_chunked(&i.properties)
      && p.property_encoding == i.property_encoding
      && p.rune == i.rune;
    if !same {
      return Err(format!("envelope {j} does not carry the fields of inscription {j}"));
    }
  }
  Ok(())
}

fn benign_prefix(pre: &[u8]) -> bool {
  pre.is_empty() || (pre.len() == 34 && pre[0] == 32 && pre[33] == 0xac)
}

pub fn run(case: &Line) -> Outcome {
  let mut c = Cur::new(case);
  match c.u8() {
    0 => {
      let mode = c.u8();
      let pre = c.bytes();
      let k = c.usize();
      let is: Vec<Inscription> = (0..k).map(|_| get_insc_in(&mut c)).collect();
      guarded("build", || {
        let script = Inscription::append_batch_reveal_script(&is, script::Builder::from(pre.clone()));
        let w = witness_of(mode, script.as_bytes());
        let es = ParsedEnvelope::from_transaction(&tx_of(vec![w]));
        let mut l = L::new();
        l.bytes(script.as_bytes());
        put_envs(&mut l, &es);
        let script_spend = matches!(mode, 0 | 1) || mode >= 4;
        let oracle = if script_spend && benign_prefix(&pre) {
          check_roundtrip(&is, &es)
        } else if !script_spend && !es.is_empty() {
          Err("key path spend yields envelopes".to_string())
        } else {
          Ok(())
        };
        let dup = es.iter().any(|e| e.payload.duplicate_field);
        let maxlen = is
          .iter()
          .flat_map(|i| [&i.body, &i.metadata, &i.properties, &i.content_type].into_iter().flatten().map(|v| v.len()))
          .max()
          .unwrap_or(0);
        let sz = match maxlen {
          0..=75 => "s",
          76..=520 => "m",
          521..=1040 => "l",
          _ => "xl",
        };
        let cat = if !script_spend {
          format!("build/keypath{mode}")
        } else if !benign_prefix(&pre) {
          format!("build/oddprefix/env{}", es.len().min(3))
        } else if k == 0 {
          "trivial/build/k0".to_string()
        } else {
          format!("build/k{}/{}{}{}", k.min(4), sz, if dup { "/dup" } else { "" }, if mode == 1 { "/annex" } else { "" })
        };
        Outcome { obs: l.done(), oracle, cat }
      })
    }
    1 => {
      let n = c.usize();
      let ws: Vec<Vec<Vec<u8>>> = (0..n)
        .map(|_| {
          let m = c.usize();
          (0..m).map(|_| c.bytes()).collect()
        })
        .collect();
      guarded("parse", || {
        let tx = tx_of(ws.iter().map(|w| Witness::from_slice(w)).collect());
        let es = ParsedEnvelope::from_transaction(&tx);
        let mut l = L::new();
        put_envs(&mut l, &es);
        // S: no panic (guarded), and offsets are consecutive from 0 within each input, inputs ascending
        let mut oracle = Ok(());
        let mut prev: Option<(u32, u32)> = None;
        for e in &es {
          let ok = match prev {
            None => e.offset == 0,
            Some((pi, po)) => (e.input == pi && e.offset == po + 1) || (e.input > pi && e.offset == 0),
          };
          if !ok || e.input as usize >= n {
            oracle = Err(format!("envelope numbering not consecutive at input {} offset {}", e.input, e.offset));
          }
          prev = Some((e.input, e.offset));
        }
        let any = |f: &dyn Fn(&ParsedEnvelope) -> bool| es.iter().any(|e| f(e));
        let mut cat = if n == 0 || ws.iter().all(|w| w.is_empty()) { "trivial/parse".to_string() } else { format!("parse/env{}", es.len().min(4)) };
        if any(&|e| e.pushnum) {
          cat.push_str("/pushnum")
        }
        if any(&|e| e.stutter) {
          cat.push_str("/stutter")
        }
        if any(&|e| e.payload.duplicate_field) {
          cat.push_str("/dup")
        }
        if any(&|e| e.payload.incomplete_field) {
          cat.push_str("/incompl")
        }
        if any(&|e| e.payload.unrecognized_even_field) {
          cat.push_str("/uneven")
        }
        Outcome { obs: l.done(), oracle, cat }
      })
    }
    2 => {
      let p = c.u64();
      guarded("pointer_value", || {
        let v = Inscription::pointer_value(p);
        let back = Inscription { pointer: Some(v.clone()), ..Default::default() }.pointer();
        let mut l = L::new();
        l.bytes(&v);
        l.opt(back);
        let oracle = if back != Some(p) {
          Err(format!("pointer(pointer_value({p})) = {back:?}"))
        } else if v.len() > 8 || v.last() == Some(&0) {
          Err(format!("pointer_value({p}) = {v:?} is not compact"))
        } else {
          Ok(())
        };
        Outcome { obs: l.done(), oracle, cat: format!("pointer_value/len{}", v.len()) }
      })
    }
    3 => {
      let b = c.rest_bytes();
      guarded("pointer", || {
        let r = Inscription { pointer: Some(b.clone()), ..Default::default() }.pointer();
        let mut l = L::new();
        l.opt(r);
        let mut oracle = Ok(());
        if let Some(p) = r {
          // the compact form of the decoded value is the input without its trailing zeros
          let mut t = b.clone();
          while t.last() == Some(&0) {
            t.pop();
          }
          if Inscription::pointer_value(p) != t {
            oracle = Err(format!("pointer({b:?}) = {p} whose compact form differs"));
          }
        }
        Outcome { obs: l.done(), oracle, cat: format!("pointer/{}", if r.is_some() { "some" } else { "none" }) }
      })
    }
    4 => {
      let mut txid = [0u8; 32];
      for x in txid.iter_mut() {
        *x = c.u8();
      }
      let index = c.u32();
      guarded("id_value", || {
        let id = InscriptionId { txid: Txid::from_byte_array(txid), index };
        let v = ord::verif::envelope::inscription_id_value(id);
        let mut l = L::new();
        l.bytes(&v);
        let back = ord::verif::envelope::inscription_id_from_value(&v);
        let oracle = if back == Some(id) { Ok(()) } else { Err(format!("from_value(value({id})) = {back:?}")) };
        Outcome { obs: l.done(), oracle, cat: format!("id_value/len{}", v.len()) }
      })
    }
    5 => {
      let b = c.rest_bytes();
      guarded("id_from_value", || {
        let r = ord::verif::envelope::inscription_id_from_value(&b);
        let mut l = L::new();
        let mut oracle = Ok(());
        match r {
          None => l.push(0u8),
          Some(id) => {
            l.push(1u8);
            l.raw(&id.txid.to_byte_array());
            l.push(id.index);
            // accepted forms: the canonical one or the 4-byte-index one
            let canon = ord::verif::envelope::inscription_id_value(id);
            let mut fixed = id.txid.to_byte_array().to_vec();
            fixed.extend_from_slice(&id.index.to_le_bytes());
            if b != canon && b != fixed {
              oracle = Err(format!("from_value accepted {b:?} which is neither form of {id}"));
            }
          }
        }
        let cat = if b.len() < 32 || b.len() > 36 { "trivial/id_from_value/len".to_string() } else { format!("id_from_value/{}{}", if r.is_some() { "some" } else { "none" }, b.len()) };
        Outcome { obs: l.done(), oracle, cat }
      })
    }
    _ => guarded("constants", || {
      let (protocol_id, body_tag, max_elem, tags) = Inscription::verif_envelope_constants();
      let mut l = L::new();
      l.raw(&protocol_id);
      l.push(max_elem);
      l.raw(&tags);
      let oracle = if body_tag.is_empty() && max_elem == bitcoin::blockdata::constants::MAX_SCRIPT_ELEMENT_SIZE {
        Ok(())
      } else {
        Err("BODY_TAG / MAX_SCRIPT_ELEMENT_SIZE unexpected".to_string())
      };
      Outcome { obs: l.done(), oracle, cat: "constants".into() }
    }),
  }
}
