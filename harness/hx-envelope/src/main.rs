//! Harness for properties anchored in src/inscriptions and src/properties.rs (C27, C28).
use hxlib::*;

mod c27;
mod c28;

fn main() {
  let args = parse_args();
  match args.prop.as_str() {
    "C27" => drive(&args, c27::gen, c27::run),
    "C28" => drive(&args, c28::gen, c28::run),
    p => {
      eprintln!("unknown property {p}");
      std::process::exit(2);
    }
  }
}
