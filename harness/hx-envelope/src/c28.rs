//! C28 — inscription properties round-trip; decoding bounded.
//!
//! case (see coq/Codec/Cbor.v run_C28):
//!   0 props                        to_inline_cbor, to_packed_cbor, from_cbor of each
//!   1 (lp value) enc err sizes..   Inscription{properties: value, property_encoding: enc}.properties_cbor();
//!                                  `sizes`/`err` = the chunk stream the brotli decompressor yields for value
//!                                  (recorded at generation time through a hook; the model runs the loop on it)
//!   3 n lens.. props               which candidate encode_properties(compress = true) chooses
//!   4 enc bytes..                  arbitrary bytes as properties field: S only (no panic, bound)
//!   9                              constants
use bitcoin::{hashes::Hash, Txid};
use hxlib::*;
use ord::{Attributes, Inscription, InscriptionId, Item, Properties, Trait, Traits};
use std::io::{Read, Write};

fn put_optb(l: &mut L, o: &Option<Vec<u8>>) {
  match o {
    None => l.push(0u8),
    Some(b) => {
      l.push(1u8);
      l.bytes(b)
    }
  }
}

fn put_trait(l: &mut L, t: &Trait) {
  match t {
    Trait::Bool(b) => {
      l.push(0u8);
      l.push(*b)
    }
    Trait::Integer(z) => {
      l.push(1u8);
      l.push(*z)
    }
    Trait::Null => l.push(2u8),
    Trait::String(s) => {
      l.push(3u8);
      l.bytes(s.as_bytes())
    }
  }
}

fn put_attrs(l: &mut L, a: &Attributes) {
  put_optb(l, &a.title.as_ref().map(|s| s.as_bytes().to_vec()));
  l.push(a.traits.items.len());
  for (n, t) in &a.traits.items {
    l.bytes(n.as_bytes());
    put_trait(l, t);
  }
}

/// input form: every item has an id, no index, no txids
fn put_props_in(l: &mut L, p: &Properties) {
  l.push(p.gallery.len());
  for it in &p.gallery {
    let id = it.id.unwrap();
    l.raw(&id.txid.to_byte_array());
    l.push(id.index);
    put_attrs(l, &it.attributes);
  }
  put_attrs(l, &p.attributes);
}

fn put_props_out(l: &mut L, p: &Properties) {
  l.push(p.gallery.len());
  for it in &p.gallery {
    match it.id {
      Some(id) => {
        l.push(1u8);
        l.raw(&id.txid.to_byte_array());
        l.push(id.index);
      }
      None => l.push(0u8),
    }
    put_attrs(l, &it.attributes);
    l.opt(it.index);
  }
  put_attrs(l, &p.attributes);
  l.bytes(&p.txids);
}

fn get_string(c: &mut Cur) -> String {
  String::from_utf8(c.bytes()).expect("case strings are utf-8")
}

fn get_attrs(c: &mut Cur) -> Attributes {
  let title = if c.bool() { Some(get_string(c)) } else { None };
  let k = c.usize();
  let mut items = Vec::new();
  for _ in 0..k {
    let name = get_string(c);
    let t = match c.u8() {
      0 => Trait::Bool(c.bool()),
      1 => Trait::Integer(c.z().i64()),
      2 => Trait::Null,
      _ => Trait::String(get_string(c)),
    };
    items.push((name, t));
  }
  Attributes { title, traits: Traits { items } }
}

fn get_props(c: &mut Cur) -> Properties {
  let k = c.usize();
  let mut gallery = Vec::new();
  for _ in 0..k {
    let mut txid = [0u8; 32];
    for x in txid.iter_mut() {
      *x = c.u8();
    }
    let index = c.u32();
    let attributes = get_attrs(c);
    gallery.push(Item { id: Some(InscriptionId { txid: Txid::from_byte_array(txid), index }), attributes, index: None });
  }
  let attributes = get_attrs(c);
  Properties { gallery, attributes, txids: Vec::new() }
}

// ------------------------------------------------------------------ generators

pub fn rand_string(rng: &mut Rng) -> String {
  let n = match rng.below(10) {
    0 => 0,
    1 => *rng.pick(&[23usize, 24, 25, 255, 256, 257]),
    _ => rng.range(1, 8) as usize,
  };
  let mut s = String::new();
  for _ in 0..n {
    let c = match rng.below(8) {
      0 => char::from_u32(rng.range(0x80, 0x7ff) as u32),
      1 => char::from_u32(rng.range(0x800, 0xd7ff) as u32),
      2 => char::from_u32(rng.range(0x10000, 0x10ffff) as u32),
      3 => Some(*rng.pick(&['\0', '"', '\\', '\u{e9}', '\u{4e16}', '\u{1f600}', '\u{ffff}', '\u{10ffff}'])),
      _ => char::from_u32(rng.range(0x20, 0x7e) as u32),
    };
    s.push(c.unwrap_or('x'));
  }
  s
}

pub fn rand_trait(rng: &mut Rng) -> Trait {
  match rng.below(6) {
    0 => Trait::Bool(rng.chance(1, 2)),
    1 => Trait::Null,
    2 => Trait::String(rand_string(rng)),
    3 => Trait::Integer(*rng.pick(&[
      0i64, 1, -1, 23, 24, -24, -25, 255, 256, -256, -257, 65535, 65536, -65536, -65537, 4294967295, 4294967296, -4294967296,
      -4294967297, i64::MAX, i64::MIN, i64::MAX - 1, i64::MIN + 1,
    ])),
    _ => {
      let v = rng.u64_any_width() as i64;
      Trait::Integer(if rng.chance(1, 2) { v } else { v.wrapping_neg() })
    }
  }
}

pub fn rand_attrs(rng: &mut Rng, dup: bool) -> Attributes {
  let title = if rng.chance(1, 2) { Some(rand_string(rng)) } else { None };
  let k = match rng.below(6) {
    0..=2 => 0,
    3 => 1,
    4 => rng.range(2, 4),
    _ => rng.range(5, 30),
  } as usize;
  let mut items: Vec<(String, Trait)> = Vec::new();
  for j in 0..k {
    let mut name = rand_string(rng);
    if items.iter().any(|(n, _)| *n == name) {
      name.push_str(&format!("#{j}"));
    }
    items.push((name, rand_trait(rng)));
  }
  if dup && items.len() >= 2 {
    let j = rng.below(items.len() as u64 - 1) as usize;
    let n = items[j].0.clone();
    items.last_mut().unwrap().0 = n;
  }
  Attributes { title, traits: Traits { items } }
}

pub fn rand_props(rng: &mut Rng, dup: bool) -> Properties {
  let k = match rng.below(8) {
    0..=1 => 0,
    2..=3 => 1,
    4..=5 => rng.range(2, 5),
    6 => rng.range(6, 20),
    _ => rng.range(21, 40),
  } as usize;
  let shared_txid = rng.bytes(32);
  let mut dup_left = dup;
  let gallery = (0..k)
    .map(|_| {
      let mut txid = [0u8; 32];
      let t = if rng.chance(1, 3) { shared_txid.clone() } else { rng.bytes(32) };
      txid.copy_from_slice(&t);
      let index = match rng.below(4) {
        0 => 0,
        1 => *rng.pick(&[1u32, 23, 24, 255, 256, 65535, 65536, u32::MAX]),
        _ => rng.u64_any_width() as u32,
      };
      let d = dup_left && rng.chance(1, 3);
      if d {
        dup_left = false;
      }
      let attributes = if rng.chance(1, 3) { Attributes::default() } else { rand_attrs(rng, d) };
      Item { id: Some(InscriptionId { txid: Txid::from_byte_array(txid), index }), attributes, index: None }
    })
    .collect();
  let attributes = if rng.chance(1, 4) { Attributes::default() } else { rand_attrs(rng, dup_left) };
  Properties { gallery, attributes, txids: Vec::new() }
}

fn has_dup(p: &Properties) -> bool {
  let d = |a: &Attributes| {
    let mut names: Vec<&String> = a.traits.items.iter().map(|(n, _)| n).collect();
    names.sort();
    names.windows(2).any(|w| w[0] == w[1])
  };
  d(&p.attributes) || p.gallery.iter().any(|it| d(&it.attributes))
}

pub fn brotli_compress(data: &[u8]) -> Vec<u8> {
  let mut w = brotli::CompressorWriter::new(Vec::new(), 4096, 9, 22);
  w.write_all(data).unwrap();
  w.into_inner()
}

fn limits() -> (usize, usize) {
  let (max_size, ratio, _, _) = Inscription::verif_properties_limits();
  (max_size, ratio)
}

fn bound(len: usize) -> usize {
  let (max_size, ratio) = limits();
  len.saturating_mul(ratio).min(max_size)
}

fn decompress_case(value: &[u8], enc: &Option<Vec<u8>>) -> Line {
  let (sizes, err) = Inscription::verif_brotli_chunk_sizes(value, bound(value.len()));
  let mut l = L::new().p(1u8);
  l.bytes(value);
  put_optb(&mut l, enc);
  l.push(err);
  for s in sizes {
    l.push(s);
  }
  l.done()
}

/// data of a cap case: `b` pseudo-random (incompressible) bytes from `seed`, then `z` zero bytes
fn cap_data(seed: u64, b: usize, z: usize) -> Vec<u8> {
  let mut r = Rng::new(seed);
  let mut d = r.bytes(b);
  d.resize(b + z, 0);
  d
}

/// the compressed field of a cap case: brotli(cap_data) followed by `pad` bytes after the end of
/// the stream (the decompressor stops at the end of the stream; the padding only counts in
/// `value.len()`, i.e. in the ratio bound)
fn cap_value(seed: u64, b: usize, z: usize, pad: usize) -> Vec<u8> {
  let mut v = brotli_compress(&cap_data(seed, b, z));
  v.resize(v.len() + pad, 0xaa);
  v
}

/// op 5 line: 5 seed b z pad | vlen enc err sizes..   (the part after the descriptor is what the
/// model reads; it is recomputed and compared on replay)
fn cap_case(seed: u64, b: usize, z: usize, pad: usize) -> Line {
  let value = cap_value(seed, b, z, pad);
  let (sizes, err) = Inscription::verif_brotli_chunk_sizes(&value, bound(value.len()));
  let mut l = L::new().p(5u8).p(seed).p(b).p(z).p(pad).p(value.len());
  put_optb(&mut l, &Some(b"br".to_vec()));
  l.push(err);
  for s in sizes {
    l.push(s);
  }
  l.done()
}

/// cases whose decompressed size sits exactly on / next to min(30 * |value|, 4 000 000)
fn cap_cases(rng: &mut Rng, thorough: bool) -> Vec<Line> {
  let (max_size, ratio) = limits();
  let mut v = Vec::new();
  // (A) ratio bound active: decompressed size = ratio * |value| + d, d in {-1, 0, 1}
  let reps = if thorough { 6 } else { 2 };
  for _ in 0..reps {
    let seed = rng.next();
    let b = rng.range(0, 600) as usize;
    for d in [-1i64, 0, 1] {
      // find z and pad with b + z = ratio * (compressed + pad) + d
      let mut z = 40_000usize;
      for _ in 0..8 {
        let c = brotli_compress(&cap_data(seed, b, z)).len();
        let k = (b + z) / ratio + 1; // |value| we aim at (>= c for data this compressible)
        let k = k.max(c);
        let want = (k * ratio) as i64 + d - b as i64;
        if want as usize == z {
          break;
        }
        z = want as usize;
      }
      let c = brotli_compress(&cap_data(seed, b, z)).len();
      let total = (b + z) as i64 - d;
      if total % ratio as i64 == 0 && (total / ratio as i64) as usize >= c {
        v.push(cap_case(seed, b, z, (total / ratio as i64) as usize - c));
      }
    }
  }
  // (B) size cap active, compressed size above max_size / ratio: exactly max_size - 1, max_size, max_size + 1
  let floor = max_size / ratio + 1;
  for (k, extra) in [(0usize, 100usize), (1, 70_000)].iter().take(if thorough { 2 } else { 1 }) {
    let _ = k;
    let seed = rng.next();
    let b = floor + extra;
    for d in [-1i64, 0, 1] {
      let z = (max_size as i64 + d) as usize - b;
      v.push(cap_case(seed, b, z, 0));
    }
  }
  // (C) decompressed size at the size cap but the ratio bound is the active one
  let seed = rng.next();
  for (b, d) in [(0usize, 0i64), (0, 1), (50_000, 0), (100_000, 1), (133_000, 0)] {
    let z = (max_size as i64 + d) as usize - b;
    v.push(cap_case(seed, b, z, 0));
  }
  // exactly on the corner: |value| = max_size / ratio rounded up with padding, output max_size and max_size + 1
  let seed = rng.next();
  let b = 1000;
  for d in [0i64, 1] {
    let z = (max_size as i64 + d) as usize - b;
    let c = brotli_compress(&cap_data(seed, b, z)).len();
    v.push(cap_case(seed, b, z, floor.saturating_sub(c)));
    v.push(cap_case(seed, b, z, (floor - 1).saturating_sub(c)));
  }
  v
}

/// properties whose inline CBOR compresses at a ratio close to `ratio_x100 / 100`: k items with
/// random txids (incompressible) and one long repetitive title (compressible)
fn ratio_props(rng: &mut Rng, k: usize, ratio_x100: usize) -> Properties {
  let gallery: Vec<Item> = (0..k)
    .map(|_| {
      let mut txid = [0u8; 32];
      txid.copy_from_slice(&rng.bytes(32));
      Item { id: Some(InscriptionId { txid: Txid::from_byte_array(txid), index: 0 }), attributes: Attributes::default(), index: None }
    })
    .collect();
  let mut t = 1000usize;
  let mut p = Properties { gallery, attributes: Attributes { title: Some("a".repeat(t)), traits: Traits::default() }, txids: Vec::new() };
  for _ in 0..12 {
    let packed = ord::verif::envelope::properties_to_packed_cbor(&p).unwrap();
    let c = brotli_compress(&packed).len().max(1);
    let want = c * ratio_x100 / 100;
    if packed.len() == want {
      break;
    }
    t = (t + want).saturating_sub(packed.len()).max(1);
    p.attributes.title = Some("a".repeat(t));
  }
  p
}

/// CBOR head with an explicit 32- or 64-bit argument
fn big_head(major: u8, n: u64) -> Vec<u8> {
  let mut v = Vec::new();
  if n <= u64::from(u32::MAX) {
    v.push((major << 5) | 26);
    v.extend_from_slice(&(n as u32).to_be_bytes());
  } else {
    v.push((major << 5) | 27);
    v.extend_from_slice(&n.to_be_bytes());
  }
  v
}

pub const OVER_LENGTHS: [u64; 5] = [1 << 16, u32::MAX as u64, 1 << 32, 1 << 63, u64::MAX];

/// Properties fields in which some container or string DECLARES a length far larger than the
/// remaining input: every container the properties decoder reads (top-level map, gallery array,
/// item map, attributes maps, traits maps), every string (title, trait name, trait string value,
/// inscription id, txids), inline and packed shapes, with a valid prefix before the over-declared
/// part and few or no elements after it.
pub fn overdeclared() -> Vec<Vec<u8>> {
  let id: Vec<u8> = {
    let mut v = vec![0x58, 32];
    v.extend_from_slice(&[7u8; 32]);
    v
  };
  let mut out = Vec::new();
  for &n in &OVER_LENGTHS {
    let cat = |parts: &[&[u8]]| parts.concat();
    let m = big_head(5, n);
    let a = big_head(4, n);
    let t = big_head(3, n);
    let b = big_head(2, n);
    // containers
    out.push(cat(&[&m]));                                                            // top-level map
    out.push(cat(&[&m, &[0x01, 0xa1, 0x00, 0x61, 0x78]]));                             // ... with one entry
    out.push(cat(&[&[0xa1, 0x00], &a]));                                               // gallery array
    out.push(cat(&[&[0xa1, 0x00], &a, &[0xa0]]));                                      // ... one item
    out.push(cat(&[&[0xa1, 0x00, 0x81], &m]));                                         // item map
    out.push(cat(&[&[0xa1, 0x00, 0x81], &m, &[0x00], &id]));                           // ... with its id
    out.push(cat(&[&[0xa1, 0x00, 0x81, 0xa2, 0x00], &id, &[0x01], &m]));               // item attributes map
    out.push(cat(&[&[0xa1, 0x00, 0x81, 0xa2, 0x00], &id, &[0x01, 0xa1, 0x01], &m]));   // item traits map
    out.push(cat(&[&[0xa1, 0x00, 0x81, 0xa2, 0x00], &id, &[0x01, 0xa2, 0x00, 0x61, 0x74, 0x01], &m, &[0x61, 0x61, 0xf5]]));
    out.push(cat(&[&[0xa1, 0x01], &m]));                                               // attributes map
    out.push(cat(&[&[0xa1, 0x01, 0xa1, 0x01], &m]));                                   // traits map, nothing after
    out.push(cat(&[&[0xa1, 0x01, 0xa1, 0x01], &m, &[0x61, 0x61, 0xf5]]));              // traits map, one entry
    out.push(cat(&[&[0xa1, 0x01, 0xa2, 0x00, 0x63, 0x66, 0x6f, 0x6f, 0x01], &m]));     // valid title, then traits
    out.push(cat(&[&[0xa1, 0x01, 0xa2, 0x00, 0x63, 0x66, 0x6f, 0x6f, 0x01], &m, &[0x61, 0x61, 0xf5, 0x61, 0x62, 0x01]]));
    out.push(cat(&[&[0xa2, 0x00, 0x81, 0xa1, 0x00], &id, &[0x01, 0xa2, 0x00, 0x63, 0x66, 0x6f, 0x6f, 0x01], &m])); // gallery + attrs + traits
    // packed shapes: items without ids, txids at the end
    out.push(cat(&[&[0xa2, 0x00, 0x81, 0xa1, 0x01, 0xa1, 0x01], &m, &[0x02], &id]));
    out.push(cat(&[&[0xa3, 0x00, 0x81, 0xa1, 0x02, 0x05, 0x01, 0xa1, 0x01], &m, &[0x02], &id]));
    out.push(cat(&[&[0xa2, 0x00, 0x81, 0xa0, 0x02], &b, &[1, 2, 3]]));                 // txids string
    // strings
    out.push(cat(&[&[0xa1, 0x01, 0xa1, 0x00], &t, &[0x61]]));                          // title
    out.push(cat(&[&[0xa1, 0x01, 0xa1, 0x01, 0xa1], &t, &[0x61]]));                    // trait name
    out.push(cat(&[&[0xa1, 0x01, 0xa1, 0x01, 0xa1, 0x61, 0x61], &t]));                 // trait string value
    out.push(cat(&[&[0xa1, 0x00, 0x81, 0xa1, 0x00], &b, &[7; 40]]));                   // inscription id
    out.push(cat(&[&[0xa1, 0x02], &b]));                                               // txids
  }
  out
}

fn cbor_head(major: u8, n: u64) -> Vec<u8> {
  let m = major << 5;
  match n {
    0..=23 => vec![m | n as u8],
    24..=0xff => vec![m | 24, n as u8],
    0x100..=0xffff => [vec![m | 25], (n as u16).to_be_bytes().to_vec()].concat(),
    0x1_0000..=0xffff_ffff => [vec![m | 26], (n as u32).to_be_bytes().to_vec()].concat(),
    _ => [vec![m | 27], n.to_be_bytes().to_vec()].concat(),
  }
}

/// how the id of a crafted gallery item is written
#[derive(Clone, Copy, PartialEq)]
pub enum IdForm {
  Valid,
  Omitted,
  Null,
  Short,  // 31 bytes
  Long,   // 37 bytes
  Text,   // a text string instead of bytes
}

/// one crafted item: map of id / title / index
fn crafted_item(j: usize, id: IdForm, title: bool, index: Option<u64>) -> Vec<u8> {
  let mut fields: Vec<Vec<u8>> = Vec::new();
  let txid = vec![0x10 + j as u8; 32];
  match id {
    IdForm::Valid => {
      let mut v = txid.clone();
      if j % 2 == 1 {
        v.push(j as u8); // index j in the compact form
      }
      fields.push([vec![0x00], cbor_head(2, v.len() as u64), v].concat());
    }
    IdForm::Omitted => {}
    IdForm::Null => fields.push(vec![0x00, 0xf6]),
    IdForm::Short => fields.push([vec![0x00], cbor_head(2, 31), vec![7; 31]].concat()),
    IdForm::Long => fields.push([vec![0x00], cbor_head(2, 37), vec![7; 37]].concat()),
    IdForm::Text => fields.push([vec![0x00], cbor_head(3, 32), vec![0x61; 32]].concat()),
  }
  if title {
    fields.push(vec![0x01, 0xa1, 0x00, 0x61, 0x41 + j as u8]);
  }
  if let Some(n) = index {
    fields.push([vec![0x02], cbor_head(0, n)].concat());
  }
  [cbor_head(5, fields.len() as u64), fields.concat()].concat()
}

fn crafted_props(items: &[Vec<u8>], txids: Option<usize>, top_title: bool) -> Vec<u8> {
  let mut fields: Vec<Vec<u8>> = Vec::new();
  fields.push([vec![0x00], cbor_head(4, items.len() as u64), items.concat()].concat());
  if top_title {
    fields.push(vec![0x01, 0xa1, 0x00, 0x61, 0x74]);
  }
  if let Some(n) = txids {
    let bytes: Vec<u8> = (0..n).map(|k| 0xc0 + (k / 32) as u8).collect();
    fields.push([vec![0x02], cbor_head(2, n as u64), bytes].concat());
  }
  [cbor_head(5, fields.len() as u64), fields.concat()].concat()
}

/// Galleries of 1..=6 items in which every subset of positions lacks its id (omitted or null),
/// inline and packed (txids shorter / equal / longer than the items, not a multiple of 32, indices
/// present, zero, maximal and out of range), plus ids of wrong length or type at each position.
pub fn idless_galleries() -> Vec<Vec<u8>> {
  let mut out = Vec::new();
  for n in 1..=6usize {
    for mask in 0..(1u32 << n) {
      let lacks = |j: usize| mask & (1 << j) != 0;
      // inline: ids where the bit is clear
      let items: Vec<Vec<u8>> =
        (0..n).map(|j| crafted_item(j, if !lacks(j) { IdForm::Valid } else if j % 2 == 0 { IdForm::Omitted } else { IdForm::Null }, (mask as usize + j) % 3 == 0, None)).collect();
      out.push(crafted_props(&items, None, mask % 2 == 1));
      // packed: some items keep an inline id, the txids cover the first k items
      let k = (mask as usize * 7 + n) % (n + 2);
      let items: Vec<Vec<u8>> = (0..n)
        .map(|j| {
          let index = match (mask as usize + j) % 5 {
            0 => None,
            1 => Some(0),
            2 => Some(j as u64 + 1),
            3 => Some(u64::from(u32::MAX)),
            _ => Some(300),
          };
          crafted_item(j, if lacks(j) { IdForm::Omitted } else { IdForm::Valid }, j % 2 == 0, index)
        })
        .collect();
      out.push(crafted_props(&items, Some(32 * k), false));
      if mask % 4 == 1 {
        out.push(crafted_props(&items, Some(32 * k + 1 + (mask as usize % 31)), true)); // partial last chunk
      }
    }
    // wrong length / type of one id, index out of range, at each position
    for j in 0..n {
      for form in [IdForm::Short, IdForm::Long, IdForm::Text] {
        let items: Vec<Vec<u8>> = (0..n).map(|i| crafted_item(i, if i == j { form } else { IdForm::Valid }, false, None)).collect();
        out.push(crafted_props(&items, None, false));
      }
      let items: Vec<Vec<u8>> = (0..n).map(|i| crafted_item(i, IdForm::Omitted, false, if i == j { Some(1 << 32) } else { None })).collect();
      out.push(crafted_props(&items, Some(32 * n), false));
    }
  }
  out
}

/// op 7 line: 7 as_brotli bytes..  (decoded in a child process: an allocation failure aborts)
fn over_case(as_brotli: bool, b: &[u8]) -> Line {
  let mut l = L::new().p(7u8).p(as_brotli);
  l.raw(b);
  l.done()
}

fn candidates(p: &Properties) -> Vec<Vec<u8>> {
  let mut v = Vec::new();
  if let Some(inline) = ord::verif::envelope::properties_to_inline_cbor(p) {
    let packed = ord::verif::envelope::properties_to_packed_cbor(p).unwrap();
    v.push(inline.clone());
    v.push(packed.clone());
    for c in [inline, packed] {
      if let Ok((bytes, Some(_))) = Inscription::verif_compress_properties(c) {
        v.push(bytes);
      }
    }
  }
  v
}

pub fn malformed(rng: &mut Rng) -> Vec<u8> {
  let d = rng.chance(1, 8);
  let p = rand_props(rng, d);
  let base = if rng.chance(1, 2) { ord::verif::envelope::properties_to_inline_cbor(&p) } else { ord::verif::envelope::properties_to_packed_cbor(&p) }
    .unwrap_or_default();
  let mut b = base;
  match rng.below(12) {
    0 => {
      let n = rng.below(40) as usize;
      b = rng.bytes(n)
    }
    1 => {
      let n = b.len();
      b.truncate(rng.below(n as u64 + 1) as usize)
    }
    2 | 3 => {
      for _ in 0..rng.range(1, 3) {
        if !b.is_empty() {
          let j = rng.below(b.len() as u64) as usize;
          b[j] = rng.next() as u8;
        }
      }
    }
    4 => {
      if !b.is_empty() {
        let j = rng.below(b.len() as u64) as usize;
        b[j] = *rng.pick(&[0x9fu8, 0xbf, 0x5f, 0x7f, 0xff, 0xc0, 0xf9, 0xfa, 0xfb, 0xf7, 0x1b, 0x3b, 0x9b, 0xbb, 0x5b, 0x7b]);
      }
    }
    5 => {
      // deep nesting
      let depth = rng.range(10, 3000) as usize;
      let open = *rng.pick(&[0x81u8, 0xa1, 0x9f, 0xbf, 0xc1]);
      b = vec![0xa1, *rng.pick(&[0u8, 1, 2, 7])];
      b.extend(std::iter::repeat(open).take(depth));
    }
    6 => {
      // huge declared lengths
      b = vec![0xa1, *rng.pick(&[0u8, 1, 2, 5]), *rng.pick(&[0x9bu8, 0xbb, 0x5b, 0x7b])];
      b.extend_from_slice(&[0xff; 8]);
      b.extend_from_slice(&rng.bytes(4));
    }
    7 => {
      // unknown keys with nested values, duplicate keys
      b = vec![0xa4, 0x07, 0x82, 0x01, 0xa1, 0x61, 0x61, 0xf6, 0x01, 0xa1, 0x00, 0x61, 0x78, 0x01, 0xa1, 0x00, 0x61, 0x79, 0x18, 0x63, 0xfb, 0, 0, 0, 0, 0, 0, 0, 0];
    }
    8 => {
      // invalid utf-8 in a title
      b = vec![0xa1, 0x01, 0xa1, 0x00, 0x62, 0xc3, 0x28];
    }
    9 => {
      // txids of odd length / fewer txids than items
      b = vec![0xa2, 0x00, 0x82, 0xa0, 0xa1, 0x02, 0x05, 0x02, 0x58, 33];
      b.extend_from_slice(&rng.bytes(33));
    }
    10 => {
      let j = rng.below(b.len() as u64 + 1) as usize;
      let n = rng.range(1, 4) as usize;
      let ins = rng.bytes(n);
      b.splice(j..j, ins);
    }
    _ => {}
  }
  b
}

pub fn gen(rng: &mut Rng, tier: &str) -> Vec<Line> {
  let thorough = tier == "thorough";
  let mut v = Vec::new();
  v.push(L::new().p(9u8).done());
  // ---- op 0
  let mut push0 = |p: &Properties, v: &mut Vec<Line>| {
    let mut l = L::new().p(0u8);
    put_props_in(&mut l, p);
    v.push(l.done());
  };
  push0(&Properties::default(), &mut v);
  let n0 = if thorough { 25_000 } else { 2_000 };
  for j in 0..n0 {
    let p = rand_props(rng, j % 10 == 0);
    push0(&p, &mut v);
  }
  // ---- op 1: bounded decompression
  let br = Some(b"br".to_vec());
  let n1 = if thorough { 5_000 } else { 300 };
  v.push(decompress_case(&[], &br));
  v.push(decompress_case(&[1, 2, 3], &None));
  v.push(decompress_case(&[1, 2, 3], &Some(b"gzip".to_vec())));
  v.push(decompress_case(&[1, 2, 3], &Some(Vec::new())));
  for j in 0..n1 {
    let data: Vec<u8> = match rng.below(8) {
      0 => vec![0u8; rng.range(0, 300_000) as usize], // bomb
      1 => {
        let n = rng.range(0, 2000) as usize;
        rng.bytes(n)
      } // incompressible
      2 | 3 => {
        // repeated block: tunable ratio around the limit
        let blk_len = rng.range(1, 64) as usize;
        let blk = rng.bytes(blk_len);
        let reps = rng.range(1, 400) as usize;
        blk.iter().cycle().take(blk.len() * reps).cloned().collect()
      }
      4 => {
        // text-like
        let n = rng.range(10, 5000) as usize;
        (0..n).map(|_| *rng.pick(b"aaaabcde {}\":,0123")).collect()
      }
      _ => {
        let p = rand_props(rng, false);
        ord::verif::envelope::properties_to_inline_cbor(&p).unwrap_or_default()
      }
    };
    let mut value = brotli_compress(&data);
    match j % 10 {
      0 => {
        let n = value.len();
        value.truncate(rng.below(n as u64 + 1) as usize)
      }
      1 => {
        if !value.is_empty() {
          let k = rng.below(value.len() as u64) as usize;
          value[k] ^= 1 << rng.below(8);
        }
      }
      2 => value.extend_from_slice(&rng.bytes(5)),
      _ => {}
    }
    let enc = match rng.below(20) {
      0 => None,
      1 => Some(b"gzip".to_vec()),
      _ => br.clone(),
    };
    v.push(decompress_case(&value, &enc));
  }
  v.extend(cap_cases(rng, thorough));
  // ---- op 3: candidate choice (brotli at quality 11 is slow: few cases)
  let n3 = if thorough { 400 } else { 60 };
  for _ in 0..n3 {
    let p = rand_props(rng, false);
    let c = candidates(&p);
    let mut l = L::new().p(3u8);
    l.push(c.len());
    for b in &c {
      l.push(b.len());
    }
    put_props_in(&mut l, &p);
    v.push(l.done());
  }
  // ---- op 6: encode_properties(compress) -> properties() on values compressing near the 30:1 limit
  for (k, r) in [(2usize, 2900usize), (3, 2990), (3, 3000), (4, 3010), (3, 3050), (5, 3090), (3, 3100), (4, 3110), (2, 3300)] {
    let p = ratio_props(rng, k, r);
    let mut l = L::new().p(6u8);
    put_props_in(&mut l, &p);
    v.push(l.done());
  }
  // ---- op 8: crafted galleries with missing / malformed ids, compared with the model's from_cbor
  for b in idless_galleries() {
    let mut l = L::new().p(8u8);
    l.raw(&b);
    v.push(l.done());
  }
  // ---- op 7: declared lengths far beyond the input, every container and string; plain and inside brotli
  for b in overdeclared() {
    v.push(over_case(false, &b));
    v.push(over_case(true, &brotli_compress(&b)));
  }
  // ---- op 4: arbitrary / malformed bytes
  let n4 = if thorough { 200_000 } else { 5_000 };
  for _ in 0..n4 {
    let b = malformed(rng);
    let mut l = L::new().p(4u8);
    l.push(rng.below(8) == 0); // also try it as brotli
    l.raw(&b);
    v.push(l.done());
  }
  v
}

// ------------------------------------------------------------------ run

pub fn run(case: &Line) -> Outcome {
  let mut c = Cur::new(case);
  match c.u8() {
    0 => {
      let p = get_props(&mut c);
      guarded("encode", || {
        let inline = ord::verif::envelope::properties_to_inline_cbor(&p);
        let packed = ord::verif::envelope::properties_to_packed_cbor(&p);
        let mut l = L::new();
        put_optb(&mut l, &inline);
        put_optb(&mut l, &packed);
        let dup = has_dup(&p);
        let mut oracle = Ok(());
        for (name, b) in [("inline", &inline), ("packed", &packed)] {
          if let Some(b) = b {
            let back = ord::verif::envelope::properties_from_cbor(b);
            put_props_out(&mut l, &back);
            if !dup && back != p {
              oracle = Err(format!("from_cbor({name} form) differs from the encoded properties"));
            }
            if dup && back != Properties::default() {
              // a duplicate trait name is rejected by the decoder: documented behaviour, not a failure
            }
          }
        }
        if inline.is_none() != (p == Properties::default()) || inline.is_none() != packed.is_none() {
          oracle = Err("to_inline_cbor/to_packed_cbor None for non-default properties".into());
        }
        // the form chosen by encode_properties (brotli included, really executed) decodes back
        if !dup && case.len() % 16 == 0 {
          match Inscription::verif_encode_properties(true, &p) {
            Ok((properties, property_encoding)) => {
              let i = Inscription { properties, property_encoding, ..Default::default() };
              if i.verif_properties() != p {
                oracle = Err("properties() of the encode_properties(compress) result differs".into());
              }
            }
            Err(e) if e.contains("compression over") => {}
            Err(e) => oracle = Err(format!("encode_properties failed: {e}")),
          }
        }
        let k = p.gallery.len();
        let cat = if p == Properties::default() {
          "trivial/encode/default".to_string()
        } else {
          format!("encode/items{}{}", match k { 0 => "0", 1 => "1", 2..=5 => "2-5", 6..=20 => "6-20", _ => "21-40" }, if dup { "/dupname" } else { "" })
        };
        Outcome { obs: l.done(), oracle, cat }
      })
    }
    op @ (1 | 5) => {
      let (value, desc_len) = if op == 5 {
        let seed = c.u64();
        let b = c.usize();
        let z = c.usize();
        let pad = c.usize();
        (cap_value(seed, b, z, pad), Some(c.usize()))
      } else {
        (c.bytes(), None)
      };
      let enc = if c.bool() { Some(c.bytes()) } else { None };
      let err = c.bool();
      let mut sizes = Vec::new();
      while !c.at_end() {
        sizes.push(c.usize());
      }
      guarded("decompress", || {
        let i = Inscription { properties: Some(value.clone()), property_encoding: enc.clone(), ..Default::default() };
        let r = i.verif_properties_cbor();
        let mut l = L::new();
        match &r {
          None => l.push(0u8),
          Some(v) => {
            l.push(1u8);
            l.push(v.len())
          }
        }
        let max = bound(value.len());
        let mut oracle = Ok(());
        if desc_len.is_some() && desc_len != Some(value.len()) {
          oracle = Err("stale case: descriptor expands to a value of another length".into());
        }
        // the recorded chunk stream must be what the decompressor yields now
        let (now, now_err) = Inscription::verif_brotli_chunk_sizes(&value, max);
        if enc.as_deref() == Some(b"br") && (now != sizes || now_err != err) {
          oracle = Err("stale case: recorded chunk stream differs from the decompressor's".into());
        }
        // S: documented limits, and agreement with a plain full decompression when it fits
        if enc.is_some() {
          if let Some(v) = &r {
            if v.len() > max {
              oracle = Err(format!("decompressed {} bytes from {} (limit {max})", v.len(), value.len()));
            }
          }
        }
        let mut cat = if op == 5 { "cap/".to_string() } else { "decompress/".to_string() };
        if enc.as_deref() == Some(b"br") {
          let mut full = Vec::new();
          let res = brotli::Decompressor::new(value.as_slice(), 4096).take(max as u64 + 1).read_to_end(&mut full);
          match (&res, &r) {
            (Ok(_), Some(v)) if full.len() <= max => {
              if *v != full {
                oracle = Err("properties_cbor differs from plain decompression".into());
              }
              cat.push_str(if full.len() == max { "some/at-limit" } else if full.len() + 1 == max { "some/limit-1" } else if full.len() * 2 > max && max > 0 { "some/near-limit" } else { "some" });
              if max == limits().0 {
                cat.push_str("/size-cap");
              }
            }
            (Ok(_), None) if full.len() <= max => oracle = Err("properties_cbor refused a stream within the limits".into()),
            (Ok(_), Some(_)) => oracle = Err("properties_cbor returned a value beyond the limit".into()),
            (Ok(_), None) => cat.push_str(if max == limits().0 { "none/over-limit/size-cap" } else { "none/over-limit" }),
            (Err(_), None) => cat.push_str("none/stream-error"),
            (Err(_), Some(_)) => oracle = Err("properties_cbor returned a value for a broken stream".into()),
          }
        } else if enc.is_none() {
          cat.push_str("plain");
          if r.as_deref() != Some(value.as_slice()) {
            oracle = Err("uncompressed properties not passed through".into());
          }
        } else {
          cat.push_str("other-encoding");
          if r.is_some() {
            oracle = Err("unknown property encoding accepted".into());
          }
        }
        Outcome { obs: l.done(), oracle, cat }
      })
    }
    3 => {
      let n = c.usize();
      let lens: Vec<usize> = (0..n).map(|_| c.usize()).collect();
      let p = get_props(&mut c);
      guarded("choose", || {
        let cands = candidates(&p);
        let mut oracle = Ok(());
        if cands.iter().map(|b| b.len()).collect::<Vec<_>>() != lens {
          oracle = Err("stale case: candidate lengths differ".into());
        }
        let mut l = L::new();
        match Inscription::verif_encode_properties(true, &p) {
          Ok((Some(bytes), enc)) => {
            let idx = cands.iter().position(|b| *b == bytes);
            match idx {
              Some(j) => {
                l.push(j);
                if (j >= 2) != enc.is_some() {
                  oracle = Err("property_encoding does not match the chosen candidate".into());
                }
                if cands.iter().any(|b| b.len() < bytes.len()) {
                  oracle = Err("encode_properties did not choose a shortest candidate".into());
                }
              }
              None => {
                l.push(99u8);
                oracle = Err("encode_properties result is not one of the candidates".into());
              }
            }
            let i = Inscription { properties: Some(bytes), property_encoding: enc, ..Default::default() };
            if i.verif_properties() != p {
              oracle = Err("chosen encoding does not decode to the properties".into());
            }
          }
          Ok((None, _)) => l.push(Z { neg: true, mag: 1 }),
          Err(e) => {
            // compress_properties refuses ratios over 30:1: then no encoding is produced at all
            l.push(if cands.is_empty() { Z { neg: true, mag: 1 } } else { Z::from(hxlib_first_min(&lens)) });
            if !e.contains("compression over") {
              oracle = Err(format!("encode_properties failed: {e}"));
            }
          }
        }
        Outcome { obs: l.done(), oracle, cat: format!("choose/n{}", cands.len()) }
      })
    }
    6 => {
      let p = get_props(&mut c);
      guarded("ratio", || {
        let mut oracle = Ok(());
        let mut cat = "ratio/".to_string();
        match Inscription::verif_encode_properties(true, &p) {
          Ok((Some(bytes), enc)) => {
            let inline_len = ord::verif::envelope::properties_to_inline_cbor(&p).map(|b| b.len()).unwrap_or(0);
            cat.push_str(&format!("{}{}", if enc.is_some() { "compressed/x" } else { "plain/x" }, if enc.is_some() { inline_len / bytes.len().max(1) } else { 1 }));
            let i = Inscription { properties: Some(bytes), property_encoding: enc, ..Default::default() };
            if i.verif_properties() != p {
              oracle = Err("properties encoded by encode_properties(compress) do not decode to the same properties".into());
            }
          }
          Ok((None, _)) => cat.push_str("default"),
          Err(e) if e.contains("compression over") => cat.push_str("refused-by-encoder"),
          Err(e) => oracle = Err(format!("encode_properties failed: {e}")),
        }
        Outcome { obs: L::new().p(0u8).done(), oracle, cat }
      })
    }
    8 => {
      let b = c.rest_bytes();
      guarded("gallery", || {
        let p = ord::verif::envelope::properties_from_cbor(&b);
        let mut l = L::new();
        put_props_out(&mut l, &p);
        // S: every item of a returned gallery has its id (the accessor the gallery pages use), no
        // leftovers of the packed form; the same through Inscription::properties()
        let mut oracle = Ok(());
        let i = Inscription { properties: Some(b.clone()), ..Default::default() };
        for q in [&p, &i.verif_properties()] {
          for (k, it) in q.gallery.iter().enumerate() {
            let r = std::panic::catch_unwind(std::panic::AssertUnwindSafe(|| ord::verif::envelope::item_id(it)));
            if r.is_err() {
              oracle = Err(format!("from_cbor returned a gallery whose item {k} has no id: Item::id() panics"));
            }
            if it.index.is_some() {
              oracle = Err(format!("from_cbor left the packed index in item {k}"));
            }
          }
          if !q.txids.is_empty() {
            oracle = Err("from_cbor left txids in its result".into());
          }
        }
        let cat = format!("gallery/{}", if p.gallery.is_empty() { "dropped" } else { "kept" });
        Outcome { obs: l.done(), oracle, cat }
      })
    }
    7 if std::env::var_os("HX_CHILD").is_none() => {
      // the same case as op 4, run in a child process so that an aborting allocation failure
      // (not a panic: cannot be caught) is observed as a failure of this case
      let mut line = case.clone();
      line[0] = Z::from(4u8);
      let dir = std::env::temp_dir().join(format!("hx-envelope-child-{}-{:x}", std::process::id(), {
        let mut h = 0xcbf29ce484222325u64;
        for z in case.iter() {
          h = (h ^ z.mag as u64).wrapping_mul(0x100000001b3);
        }
        h
      }));
      std::fs::create_dir_all(&dir).unwrap();
      let file = dir.join("case.txt");
      std::fs::write(&file, fmt_line(&line) + "\n").unwrap();
      let status = std::process::Command::new(std::env::current_exe().unwrap())
        .args(["C28", "replay", file.to_str().unwrap(), dir.join("out").to_str().unwrap()])
        .env("HX_CHILD", "1")
        .stdout(std::process::Stdio::null())
        .stderr(std::process::Stdio::null())
        .status();
      let verdict = std::fs::read_to_string(dir.join("out").join("oracle.txt")).unwrap_or_default();
      let _ = std::fs::remove_dir_all(&dir);
      let oracle = match status {
        Ok(st) if st.success() && verdict.trim() == "ok" => Ok(()),
        Ok(st) if st.success() => Err(format!("over-declared length: {}", verdict.trim())),
        Ok(st) => Err(format!("decoding aborted the process ({st}): declared length used for an allocation")),
        Err(e) => Err(format!("could not run the child process: {e}")),
      };
      let cat = if oracle.is_ok() { "overdeclared/ok" } else { "overdeclared/failed" };
      Outcome { obs: L::new().p(0u8).done(), oracle, cat: cat.into() }
    }
    4 | 7 => {
      let as_brotli = c.bool();
      let b = c.rest_bytes();
      guarded("malformed", || {
        let p = ord::verif::envelope::properties_from_cbor(&b);
        let i = Inscription {
          properties: Some(b.clone()),
          property_encoding: if as_brotli { Some(b"br".to_vec()) } else { None },
          ..Default::default()
        };
        let q = i.verif_properties();
        let mut oracle = Ok(());
        if !as_brotli && p != q {
          oracle = Err("properties() and from_cbor disagree on a plain field".into());
        }
        // whatever was decoded has no leftovers of the packed form
        if !p.txids.is_empty() || p.gallery.iter().any(|it| it.index.is_some() || it.id.is_none()) {
          oracle = Err("from_cbor left txids / index / missing ids in its result".into());
        }
        let cat = if p == Properties::default() { "malformed/default" } else { "malformed/decoded" };
        Outcome { obs: L::new().p(0u8).done(), oracle, cat: cat.into() }
      })
    }
    _ => guarded("constants", || {
      let (max_size, ratio, buf, brotli) = Inscription::verif_properties_limits();
      let mut l = L::new();
      l.push(max_size);
      l.push(ratio);
      l.push(buf);
      l.raw(&brotli);
      Outcome { obs: l.done(), oracle: Ok(()), cat: "constants".into() }
    }),
  }
}

fn hxlib_first_min(lens: &[usize]) -> usize {
  let mut best = 0;
  for (j, n) in lens.iter().enumerate() {
    if *n < lens[best] {
      best = j;
    }
  }
  best
}
