//! Shared harness plumbing: PRNG, wire format, case files, run loop.
//!
//! Wire format (shared with the Coq models, whose entry points are
//! `list Z -> list Z`): one case per line, space-separated lowercase hex
//! integers with an optional leading '-'.
use std::collections::{BTreeMap, HashSet};
use std::fmt::Write as _;
use std::io::Write as _;
use std::panic::{catch_unwind, AssertUnwindSafe};

/// splitmix64: every random choice of a run derives from one seed.
#[derive(Clone)]
pub struct Rng(pub u64);

impl Rng {
  pub fn new(seed: u64) -> Self {
    Rng(seed ^ 0x9E37_79B9_7F4A_7C15)
  }
  pub fn next(&mut self) -> u64 {
    self.0 = self.0.wrapping_add(0x9E37_79B9_7F4A_7C15);
    let mut z = self.0;
    z = (z ^ (z >> 30)).wrapping_mul(0xBF58_476D_1CE4_E5B9);
    z = (z ^ (z >> 27)).wrapping_mul(0x94D0_49BB_1331_11EB);
    z ^ (z >> 31)
  }
  pub fn u128(&mut self) -> u128 {
    (u128::from(self.next()) << 64) | u128::from(self.next())
  }
  /// uniform in [0, n)
  pub fn below(&mut self, n: u64) -> u64 {
    if n == 0 {
      0
    } else {
      self.next() % n
    }
  }
  pub fn range(&mut self, lo: u64, hi_incl: u64) -> u64 {
    if hi_incl <= lo {
      // degenerate interval: still consume one draw so that sequences stay aligned
      let _ = self.next();
      return lo;
    }
    match (hi_incl - lo).checked_add(1) {
      Some(n) => lo + self.below(n),
      None => self.next(),
    }
  }
  pub fn chance(&mut self, num: u64, den: u64) -> bool {
    self.below(den) < num
  }
  pub fn pick<'a, T>(&mut self, xs: &'a [T]) -> &'a T {
    &xs[self.below(xs.len() as u64) as usize]
  }
  /// u128 with a random bit width (so small and large magnitudes both occur)
  pub fn u128_any_width(&mut self) -> u128 {
    let w = self.below(129) as u32;
    if w == 0 {
      0
    } else if w == 128 {
      self.u128() | (1 << 127)
    } else {
      (self.u128() & ((1u128 << w) - 1)) | (1u128 << (w - 1))
    }
  }
  pub fn u64_any_width(&mut self) -> u64 {
    let w = self.below(65) as u32;
    if w == 0 {
      0
    } else if w == 64 {
      self.next() | (1 << 63)
    } else {
      (self.next() & ((1u64 << w) - 1)) | (1u64 << (w - 1))
    }
  }
  pub fn bytes(&mut self, n: usize) -> Vec<u8> {
    (0..n).map(|_| self.next() as u8).collect()
  }
}

/// A wire integer.
#[derive(Clone, Copy, PartialEq, Eq, Hash, Debug)]
pub struct Z {
  pub neg: bool,
  pub mag: u128,
}

impl From<u128> for Z {
  fn from(m: u128) -> Z {
    Z { neg: false, mag: m }
  }
}
impl From<u64> for Z {
  fn from(m: u64) -> Z {
    Z { neg: false, mag: m.into() }
  }
}
impl From<u32> for Z {
  fn from(m: u32) -> Z {
    Z { neg: false, mag: m.into() }
  }
}
impl From<u16> for Z {
  fn from(m: u16) -> Z {
    Z { neg: false, mag: m.into() }
  }
}
impl From<u8> for Z {
  fn from(m: u8) -> Z {
    Z { neg: false, mag: m.into() }
  }
}
impl From<usize> for Z {
  fn from(m: usize) -> Z {
    Z { neg: false, mag: m as u128 }
  }
}
impl From<bool> for Z {
  fn from(b: bool) -> Z {
    Z { neg: false, mag: b as u128 }
  }
}
impl From<i64> for Z {
  fn from(m: i64) -> Z {
    Z { neg: m < 0, mag: m.unsigned_abs().into() }
  }
}
impl From<i32> for Z {
  fn from(m: i32) -> Z {
    Z { neg: m < 0, mag: m.unsigned_abs().into() }
  }
}
impl From<i128> for Z {
  fn from(m: i128) -> Z {
    Z { neg: m < 0, mag: m.unsigned_abs() }
  }
}

impl Z {
  pub fn u128(self) -> u128 {
    assert!(!self.neg);
    self.mag
  }
  pub fn u64(self) -> u64 {
    assert!(!self.neg);
    u64::try_from(self.mag).unwrap()
  }
  pub fn u32(self) -> u32 {
    assert!(!self.neg);
    u32::try_from(self.mag).unwrap()
  }
  pub fn u8(self) -> u8 {
    assert!(!self.neg);
    u8::try_from(self.mag).unwrap()
  }
  pub fn usize(self) -> usize {
    assert!(!self.neg);
    usize::try_from(self.mag).unwrap()
  }
  pub fn i64(self) -> i64 {
    let m = i128::try_from(self.mag).unwrap();
    i64::try_from(if self.neg { -m } else { m }).unwrap()
  }
  pub fn bool(self) -> bool {
    self.mag != 0
  }
}

pub type Line = Vec<Z>;

/// Builder for wire lines.
#[derive(Default, Clone)]
pub struct L(pub Line);
impl L {
  pub fn new() -> Self {
    L(Vec::new())
  }
  pub fn p<T: Into<Z>>(mut self, x: T) -> Self {
    self.0.push(x.into());
    self
  }
  pub fn push<T: Into<Z>>(&mut self, x: T) {
    self.0.push(x.into());
  }
  /// length-prefixed byte string
  pub fn bytes(&mut self, b: &[u8]) {
    self.0.push(b.len().into());
    for x in b {
      self.0.push((*x).into());
    }
  }
  /// bytes without length prefix
  pub fn raw(&mut self, b: &[u8]) {
    for x in b {
      self.0.push((*x).into());
    }
  }
  /// length-prefixed string as Unicode scalar values
  pub fn str(&mut self, s: &str) {
    self.0.push(s.chars().count().into());
    for c in s.chars() {
      self.0.push((c as u32).into());
    }
  }
  pub fn opt<T: Into<Z>>(&mut self, x: Option<T>) {
    match x {
      None => self.0.push(0u8.into()),
      Some(v) => {
        self.0.push(1u8.into());
        self.0.push(v.into());
      }
    }
  }
  pub fn done(self) -> Line {
    self.0
  }
}

/// Cursor for reading wire lines back (replay).
pub struct Cur<'a> {
  pub l: &'a [Z],
  pub i: usize,
}
impl<'a> Cur<'a> {
  pub fn new(l: &'a [Z]) -> Self {
    Cur { l, i: 0 }
  }
  pub fn z(&mut self) -> Z {
    let v = self.l[self.i];
    self.i += 1;
    v
  }
  pub fn u128(&mut self) -> u128 {
    self.z().u128()
  }
  pub fn u64(&mut self) -> u64 {
    self.z().u64()
  }
  pub fn u32(&mut self) -> u32 {
    self.z().u32()
  }
  pub fn u8(&mut self) -> u8 {
    self.z().u8()
  }
  pub fn usize(&mut self) -> usize {
    self.z().usize()
  }
  pub fn bool(&mut self) -> bool {
    self.z().bool()
  }
  pub fn bytes(&mut self) -> Vec<u8> {
    let n = self.usize();
    (0..n).map(|_| self.u8()).collect()
  }
  pub fn rest_bytes(&mut self) -> Vec<u8> {
    let mut v = Vec::new();
    while self.i < self.l.len() {
      v.push(self.u8());
    }
    v
  }
  pub fn string(&mut self) -> String {
    let n = self.usize();
    (0..n).map(|_| char::from_u32(self.u32()).unwrap()).collect()
  }
  pub fn opt_u128(&mut self) -> Option<u128> {
    if self.bool() {
      Some(self.u128())
    } else {
      None
    }
  }
  pub fn at_end(&self) -> bool {
    self.i >= self.l.len()
  }
}

pub fn fmt_line(l: &[Z]) -> String {
  let mut s = String::with_capacity(l.len() * 3);
  for (i, z) in l.iter().enumerate() {
    if i > 0 {
      s.push(' ');
    }
    if z.neg && z.mag != 0 {
      s.push('-');
    }
    write!(s, "{:x}", z.mag).unwrap();
  }
  s
}

pub fn parse_line(s: &str) -> Line {
  s.split_whitespace()
    .map(|t| {
      let (neg, t) = match t.strip_prefix('-') {
        Some(r) => (true, r),
        None => (false, t),
      };
      Z { neg, mag: u128::from_str_radix(t, 16).expect("bad hex token") }
    })
    .collect()
}

/// What the implementation did on one case.
pub struct Outcome {
  /// canonicalised observation, compared with the model's output
  pub obs: Line,
  /// S: the property's own predicate evaluated directly on the implementation
  pub oracle: Result<(), String>,
  /// category label for the input-distribution report; labels starting with
  /// "trivial" do not count towards distinct_nontrivial
  pub cat: String,
}

/// Observation used when the implementation panicked: `[-2]` (models return
/// the same for their `Panic` outcome).
pub fn panic_obs() -> Line {
  vec![Z { neg: true, mag: 2 }]
}

/// Run `f` catching panics; a panic becomes `panic_obs()` and an oracle failure
/// unless `panic_is_ok`.
pub fn guarded<F: FnOnce() -> Outcome>(cat: &str, f: F) -> Outcome {
  match catch_unwind(AssertUnwindSafe(f)) {
    Ok(o) => o,
    Err(e) => {
      let msg = if let Some(s) = e.downcast_ref::<&str>() {
        s.to_string()
      } else if let Some(s) = e.downcast_ref::<String>() {
        s.clone()
      } else {
        "panic".to_string()
      };
      Outcome { obs: panic_obs(), oracle: Err(format!("panic: {msg}")), cat: format!("{cat}/panic") }
    }
  }
}

pub struct Args {
  pub prop: String,
  pub mode: String, // gen | replay
  pub tier: String,
  pub seed: u64,
  pub outdir: String,
  pub replay_file: Option<String>,
}

pub fn parse_args() -> Args {
  let a: Vec<String> = std::env::args().collect();
  if a.len() < 5 {
    eprintln!("usage: {} <prop> gen <tier> <seed> <outdir> | <prop> replay <casefile> <outdir>", a[0]);
    std::process::exit(2);
  }
  if a[2] == "replay" {
    Args {
      prop: a[1].clone(),
      mode: "replay".into(),
      tier: "quick".into(),
      seed: 0,
      outdir: a[4].clone(),
      replay_file: Some(a[3].clone()),
    }
  } else {
    Args {
      prop: a[1].clone(),
      mode: "gen".into(),
      tier: a[3].clone(),
      seed: a[4].parse().expect("seed"),
      outdir: a[5].clone(),
      replay_file: None,
    }
  }
}

fn json_escape(s: &str) -> String {
  let mut o = String::new();
  for c in s.chars() {
    match c {
      '"' => o.push_str("\\\""),
      '\\' => o.push_str("\\\\"),
      '\n' => o.push_str("\\n"),
      '\r' => o.push_str("\\r"),
      '\t' => o.push_str("\\t"),
      c if (c as u32) < 0x20 => write!(o, "\\u{:04x}", c as u32).unwrap(),
      c => o.push(c),
    }
  }
  o
}

/// The standard run loop: obtain cases (generated or read back), run the
/// implementation on each, write cases.txt / impl.txt / oracle.txt / meta.json.
pub fn drive<G, R>(args: &Args, gen: G, run: R)
where
  G: FnOnce(&mut Rng, &str) -> Vec<Line>,
  R: Fn(&Line) -> Outcome,
{
  std::panic::set_hook(Box::new(|_| {}));
  let cases: Vec<Line> = match &args.replay_file {
    Some(f) => std::fs::read_to_string(f)
      .expect("read replay case file")
      .lines()
      .filter(|l| !l.trim().is_empty())
      .map(parse_line)
      .collect(),
    None => {
      let mut rng = Rng::new(args.seed);
      gen(&mut rng, &args.tier)
    }
  };
  std::fs::create_dir_all(&args.outdir).unwrap();
  let mut fc = std::io::BufWriter::new(std::fs::File::create(format!("{}/cases.txt", args.outdir)).unwrap());
  let mut fi = std::io::BufWriter::new(std::fs::File::create(format!("{}/impl.txt", args.outdir)).unwrap());
  let mut fo = std::io::BufWriter::new(std::fs::File::create(format!("{}/oracle.txt", args.outdir)).unwrap());
  let mut cats: BTreeMap<String, u64> = BTreeMap::new();
  let mut distinct: HashSet<u64> = HashSet::new();
  let mut distinct_nontrivial = 0u64;
  let mut oracle_failures = 0u64;
  for c in &cases {
    let o = run(c);
    let cl = fmt_line(c);
    writeln!(fc, "{cl}").unwrap();
    writeln!(fi, "{}", fmt_line(&o.obs)).unwrap();
    match &o.oracle {
      Ok(()) => writeln!(fo, "ok").unwrap(),
      Err(m) => {
        oracle_failures += 1;
        writeln!(fo, "FAIL {}", m.replace('\n', " ")).unwrap()
      }
    }
    // fnv-1a of the case line
    let mut h = 0xcbf29ce484222325u64;
    for b in cl.bytes() {
      h ^= u64::from(b);
      h = h.wrapping_mul(0x100000001b3);
    }
    let fresh = distinct.insert(h);
    if fresh && !o.cat.starts_with("trivial") {
      distinct_nontrivial += 1;
    }
    *cats.entry(o.cat).or_insert(0) += 1;
  }
  let mut meta = String::new();
  write!(
    meta,
    "{{\"evaluations\": {}, \"distinct\": {}, \"distinct_nontrivial\": {}, \"oracle_failures\": {}, \"categories\": {{",
    cases.len(),
    distinct.len(),
    distinct_nontrivial,
    oracle_failures
  )
  .unwrap();
  for (i, (k, v)) in cats.iter().enumerate() {
    if i > 0 {
      meta.push_str(", ");
    }
    write!(meta, "\"{}\": {}", json_escape(k), v).unwrap();
  }
  meta.push_str("}}\n");
  std::fs::write(format!("{}/meta.json", args.outdir), meta).unwrap();
}
