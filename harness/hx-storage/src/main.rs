//! Harness for the storage group: C35 (index storage encodings), C36 (settings precedence).
use hxlib::*;

mod c35;
mod c36;

fn main() {
  let args = parse_args();
  match args.prop.as_str() {
    "C35" => drive(&args, c35::gen, c35::run),
    "C36" => drive(&args, c36::gen, c36::run),
    p => {
      eprintln!("unknown property {p}");
      std::process::exit(2);
    }
  }
}
