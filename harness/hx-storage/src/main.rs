//! Harness for the storage group: C35 (index storage encodings), C36 (settings precedence).
use hxlib::*;

fn main() {
  let args = parse_args();
  match args.prop.as_str() {
    p => {
      eprintln!("unknown property {p}");
      std::process::exit(2);
    }
  }
}
