//! C35 — index storage encodings read back what was written.
//! Case lines (first integer = operation), observation lines: see coq/Codec/Storage.v run_C35.
//!   0 a b                      SatRange::store            -> 11 bytes | [-2]
//!   1 b0..b10                  SatRange::load             -> base end
//!   2 (block tx amount)*       encode_rune_balance*       -> bytes
//!   3 bytes                    decode_rune_balance        -> 0 block tx amount len | 1 errkind
//!   4 bytes                    the index's decode loop    -> 0 (block tx amount)* | [-2]
//!   5 txid32 index / 6 h t i   InscriptionId store / load
//!   7 .. / 8 ..                RuneEntry store / load
//!   9 .. / 10 ..               InscriptionEntry store / load
//!   11 txid32 vout / 12 b36    OutPoint store / load
//!   13 txid32 vout off / 14 b44  SatPoint store / load
//!   15 fields / 16 b80         Header store / load
//!   17 block tx                RuneId store+load
//!   20 flags ops               UtxoEntryBuf builder calls -> 0 bytes | [-2]
//!   21 flags bytes             UtxoEntry::parse + accessors -> 0 value ranges script inscriptions | [-2]
//!   22 flags lp(a) lp(b)       UtxoEntryBuf::merged       -> 0 bytes | [-2]
//!   23 flags                   UtxoEntryBuf::empty        -> 0 bytes
//! The oracle S performs the round trip on the real functions, independently of the model.
use bitcoin::hashes::Hash;
use bitcoin::{block::Header, OutPoint, Txid};
use hxlib::*;
use ord::index::verif_storage as vs;
use ord::{Index, InscriptionId, RuneEntry};
use ordinals::{varint, Rune, RuneId, Sat, SatPoint, SpacedRune, Terms};
use std::cell::OnceCell;

const P51: u64 = 1 << 51;
const P37: u64 = 1 << 37;
const P33: u64 = 1 << 33;
const SUPPLY: u64 = Sat::SUPPLY;

// ------------------------------------------------------------------ index pool (flags only)
struct Pool {
  _core: ordkit::mockcore::Handle,
  _dirs: Vec<tempfile::TempDir>,
  idx: Vec<Index>,
}

thread_local! {
  static POOL: OnceCell<Pool> = const { OnceCell::new() };
}

fn with_index<R>(flags: u8, f: impl FnOnce(&Index) -> R) -> R {
  POOL.with(|cell| {
    let pool = cell.get_or_init(|| {
      let core = ordkit::regtest_core();
      let mut dirs = Vec::new();
      let mut idx = Vec::new();
      for fl in 0..8u8 {
        let dir = tempfile::TempDir::new().unwrap();
        let mut a: Vec<&str> = Vec::new();
        if fl & 1 != 0 {
          a.push("--index-sats");
        }
        if fl & 2 != 0 {
          a.push("--index-addresses");
        }
        if fl & 4 == 0 {
          a.push("--no-index-inscriptions");
        }
        let index = ordkit::open_index(&core, dir.path(), &a);
        assert_eq!(vs::utxo_flags(&index), (fl & 1 != 0, fl & 2 != 0, fl & 4 != 0), "index flags");
        dirs.push(dir);
        idx.push(index);
      }
      Pool { _core: core, _dirs: dirs, idx }
    });
    f(&pool.idx[(flags & 7) as usize])
  })
}

// ------------------------------------------------------------------ generators
fn u64_edge(rng: &mut Rng) -> u64 {
  match rng.below(8) {
    0 => 0,
    1 => u64::MAX,
    2 => {
      let k = rng.below(64) as u32;
      (1u64 << k).wrapping_add(rng.below(3)).wrapping_sub(1)
    }
    _ => rng.u64_any_width(),
  }
}

fn u128_edge(rng: &mut Rng) -> u128 {
  match rng.below(8) {
    0 => 0,
    1 => u128::MAX,
    2 => {
      let k = rng.below(128) as u32;
      (1u128 << k).wrapping_add(rng.below(3) as u128).wrapping_sub(1)
    }
    _ => rng.u128_any_width(),
  }
}

fn u32_edge(rng: &mut Rng) -> u32 {
  match rng.below(6) {
    0 => 0,
    1 => u32::MAX,
    2 => 1u32 << rng.below(32),
    _ => rng.next() as u32 >> rng.below(32),
  }
}

fn txid_bytes(rng: &mut Rng) -> Vec<u8> {
  match rng.below(6) {
    0 => vec![0; 32],
    1 => vec![0xff; 32],
    2 => (0..32).collect(),
    _ => rng.bytes(32),
  }
}

fn opt_u64(rng: &mut Rng) -> Option<u64> {
  rng.chance(1, 2).then(|| u64_edge(rng))
}

fn opt_u128(rng: &mut Rng) -> Option<u128> {
  rng.chance(1, 2).then(|| u128_edge(rng))
}

fn gen_char(rng: &mut Rng) -> char {
  loop {
    let c = match rng.below(4) {
      0 => rng.below(128) as u32,
      1 => rng.below(0x800) as u32,
      2 => rng.below(0x10000) as u32,
      _ => rng.below(0x110000) as u32,
    };
    if let Some(c) = char::from_u32(c) {
      return c;
    }
  }
}

fn sat_range_cases(rng: &mut Rng, n: usize, v: &mut Vec<Line>) {
  let bases = [0, 1, 255, 256, SUPPLY - 1, SUPPLY, P51 - 1, P51, P51 + 1, 1 << 56, u64::MAX >> 1];
  let deltas = [0, 1, 7, 8, 50 * 100_000_000, P33 - 1, P33, P37 - 1, P37, P37 + 1, 1 << 40];
  for a in bases {
    for d in deltas {
      if let Some(b) = a.checked_add(d) {
        v.push(L::new().p(0u8).p(a).p(b).done());
      }
    }
    if a > 0 {
      v.push(L::new().p(0u8).p(a).p(a - 1).done());
    }
  }
  for _ in 0..n {
    let (a, d) = match rng.below(10) {
      // the domain the index uses
      0..=4 => (rng.below(SUPPLY), rng.below(50 * 100_000_000 + 1)),
      5 => (rng.below(P51), rng.below(P37)),
      6 => (P51 - 1 - rng.below(4), P37 - 1 - rng.below(4)),
      // outside: base too wide / delta too wide
      7 => (rng.u64_any_width(), rng.below(P37)),
      8 => (rng.below(P51), rng.u64_any_width()),
      _ => (u64_edge(rng), u64_edge(rng)),
    };
    let b = if rng.chance(1, 40) { a.wrapping_sub(1 + rng.below(5)) } else { a.saturating_add(d) };
    v.push(L::new().p(0u8).p(a).p(b).done());
  }
  for _ in 0..n / 2 {
    let mut l = L::new().p(1u8);
    let bytes = match rng.below(4) {
      0 => vec![0xff; 11],
      1 => {
        let a = rng.below(SUPPLY);
        vs::sat_range_store((a, a + rng.below(P33))).to_vec()
      }
      _ => rng.bytes(11),
    };
    l.raw(&bytes);
    v.push(l.done());
  }
}

fn gen_balance(rng: &mut Rng) -> (u64, u32, u128) {
  (u64_edge(rng), u32_edge(rng), u128_edge(rng))
}

fn balance_cases(rng: &mut Rng, n: usize, v: &mut Vec<Line>) {
  for _ in 0..n {
    let k = rng.below(6) as usize;
    let mut l = L::new().p(2u8);
    for _ in 0..k {
      let (b, t, a) = gen_balance(rng);
      l.push(b);
      l.push(t);
      l.push(a);
    }
    v.push(l.done());
  }
  for _ in 0..n {
    // single decode: valid + junk, id out of range, truncated, random
    let mut buf = Vec::new();
    match rng.below(8) {
      0..=2 => {
        let (b, t, a) = gen_balance(rng);
        Index::encode_rune_balance(RuneId { block: b, tx: t }, a, &mut buf);
        let junk = rng.below(4) as usize;
        buf.extend(rng.bytes(junk));
      }
      3 => {
        // block or tx wider than the id fields
        let wide_block = rng.chance(1, 2);
        varint::encode_to_vec(if wide_block { u128::from(u64::MAX) + 1 + u128::from(rng.below(9)) } else { 5 }, &mut buf);
        varint::encode_to_vec(if wide_block { 7 } else { u128::from(u32::MAX) + 1 + u128::from(rng.below(9)) }, &mut buf);
        if rng.chance(2, 3) {
          varint::encode_to_vec(u128_edge(rng), &mut buf);
        }
      }
      4 => {
        let (b, t, a) = gen_balance(rng);
        Index::encode_rune_balance(RuneId { block: b, tx: t }, a, &mut buf);
        let cut = rng.below(buf.len() as u64) as usize;
        buf.truncate(cut);
      }
      5 => {
        let len = rng.below(30) as usize;
        buf = (0..len).map(|_| rng.next() as u8 | 0x80).collect();
      }
      _ => {
        let len = rng.below(24) as usize;
        buf = rng.bytes(len);
      }
    }
    let mut l = L::new().p(3u8);
    l.raw(&buf);
    v.push(l.done());
  }
  for _ in 0..n {
    let mut buf = Vec::new();
    let k = rng.below(6);
    for _ in 0..k {
      let (b, t, a) = gen_balance(rng);
      Index::encode_rune_balance(RuneId { block: b, tx: t }, a, &mut buf);
    }
    match rng.below(8) {
      0 => {
        let cut = rng.below(buf.len() as u64 + 1) as usize;
        buf.truncate(cut);
      }
      1 => {
        let junk = 1 + rng.below(4) as usize;
        buf.extend(rng.bytes(junk));
      }
      _ => {}
    }
    let mut l = L::new().p(4u8);
    l.raw(&buf);
    v.push(l.done());
  }
}

fn push_opt<T: Into<Z>>(l: &mut L, x: Option<T>) {
  l.opt(x);
}

fn id_cases(rng: &mut Rng, n: usize, v: &mut Vec<Line>) {
  for _ in 0..n {
    let mut l = L::new().p(5u8);
    l.raw(&txid_bytes(rng));
    l.push(u32_edge(rng));
    v.push(l.done());
    v.push(L::new().p(6u8).p(u128_edge(rng)).p(u128_edge(rng)).p(u32_edge(rng)).done());
    let mut l = L::new().p(11u8);
    l.raw(&txid_bytes(rng));
    l.push(u32_edge(rng));
    v.push(l.done());
    let mut l = L::new().p(12u8);
    l.raw(&rng.bytes(36));
    v.push(l.done());
    let mut l = L::new().p(13u8);
    l.raw(&txid_bytes(rng));
    l.push(u32_edge(rng));
    l.push(u64_edge(rng));
    v.push(l.done());
    let mut l = L::new().p(14u8);
    l.raw(&rng.bytes(44));
    v.push(l.done());
    let mut l = L::new().p(15u8).p(u32_edge(rng));
    l.raw(&txid_bytes(rng));
    l.raw(&txid_bytes(rng));
    l.push(u32_edge(rng));
    l.push(u32_edge(rng));
    l.push(u32_edge(rng));
    v.push(l.done());
    let mut l = L::new().p(16u8);
    l.raw(&rng.bytes(80));
    v.push(l.done());
    v.push(L::new().p(17u8).p(u64_edge(rng)).p(u32_edge(rng)).done());
  }
}

fn push_terms(l: &mut L, rng: &mut Rng) {
  if rng.chance(1, 3) {
    l.push(0u8);
  } else {
    l.push(1u8);
    push_opt(l, opt_u128(rng)); // cap
    push_opt(l, opt_u64(rng)); // height.0
    push_opt(l, opt_u64(rng)); // height.1
    push_opt(l, opt_u128(rng)); // amount
    push_opt(l, opt_u64(rng)); // offset.0
    push_opt(l, opt_u64(rng)); // offset.1
  }
}

fn entry_cases(rng: &mut Rng, n: usize, v: &mut Vec<Line>) {
  for _ in 0..n {
    for op in [7u8, 8u8] {
      let mut l = L::new().p(op).p(u64_edge(rng)).p(u128_edge(rng)).p(rng.next() as u8);
      if op == 7 {
        l.raw(&txid_bytes(rng));
      } else {
        l.push(u128_edge(rng));
        l.push(u128_edge(rng));
      }
      l.push(u128_edge(rng)); // mints
      l.push(u64_edge(rng)); // number
      l.push(u128_edge(rng)); // premine
      l.push(u128_edge(rng)); // rune
      l.push(u32_edge(rng)); // spacers
      push_opt(&mut l, rng.chance(2, 3).then(|| gen_char(rng) as u32));
      push_terms(&mut l, rng);
      l.push(u64_edge(rng)); // timestamp
      l.push(rng.chance(1, 2)); // turbo
      v.push(l.done());
    }
    for op in [9u8, 10u8] {
      let mut l = L::new().p(op).p(rng.next() as u16).p(u64_edge(rng)).p(u32_edge(rng)).p(rng.chance(1, 2));
      if op == 9 {
        l.raw(&txid_bytes(rng));
      } else {
        l.push(u128_edge(rng));
        l.push(u128_edge(rng));
      }
      l.push(u32_edge(rng)); // index
      let number: i32 = match rng.below(5) {
        0 => i32::MIN,
        1 => i32::MAX,
        2 => -1,
        _ => rng.next() as i32 >> rng.below(32),
      };
      l.push(number);
      let np = rng.below(5) as usize;
      l.push(np);
      for _ in 0..np {
        l.push(u32_edge(rng));
      }
      push_opt(&mut l, opt_u64(rng));
      l.push(u32_edge(rng));
      l.push(u32_edge(rng));
      v.push(l.done());
    }
  }
}

// ---- UTXO entries
#[derive(Clone, Debug, PartialEq)]
struct Entry {
  ranges: Vec<(u64, u64)>,
  value: u64,
  script: Vec<u8>,
  inscriptions: Vec<(u32, u64)>,
}

fn gen_entry(rng: &mut Rng, flags: u8, mergeable: bool) -> Entry {
  let nr = if flags & 1 != 0 { [0, 0, 1, 2, 3, 12, 13][rng.below(7) as usize] } else { 0 };
  let ranges: Vec<(u64, u64)> = (0..nr)
    .map(|_| {
      let a = if rng.chance(1, 6) { P51 - 1 - rng.below(3) } else { rng.below(SUPPLY) };
      let d = match rng.below(5) {
        0 => 0,
        1 => P37 - 1,
        2 => 50 * 100_000_000,
        _ => rng.below(P33),
      };
      (a, a + d)
    })
    .collect();
  let value = if flags & 1 != 0 {
    ranges.iter().map(|r| r.1 - r.0).sum()
  } else if mergeable {
    0
  } else {
    u64_edge(rng)
  };
  let script = if flags & 2 != 0 && !mergeable {
    let len = [0usize, 1, 22, 34, 127, 128, 300][rng.below(7) as usize];
    rng.bytes(len)
  } else {
    Vec::new()
  };
  let ni = if flags & 4 != 0 { rng.below(5) } else { 0 };
  let inscriptions = (0..ni).map(|_| (u32_edge(rng), u64_edge(rng))).collect();
  Entry { ranges, value, script, inscriptions }
}

fn entry_ops(flags: u8, e: &Entry) -> Vec<vs::UtxoOp> {
  let mut ops = Vec::new();
  if flags & 1 != 0 {
    let mut raw = Vec::new();
    for r in &e.ranges {
      raw.extend(vs::sat_range_store(*r));
    }
    ops.push(vs::UtxoOp::SatRanges(raw));
  } else {
    ops.push(vs::UtxoOp::Value(e.value));
  }
  if flags & 2 != 0 {
    ops.push(vs::UtxoOp::ScriptPubkey(e.script.clone()));
  }
  if flags & 4 != 0 {
    for (s, o) in &e.inscriptions {
      ops.push(vs::UtxoOp::Inscription(*s, *o));
    }
  }
  ops
}

fn ops_line(flags: u8, ops: &[vs::UtxoOp]) -> Line {
  let mut l = L::new().p(20u8).p(flags);
  for op in ops {
    match op {
      vs::UtxoOp::Value(v) => {
        l.push(0u8);
        l.push(*v);
      }
      vs::UtxoOp::SatRanges(b) => {
        l.push(1u8);
        l.bytes(b);
      }
      vs::UtxoOp::ScriptPubkey(b) => {
        l.push(2u8);
        l.bytes(b);
      }
      vs::UtxoOp::Inscriptions(b) => {
        l.push(3u8);
        l.bytes(b);
      }
      vs::UtxoOp::Inscription(s, o) => {
        l.push(4u8);
        l.push(*s);
        l.push(*o);
      }
    }
  }
  l.done()
}

fn read_ops(c: &mut Cur) -> Vec<vs::UtxoOp> {
  let mut ops = Vec::new();
  while !c.at_end() {
    ops.push(match c.u8() {
      0 => vs::UtxoOp::Value(c.u64()),
      1 => vs::UtxoOp::SatRanges(c.bytes()),
      2 => vs::UtxoOp::ScriptPubkey(c.bytes()),
      3 => vs::UtxoOp::Inscriptions(c.bytes()),
      _ => vs::UtxoOp::Inscription(c.u32(), c.u64()),
    });
  }
  ops
}

fn random_op(rng: &mut Rng) -> vs::UtxoOp {
  match rng.below(5) {
    0 => vs::UtxoOp::Value(u64_edge(rng)),
    1 => {
      let len = [0usize, 11, 22, 10, 12][rng.below(5) as usize];
      vs::UtxoOp::SatRanges(rng.bytes(len))
    }
    2 => {
      let len = rng.below(40) as usize;
      vs::UtxoOp::ScriptPubkey(rng.bytes(len))
    }
    3 => {
      let len = rng.below(12) as usize;
      vs::UtxoOp::Inscriptions(rng.bytes(len))
    }
    _ => vs::UtxoOp::Inscription(u32_edge(rng), u64_edge(rng)),
  }
}

fn utxo_cases(rng: &mut Rng, n: usize, v: &mut Vec<Line>) {
  for flags in 0..8u8 {
    v.push(L::new().p(23u8).p(flags).done());
  }
  for i in 0..n {
    let flags = (i % 8) as u8;
    // well-formed build (the updater's call order)
    let e = gen_entry(rng, flags, false);
    let ops = entry_ops(flags, &e);
    v.push(ops_line(flags, &ops));
    // parse of the bytes built
    let bytes = with_index(flags, |idx| vs::utxo_build(idx, &ops));
    let mut l = L::new().p(21u8).p(flags);
    l.raw(&bytes);
    v.push(l.done());
    // merged of two mergeable entries (lost / unbound pseudo-outputs: no value, no script)
    let (ea, eb) = (gen_entry(rng, flags, true), gen_entry(rng, flags, true));
    let (ba, bb) = with_index(flags, |idx| (vs::utxo_build(idx, &entry_ops(flags, &ea)), vs::utxo_build(idx, &entry_ops(flags, &eb))));
    let mut l = L::new().p(22u8).p(flags);
    l.bytes(&ba);
    l.bytes(&bb);
    v.push(l.done());
    if i % 4 == 0 {
      // invalid builder sequences: wrong flag, wrong order, missing parts
      let k = rng.below(5) as usize;
      let mut ops2: Vec<vs::UtxoOp> = match rng.below(3) {
        0 => (0..k).map(|_| random_op(rng)).collect(),
        1 => {
          let mut o = ops.clone();
          if !o.is_empty() {
            let j = rng.below(o.len() as u64) as usize;
            o.remove(j);
          }
          o
        }
        _ => {
          let mut o = ops.clone();
          let j = rng.below(o.len() as u64 + 1) as usize;
          o.insert(j, random_op(rng));
          o
        }
      };
      if rng.chance(1, 8) {
        ops2.reverse();
      }
      let fl2 = if rng.chance(1, 3) { rng.below(8) as u8 } else { flags };
      v.push(ops_line(fl2, &ops2));
      // parse of damaged / foreign bytes
      let mut b2 = bytes.clone();
      match rng.below(4) {
        0 => {
          let cut = rng.below(b2.len() as u64 + 1) as usize;
          b2.truncate(cut);
        }
        1 => {
          if !b2.is_empty() {
            let j = rng.below(b2.len() as u64) as usize;
            b2[j] = rng.next() as u8;
          }
        }
        2 => {
          let len = rng.below(30) as usize;
          b2 = rng.bytes(len);
        }
        _ => {}
      }
      let fl3 = if rng.chance(1, 2) { rng.below(8) as u8 } else { flags };
      let mut l = L::new().p(21u8).p(fl3);
      l.raw(&b2);
      v.push(l.done());
      // merged with entries that are not mergeable / parsed under other flags
      let mergeable3 = rng.chance(1, 2);
      let e3 = gen_entry(rng, flags, mergeable3);
      let b3 = with_index(flags, |idx| vs::utxo_build(idx, &entry_ops(flags, &e3)));
      let mut l = L::new().p(22u8).p(fl3);
      if rng.chance(1, 2) {
        l.bytes(&b3);
        l.bytes(&ba);
      } else {
        l.bytes(&ba);
        l.bytes(&b2);
      }
      v.push(l.done());
    }
  }
}

pub fn gen(rng: &mut Rng, tier: &str) -> Vec<Line> {
  let thorough = tier == "thorough";
  let mut v = Vec::new();
  sat_range_cases(rng, if thorough { 1_500_000 } else { 12_000 }, &mut v);
  balance_cases(rng, if thorough { 400_000 } else { 5_000 }, &mut v);
  id_cases(rng, if thorough { 100_000 } else { 800 }, &mut v);
  entry_cases(rng, if thorough { 100_000 } else { 1_000 }, &mut v);
  utxo_cases(rng, if thorough { 300_000 } else { 4_000 }, &mut v);
  v
}

// ------------------------------------------------------------------ run
fn arr<const K: usize>(b: &[u8]) -> [u8; K] {
  b.try_into().expect("fixed-length value on the case line")
}

fn fail(class: &str, msg: String) -> Result<(), String> {
  Err(format!("[{class}] {msg}"))
}

fn read_terms(c: &mut Cur) -> Option<Terms> {
  if !c.bool() {
    return None;
  }
  let cap = c.opt_u128();
  let h0 = c.opt_u128().map(|x| x as u64);
  let h1 = c.opt_u128().map(|x| x as u64);
  let amount = c.opt_u128();
  let o0 = c.opt_u128().map(|x| x as u64);
  let o1 = c.opt_u128().map(|x| x as u64);
  Some(Terms { amount, cap, height: (h0, h1), offset: (o0, o1) })
}

fn write_terms(l: &mut L, t: &Option<(Option<u128>, (Option<u64>, Option<u64>), Option<u128>, (Option<u64>, Option<u64>))>) {
  match t {
    None => l.push(0u8),
    Some((cap, h, amount, o)) => {
      l.push(1u8);
      l.opt(*cap);
      l.opt(h.0);
      l.opt(h.1);
      l.opt(*amount);
      l.opt(o.0);
      l.opt(o.1);
    }
  }
}

fn pairs(l: &mut L, p: &[(u64, u64)]) {
  l.push(p.len());
  for (a, b) in p {
    l.push(*a);
    l.push(*b);
  }
}

pub fn run(case: &Line) -> Outcome {
  let mut c = Cur::new(case);
  let op = c.u8();
  match op {
    0 => {
      let (a, b) = (c.u64(), c.u64());
      let in_domain = a < P51 && a <= b && b - a < P37;
      let cat = if b < a {
        "sat_range/store/reversed"
      } else if in_domain && a < SUPPLY && b - a <= 50 * 100_000_000 {
        "sat_range/store/in-supply"
      } else if in_domain {
        "sat_range/store/in-domain"
      } else {
        "sat_range/store/outside"
      };
      let mut o = guarded(cat, || {
        let v = vs::sat_range_store((a, b));
        let back = vs::sat_range_load(v);
        let mut obs = L::new();
        obs.raw(&v);
        let oracle = if in_domain && back != (a, b) { fail("sat-range", format!("load(store({a},{b})) = {back:?}")) } else { Ok(()) };
        Outcome { obs: obs.done(), oracle, cat: cat.into() }
      });
      if b < a {
        o.oracle = Ok(()); // reversed range: not a value the index writes; the panic is the modelled behaviour
      }
      o
    }
    1 => {
      let bytes = c.rest_bytes();
      guarded("sat_range/load", || {
        let r = vs::sat_range_load(arr::<11>(&bytes));
        // S: what was loaded stores to the same bits (top bit of byte 10 is outside the packing: none)
        let again = vs::sat_range_store(r);
        let oracle = if again[..] == bytes[..] { Ok(()) } else { fail("sat-range", format!("store(load({bytes:?})) = {again:?}")) };
        Outcome { obs: L::new().p(r.0).p(r.1).done(), oracle, cat: "sat_range/load".into() }
      })
    }
    2 => {
      let mut items = Vec::new();
      while !c.at_end() {
        items.push((c.u64(), c.u32(), c.u128()));
      }
      guarded("balances/encode", || {
        let mut buf = Vec::new();
        for (b, t, a) in &items {
          Index::encode_rune_balance(RuneId { block: *b, tx: *t }, *a, &mut buf);
        }
        // S: decode with the loop the index uses
        let mut back = Vec::new();
        let mut i = 0;
        while i < buf.len() {
          let ((id, amount), len) = Index::decode_rune_balance(&buf[i..]).unwrap();
          i += len;
          back.push((id.block, id.tx, amount));
        }
        let oracle = if back == items { Ok(()) } else { fail("rune-balance", format!("decode*(encode*({items:?})) = {back:?}")) };
        let mut obs = L::new();
        obs.raw(&buf);
        Outcome { obs: obs.done(), oracle, cat: format!("{}balances/encode/n{}", if items.is_empty() { "trivial/" } else { "" }, items.len()) }
      })
    }
    3 => {
      let buf = c.rest_bytes();
      guarded("balances/decode1", || match Index::decode_rune_balance(&buf) {
        Ok(((id, amount), len)) => {
          // S: re-encoding gives exactly the consumed prefix unless the varints were padded
          let mut again = Vec::new();
          Index::encode_rune_balance(id, amount, &mut again);
          let redecode = Index::decode_rune_balance(&again).ok().map(|((i2, a2), l2)| (i2, a2, l2));
          let oracle = if redecode == Some((id, amount, again.len())) && len <= buf.len() {
            Ok(())
          } else {
            fail("rune-balance", format!("decode({buf:?}) = ({id},{amount},{len}) does not re-encode/decode"))
          };
          Outcome { obs: L::new().p(0u8).p(id.block).p(id.tx).p(amount).p(len).done(), oracle, cat: "balances/decode1/ok".into() }
        }
        Err(e) => {
          let kind: u8 = match e.downcast_ref::<varint::Error>() {
            Some(varint::Error::Overlong) => 1,
            Some(varint::Error::Overflow) => 2,
            Some(varint::Error::Unterminated) => 3,
            None => {
              if e.downcast_ref::<std::num::TryFromIntError>().is_some() {
                4
              } else {
                9
              }
            }
          };
          Outcome { obs: L::new().p(1u8).p(kind).done(), oracle: Ok(()), cat: format!("{}balances/decode1/err{kind}", if buf.is_empty() { "trivial/" } else { "" }) }
        }
      })
    }
    4 => {
      let buf = c.rest_bytes();
      let mut o = guarded("balances/decode*", || {
        let mut back = Vec::new();
        let mut i = 0;
        while i < buf.len() {
          let ((id, amount), len) = Index::decode_rune_balance(&buf[i..]).unwrap();
          i += len;
          back.push((id, amount));
        }
        let mut obs = L::new().p(0u8);
        for (id, a) in &back {
          obs.push(id.block);
          obs.push(id.tx);
          obs.push(*a);
        }
        Outcome { obs: obs.done(), oracle: Ok(()), cat: format!("{}balances/decode*/n{}", if buf.is_empty() { "trivial/" } else { "" }, back.len()) }
      });
      o.oracle = Ok(()); // a panic here is the modelled `.unwrap()` on a damaged buffer
      o
    }
    5 => {
      let txid = c.bytes_n(32);
      let index = c.u32();
      guarded("id/inscription/store", || {
        let id = InscriptionId { txid: Txid::from_byte_array(arr::<32>(&txid)), index };
        let v = vs::inscription_id_store(id);
        let back = vs::inscription_id_load(v);
        let oracle = if back == id { Ok(()) } else { fail("inscription-id", format!("load(store({id})) = {back}")) };
        Outcome { obs: L::new().p(v.0).p(v.1).p(v.2).done(), oracle, cat: "id/inscription/store".into() }
      })
    }
    6 => {
      let v = (c.u128(), c.u128(), c.u32());
      guarded("id/inscription/load", || {
        let id = vs::inscription_id_load(v);
        let back = vs::inscription_id_store(id);
        let oracle = if back == v { Ok(()) } else { fail("inscription-id", format!("store(load({v:?})) = {back:?}")) };
        let mut obs = L::new();
        obs.raw(&id.txid.to_byte_array());
        obs.push(id.index);
        Outcome { obs: obs.done(), oracle, cat: "id/inscription/load".into() }
      })
    }
    7 | 8 => {
      let block = c.u64();
      let burned = c.u128();
      let divisibility = c.u8();
      let (etching_bytes, etching_halves) = if op == 7 { (c.bytes_n(32), (0, 0)) } else { (Vec::new(), (c.u128(), c.u128())) };
      let mints = c.u128();
      let number = c.u64();
      let premine = c.u128();
      let rune = c.u128();
      let spacers = c.u32();
      let symbol = c.opt_u128().map(|x| char::from_u32(x as u32).expect("char"));
      let terms = read_terms(&mut c);
      let timestamp = c.u64();
      let turbo = c.bool();
      let tuple_terms = terms.map(|t| (t.cap, t.height, t.amount, t.offset));
      if op == 7 {
        guarded("entry/rune/store", || {
          let e = RuneEntry {
            block,
            burned,
            divisibility,
            etching: Txid::from_byte_array(arr::<32>(&etching_bytes)),
            mints,
            number,
            premine,
            spaced_rune: SpacedRune { rune: Rune(rune), spacers },
            symbol,
            terms,
            timestamp,
            turbo,
          };
          let v = vs::rune_entry_store(e);
          let back = vs::rune_entry_load(v);
          let oracle = if back == e { Ok(()) } else { fail("rune-entry", format!("load(store({e:?})) = {back:?}")) };
          let mut obs = L::new().p(v.0).p(v.1).p(v.2).p(v.3 .0).p(v.3 .1).p(v.4).p(v.5).p(v.6).p(v.7 .0).p(v.7 .1);
          obs.opt(v.8.map(|c| c as u32));
          write_terms(&mut obs, &v.9);
          obs.push(v.10);
          obs.push(v.11);
          Outcome { obs: obs.done(), oracle, cat: format!("entry/rune/store/terms{}", terms.is_some() as u8) }
        })
      } else {
        guarded("entry/rune/load", || {
          let v = (block, burned, divisibility, etching_halves, mints, number, premine, (rune, spacers), symbol, tuple_terms, timestamp, turbo);
          let e = vs::rune_entry_load(v);
          let back = vs::rune_entry_store(e);
          let oracle = if back == v { Ok(()) } else { fail("rune-entry", format!("store(load({v:?})) = {back:?}")) };
          let mut obs = L::new().p(e.block).p(e.burned).p(e.divisibility);
          obs.raw(&e.etching.to_byte_array());
          obs.push(e.mints);
          obs.push(e.number);
          obs.push(e.premine);
          obs.push(e.spaced_rune.rune.0);
          obs.push(e.spaced_rune.spacers);
          obs.opt(e.symbol.map(|c| c as u32));
          write_terms(&mut obs, &e.terms.map(|t| (t.cap, t.height, t.amount, t.offset)));
          obs.push(e.timestamp);
          obs.push(e.turbo);
          Outcome { obs: obs.done(), oracle, cat: format!("entry/rune/load/terms{}", tuple_terms.is_some() as u8) }
        })
      }
    }
    9 | 10 => {
      let charms = c.z().u128() as u16;
      let fee = c.u64();
      let height = c.u32();
      let hidden = c.bool();
      let (txid, halves) = if op == 9 { (c.bytes_n(32), (0, 0)) } else { (Vec::new(), (c.u128(), c.u128())) };
      let index = c.u32();
      let number = i32::try_from(c.z().i64()).expect("i32");
      let parents: Vec<u32> = c.bytes_lp_u32();
      let sat = c.opt_u128().map(|x| x as u64);
      let sequence_number = c.u32();
      let timestamp = c.u32();
      if op == 9 {
        guarded("entry/inscription/store", || {
          let f = vs::InscriptionEntryFields {
            charms,
            fee,
            height,
            hidden,
            id: InscriptionId { txid: Txid::from_byte_array(arr::<32>(&txid)), index },
            inscription_number: number,
            parents: parents.clone(),
            sat: sat.map(Sat),
            sequence_number,
            timestamp,
          };
          let v = vs::inscription_entry_store(f.clone());
          let back = vs::inscription_entry_load(v.clone());
          let oracle = if back == f { Ok(()) } else { fail("inscription-entry", format!("load(store({f:?})) = {back:?}")) };
          let mut obs = L::new().p(v.0).p(v.1).p(v.2).p(v.3).p(v.4 .0).p(v.4 .1).p(v.4 .2).p(v.5);
          obs.push(v.6.len());
          for p in &v.6 {
            obs.push(*p);
          }
          obs.opt(v.7);
          obs.push(v.8);
          obs.push(v.9);
          Outcome { obs: obs.done(), oracle, cat: format!("entry/inscription/store/parents{}", parents.len().min(2)) }
        })
      } else {
        guarded("entry/inscription/load", || {
          let v = (charms, fee, height, hidden, (halves.0, halves.1, index), number, parents.clone(), sat, sequence_number, timestamp);
          let f = vs::inscription_entry_load(v.clone());
          let back = vs::inscription_entry_store(f.clone());
          let oracle = if back == v { Ok(()) } else { fail("inscription-entry", format!("store(load({v:?})) = {back:?}")) };
          let mut obs = L::new().p(f.charms).p(f.fee).p(f.height).p(f.hidden);
          obs.raw(&f.id.txid.to_byte_array());
          obs.push(f.id.index);
          obs.push(f.inscription_number);
          obs.push(f.parents.len());
          for p in &f.parents {
            obs.push(*p);
          }
          obs.opt(f.sat.map(|s| s.n()));
          obs.push(f.sequence_number);
          obs.push(f.timestamp);
          Outcome { obs: obs.done(), oracle, cat: format!("entry/inscription/load/parents{}", parents.len().min(2)) }
        })
      }
    }
    11 => {
      let txid = c.bytes_n(32);
      let vout = c.u32();
      guarded("outpoint/store", || {
        let o = OutPoint { txid: Txid::from_byte_array(arr::<32>(&txid)), vout };
        let v = vs::outpoint_store(o);
        let back = vs::outpoint_load(v);
        let oracle = if back == o { Ok(()) } else { fail("outpoint", format!("load(store({o})) = {back}")) };
        let mut obs = L::new();
        obs.raw(&v);
        Outcome { obs: obs.done(), oracle, cat: "outpoint/store".into() }
      })
    }
    12 => {
      let bytes = c.rest_bytes();
      guarded("outpoint/load", || {
        let o = vs::outpoint_load(arr::<36>(&bytes));
        let back = vs::outpoint_store(o);
        let oracle = if back[..] == bytes[..] { Ok(()) } else { fail("outpoint", format!("store(load({bytes:?})) = {back:?}")) };
        let mut obs = L::new();
        obs.raw(&o.txid.to_byte_array());
        obs.push(o.vout);
        Outcome { obs: obs.done(), oracle, cat: "outpoint/load".into() }
      })
    }
    13 => {
      let txid = c.bytes_n(32);
      let vout = c.u32();
      let offset = c.u64();
      guarded("satpoint/store", || {
        let s = SatPoint { outpoint: OutPoint { txid: Txid::from_byte_array(arr::<32>(&txid)), vout }, offset };
        let v = vs::satpoint_store(s);
        let back = vs::satpoint_load(v);
        let oracle = if back == s { Ok(()) } else { fail("satpoint", format!("load(store({s})) = {back}")) };
        let mut obs = L::new();
        obs.raw(&v);
        Outcome { obs: obs.done(), oracle, cat: "satpoint/store".into() }
      })
    }
    14 => {
      let bytes = c.rest_bytes();
      guarded("satpoint/load", || {
        let s = vs::satpoint_load(arr::<44>(&bytes));
        let back = vs::satpoint_store(s);
        let oracle = if back[..] == bytes[..] { Ok(()) } else { fail("satpoint", format!("store(load({bytes:?})) = {back:?}")) };
        let mut obs = L::new();
        obs.raw(&s.outpoint.txid.to_byte_array());
        obs.push(s.outpoint.vout);
        obs.push(s.offset);
        Outcome { obs: obs.done(), oracle, cat: "satpoint/load".into() }
      })
    }
    15 => {
      let version = c.u32();
      let prev = c.bytes_n(32);
      let merkle = c.bytes_n(32);
      let (time, bits, nonce) = (c.u32(), c.u32(), c.u32());
      guarded("header/store", || {
        let h = Header {
          version: bitcoin::block::Version::from_consensus(version as i32),
          prev_blockhash: bitcoin::BlockHash::from_byte_array(arr::<32>(&prev)),
          merkle_root: bitcoin::TxMerkleNode::from_byte_array(arr::<32>(&merkle)),
          time,
          bits: bitcoin::CompactTarget::from_consensus(bits),
          nonce,
        };
        let v = vs::header_store(h);
        let back = vs::header_load(v);
        let oracle = if back == h { Ok(()) } else { fail("header", format!("load(store({h:?})) = {back:?}")) };
        let mut obs = L::new();
        obs.raw(&v);
        Outcome { obs: obs.done(), oracle, cat: "header/store".into() }
      })
    }
    16 => {
      let bytes = c.rest_bytes();
      guarded("header/load", || {
        let h = vs::header_load(arr::<80>(&bytes));
        let back = vs::header_store(h);
        let oracle = if back[..] == bytes[..] { Ok(()) } else { fail("header", format!("store(load({bytes:?})) = {back:?}")) };
        let mut obs = L::new().p(h.version.to_consensus() as u32);
        obs.raw(&h.prev_blockhash.to_byte_array());
        obs.raw(&h.merkle_root.to_byte_array());
        obs.push(h.time);
        obs.push(h.bits.to_consensus());
        obs.push(h.nonce);
        Outcome { obs: obs.done(), oracle, cat: "header/load".into() }
      })
    }
    17 => {
      let id = RuneId { block: c.u64(), tx: c.u32() };
      guarded("id/rune", || {
        let v = vs::rune_id_store(id);
        let back = vs::rune_id_load(v);
        let r = vs::rune_load(vs::rune_store(Rune(u128::from(id.block) << 32 | u128::from(id.tx))));
        let oracle = if back == id && v == (id.block, id.tx) && r.0 == u128::from(id.block) << 32 | u128::from(id.tx) {
          Ok(())
        } else {
          fail("rune-id", format!("load(store({id})) = {back}"))
        };
        Outcome { obs: L::new().p(back.block).p(back.tx).done(), oracle, cat: "id/rune".into() }
      })
    }
    20 => {
      let flags = c.u8();
      let ops = read_ops(&mut c);
      let mut o = guarded(&format!("utxo/build/f{flags}"), || {
        let bytes = with_index(flags, |idx| vs::utxo_build(idx, &ops));
        let mut obs = L::new().p(0u8);
        obs.raw(&bytes);
        Outcome { obs: obs.done(), oracle: Ok(()), cat: format!("utxo/build/f{flags}/ok") }
      });
      o.oracle = Ok(()); // builder misuse panics by design; the round trip is judged on op 21/22 and below
      o
    }
    21 => {
      let flags = c.u8();
      let bytes = c.rest_bytes();
      let mut o = guarded(&format!("utxo/parse/f{flags}"), || {
        let p = with_index(flags, |idx| vs::utxo_parse(idx, &bytes));
        let ranges: Vec<(u64, u64)> = p.sat_ranges.as_deref().unwrap_or(&[]).chunks_exact(11).map(|ch| vs::sat_range_load(arr::<11>(ch))).collect();
        let ins = p.inscriptions.clone().unwrap_or_default();
        // S: writing the parsed content back the way the updater does gives the same bytes
        // whenever every component is in its domain (ranges inside 51/37 bits, minimal varints)
        let e = Entry { ranges: ranges.clone(), value: p.total_value, script: p.script_pubkey.clone().unwrap_or_default(), inscriptions: ins.clone() };
        let rebuilt = with_index(flags, |idx| vs::utxo_build(idx, &entry_ops(flags, &e)));
        let reparsed = with_index(flags, |idx| vs::utxo_parse(idx, &rebuilt));
        let same_content = reparsed.total_value == p.total_value
          && reparsed.sat_ranges.as_deref().unwrap_or(&[]).chunks_exact(11).map(|ch| vs::sat_range_load(arr::<11>(ch))).collect::<Vec<_>>() == ranges
          && reparsed.script_pubkey == p.script_pubkey
          && reparsed.inscriptions == p.inscriptions;
        let oracle = if same_content { Ok(()) } else { fail("utxo-entry", format!("parse(build(parse({bytes:?}))) differs under flags {flags}")) };
        let mut obs = L::new().p(0u8).p(p.total_value);
        pairs(&mut obs, &ranges);
        obs.bytes(p.script_pubkey.as_deref().unwrap_or(&[]));
        obs.push(ins.len());
        for (s, off) in &ins {
          obs.push(*s);
          obs.push(*off);
        }
        Outcome { obs: obs.done(), oracle, cat: format!("utxo/parse/f{flags}/r{}i{}s{}", ranges.len().min(2), ins.len().min(2), (e.script.len() > 0) as u8) }
      });
      if o.obs == panic_obs() {
        o.oracle = Ok(()); // damaged bytes: the modelled unwrap / slice panics
      }
      o
    }
    22 => {
      let flags = c.u8();
      let a = c.bytes();
      let b = c.bytes();
      let mut o = guarded(&format!("utxo/merged/f{flags}"), || {
        let m = with_index(flags, |idx| vs::utxo_merged(idx, &a, &b));
        // S: every range and every inscription of both operands, in order (only judged when
        // both operands are readable entries; `merged` itself copies the raw inscription bytes)
        let judged = std::panic::catch_unwind(std::panic::AssertUnwindSafe(|| {
          with_index(flags, |idx| (vs::utxo_parse(idx, &a), vs::utxo_parse(idx, &b), vs::utxo_parse(idx, &m)))
        }));
        let (oracle, nr, ni) = match judged {
          Err(_) => (Ok(()), 9, 9),
          Ok((pa, pb, pm)) => {
            let cat2 = |x: &Option<Vec<u8>>, y: &Option<Vec<u8>>| x.as_ref().map(|x| [x.as_slice(), y.as_deref().unwrap_or(&[])].concat());
            let ins2 = pa.inscriptions.as_ref().map(|x| [x.as_slice(), pb.inscriptions.as_deref().unwrap_or(&[])].concat());
            let ok = pm.sat_ranges == cat2(&pa.sat_ranges, &pb.sat_ranges) && pm.inscriptions == ins2 && pm.total_value == pa.total_value + pb.total_value;
            let ni = pm.inscriptions.as_ref().map(|x| x.len()).unwrap_or(0);
            let nr = pm.sat_ranges.as_ref().map(|x| x.len() / 11).unwrap_or(0);
            (if ok { Ok(()) } else { fail("utxo-merged", format!("merged({a:?},{b:?}) under flags {flags} lost a range or an inscription")) }, nr, ni)
          }
        };
        let mut obs = L::new().p(0u8);
        obs.raw(&m);
        let cat = if nr == 9 { format!("utxo/merged/f{flags}/unreadable-operand") } else { format!("utxo/merged/f{flags}/r{}i{}", nr.min(2), ni.min(2)) };
        Outcome { obs: obs.done(), oracle, cat }
      });
      if o.obs == panic_obs() {
        o.oracle = Ok(()); // operands that are not mergeable (value / script present, damaged): asserted by the code
      }
      o
    }
    23 => {
      let flags = c.u8();
      guarded("utxo/empty", || {
        let (bytes, p) = with_index(flags, |idx| {
          let b = vs::utxo_empty(idx);
          (b.clone(), vs::utxo_parse(idx, &b))
        });
        let ok = p.total_value == 0
          && p.sat_ranges.as_ref().map_or(true, |x| x.is_empty())
          && p.script_pubkey.as_ref().map_or(true, |x| x.is_empty())
          && p.inscriptions.as_ref().map_or(true, |x| x.is_empty());
        let oracle = if ok { Ok(()) } else { fail("utxo-entry", format!("empty entry under flags {flags} parses to {p:?}")) };
        let mut obs = L::new().p(0u8);
        obs.raw(&bytes);
        Outcome { obs: obs.done(), oracle, cat: format!("utxo/empty/f{flags}") }
      })
    }
    _ => Outcome { obs: L::new().p(-1i32).done(), oracle: Err("unknown op".into()), cat: "trivial/unknown".into() },
  }
}

// small extensions of the cursor
trait CurExt {
  fn bytes_n(&mut self, n: usize) -> Vec<u8>;
  fn bytes_lp_u32(&mut self) -> Vec<u32>;
}
impl CurExt for Cur<'_> {
  fn bytes_n(&mut self, n: usize) -> Vec<u8> {
    (0..n).map(|_| self.u8()).collect()
  }
  fn bytes_lp_u32(&mut self) -> Vec<u32> {
    let n = self.usize();
    (0..n).map(|_| self.u32()).collect()
  }
}
