//! C36 — settings follow flag > environment > config file > default precedence.
//! case 0: `0 signet regtest testnet testnet4  FLAGS ENV CONFIG`, each of the three sections is
//!         27 x (present, value) in the declaration order of `struct Settings`.
//!         Values: numbers are themselves; strings / paths are "v<k>"; chains 0..4;
//!         hidden = bit mask over inscription ids 1..6; booleans: flag/config present = true,
//!         env value 0 = empty string, >= 1 = "1".
//!   obs:  `0` then per field: option -> `0` | `1 v` (v = 0 for a derived default), bool, mask;
//!         `1 k` for the credential errors of `Settings::merge`.
//! case 1: `1 cf ce cdf cde ddf dde default_dir n ids..` which config file is read
//!         (options as `0` | `1 id`; ids = locations at which a file exists) -> `0 id` | `1 5`.
//! The implementation is `Settings::merge(options, env)` with real files; observation = the
//! resolved Settings serialised with serde_json. The oracle recomputes the expected value of
//! every field from the inputs, independently of the Coq model.
use hxlib::*;
use ord::settings::Settings;
use ord::Options;
use std::collections::BTreeMap;
use std::path::{Path, PathBuf};

#[derive(Clone, Copy, PartialEq, Debug)]
enum T {
  Path,
  Str,
  U16,
  U32,
  Usize,
  Chain,
  Hidden,
  Bool,
}

const FIELDS: [(&str, T); 27] = [
  ("bitcoin_data_dir", T::Path),
  ("bitcoin_rpc_limit", T::U32),
  ("bitcoin_rpc_password", T::Str),
  ("bitcoin_rpc_url", T::Str),
  ("bitcoin_rpc_username", T::Str),
  ("chain", T::Chain),
  ("commit_interval", T::Usize),
  ("config", T::Path),
  ("config_dir", T::Path),
  ("cookie_file", T::Path),
  ("data_dir", T::Path),
  ("height_limit", T::U32),
  ("hidden", T::Hidden),
  ("http_port", T::U16),
  ("index", T::Path),
  ("index_addresses", T::Bool),
  ("index_cache_size", T::Usize),
  ("index_runes", T::Bool),
  ("index_sats", T::Bool),
  ("index_transactions", T::Bool),
  ("integration_test", T::Bool),
  ("max_savepoints", T::Usize),
  ("no_index_inscriptions", T::Bool),
  ("savepoint_interval", T::Usize),
  ("server_password", T::Str),
  ("server_url", T::Str),
  ("server_username", T::Str),
];
const NO_FLAG: [&str; 3] = ["hidden", "http_port", "server_url"];
const CHAINS: [&str; 5] = ["mainnet", "regtest", "signet", "testnet", "testnet4"];
const F_CONFIG: usize = 7;
const F_CONFIG_DIR: usize = 8;
const F_DATA_DIR: usize = 10;
const ROOT: &str = "/hx36";

fn idx(name: &str) -> usize {
  FIELDS.iter().position(|f| f.0 == name).unwrap()
}

fn hidden_id(k: u32) -> String {
  format!("{:064x}i0", k)
}

fn mask_ids(mask: u128) -> Vec<u32> {
  (1..=6).filter(|i| mask >> (i - 1) & 1 == 1).collect()
}

// ------------------------------------------------------------------ scratch directory
thread_local! {
  static TMP: tempfile::TempDir = {
    let d = tempfile::TempDir::new().unwrap();
    std::env::set_var("HOME", d.path().join("home"));
    std::env::remove_var("XDG_DATA_HOME");
    std::env::remove_var("XDG_CONFIG_HOME");
    std::fs::create_dir_all(d.path().join("home")).unwrap();
    d
  };
}

fn tmp() -> PathBuf {
  TMP.with(|d| d.path().to_path_buf())
}

// ------------------------------------------------------------------ case structure
#[derive(Clone, Default, Debug)]
struct Source {
  v: Vec<Option<u128>>, // 27 entries
}

fn read_source(c: &mut Cur) -> Source {
  let mut v = Vec::new();
  for _ in 0..27 {
    let p = c.bool();
    let x = c.u128();
    v.push(p.then_some(x));
  }
  Source { v }
}

fn write_source(l: &mut L, s: &Source) {
  for x in &s.v {
    match x {
      None => {
        l.push(0u8);
        l.push(0u8);
      }
      Some(x) => {
        l.push(1u8);
        l.push(*x);
      }
    }
  }
}

fn case_line(sw: [bool; 4], f: &Source, e: &Source, c: &Source) -> Line {
  let mut l = L::new().p(0u8).p(sw[0]).p(sw[1]).p(sw[2]).p(sw[3]);
  write_source(&mut l, f);
  write_source(&mut l, e);
  write_source(&mut l, c);
  l.done()
}

fn empty() -> Source {
  Source { v: vec![None; 27] }
}

/// a value for field i that is distinct per slot (slot 1..3)
fn value_for(i: usize, slot: u32, rng: &mut Rng) -> u128 {
  match FIELDS[i].1 {
    T::Chain => [[1u128, 4], [2, 0], [3, 3]][(slot - 1) as usize][rng.below(2) as usize],
    T::Hidden => [0b000011u128, 0b001110, 0b110100][(slot - 1) as usize] ^ (u128::from(rng.below(2)) << 5),
    T::Bool => 1,
    T::U16 | T::U32 | T::Usize => u128::from(100 * slot + rng.below(50) as u32 + 1),
    T::Path | T::Str => u128::from(slot + 3 * rng.below(3) as u32),
  }
}

pub fn gen(rng: &mut Rng, tier: &str) -> Vec<Line> {
  let thorough = tier == "thorough";
  let mut v = Vec::new();
  // every field x every subset of the three sources, pairwise distinct values
  for rep in 0..(if thorough { 6 } else { 2 }) {
    for i in 0..27 {
      for subset in 0..8u8 {
        let (mut f, mut e, mut c) = (empty(), empty(), empty());
        if subset & 1 != 0 && !NO_FLAG.contains(&FIELDS[i].0) {
          f.v[i] = Some(value_for(i, 1, rng));
        }
        if subset & 2 != 0 {
          let mut x = value_for(i, 2, rng);
          if FIELDS[i].1 == T::Bool && rep == 1 {
            x = 0; // present but empty: does not set the switch
          }
          e.v[i] = Some(x);
        }
        if subset & 4 != 0 {
          c.v[i] = Some(value_for(i, 3, rng));
        }
        v.push(case_line([false; 4], &f, &e, &c));
      }
    }
  }
  // credential pairs: user and password from every pair of subsets
  for (u, p) in [("bitcoin_rpc_username", "bitcoin_rpc_password"), ("server_username", "server_password")] {
    for su in 0..8u8 {
      for sp in 0..8u8 {
        let (mut f, mut e, mut c) = (empty(), empty(), empty());
        for (name, s) in [(u, su), (p, sp)] {
          let i = idx(name);
          if s & 1 != 0 {
            f.v[i] = Some(value_for(i, 1, rng));
          }
          if s & 2 != 0 {
            e.v[i] = Some(value_for(i, 2, rng));
          }
          if s & 4 != 0 {
            c.v[i] = Some(value_for(i, 3, rng));
          }
        }
        v.push(case_line([false; 4], &f, &e, &c));
      }
    }
  }
  // chain switches: every combination, with and without --chain / env / config
  let ci = idx("chain");
  for sw in 0..16u8 {
    for rest in 0..8u8 {
      let (mut f, mut e, mut c) = (empty(), empty(), empty());
      if rest & 1 != 0 {
        f.v[ci] = Some(u128::from(rng.below(5)));
      }
      if rest & 2 != 0 {
        e.v[ci] = Some(u128::from(rng.below(5)));
      }
      if rest & 4 != 0 {
        c.v[ci] = Some(u128::from(rng.below(5)));
      }
      // data_dir is joined with the chain: keep it in play
      if rng.chance(1, 2) {
        e.v[F_DATA_DIR] = Some(2);
      }
      v.push(case_line([sw & 1 != 0, sw & 2 != 0, sw & 4 != 0, sw & 8 != 0], &f, &e, &c));
    }
  }
  // random multi-field combinations
  for _ in 0..(if thorough { 50_000 } else { 700 }) {
    let (mut f, mut e, mut c) = (empty(), empty(), empty());
    let density = 1 + rng.below(4);
    for i in 0..27 {
      if rng.chance(density, 8) && !NO_FLAG.contains(&FIELDS[i].0) {
        f.v[i] = Some(value_for(i, 1, rng));
      }
      if rng.chance(density, 8) {
        let mut x = value_for(i, 2, rng);
        if FIELDS[i].1 == T::Bool && rng.chance(1, 3) {
          x = 0;
        }
        e.v[i] = Some(x);
      }
      if rng.chance(density, 8) {
        c.v[i] = Some(value_for(i, 3, rng));
      }
    }
    // keep most cases free of the credential errors
    if rng.chance(3, 4) {
      for (u, p) in [("bitcoin_rpc_username", "bitcoin_rpc_password"), ("server_username", "server_password")] {
        let (iu, ip) = (idx(u), idx(p));
        let any_u = f.v[iu].is_some() || e.v[iu].is_some() || c.v[iu].is_some();
        let any_p = f.v[ip].is_some() || e.v[ip].is_some() || c.v[ip].is_some();
        if any_u && !any_p {
          c.v[ip] = Some(9);
        }
        if any_p && !any_u {
          e.v[iu] = Some(8);
        }
      }
    }
    let sw = if rng.chance(1, 4) { [rng.chance(1, 2), rng.chance(1, 2), rng.chance(1, 2), rng.chance(1, 2)] } else { [false; 4] };
    v.push(case_line(sw, &f, &e, &c));
  }
  // config file location
  for bits in 0..64u8 {
    for _ in 0..(if thorough { 40 } else { 2 }) {
      let mut l = L::new().p(1u8);
      let ids = [1u8, 2, 3, 4, 5, 6];
      for (k, id) in ids.iter().enumerate() {
        l.opt((bits >> k & 1 == 1).then_some(*id));
      }
      l.push(7u8);
      let ex: Vec<u8> = (1..=7u8).filter(|_| rng.chance(2, 3)).collect();
      l.push(ex.len());
      for x in ex {
        l.push(x);
      }
      v.push(l.done());
    }
  }
  v
}

// ------------------------------------------------------------------ building the real inputs
fn flag_name(field: &str) -> String {
  format!("--{}", field.replace('_', "-"))
}

fn path_value(i: usize, k: u128, cfg_dir_for: &dyn Fn(u128) -> PathBuf, cfg_file_for: &dyn Fn(u128) -> PathBuf) -> String {
  if i == F_CONFIG {
    cfg_file_for(k).to_str().unwrap().into()
  } else if i == F_CONFIG_DIR {
    cfg_dir_for(k).to_str().unwrap().into()
  } else {
    format!("{ROOT}/v{k}")
  }
}

fn text_value(i: usize, k: u128, cd: &dyn Fn(u128) -> PathBuf, cf: &dyn Fn(u128) -> PathBuf) -> String {
  match FIELDS[i].1 {
    T::Path => path_value(i, k, cd, cf),
    T::Str => format!("v{k}"),
    T::U16 | T::U32 | T::Usize => k.to_string(),
    T::Chain => CHAINS[k as usize % 5].into(),
    T::Hidden => mask_ids(k).iter().map(|i| hidden_id(*i)).collect::<Vec<_>>().join(" "),
    T::Bool => {
      if k == 0 {
        String::new()
      } else {
        "1".into()
      }
    }
  }
}

/// value id of a resolved option field (0 = not one of ours: a derived default)
fn id_of(i: usize, j: &serde_json::Value, chain: &str) -> Option<u128> {
  if j.is_null() {
    return None;
  }
  Some(match FIELDS[i].1 {
    T::U16 | T::U32 | T::Usize => {
      let n = j.as_u64().unwrap() as u128;
      if i == idx("index_cache_size") && !(101..=400).contains(&n) {
        0
      } else {
        n
      }
    }
    T::Chain => CHAINS.iter().position(|c| Some(*c) == j.as_str()).unwrap() as u128,
    T::Str => j.as_str().unwrap().strip_prefix('v').and_then(|s| s.parse().ok()).unwrap_or(0),
    T::Path => {
      let p = Path::new(j.as_str().unwrap());
      let mut comps: Vec<&str> = p.iter().map(|c| c.to_str().unwrap()).collect();
      // data_dir carries the chain's sub-directory
      if i == F_DATA_DIR && chain != "mainnet" && comps.last().map_or(false, |c| *c != "mainnet" && !c.starts_with('v')) {
        comps.pop();
      }
      if comps.len() == 3 && comps[1] == &ROOT[1..] {
        comps[2].strip_prefix('v').and_then(|s| s.parse().ok()).unwrap_or(0)
      } else {
        0
      }
    }
    _ => unreachable!(),
  })
}

fn err_kind(msg: &str) -> u8 {
  if msg.contains("no bitcoin RPC username specified") {
    1
  } else if msg.contains("no bitcoin RPC password specified") {
    2
  } else if msg.contains("no username specified") {
    3
  } else if msg.contains("no password specified") {
    4
  } else if msg.contains("failed to open config file") {
    5
  } else {
    9
  }
}

fn config_json(c: &Source, cd: &dyn Fn(u128) -> PathBuf, cf: &dyn Fn(u128) -> PathBuf) -> String {
  let mut m = serde_json::Map::new();
  for (i, (name, ty)) in FIELDS.iter().enumerate() {
    let Some(k) = c.v[i] else { continue };
    let val = match ty {
      T::Bool => serde_json::Value::Bool(true),
      T::U16 | T::U32 | T::Usize => serde_json::Value::from(k as u64),
      T::Hidden => serde_json::Value::from(mask_ids(k).iter().map(|i| hidden_id(*i)).collect::<Vec<_>>()),
      _ => serde_json::Value::from(text_value(i, k, cd, cf)),
    };
    m.insert((*name).into(), val);
  }
  serde_json::Value::Object(m).to_string()
}

fn options_from(args: Vec<String>, sw: [bool; 4]) -> Options {
  use clap::Parser;
  let mut o = Options::try_parse_from(args).expect("options parse");
  ord::verif::storage::options_set_chain_flags(&mut o, sw[0], sw[1], sw[2], sw[3]);
  o
}

fn run_merge(case: &Line) -> Outcome {
  let mut cur = Cur::new(case);
  let _ = cur.u8();
  let sw = [cur.bool(), cur.bool(), cur.bool(), cur.bool()];
  let f = read_source(&mut cur);
  let e = read_source(&mut cur);
  let c = read_source(&mut cur);
  let root = tmp().join("m");
  let _ = std::fs::remove_dir_all(&root);
  std::fs::create_dir_all(&root).unwrap();
  let cd = |k: u128| root.join(format!("cd_{k}"));
  let cf = |k: u128| root.join(format!("cfg_{k}.yaml"));
  // where merge will look for the config file: the flag's config_dir if the case sets one,
  // otherwise a locator directory passed as --config-dir (config_dir resolves to None anyway)
  let locator = f.v[F_CONFIG_DIR].unwrap_or(0);
  let yaml = config_json(&c, &cd, &cf);
  let has_config = c.v.iter().any(|x| x.is_some());
  let mut dirs = vec![locator];
  dirs.extend(e.v[F_CONFIG_DIR]);
  dirs.extend(c.v[F_CONFIG_DIR]);
  for d in dirs {
    std::fs::create_dir_all(cd(d)).unwrap();
  }
  if has_config {
    std::fs::write(cd(locator).join("ord.yaml"), &yaml).unwrap();
  }
  for k in [f.v[F_CONFIG], e.v[F_CONFIG], c.v[F_CONFIG]].into_iter().flatten() {
    std::fs::write(cf(k), &yaml).unwrap(); // an explicit config file carries the same content
  }
  let mut args: Vec<String> = vec!["ord".into()];
  for (i, (name, ty)) in FIELDS.iter().enumerate() {
    if NO_FLAG.contains(name) {
      continue;
    }
    if i == F_CONFIG_DIR {
      args.push(flag_name(name));
      args.push(cd(locator).to_str().unwrap().into());
      continue;
    }
    if let Some(k) = f.v[i] {
      args.push(flag_name(name));
      if *ty != T::Bool {
        args.push(text_value(i, k, &cd, &cf));
      }
    }
  }
  let mut env = BTreeMap::new();
  for (i, (name, _)) in FIELDS.iter().enumerate() {
    if let Some(k) = e.v[i] {
      env.insert(name.to_uppercase(), text_value(i, k, &cd, &cf));
    }
  }
  let options = options_from(args, sw);
  let n_sources = |i: usize| f.v[i].is_some() as u8 + e.v[i].is_some() as u8 + c.v[i].is_some() as u8;
  let multi = (0..27).filter(|i| n_sources(*i) > 0).count();
  let conflicts = (0..27).filter(|i| n_sources(*i) > 1).count();
  let cat_base = format!("merge/fields{}conflicts{}", multi.min(3), conflicts.min(3));
  match Settings::merge(options, env) {
    Err(err) => {
      let k = err_kind(&format!("{err:#}"));
      // S: a credential error is expected exactly when one of a pair resolves without the other
      let any = |n: &str| n_sources(idx(n)) > 0;
      let expected = if !any("bitcoin_rpc_username") && any("bitcoin_rpc_password") {
        1
      } else if any("bitcoin_rpc_username") && !any("bitcoin_rpc_password") {
        2
      } else if !any("server_username") && any("server_password") {
        3
      } else if any("server_username") && !any("server_password") {
        4
      } else {
        0
      };
      let oracle = if k == expected { Ok(()) } else { Err(format!("[settings-error] merge failed with `{err:#}` (kind {k}), expected kind {expected}")) };
      Outcome { obs: L::new().p(1u8).p(k).done(), oracle, cat: format!("{cat_base}/err{k}") }
    }
    Ok(settings) => {
      let j = serde_json::to_value(&settings).unwrap();
      let obj = j.as_object().unwrap();
      let keys: Vec<&str> = obj.keys().map(|s| s.as_str()).collect();
      let mut want: Vec<&str> = FIELDS.iter().map(|f| f.0).collect();
      want.sort();
      let mut oracle = Ok(());
      if keys != want {
        oracle = Err(format!("[settings-fields] Settings has fields {keys:?}, harness knows {want:?}"));
      }
      let chain = obj["chain"].as_str().unwrap_or("mainnet").to_string();
      let mut obs = L::new().p(0u8);
      let switch_chains = [2u128, 1, 3, 4]; // signet regtest testnet testnet4
      for (i, (name, ty)) in FIELDS.iter().enumerate() {
        let null = serde_json::Value::Null;
        let val = obj.get(*name).unwrap_or(&null);
        let flag = if NO_FLAG.contains(name) { None } else { f.v[i] };
        match ty {
          T::Bool => {
            let b = val.as_bool().unwrap();
            obs.push(b);
            // S: on iff any source sets it (an empty environment value does not)
            let expect = flag.is_some() || e.v[i].map_or(false, |x| x != 0) || c.v[i].is_some();
            if b != expect && oracle.is_ok() {
              oracle = Err(format!("[settings-switch] {name} = {b}, sources say {expect}"));
            }
          }
          T::Hidden => {
            let mut mask = 0u128;
            for s in val.as_array().map(|a| a.as_slice()).unwrap_or(&[]) {
              let s = s.as_str().unwrap();
              let k = u32::from_str_radix(&s[..64], 16).unwrap();
              mask |= 1 << (k - 1);
            }
            obs.push(mask);
            let expect = e.v[i].unwrap_or(0) | c.v[i].unwrap_or(0);
            if mask != expect && oracle.is_ok() {
              oracle = Err(format!("[settings-hidden] hidden = {mask:b}, union of sources = {expect:b}"));
            }
          }
          _ => {
            let got = id_of(i, val, &chain);
            obs.opt(got);
            // S: first of flag, env, config; else the documented default
            let set_switches: Vec<u128> = (0..4).filter(|k| sw[*k]).map(|k| switch_chains[k]).collect();
            let supplied = flag.or(e.v[i]).or(c.v[i]);
            let ok = if *ty == T::Chain && !set_switches.is_empty() {
              got.map_or(false, |g| set_switches.contains(&g))
            } else if i == F_CONFIG || i == F_CONFIG_DIR {
              got.is_none()
            } else {
              match supplied {
                Some(s) => got == Some(s),
                None => match *name {
                  "bitcoin_rpc_limit" => got == Some(12),
                  "commit_interval" => got == Some(5000),
                  "max_savepoints" => got == Some(2),
                  "savepoint_interval" => got == Some(10),
                  "chain" => got == Some(0),
                  "bitcoin_data_dir" | "bitcoin_rpc_url" | "cookie_file" | "data_dir" | "index" | "index_cache_size" => got == Some(0),
                  _ => got.is_none(),
                },
              }
            };
            if !ok && oracle.is_ok() {
              oracle = Err(format!("[settings-precedence] {name} resolved to {val} (id {got:?}); flag {flag:?} env {:?} config {:?}", e.v[i], c.v[i]));
            }
          }
        }
      }
      let cat = if multi == 0 { "trivial/merge/nothing-set".to_string() } else { format!("{cat_base}/ok") };
      Outcome { obs: obs.done(), oracle, cat }
    }
  }
}

fn run_location(case: &Line) -> Outcome {
  let mut cur = Cur::new(case);
  let _ = cur.u8();
  let o: Vec<Option<u128>> = (0..6).map(|_| cur.opt_u128()).collect();
  let dflt = cur.u128();
  let n = cur.usize();
  let ex: Vec<u128> = (0..n).map(|_| cur.u128()).collect();
  let root = tmp().join("loc");
  let _ = std::fs::remove_dir_all(&root);
  std::fs::create_dir_all(&root).unwrap();
  let home_dir = Settings::default_data_dir().unwrap();
  let _ = std::fs::remove_dir_all(&home_dir);
  let file = |k: u128| root.join(format!("f_{k}.yaml"));
  let dir = |k: u128| if k == dflt { home_dir.clone() } else { root.join(format!("d_{k}")) };
  for k in 1..=7u128 {
    let content = format!("{{\"server_url\": \"v{k}\"}}");
    if k <= 2 {
      if ex.contains(&k) {
        std::fs::write(file(k), content).unwrap();
      }
    } else {
      std::fs::create_dir_all(dir(k)).unwrap();
      if ex.contains(&k) {
        std::fs::write(dir(k).join("ord.yaml"), content).unwrap();
      }
    }
  }
  let mut args: Vec<String> = vec!["ord".into()];
  let mut env = BTreeMap::new();
  let names = ["config", "config", "config_dir", "config_dir", "data_dir", "data_dir"];
  for (j, v) in o.iter().enumerate() {
    let Some(k) = v else { continue };
    let p: String = if j < 2 { file(*k) } else { dir(*k) }.to_str().unwrap().into();
    if j % 2 == 0 {
      args.push(flag_name(names[j]));
      args.push(p);
    } else {
      env.insert(names[j].to_uppercase(), p);
    }
  }
  let options = options_from(args, [false; 4]);
  // S: the documented order, recomputed here
  let explicit = o[0].or(o[1]);
  let expected: Result<u128, u8> = match explicit {
    Some(p) => {
      if ex.contains(&p) {
        Ok(p)
      } else {
        Err(5)
      }
    }
    None => {
      let d = o[2].or(o[3]).or(o[4]).or(o[5]).unwrap_or(dflt);
      Ok(if ex.contains(&d) { d } else { 0 })
    }
  };
  let cat = format!("location/{}", match explicit {
    Some(_) => "explicit",
    None if o[2].or(o[3]).is_some() => "config-dir",
    None if o[4].or(o[5]).is_some() => "data-dir",
    None => "default-dir",
  });
  match Settings::merge(options, env) {
    Ok(s) => {
      let got: u128 = s.server_url().and_then(|u| u.strip_prefix('v')).and_then(|x| x.parse().ok()).unwrap_or(0);
      let oracle = if expected == Ok(got) { Ok(()) } else { Err(format!("[settings-config-location] read config {got}, expected {expected:?}")) };
      Outcome { obs: L::new().p(0u8).p(got).done(), oracle, cat }
    }
    Err(err) => {
      let k = err_kind(&format!("{err:#}"));
      let oracle = if expected == Err(k) { Ok(()) } else { Err(format!("[settings-config-location] `{err:#}`, expected {expected:?}")) };
      Outcome { obs: L::new().p(1u8).p(k).done(), oracle, cat: format!("{cat}/err{k}") }
    }
  }
}

pub fn run(case: &Line) -> Outcome {
  let _ = tmp();
  match case.first().map(|z| z.mag) {
    Some(0) => guarded("merge", || run_merge(case)),
    Some(1) => guarded("location", || run_location(case)),
    _ => Outcome { obs: L::new().p(-1i32).done(), oracle: Err("unknown op".into()), cat: "trivial/unknown".into() },
  }
}
