(* Extraction of the scheduling / crash / reorg model (hx-sched harness).
   Directives: ExtrOcamlBasic only. *)
Require Extraction.
Require Import ExtrOcamlBasic.
From OrdV Require Import Base.Prelude Index.Sched.
Cd "../extract/gen".
Extraction "x_sched.ml" run_C12 run_C13 run_C14.
Cd "../../coq".
