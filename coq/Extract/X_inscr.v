(* Extraction of the inscription indexer model (hx-inscr harness).
   Directives: ExtrOcamlBasic only. *)
Require Extraction.
Require Import ExtrOcamlBasic.
From OrdV Require Import Base.Prelude Index.Inscr.
Cd "../extract/gen".
Extraction "x_inscr.ml" run_C03 run_C04 run_C05 run_C06 run_C07.
Cd "../../coq".
