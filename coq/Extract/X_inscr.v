(* Extraction of the inscription indexer model (hx-inscr harness).
   Directives: ExtrOcamlBasic only. *)
Require Extraction.
Require Import ExtrOcamlBasic.
From OrdV Require Import Base.Prelude Index.Inscr Index.InscrEvents.
Cd "../extract/gen".
Extraction "x_inscr.ml" run_inscr run_inscr_ev.
Cd "../../coq".
