(* Extraction of the models tied to crates/ordinals (hx-ordinals harness).
   Directives: ExtrOcamlBasic only (bool/option/unit/list/prod/sumbool/sumor to OCaml natives);
   N/Z/positive stay Coq's datatypes. *)
Require Extraction.
Require Import ExtrOcamlBasic.
From OrdV Require Import Base.Prelude Codec.Varint Ord.Sat Ord.SatText.
Cd "../extract/gen".
Extraction "x_ordinals.ml" run_C26 run_C29 run_C30.
Cd "../../coq".
