(* Extraction of the wallet transaction models (hx-walletx harness).
   Directives: ExtrOcamlBasic only. *)
Require Extraction.
Require Import ExtrOcamlBasic.
From OrdV Require Import Base.Prelude Wallet.Offer.
Cd "../extract/gen".
Extraction "x_walletx.ml" run_C24.
Cd "../../coq".
