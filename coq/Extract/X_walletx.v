(* Extraction of the wallet transaction models (hx-walletx harness).
   Directives: ExtrOcamlBasic only. *)
Require Extraction.
Require Import ExtrOcamlBasic.
From OrdV Require Import Base.Prelude Wallet.Offer Wallet.RuneTx Wallet.Lock.
Cd "../extract/gen".
Extraction "x_walletx.ml" run_C22 run_C23 run_C24.
Cd "../../coq".
