(* Extraction of the runestone codec model (hx-runestone harness).
   Directives: ExtrOcamlBasic only (bool/option/unit/list/prod/sumbool/sumor to OCaml natives);
   N/Z/positive stay Coq's datatypes. *)
Require Extraction.
Require Import ExtrOcamlBasic.
From OrdV Require Import Base.Prelude Codec.Runestone.
Cd "../extract/gen".
Extraction "x_runestone.ml" run_C25.
Cd "../../coq".
