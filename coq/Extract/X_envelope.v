(* Extraction of the models of group "envelope" (hx-envelope harness): C27, C28.
   Directives: ExtrOcamlBasic only; N/Z/positive stay Coq's datatypes. *)
Require Extraction.
Require Import ExtrOcamlBasic.
From OrdV Require Import Base.Prelude Codec.Envelope Codec.Cbor.
Cd "../extract/gen".
Extraction "x_envelope.ml" run_C27 run_C28.
Cd "../../coq".
