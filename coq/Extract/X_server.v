(* Extraction of the explorer-server models (hx-server harness).
   Directives: ExtrOcamlBasic only. *)
Require Extraction.
Require Import ExtrOcamlBasic.
From OrdV Require Import Base.Prelude Server.Content Server.Api.
Cd "../extract/gen".
Extraction "x_server.ml" run_C19 run_C18.
Cd "../../coq".
