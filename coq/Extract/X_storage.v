(* Extraction of the models of the storage group (hx-storage harness): C35, C36.
   Directives: ExtrOcamlBasic only; N/Z/positive stay Coq's datatypes. *)
Require Extraction.
Require Import ExtrOcamlBasic.
From OrdV Require Import Base.Prelude Codec.Storage Server.Settings.
Cd "../extract/gen".
Extraction "x_storage.ml" run_C35 run_C36.
Cd "../../coq".
