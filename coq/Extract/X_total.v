(* Extraction of the C16 wire entry (hx-total harness). ExtrOcamlBasic only. *)
Require Extraction.
Require Import ExtrOcamlBasic.
From OrdV Require Import Base.Prelude Index.Total.
Cd "../extract/gen".
Extraction "x_total.ml" run_C16.
Cd "../../coq".
