(* Extraction of the wallet models (hx-builder harness): transaction builder (C20),
   batch planner (C21).  Directives: ExtrOcamlBasic only. *)
Require Extraction.
Require Import ExtrOcamlBasic.
From OrdV Require Import Base.Prelude Wallet.Builder Wallet.Batch.
Cd "../extract/gen".
Extraction "x_builder.ml" run_C20 run_C21.
Cd "../../coq".
