(* Extraction of the value-provision model (hx-config harness).
   Directives: ExtrOcamlBasic only; N/Z/positive stay Coq's datatypes. *)
Require Extraction.
Require Import ExtrOcamlBasic.
From OrdV Require Import Base.Prelude Index.Config.
Cd "../extract/gen".
Extraction "x_config.ml" run_C15.
Cd "../../coq".
