(* Extraction of the models of group "text" (hx-text harness).
   Directives: ExtrOcamlBasic only; N/Z/positive stay Coq's datatypes. *)
Require Extraction.
Require Import ExtrOcamlBasic.
From OrdV Require Import Base.Prelude Ord.Rune Ord.Decimal Ord.SatParse Ord.TextParse.
Cd "../extract/gen".
Extraction "x_text.ml" run_C31 run_C32 run_C33 run_C34.
Cd "../../coq".
