(* Extraction of the rune indexer model (hx-runes harness): C08, C09, C10, C11.
   Directives: ExtrOcamlBasic only; N/Z/positive stay Coq's datatypes. *)
Require Extraction.
Require Import ExtrOcamlBasic.
From OrdV Require Import Base.Prelude Index.Runes Index.Events.
Cd "../extract/gen".
Extraction "x_runes.ml" run_C08 run_C09 run_C10 run_C11 run_C37.
Cd "../../coq".
