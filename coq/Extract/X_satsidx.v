(* Extraction of the sat-index / address-index models (hx-satsidx harness).
   Directives: ExtrOcamlBasic only. *)
Require Extraction.
Require Import ExtrOcamlBasic.
From OrdV Require Import Base.Prelude Index.SatIndex Index.SatCache Index.Address.
Cd "../extract/gen".
Extraction "x_satsidx.ml" run_C01 run_C02 run_C17.
Cd "../../coq".
