(* C22 — Wallet rune sends, burns and splits move exactly the requested amounts.
   Model: Wallet/RuneTx.v — input selection and transaction shape of
   Wallet::create_unsigned_send_or_burn_runes_transaction and Split::build_transaction (as
   repaired by the two `fix:` commits recorded in known_findings.txt), composed with a compact
   model of the indexer's allocation rules applied to the produced transaction.
   Only statements, closed by [exact], a non-vacuity Example, Print Assumptions. *)
From OrdV Require Import Base.Prelude Wallet.RuneTx Proofs.RuneTx_proofs.

(* Send / burn.  For every wallet inventory whose balance maps have distinct keys, every real
   rune id r, every amount a, with or without a bitcoin change output added by the node: if a
   transaction is built then a > 0 and, applying the rune rules to it,
     - the recipient output(s) hold exactly a of r and nothing else (nothing, for a burn),
     - exactly a of r is burned for a burn, nothing is burned for a send,
     - for EVERY rune id, wallet change outputs + the moved amount = what the spent inputs held
       (t_spent is the sum of the spent wallet outputs' balances: second conjunct). *)
Theorem C22_send_burn_exact : forall inv r a is_send fc t,
  valid_inv inv -> r <> 0 ->
  build_send inv r a is_send fc = Ok t ->
  0 < a /\
  (forall id, get (t_spent t) id = sum_inputs inv (t_inputs t) id) /\
  (forall id, sum_outs t (t_dest t) id = if is_send && (id =? r) then a else 0) /\
  (forall id, burn_get (t_opret t) (outcome t) id = if negb is_send && (id =? r) then a else 0) /\
  (forall id, sum_outs t (t_change t) id + (if id =? r then a else 0) = get (t_spent t) id).
Proof. exact send_exact. Qed.

(* A request for zero units is rejected, never read as "all". *)
Theorem C22_send_burn_zero_rejected : forall inv r is_send fc,
  build_send inv r 0 is_send fc = Err 2.
Proof. exact send_zero_rejected. Qed.

(* Split.  For every inventory and every split file whose per-output rune maps have distinct,
   real ids: if a transaction is built then no requested amount is zero, output i of the split
   file receives exactly the amounts it asks for (for every rune id), nothing is burned, and
   for every rune id wallet change + total requested = what the spent inputs held.
   The edicts are taken in the order the runestone carries them (sorted by id); the proof goes
   through sums that do not depend on the order (uncapped edicts commute). *)
Theorem C22_split_exact : forall inv outs postage cd oversize fc t,
  valid_inv inv -> valid_outs outs ->
  build_split inv outs postage cd oversize fc = Ok t ->
  Forall (fun o => forall kv, In kv (s_runes o) -> snd kv <> 0) outs /\
  (forall id, get (t_spent t) id = sum_inputs inv (t_inputs t) id) /\
  length (t_dest t) = length outs /\
  (forall i id, (i < length outs)%nat ->
     out_get (t_opret t) (outcome t) (nth i (t_dest t) 0%nat) id = get (s_runes (nth i outs ds)) id) /\
  (forall id, burn_get (t_opret t) (outcome t) id = 0) /\
  (forall id, sum_outs t (t_change t) id + need_total outs id = get (t_spent t) id).
Proof. exact split_exact. Qed.

Theorem C22_split_zero_never_ok : forall inv outs postage cd oversize fc t,
  build_split inv outs postage cd oversize fc = Ok t ->
  Forall (fun o => forall kv, In kv (s_runes o) -> snd kv <> 0) outs.
Proof. exact split_zero_never_ok. Qed.

(* Neither construction panics when the wallet's total holding of every rune, and the split
   file's total request of every rune, fit 128 bits (the `+=` / checked_add().unwrap() sites
   are the only panics on the modelled path; the supply of a rune is at most u128::MAX, so the
   first bound holds for every real wallet; a split file may violate the second and then
   `ord wallet split` aborts on `checked_add(amount).unwrap()` before anything is built). *)
Theorem C22_send_burn_never_panics : forall inv r a is_send fc p,
  valid_inv inv -> (forall id, sum_all inv id < P128) ->
  build_send inv r a is_send fc <> Panic p.
Proof. exact send_no_panic. Qed.

Theorem C22_split_never_panics : forall inv outs postage cd oversize fc p,
  valid_inv inv -> (forall id, sum_all inv id < P128) -> (forall id, need_total outs id < P128) ->
  build_split inv outs postage cd oversize fc <> Panic p.
Proof. exact split_no_panic. Qed.

(* The allocation lemma both results rest on: for edicts that name a real rune, a non-zero
   amount and a specific output, and that together ask for no more than is unallocated, every
   output receives exactly the sum of its edicts, and the first non-OP_RETURN output
   additionally receives everything left over. *)
Theorem C22_uncapped_edicts_exact : forall unalloc es opret,
  uniq unalloc -> Forall (plain (length opret)) es ->
  (forall id, sum_id es id <= get unalloc id) ->
  let res := apply_tx unalloc es opret in
  forall o id,
    get (nth o (fst res) []) id =
    sum_io es id o +
    (match non_opret 0 opret with
     | v :: _ => if Nat.eqb v o then get unalloc id - sum_id es id else 0
     | [] => 0 end)
    /\ get (snd res) id =
       (match non_opret 0 opret with [] => get unalloc id - sum_id es id | _ => 0 end).
Proof. exact apply_tx_exact. Qed.

(* Non-vacuity: rune 7 in outputs 0 (10 + 5 of rune 9) and 2 (20); sending 25 selects both,
   the recipient (output 2 of the transaction) gets 25, the change output 5 of rune 7 and 5 of
   rune 9; the pre-fix reading of 0 as "all" is gone; a split whose edicts are not in id order
   is built (the pinned code panicked on it) and pays 3 of rune 9 and 4 of rune 7. *)
Example C22_nonvacuous :
  let inv := [ {| w_inscribed := false; w_runes := [(7, 10); (9, 5)] |};
               {| w_inscribed := true;  w_runes := [(7, 100)] |};
               {| w_inscribed := false; w_runes := [(7, 20)] |} ] in
  run_C22 [0; 1; 1; 7; 25; 3; 0; 2; 7; 10; 9; 5; 1; 1; 7; 100; 0; 1; 7; 20]%Z
    = [0; 2; 0; 2; 4; 0; 2; 7; 5; 9; 5; 1; 7; 25; 0; 0]%Z /\
  build_send inv 7 0 true true = Err 2 /\
  build_send inv 7 31 true true = Err 1 /\
  run_C22 [1; 0; 0; 10000; 330; 1; 0; 2; 7; 10; 9; 5; 2; 0; 0; 330; 1; 9; 3; 0; 0; 330; 1; 7; 4]%Z
    = [0; 1; 0; 4; 0; 2; 7; 6; 9; 2; 1; 9; 3; 1; 7; 4; 0]%Z.
Proof. vm_compute. repeat split. Qed.

Print Assumptions C22_send_burn_exact.
Print Assumptions C22_send_burn_zero_rejected.
Print Assumptions C22_split_exact.
Print Assumptions C22_split_zero_never_ok.
Print Assumptions C22_uncapped_edicts_exact.
Print Assumptions C22_send_burn_never_panics.
Print Assumptions C22_split_never_panics.
