(* C25 — Runestones round-trip and deciphering is total with the documented flaws.
   Only statements, closed by [exact], with Print Assumptions. *)
From OrdV Require Import Base.Prelude Generated Codec.Varint Codec.Script Codec.Runestone
  Proofs.Runestone_proofs.

(* Deciphering any transaction (arbitrary output script bytes) with at most
   u32::MAX outputs never panics (in particular the model's loop fuel is never
   exhausted); it yields nothing exactly when no output script starts with the
   bytes OP_RETURN OP_13. *)
Theorem C25_decipher_total : forall outs : list (list N),
  len outs <= U32_MAX ->
  exists a, decipher outs = Ok a /\
    (a = None <-> Forall (fun s => ~ exists r, s = OP_RETURN :: MAGIC_NUMBER :: r) outs).
Proof. exact decipher_total. Qed.

Print Assumptions C25_decipher_total.
