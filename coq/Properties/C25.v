(* C25 — Runestones round-trip and deciphering is total with the documented flaws.
   Only statements, closed by [exact] (or a few lines of glue), a non-vacuity
   Example, and Print Assumptions.

   Model: Codec/Runestone.v (decipher/encipher and everything below them),
   Codec/Script.v (rust-bitcoin's Instructions / push_slice), Codec/Varint.v.
   A transaction is the list of its output scripts (arbitrary byte lists). *)
From OrdV Require Import Base.Prelude Generated Codec.Varint Codec.Script Codec.Runestone
  Proofs.Runestone_proofs.

(* "starts with OP_RETURN OP_13", on bytes *)
Definition starts_with_magic (s : list N) : Prop := exists r, s = OP_RETURN :: MAGIC_NUMBER :: r.

(* ---- 0. the representation of Message.fields ----
   decipher_q is decipher with the fields kept, literally as in the code, in a
   map tag -> queue (push_back in stream order; Tag::take = get_mut, check the
   first N values, drain, remove the queue when empty; keys().any(even)).
   It computes the same function as decipher, whose fields are the list of
   (tag, value) pairs.  The correspondence run executes decipher_q on every
   transaction case (wire op 0) and decipher on every round-trip case (op 1). *)
Theorem C25_fields_representation : forall outs : list (list N), decipher_q outs = decipher outs.
Proof. exact decipher_q_eq. Qed.

(* ---- 1. round trip ----
   WF n r (Runestone_proofs.wf_runestone, a boolean) is "what ord enciphers" for a
   transaction with n outputs:
     n <= u32::MAX;
     every edict: id in (u64,u32) with block = 0 -> tx = 0, amount a u128,
                  output a u32 and <= n;
     etching (if any): divisibility <= MAX_DIVISIBILITY, spacers <= MAX_SPACERS,
                  symbol a Unicode scalar value, rune/premine u128, terms (if any):
                  amount/cap u128, heights/offsets u64; supply = premine + cap*amount
                  does not overflow u128;
                  (terms, turbo, premine ... exist only inside an etching: by type)
     mint (if any): a valid id;  pointer (if any) < n.
   There is no bound on the payload size: encipher cuts the payload into pushes
   of ENCIPHER_CHUNK bytes (the chunk size found in the source), each below the
   2^32 limit of a push.
   For every such r, whatever outputs precede (none starting OP_RETURN OP_13:
   the first such output is the one deciphered) and follow the runestone output,
   encipher does not panic and decipher returns exactly r with its edicts
   stably sorted by rune id. *)
Theorem C25_decipher_encipher : forall (r : Runestone) (pre post : list (list N)),
  wf_runestone (len pre + 1 + len post) r = true ->
  Forall (fun s => ~ starts_with_magic s) pre ->
  exists s, encipher r = Ok s /\
    decipher (pre ++ s :: post) =
      Ok (Some (ARunestone (mkRunestone (sort_edicts (edicts r)) (etching r) (mint r) (pointer r)))).
Proof. exact decipher_encipher. Qed.

(* sort_edicts is "ordered by rune ID" and nothing else: sorted (block, then tx),
   a permutation, and stable (edicts with the same id keep their order). *)
Theorem C25_sort_edicts_spec : forall es : list Edict,
  sorted_from (mkId 0 0) (sort_edicts es) /\
  Permutation.Permutation es (sort_edicts es) /\
  forall i, with_id i (sort_edicts es) = with_id i es.
Proof.
  intros es. split; [apply sort_sorted|]. split; [apply sort_perm|]. intros i. apply sort_stable.
Qed.

(* encipher never panics, well-formed or not (the `delta(..).unwrap()` cannot
   fail after sorting; no push reaches 2^32 bytes). *)
Theorem C25_encipher_total : forall r : Runestone, exists s, encipher r = Ok s.
Proof. exact encipher_total. Qed.

(* WF is tight: every runestone that decipher returns (from any transaction) is
   well-formed for that transaction and has its edicts already ordered by id ... *)
Theorem C25_decipher_wf : forall (outs : list (list N)) (r : Runestone),
  len outs <= U32_MAX ->
  decipher outs = Ok (Some (ARunestone r)) ->
  wf_runestone (len outs) r = true /\ sort_edicts (edicts r) = edicts r.
Proof. exact decipher_wf. Qed.

(* ... hence enciphering a deciphered runestone into a transaction with the same
   number of outputs and deciphering again returns it unchanged. *)
Theorem C25_reencipher : forall (outs pre post : list (list N)) (r : Runestone),
  len outs <= U32_MAX ->
  decipher outs = Ok (Some (ARunestone r)) ->
  len pre + 1 + len post = len outs ->
  Forall (fun s => ~ starts_with_magic s) pre ->
  exists s, encipher r = Ok s /\ decipher (pre ++ s :: post) = Ok (Some (ARunestone r)).
Proof.
  intros outs pre post r Hn Hd Hl Hpre.
  destruct (decipher_wf outs r Hn Hd) as [Hwf Hs]. rewrite <- Hl in Hwf.
  destruct (decipher_encipher r pre post Hwf Hpre) as (s & He & Hdd).
  exists s. split; [exact He|]. rewrite Hdd. unfold sorted_runestone. rewrite Hs.
  destruct r; reflexivity.
Qed.

(* WF is exactly the round-trip condition: for ANY runestone value r, the
   transaction carrying encipher r deciphers to r (edicts sorted) if and only if
   r is well-formed for that transaction. *)
Theorem C25_roundtrip_iff : forall (r : Runestone) (pre post : list (list N)) (s : list N),
  len pre + 1 + len post <= U32_MAX ->
  Forall (fun s => ~ starts_with_magic s) pre ->
  encipher r = Ok s ->
  (decipher (pre ++ s :: post) =
     Ok (Some (ARunestone (mkRunestone (sort_edicts (edicts r)) (etching r) (mint r) (pointer r)))) <->
   wf_runestone (len pre + 1 + len post) r = true).
Proof. exact roundtrip_iff. Qed.

(* ---- 2. totality ----
   Deciphering any transaction (arbitrary output script bytes) with at most
   u32::MAX outputs never panics (and the model's loop fuel is never exhausted);
   it yields nothing exactly when no output script starts OP_RETURN OP_13.
   (A transaction with more than u32::MAX outputs cannot exist on chain; there the
   code has `u32::try_from(tx.output.len()).unwrap()`, modelled as PANIC_OUTPUTS_U32.) *)
Theorem C25_decipher_total : forall outs : list (list N),
  len outs <= U32_MAX ->
  exists a, decipher outs = Ok a /\
    (a = None <-> Forall (fun s => ~ starts_with_magic s) outs).
Proof. exact decipher_total. Qed.

(* ---- 3. flaw order ----
   The result is a function of the stage reached
     (no runestone output | script flaw | varint flaw | untyped message)
   and, for a message, of the list of ALL violations present, in the documented
   order [message-structure flaw; supply overflow; unrecognized flag;
   unrecognized even tag], each computed independently of the others
   (typed = the typed reading made without looking at the flaw): the reported
   flaw is the first one of that list, a runestone results iff the list is empty,
   and the cenotaph keeps the rune name and the mint of the typed reading.
   Script-stage flaws are InvalidScript or Opcode, whichever the instruction
   iteration meets first; they and the varint flaw give an empty cenotaph. *)
Theorem C25_flaw_order : forall outs : list (list N),
  len outs <= U32_MAX ->
  exists st, stage outs = Ok st /\
  decipher outs = Ok
    match st with
    | StNone => None
    | StScript f => Some (ACenotaph (mkCenotaph None (Some f) None))
    | StVarint => Some (ACenotaph (mkCenotaph None (Some FVarint) None))
    | StMessage m =>
      let r := p_candidate (typed (len outs) m) in
      match first_some (message_violations (len outs) m) with
      | None => Some (ARunestone r)
      | Some f => Some (ACenotaph (mkCenotaph (rune_of r) (Some f) (mint r)))
      end
    end /\
  match st with StScript f => f = InvalidScript \/ f = Opcode | _ => True end.
Proof. exact flaw_order. Qed.

(* The message-structure flaw is the first error in stream order: from_integers
   computes the (functional) relation message_shape/body_shape, which reads
   tag/value pairs up to a Body tag (a lone last tag = TruncatedField), then
   four-integer chunks from the left, stopping at the first chunk that is short
   (TrailingIntegers), has a bad id (EdictRuneId), or else a bad output (EdictOutput). *)
Theorem C25_message_flaw_first : forall (n_out : N) (ints : list N),
  n_out <= U32_MAX ->
  exists m, from_integers n_out ints = Ok m /\ message_shape n_out ints m.
Proof. intros n_out ints H. exact (from_integers_shape n_out H (length ints) ints (le_n _)). Qed.

Theorem C25_body_shape_functional : forall n_out i ints es f es' f',
  body_shape n_out i ints es f -> body_shape n_out i ints es' f' -> es' = es /\ f' = f.
Proof. intros. eapply body_shape_fun; eassumption. Qed.

(* The script-stage flaw is the first error met reading instructions from the
   left, in the first output that starts OP_RETURN OP_13 (later ones are ignored):
   data pushes (declaratively: is_push, any of the four encodings, minimal or
   not) are concatenated; the first non-push opcode (> OP_PUSHDATA4) gives Opcode,
   the first push whose length bytes or data run past the end of the script
   (truncated_push) gives InvalidScript. *)
Theorem C25_script_flaw_first : forall (pre post : list (list N)) (r : list N),
  Forall (fun s => ~ starts_with_magic s) pre ->
  exists p, payload (pre ++ (OP_RETURN :: MAGIC_NUMBER :: r) :: post) = Ok (Some p) /\ script_shape r p.
Proof. intros pre post r. exact (payload_first pre r post). Qed.

(* Tie with the source: the tags the model's decipher takes are exactly the
   `Tag::X.take(..)` calls the translator finds in runestone.rs (a new or removed
   take breaks this Example, i.e. the proof side of the check). *)
Example C25_tags_taken_tie :
  TAGS_TAKEN = [TAG_Divisibility; TAG_Flags; TAG_Spacers; TAG_Rune; TAG_Symbol; TAG_Premine; TAG_Cap;
                TAG_Amount; TAG_HeightStart; TAG_HeightEnd; TAG_OffsetStart; TAG_OffsetEnd; TAG_Mint; TAG_Pointer].
Proof. reflexivity. Qed.

(* ---- non-vacuity ----
   A rich well-formed runestone: unsorted edicts with a repeated id and id 0:0,
   every etching field and term at an extreme value, mint, pointer; it sits
   between a non-runestone OP_RETURN output and a second runestone output. *)
Definition rich : Runestone :=
  mkRunestone
    [ mkEdict (mkId 840000 7) U128_MAX 3; mkEdict (mkId 0 0) 5 0;
      mkEdict (mkId 840000 7) 1 2; mkEdict (mkId U64_MAX U32_MAX) 0 1; mkEdict (mkId 2 0) 9 3 ]
    (Some (mkEtching (Some MAX_DIVISIBILITY) (Some 1) (Some U128_MAX) (Some MAX_SPACERS) (Some 1114111)
             (Some (mkTerms (Some 18446744073709551616) (Some U64_MAX) (Some 0) (Some U64_MAX) (Some 1) (Some U64_MAX)))
             true))
    (Some (mkId U64_MAX U32_MAX)) (Some 2).

Example C25_nonvacuous :
  let pre := [[OP_RETURN; 1; MAGIC_NUMBER]] in
  let post := [[OP_RETURN; MAGIC_NUMBER; 2; 20; 1]] in
  wf_runestone (len pre + 1 + len post) rich = true /\
  Forall (fun s => ~ starts_with_magic s) pre /\
  match encipher rich with
  | Ok s =>
     decipher (pre ++ s :: post) = Ok (Some (ARunestone
       (mkRunestone
          [ mkEdict (mkId 0 0) 5 0; mkEdict (mkId 2 0) 9 3; mkEdict (mkId 840000 7) U128_MAX 3;
            mkEdict (mkId 840000 7) 1 2; mkEdict (mkId U64_MAX U32_MAX) 0 1 ]
          (etching rich) (mint rich) (pointer rich))))
  | _ => False
  end /\
  (* and flaws do occur: a payload that is not a varint, a truncated push, an
     opcode, an unrecognized even tag with a kept mint *)
  decipher [[OP_RETURN; MAGIC_NUMBER; 1; 128]] = Ok (Some (ACenotaph (mkCenotaph None (Some FVarint) None))) /\
  decipher [[OP_RETURN; MAGIC_NUMBER; 2; 128]] = Ok (Some (ACenotaph (mkCenotaph None (Some InvalidScript) None))) /\
  decipher [[OP_RETURN; MAGIC_NUMBER; 81]] = Ok (Some (ACenotaph (mkCenotaph None (Some Opcode) None))) /\
  decipher [[OP_RETURN; MAGIC_NUMBER; 6; 20; 1; 20; 0; 24; 0]] =
    Ok (Some (ACenotaph (mkCenotaph None (Some UnrecognizedEvenTag) (Some (mkId 1 0))))).
Proof.
  cbv zeta. split; [vm_compute; reflexivity|]. split.
  { constructor; [|constructor]. intros [r H]. discriminate H. }
  split; [eexists; split; vm_compute; reflexivity|].
  repeat split; vm_compute; reflexivity.
Qed.

Print Assumptions C25_fields_representation.
Print Assumptions C25_decipher_encipher.
Print Assumptions C25_sort_edicts_spec.
Print Assumptions C25_encipher_total.
Print Assumptions C25_decipher_wf.
Print Assumptions C25_reencipher.
Print Assumptions C25_roundtrip_iff.
Print Assumptions C25_decipher_total.
Print Assumptions C25_flaw_order.
Print Assumptions C25_message_flaw_first.
Print Assumptions C25_body_shape_functional.
Print Assumptions C25_script_flaw_first.
