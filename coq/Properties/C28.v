(* C28 — Inscription properties round-trip and decoding is bounded.
   Only statements, closed by [exact], with Print Assumptions. *)
From OrdV Require Import Base.Prelude Generated Codec.EnvScript Codec.Envelope Codec.Cbor Proofs.Cbor_proofs.

(* Bounded decompression, for ANY decompressor: whatever stream of chunks the brotli reader
   yields ([chunks], then end of stream or an error), a compressed properties field is either
   refused or expanded to a prefix of that stream of at most
   min(MAX_PROPERTIES_COMPRESSION_RATIO * |value|, MAX_COMPRESSED_PROPERTIES_SIZE) bytes, and only the
   encoding "br" is expanded at all. *)
Theorem C28_bounded_decompress : forall value e chunks err v,
  properties_cbor value (Some e) chunks err = Some v ->
  e = BROTLI /\ lenN v <= lenN value * MAX_PROPERTIES_COMPRESSION_RATIO /\
  lenN v <= MAX_COMPRESSED_PROPERTIES_SIZE /\ exists k, v = concat (firstn k chunks).
Proof. exact properties_cbor_bounded. Qed.

(* the accumulator of the loop never exceeds the bound either: every intermediate value is
   covered by the same statement (the loop is its own continuation) *)
Theorem C28_loop_invariant : forall max chunks err acc v,
  lenN acc <= max -> decompress_loop max acc chunks err = Some v ->
  lenN v <= max /\ exists k, v = acc ++ concat (firstn k chunks) /\ Forall (fun c => c <> []) (firstn k chunks).
Proof. intros. eapply decompress_loop_spec; eassumption. Qed.

(* encode_properties returns a shortest candidate *)
Theorem C28_choice_minimal : forall lens i, choose lens = Some i ->
  (N.to_nat i < length lens)%nat /\ forall k, (k < length lens)%nat -> nth (N.to_nat i) lens 0 <= nth k lens 0.
Proof. exact choose_min. Qed.

Print Assumptions C28_bounded_decompress.
Print Assumptions C28_loop_invariant.
Print Assumptions C28_choice_minimal.
