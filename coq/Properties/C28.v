(* C28 — Inscription properties round-trip and decoding is bounded.
   Only statements, closed by [exact], with Print Assumptions. *)
From OrdV Require Import Base.Prelude Generated Codec.EnvScript Codec.Envelope Codec.Cbor Proofs.Envelope_proofs Proofs.Cbor_proofs
  Proofs.Cbor_rt_proofs Proofs.Cbor_rt2_proofs Proofs.Cbor_rt3_proofs.

(* Bounded decompression, for ANY decompressor: whatever stream of chunks the brotli reader
   yields ([chunks], then end of stream or an error), a compressed properties field is either
   refused or expanded to a prefix of that stream of at most
   min(MAX_PROPERTIES_COMPRESSION_RATIO * |value|, MAX_COMPRESSED_PROPERTIES_SIZE) bytes, and only the
   encoding "br" is expanded at all. *)
Theorem C28_bounded_decompress : forall value e chunks err v,
  properties_cbor value (Some e) chunks err = Some v ->
  e = BROTLI /\ lenN v <= lenN value * MAX_PROPERTIES_COMPRESSION_RATIO /\
  lenN v <= MAX_COMPRESSED_PROPERTIES_SIZE /\ exists k, v = concat (firstn k chunks).
Proof. exact properties_cbor_bounded. Qed.

(* the accumulator of the loop never exceeds the bound either: every intermediate value is
   covered by the same statement (the loop is its own continuation) *)
Theorem C28_loop_invariant : forall max chunks err acc v,
  lenN acc <= max -> decompress_loop max acc chunks err = Some v ->
  lenN v <= max /\ exists k, v = acc ++ concat (firstn k chunks) /\ Forall (fun c => c <> []) (firstn k chunks).
Proof. intros. eapply decompress_loop_spec; eassumption. Qed.

(* The decision (refuse / accept with which length) depends on the chunk lengths only: the
   length-level loop used by the wire entry for multi-megabyte streams is the length of the
   byte-level loop above, so the bound theorems speak about it as well. *)
Theorem C28_length_view : forall value enc chunks err,
  properties_cbor_len (lenN value) enc (map (@lenN N) chunks) err = option_map (@lenN N) (properties_cbor value enc chunks err).
Proof. exact properties_cbor_len_spec. Qed.

(* Encoder and decoder agree on the limits (this is the statement that FAILED on the unchanged
   tree - compress_properties compared the rounded-down quotient len / clen with 30 - and holds
   after the `fix:` commit recorded in known_findings.txt): if compress_properties accepts a cbor
   of |cbor| bytes compressed to |value| bytes, then for every decompressor that yields exactly
   the cbor, in any non-empty chunks, and then ends, properties_cbor returns the cbor.  That brotli
   does yield the cbor back is asserted by the code at run time, not proved. *)
Theorem C28_accepted_compression_decodes : forall cbor value chunks,
  compress_accepts (lenN cbor) (lenN value) = true ->
  Forall (fun c => c <> []) chunks -> concat chunks = cbor ->
  properties_cbor value (Some BROTLI) chunks false = Some cbor.
Proof.
  intros cbor value chunks Ha Hc <-. unfold properties_cbor. rewrite Envelope_proofs.bytes_eqb_refl.
  apply compress_accepts_bound in Ha.
  rewrite decompress_loop_complete; [reflexivity|exact Hc|unfold lenN at 1; cbn [length]; lia].
Qed.

(* encode_properties returns a shortest candidate *)
Theorem C28_choice_minimal : forall lens i, choose lens = Some i ->
  (N.to_nat i < length lens)%nat /\ forall k, (k < length lens)%nat -> nth (N.to_nat i) lens 0 <= nth k lens 0.
Proof. exact choose_min. Qed.

(* ---- round trips -------------------------------------------------------------------------
   [wf_source p] (Proofs/Cbor_rt3_proofs.v) describes the properties ord itself builds
   (batch::File): no txids, every gallery item has its id (32-byte txid, u32 index) and no
   index field, trait names pairwise distinct within each attributes value, integers in i64,
   string/list lengths below 2^64 (and 32 * items < 2^64).  Full statement of the property:
   for every such p, each of the inline, packed and brotli-compressed encodings decodes to p.
   Proved here: inline and packed, for all p, also when arbitrary bytes follow the value.
   The brotli form is NOT a theorem: compressor and decompressor are external; that
   decompress(compress x) = x is asserted by the code at run time and is exercised by the
   harness oracle only. *)

Theorem C28_inline_roundtrip : forall p b rest, wf_source p -> to_inline p = Some b -> from_cbor (b ++ rest) = p.
Proof.
  intros p b rest W H. unfold to_inline in H. destruct (props_is_default p); [discriminate|].
  injection H as <-. apply inline_roundtrip. exact W.
Qed.

Theorem C28_packed_roundtrip : forall p b rest, wf_source p -> to_packed p = Ok (Some b) -> from_cbor (b ++ rest) = p.
Proof. exact packed_roundtrip. Qed.

(* neither encoder panics on such properties, and both answer None exactly for the default value *)
Theorem C28_encoders_total : forall p, wf_source p ->
  exists o, to_packed p = Ok o /\ (o = None <-> to_inline p = None).
Proof. exact to_packed_ok. Qed.

(* a duplicate trait name is rejected by the decoder (DuplicateTrait), so the distinctness
   hypothesis is necessary: the value decodes to the default properties instead *)
Example C28_duplicate_names_rejected :
  let p := mk_props [] (mk_attr None [([97], TNull); ([97], TBool true)]) [] in
  from_cbor (enc_props p) = props_default.
Proof. vm_compute. reflexivity. Qed.

(* Non-vacuity: a gallery of two items (index 0 and 300), unicode trait name, i64 extremes. *)
Example C28_nonvacuous :
  let a := mk_attr (Some [104; 105]) [([195; 169], TInt (-9223372036854775808)); ([98], TStr [120]); ([99], TInt 9223372036854775807)] in
  let p := mk_props [mk_item (Some (repeat 7 32, 0)) attr_default None; mk_item (Some (repeat 9 32, 300)) a None] a [] in
  wf_source p /\
  (exists b, to_inline p = Some b /\ from_cbor b = p) /\
  (exists b, to_packed p = Ok (Some b) /\ from_cbor b = p).
Proof.
  cbv zeta. split.
  - unfold wf_source, wf_props, wf_item, wf_attrs, wf_traits, wf_entry, wf_id, plain_item, P64, lenN; cbn.
    repeat match goal with
    | |- _ /\ _ => split
    | |- Forall _ _ => constructor
    | |- NoDup _ => constructor
    | |- ~ In _ _ => cbn; intuition discriminate
    | |- exists _, _ => eexists; reflexivity
    | |- _ => first [exact I | reflexivity | lia | (vm_compute; reflexivity) | (vm_compute; intuition discriminate)]
    end.
  - split; eexists; (split; [vm_compute; reflexivity|vm_compute; reflexivity]).
Qed.

Print Assumptions C28_bounded_decompress.
Print Assumptions C28_loop_invariant.
Print Assumptions C28_choice_minimal.
Print Assumptions C28_length_view.
Print Assumptions C28_accepted_compression_decodes.
Print Assumptions C28_inline_roundtrip.
Print Assumptions C28_packed_roundtrip.
Print Assumptions C28_encoders_total.
