(* C26 — Varints round-trip and decoding is exact.
   Only statements, closed by [exact], with Print Assumptions. *)
From OrdV Require Import Base.Prelude Codec.Varint Proofs.Varint_proofs.

(* Every 128-bit integer encodes to a byte string of length <= 19 that decodes
   (whatever follows it) to the same integer with the same length. *)
Theorem C26_roundtrip : forall n rest, n < P128 ->
  decode (encode n ++ rest) = inr (n, N.of_nat (length (encode n))) /\
  (1 <= length (encode n) <= 19)%nat /\ Forall (fun b => b < 256) (encode n).
Proof.
  intros n rest H. split; [exact (decode_encode n rest H)|].
  split; [split; [exact (encode_nonempty n)|exact (encode_length_19 n H)]|exact (encode_bytes n)].
Qed.

(* Decoding any byte string: an Ok result is exactly the value of the first
   terminated group (never a truncated value), fits 128 bits, and reports that
   group's length. *)
Theorem C26_decode_exact : forall bs n k,
  decode bs = inr (n, k) ->
  exists j, k = N.of_nat j /\ (1 <= j <= 19)%nat /\ (j <= length bs)%nat /\
    Forall cont (firstn (j - 1) bs) /\ term (nth (j - 1) bs 0) /\
    n = group_value (firstn j bs) /\ n < P128.
Proof. exact decode_exact. Qed.

(* Otherwise the error is characterised. *)
Theorem C26_decode_errors : forall bs e,
  decode bs = inl e ->
  match e with
  | Unterminated => Forall cont bs /\ (length bs <= 19)%nat
  | Overflow => (18 < length bs)%nat /\ Forall cont (firstn 18 bs) /\
                N.land (nth 18 bs 0 mod 128) 124 <> 0
  | Overlong => (19 < length bs)%nat /\ Forall cont (firstn 19 bs)
  end.
Proof. exact decode_errors. Qed.

(* Consequence: the encoding is injective and prefix-free on u128 — a concatenation of varints
   (a runestone payload) splits in exactly one way. *)
Theorem C26_encode_prefix_free : forall n m r r', n < P128 -> m < P128 ->
  encode n ++ r = encode m ++ r' -> n = m /\ r = r'.
Proof.
  intros n m r r' Hn Hm E.
  destruct (C26_roundtrip n r Hn) as [Dn _]. destruct (C26_roundtrip m r' Hm) as [Dm _].
  rewrite E in Dn. rewrite Dn in Dm. injection Dm as Enm _. subst m.
  split; [reflexivity|]. exact (app_inv_head _ _ _ E).
Qed.

(* Non-vacuity: u128::MAX satisfies the hypothesis and uses all 19 bytes. *)
Example C26_nonvacuous : U128_MAX < P128 /\ length (encode U128_MAX) = 19%nat /\
  decode (encode U128_MAX) = inr (U128_MAX, 19).
Proof. vm_compute. repeat split. Qed.

Print Assumptions C26_roundtrip.
Print Assumptions C26_decode_exact.
Print Assumptions C26_decode_errors.
Print Assumptions C26_encode_prefix_free.
