(* C20 — Ordinal-aware sends never misdirect or burn inscriptions.
   Model: Wallet/Builder.v (TransactionBuilder::build_transaction, the seven passes in source
   order, FeeRate::fee as a parameter [fee : N -> N]).  Specification: Wallet/BuilderSpec.v.
   Only statements here, closed by [exact]. *)
From OrdV Require Import Base.Prelude Generated Wallet.Builder Wallet.BuilderSpec Proofs.Builder_proofs.

(* (a) Coin selection, for every wallet, pool, target value and preference: the outpoint returned
   by select_cardinal_utxo comes from the pool, is not runic, not locked and carries no
   inscription, its value is the wallet's value for it, and it has left the pool (so it can
   never be selected twice); nothing else of the state changes. *)
Theorem C20_select_cardinal_never_noncardinal : forall w st target prefer_under u v st',
  select_cardinal_utxo w st target prefer_under = Ok (u, v, st') ->
  In u (s_utxos st) /\ is_cardinal w u /\ amount_of (w_amounts w) u = Some v /\
  s_utxos st' = remove_id u (s_utxos st) /\ ~ In u (s_utxos st') /\
  s_inputs st' = s_inputs st /\ s_outputs st' = s_outputs st /\ s_unused st' = s_unused st.
Proof.
  intros w st target pu u v st' H.
  destruct (select_cardinal_spec w st target pu u v st' H) as [H1 [H2 [H3 [H4 [H5 [H6 H7]]]]]].
  repeat split; try assumption; try apply H2. rewrite H4. apply remove_id_not_In.
Qed.

(* (b) For every fee function, wallet, outgoing satpoint, recipient, change scripts and target:
   a transaction returned by build_transaction satisfies every clause of SendSpec
   (see Wallet/BuilderSpec.v): the outgoing sat is the first sat of the single recipient
   output, no other inscription reaches the recipient or the fee, every additional input is
   cardinal and no input is spent twice, every other output is change, no output is dust, the
   recipient value obeys the target clause and inputs - outputs = fee (vsize). *)
Theorem C20_build_ok_implies_spec : forall fee w tx,
  build_transaction fee w = Ok tx -> SendSpec fee w tx.
Proof. exact build_ok_implies_spec. Qed.

Print Assumptions C20_select_cardinal_never_noncardinal.
Print Assumptions C20_build_ok_implies_spec.
