(* C20 — Ordinal-aware sends never misdirect or burn inscriptions.
   Model: Wallet/Builder.v (TransactionBuilder::build_transaction, the seven passes in source
   order, FeeRate::fee as a parameter [fee : N -> N]).  Specification: Wallet/BuilderSpec.v.
   Only statements here, closed by [exact]. *)
From OrdV Require Import Base.Prelude Generated Wallet.Builder Wallet.BuilderSpec Proofs.Builder_proofs
  Proofs.Builder_nopanic Wallet.BuilderPinned.

(* (a) Coin selection, for every wallet, pool, target value and preference: the outpoint returned
   by select_cardinal_utxo comes from the pool, is not runic, not locked and carries no
   inscription, its value is the wallet's value for it, and it has left the pool (so it can
   never be selected twice); nothing else of the state changes. *)
Theorem C20_select_cardinal_never_noncardinal : forall w st target prefer_under u v st',
  select_cardinal_utxo w st target prefer_under = Ok (u, v, st') ->
  In u (s_utxos st) /\ is_cardinal w u /\ amount_of (w_amounts w) u = Some v /\
  s_utxos st' = remove_id u (s_utxos st) /\ ~ In u (s_utxos st') /\
  s_inputs st' = s_inputs st /\ s_outputs st' = s_outputs st /\ s_unused st' = s_unused st.
Proof.
  intros w st target pu u v st' H.
  destruct (select_cardinal_spec w st target pu u v st' H) as [H1 [H2 [H3 [H4 [H5 [H6 H7]]]]]].
  repeat split; try assumption; try apply H2. rewrite H4. apply remove_id_not_In.
Qed.

(* (b) For every fee function, wallet, outgoing satpoint, recipient, change scripts and target:
   a transaction returned by build_transaction satisfies every clause of SendSpec
   (see Wallet/BuilderSpec.v): the outgoing sat is the first sat of the single recipient
   output, no other inscription reaches the recipient or the fee, every additional input is
   cardinal and no input is spent twice, every other output is change, no output is dust, the
   recipient value obeys the target clause and inputs - outputs = fee (vsize). *)
Theorem C20_build_ok_implies_spec : forall fee w tx,
  build_transaction fee w = Ok tx -> SendSpec fee w tx.
Proof. exact build_ok_implies_spec. Qed.

(* (c) build_transaction never panics: for every fee function and wallet forming a well-formed
   call (WalletOK, Wallet/BuilderSpec.v: amounts is a map of positive values totalling at most
   21e14 sat, inscription offsets at most 21e14, both change scripts are addresses, a burn to
   OP_RETURN names an amount >= 1 sat, the requested amount fits u64, the fee function is
   monotone and sub-additive up to one sat of rounding), no assert!/unwrap/expect/index/Amount
   arithmetic site of the seven passes is reached; the result is Ok or one of the documented
   errors.  This is a statement about the code as repaired by the four `fix:` commits of
   /repo listed in known_findings.txt; the pinned code violates it (corpus/C20). *)
Theorem C20_never_panics : forall fee w,
  WalletOK fee w -> forall t, build_transaction fee w <> Panic t.
Proof. exact build_transaction_never_panics. Qed.

(* The hypotheses on the fee function hold for every dyadic rate k/2^j, the rates for which
   FeeRate::fee is modelled exactly. *)
Theorem C20_dyadic_fee_laws : forall k j,
  (forall a b, a <= b -> fee_dyadic k j a <= fee_dyadic k j b) /\
  (forall a b, fee_dyadic k j (a + b) <= fee_dyadic k j a + fee_dyadic k j b + 1) /\
  (forall a, fee_dyadic k j a <= U64_MAX).
Proof. exact fee_dyadic_laws. Qed.

(* Non-vacuity: a burn (ExactPostage(1 sat) to a 5-byte OP_RETURN, 1 sat/vB) of an inscription
   on a 330-sat output, the call that panicked in the pinned code, is a well-formed call and
   now yields a transaction; a send that needs padding, a cardinal input and change as well. *)
Definition burn_330 : Wallet :=
  mkWallet [(10, 330)] [(10, 0)] [] [] 10 0 29 0 8 (TExact 1).
Definition send_padded : Wallet :=
  mkWallet [(3, 5000); (7, 40000); (10, 10000); (11, 600)] [(10, 100); (11, 0)] [7] [] 10 100 16 0 8 TPostage.

Example C20_nonvacuous :
  build_transaction (fee_dyadic 1 0) burn_330 = Ok ([10], [(29, 248)]) /\
  build_transaction (fee_dyadic 9 2) send_padded
    = Ok ([3; 10], [(8, 5100); (16, 9423)]) /\
  SendSpec (fee_dyadic 9 2) send_padded ([3; 10], [(8, 5100); (16, 9423)]).
Proof.
  split; [vm_compute; reflexivity|]. split; [vm_compute; reflexivity|].
  apply C20_build_ok_implies_spec. vm_compute. reflexivity.
Qed.

Lemma burn_330_ok : WalletOK (fee_dyadic 1 0) burn_330.
Proof.
  destruct (fee_dyadic_laws 1 0) as [H1 [H2 H3]].
  constructor; try assumption; cbn.
  - repeat constructor. intros [].
  - intros id v [H|[]]. inversion H. reflexivity.
  - vm_compute. discriminate.
  - intros o off [H|[]]. inversion H. vm_compute. discriminate.
  - reflexivity.
  - reflexivity.
  - intros _. exists 1. split; [reflexivity|]. reflexivity.
  - intros a H. inversion H. vm_compute. discriminate.
Qed.

(* The pinned code (model Wallet/BuilderPinned.v, transaction_builder.rs before the repairs)
   does reach panic sites on well-formed calls; each witness below was replayed on the real
   pinned builder (corpus/C20/defects_found.txt) and panicked there with the same assertion:
   1 burn of an inscription on a 330-sat output (ExactPostage(1) to OP_RETURN, 1 sat/vB)
   2 send --postage 10000 of a 10211-sat output                  -> "excess postage is stripped"
   3 postage send to p2wpkh, 300-sat output + 150-sat cardinal   -> "all outputs are above dust limit"
   4 Value(10000) to p2wpkh, 300-sat output + 9856-sat cardinal  -> unwrap on None (recipient would get 9999)
   5 0.75 sat/vB, Value(10000) to p2tr from a 10446-sat output   -> "output equals target value"
   6 change [p2wpkh, p2pkh], offset 100, 200-sat cardinal        -> "all outputs are above dust limit" *)
Lemma C20_pinned_code_panics :
  Pinned.build_transaction (Pinned.fee_dyadic 1 0)
    (Pinned.mkWallet [(10, 330)] [(10, 0)] [] [] 10 0 29 0 8 (Pinned.TExact 1)) = Panic Pinned.P_B_POSTAGE /\
  Pinned.build_transaction (Pinned.fee_dyadic 1 0)
    (Pinned.mkWallet [(10, 10211)] [] [] [] 10 0 16 0 8 (Pinned.TExact 10000)) = Panic Pinned.P_B_POSTAGE /\
  Pinned.build_transaction (Pinned.fee_dyadic 1 0)
    (Pinned.mkWallet [(10, 300); (20, 150)] [] [] [] 10 0 1 0 8 Pinned.TPostage) = Panic Pinned.P_B_DUST /\
  Pinned.build_transaction (Pinned.fee_dyadic 1 0)
    (Pinned.mkWallet [(10, 300); (20, 9856)] [] [] [] 10 0 1 0 8 (Pinned.TValue 10000)) = Panic Pinned.P_B_VALUE_UNWRAP /\
  Pinned.build_transaction (Pinned.fee_dyadic 3 2)
    (Pinned.mkWallet [(10, 10446)] [] [] [] 10 0 16 0 8 (Pinned.TValue 10000)) = Panic Pinned.P_B_VALUE /\
  Pinned.build_transaction (Pinned.fee_dyadic 1 0)
    (Pinned.mkWallet [(5, 200); (10, 10000)] [] [] [] 10 100 16 1 10 Pinned.TPostage) = Panic Pinned.P_B_DUST.
Proof. vm_compute. repeat split; reflexivity. Qed.

Print Assumptions C20_select_cardinal_never_noncardinal.
Print Assumptions C20_build_ok_implies_spec.
Print Assumptions C20_never_panics.
Print Assumptions C20_dyadic_fee_laws.
