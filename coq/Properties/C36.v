(* C36 — Settings follow flag > environment > config file > default precedence.
   Only statements, closed by [exact] / a few lines of glue, with Print Assumptions.
   All statements are about the field tables translated from src/settings.rs (Generated.v):
   i ranges over the fields of `struct Settings` in declaration order. *)
From OrdV Require Import Base.Prelude Generated Server.Settings Proofs.Settings_proofs.

(* The translated tables: every line of Settings::or uses the combinator of the field's type
   (Option: self.x.or(source.x); bool: ||; hidden: union), every field is read from the
   environment with the reader of its type, and merge composes options, env, config in that order. *)
Theorem C36_tables :
  (forall i, (i < NF)%nat -> nth i SETTINGS_OR 9 = nth i SETTINGS_KIND 9) /\
  (forall i, (i < NF)%nat -> nth i SETTINGS_FROM_ENV 9 = nth i SETTINGS_KIND 9 + 1) /\
  SETTINGS_MERGE_ORDER = [0; 1; 2] /\ SETTINGS_FIELD_COUNT = N.of_nat NF.
Proof. split; [exact table_or|]. split; [exact table_env|]. split; reflexivity. Qed.

(* Option-valued settings: the resolved value is the first value present among flag, ORD_
   variable, config file, and the built-in default otherwise. *)
Theorem C36_option_precedence : forall fl flags config env i,
  length flags = NF -> length env = NF -> length config = NF -> (i < NF)%nat ->
  nth i SETTINGS_KIND 9 = 0 ->
  f_opt (resolved fl flags config env i) =
    with_default (nth i SETTINGS_DEFAULT_KIND 9) (nth i SETTINGS_DEFAULT_CONST 9)
      (first_some [f_opt (src_flag fl flags i); f_opt (src_env env i); f_opt (src_config config i)]).
Proof. intros. now apply resolved_option. Qed.

(* spelled out: flag beats environment beats config file beats default (for the two fields that
   or_defaults clears, config and config_dir, the resolved value is always None) *)
Corollary C36_flag_env_config_default : forall fl flags config env i,
  length flags = NF -> length env = NF -> length config = NF -> (i < NF)%nat ->
  nth i SETTINGS_KIND 9 = 0 -> nth i SETTINGS_DEFAULT_KIND 9 <> 2 ->
  let r := f_opt (resolved fl flags config env i) in
  (forall v, f_opt (src_flag fl flags i) = Some v -> r = Some v) /\
  (f_opt (src_flag fl flags i) = None -> forall v, f_opt (src_env env i) = Some v -> r = Some v) /\
  (f_opt (src_flag fl flags i) = None -> f_opt (src_env env i) = None ->
   forall v, f_opt (src_config config i) = Some v -> r = Some v) /\
  (f_opt (src_flag fl flags i) = None -> f_opt (src_env env i) = None -> f_opt (src_config config i) = None ->
   r = with_default (nth i SETTINGS_DEFAULT_KIND 9) (nth i SETTINGS_DEFAULT_CONST 9) None).
Proof. exact flag_env_config_default. Qed.

(* Boolean switches: on iff any source sets them. *)
Theorem C36_switch_any : forall fl flags config env i,
  length flags = NF -> length env = NF -> length config = NF -> (i < NF)%nat ->
  nth i SETTINGS_KIND 9 = 1 ->
  f_bool (resolved fl flags config env i) =
    f_bool (src_flag fl flags i) || f_bool (src_env env i) || f_bool (src_config config i).
Proof. intros. now apply resolved_bool. Qed.

(* Hidden-inscription lists: the union of all sources. *)
Theorem C36_hidden_union : forall fl flags config env i,
  length flags = NF -> length env = NF -> length config = NF -> (i < NF)%nat ->
  nth i SETTINGS_KIND 9 = 2 ->
  forall x, In x (f_set (resolved fl flags config env i)) <->
            In x (f_set (src_flag fl flags i)) \/ In x (f_set (src_env env i)) \/ In x (f_set (src_config config i)).
Proof. intros. now apply resolved_set. Qed.

(* Chain switches: the first switch that is set, in the order of the source's `.or` chain, decides;
   --chain is consulted only when no switch is set. *)
Theorem C36_chain_switch_order : forall fl pre k ch post,
  SETTINGS_CHAIN_FLAGS = pre ++ (k, ch) :: post ->
  (forall k' ch', In (k', ch') pre -> nth (N.to_nat k') fl false = false) ->
  nth (N.to_nat k) fl false = true ->
  forall arg, f_opt (from_options_field fl 2 (arg, false, [])) = Some ch.
Proof.
  intros fl pre k ch post E Hpre Hk arg. cbn [from_options_field f_opt fst].
  now rewrite (chain_of_flags_first _ fl pre k ch post E Hpre Hk).
Qed.

Theorem C36_chain_argument_last : forall fl,
  (forall k ch, In (k, ch) SETTINGS_CHAIN_FLAGS -> nth (N.to_nat k) fl false = false) ->
  forall arg, f_opt (from_options_field fl 2 (arg, false, [])) = arg.
Proof.
  intros fl H arg. cbn [from_options_field f_opt fst]. now rewrite (chain_of_flags_none _ fl H).
Qed.

(* Which config file is read: --config, else ORD_CONFIG, else ord.yaml in config_dir, else in
   data_dir (flag before environment each), else in the default data dir. *)
Theorem C36_config_location : forall cf ce cdf cde ddf dde dflt ex,
  (forall p, cf = Some p -> ex p = true -> config_location cf ce cdf cde ddf dde dflt ex = Ok p) /\
  (forall p, cf = None -> ce = Some p -> ex p = true -> config_location cf ce cdf cde ddf dde dflt ex = Ok p) /\
  (cf = None -> ce = None ->
   let dir := match first_some [cdf; cde; ddf; dde] with Some d => d | None => dflt end in
   config_location cf ce cdf cde ddf dde dflt ex = Ok (if ex dir then dir else 0)).
Proof.
  intros. repeat split.
  - intros p -> E. cbn. now rewrite E.
  - intros p -> -> E. cbn. now rewrite E.
  - intros -> ->. cbn. destruct cdf, cde, ddf, dde; cbn; destruct (ex _); reflexivity.
Qed.

(* Non-vacuity: commit_interval given by all three sources resolves to the flag's value; given by
   none it resolves to the default of the source (5000). *)
Example C36_nonvacuous :
  let i := N.to_nat SETTINGS_F_commit_interval in
  let blank := repeat fempty NF in
  let put (v : N) := firstn i blank ++ (Some v, false, []) :: skipn (S i) blank in
  let env v := firstn i (repeat None NF) ++ Some v :: skipn (S i) (repeat None NF) in
  nth i SETTINGS_KIND 9 = 0 /\
  f_opt (resolved [] (put 101) (put 103) (env 102) i) = Some 101 /\
  f_opt (resolved [] blank (put 103) (env 102) i) = Some 102 /\
  f_opt (resolved [] blank (put 103) (repeat None NF) i) = Some 103 /\
  f_opt (resolved [] blank blank (repeat None NF) i) = Some 5000.
Proof. vm_compute. repeat split. Qed.

Print Assumptions C36_option_precedence.
Print Assumptions C36_flag_env_config_default.
Print Assumptions C36_switch_any.
Print Assumptions C36_hidden_union.
Print Assumptions C36_chain_switch_order.
