(* C09 — Edicts, pointers and cenotaphs allocate runes as the protocol describes.
   Model: Index/Runes.v (the edict loop, default output, burns of RuneUpdater::index_runes).
   [un] is the unallocated map, [al] the per-output allocation, [cell r k al] the amount of rune r
   allocated to output k, [outs] the OP_RETURN flags of the outputs, [destinations outs 0] the
   non-OP_RETURN output numbers in order.  One theorem per sentence of the specification. *)
From OrdV Require Import Base.Prelude Index.Runes Proofs.Runes_proofs Proofs.Runes_alloc
  Proofs.Runes_supply Proofs.Runes_edicts.

(* edicts are applied in list order *)
Theorem C09_edicts_in_order : forall outs et es1 es2 un al,
  apply_edicts outs et un al (es1 ++ es2) =
  do '(un1, al1) <- apply_edicts outs et un al es1; apply_edicts outs et un1 al1 es2.
Proof. exact apply_edicts_app. Qed.

(* an edict to one output moves min(amount, remaining), amount 0 = all remaining; nothing else moves *)
Theorem C09_edict_to_one_output : forall outs etched_id un al e r b un' al',
  length al = length outs ->
  ed_output e < N.of_nat (length outs) -> resolve etched_id e = Some r -> alookup id_eqb r un = Some b ->
  apply_edict outs etched_id un al e = Ok (un', al') ->
  let amt := if ed_amount e =? 0 then b else N.min (ed_amount e) b in
  getd r un' = b - amt /\
  cell r (N.to_nat (ed_output e)) al' = cell r (N.to_nat (ed_output e)) al + amt /\
  (forall r', r' <> r -> getd r' un' = getd r' un) /\
  (forall r' k, (r' <> r \/ k <> N.to_nat (ed_output e)) -> cell r' k al' = cell r' k al).
Proof. exact edict_single_spec. Qed.

(* the eligible outputs of a split are exactly the non-OP_RETURN outputs, in increasing order *)
Theorem C09_destinations : forall outs,
  (forall o, In o (destinations outs 0) <-> nth_error outs (N.to_nat o) = Some false) /\
  NoDup (destinations outs 0).
Proof.
  intros outs. split; [|apply destinations_lt].
  intros o. rewrite destinations_spec. rewrite N.sub_0_r. split; [intros [_ H]; exact H|intros H; split; [lia|exact H]].
Qed.

(* output = number of outputs, amount 0: the k-th eligible output of m gets floor(b/m) + [k < b mod m],
   nothing of the rune stays unallocated, nothing else moves *)
Theorem C09_split_even : forall outs etched_id un al e r b un' al',
  length al = length outs ->
  ed_output e = N.of_nat (length outs) -> ed_amount e = 0 ->
  resolve etched_id e = Some r -> alookup id_eqb r un = Some b ->
  destinations outs 0 <> [] ->
  apply_edict outs etched_id un al e = Ok (un', al') ->
  let ds := destinations outs 0 in let m := N.of_nat (length ds) in
  getd r un' = 0 /\
  (forall k d, nth_error ds k = Some d ->
     cell r (N.to_nat d) al' = cell r (N.to_nat d) al + b / m + (if N.of_nat k <? b mod m then 1 else 0)) /\
  (forall n, ~ In n (map N.to_nat ds) -> cell r n al' = cell r n al) /\
  (forall r', r' <> r -> getd r' un' = getd r' un /\ forall n, cell r' n al' = cell r' n al).
Proof. exact edict_split_even_spec. Qed.

(* output = number of outputs, amount a <> 0: the k-th eligible output gets min(a, b - k*a) *)
Theorem C09_split_amount : forall outs etched_id un al e r b un' al',
  length al = length outs ->
  ed_output e = N.of_nat (length outs) -> ed_amount e <> 0 ->
  resolve etched_id e = Some r -> alookup id_eqb r un = Some b ->
  apply_edict outs etched_id un al e = Ok (un', al') ->
  let ds := destinations outs 0 in let a := ed_amount e in
  getd r un' = b - a * N.of_nat (length ds) /\
  (forall k d, nth_error ds k = Some d ->
     cell r (N.to_nat d) al' = cell r (N.to_nat d) al + N.min a (b - a * N.of_nat k)) /\
  (forall n, ~ In n (map N.to_nat ds) -> cell r n al' = cell r n al) /\
  (forall r', r' <> r -> getd r' un' = getd r' un /\ forall n, cell r' n al' = cell r' n al).
Proof. exact edict_split_fixed_spec. Qed.

(* id 0:0 is the rune etched in this transaction; without one (or for a rune with no unallocated
   balance, or a split with no eligible output) the edict does nothing *)
Theorem C09_edict_id_zero : forall outs r un al a o,
  apply_edict outs (Some r) un al (mkEdict (0, 0) a o) = apply_edict outs (Some r) un al (mkEdict r a o).
Proof. exact edict_id_zero. Qed.

Theorem C09_edict_skipped : forall outs etched_id un al e,
  ed_output e <= N.of_nat (length outs) ->
  (resolve etched_id e = None \/ exists r, resolve etched_id e = Some r /\ alookup id_eqb r un = None) ->
  apply_edict outs etched_id un al e = Ok (un, al).
Proof. exact edict_skipped. Qed.

(* leftovers (runestone or no artifact): everything still unallocated goes to the pointer, else to
   the first non-OP_RETURN output; with no such output it is burned *)
Theorem C09_leftovers : forall outs art un al al' burned,
  (forall et m, art <> Some (Cenotaph et m)) ->
  default_phase outs art un al = Ok (al', burned) -> length al = length outs ->
  match default_output outs art with
  | Some v =>
    (N.to_nat v < length al)%nat /\ burned = [] /\
    forall r k, cell r k al' = cell r k al + (if Nat.eqb k (N.to_nat v) then msum r un else 0)
  | None => al' = al /\ forall r, getd r burned = msum r un
  end.
Proof. exact default_phase_spec. Qed.

(* what was allocated to OP_RETURN outputs is burned, the rest becomes the outputs' balances *)
Theorem C09_op_return_allocations_burned : forall r txid outs al vout bt burned bt' burned',
  store_outputs txid outs al vout bt burned = Ok (bt', burned') ->
  (forall v, vout <= v -> alookup op_eqb (txid, v) bt = None) ->
  tsum r bt' = tsum r bt + asum_sel false r outs al /\
  msum r burned' = msum r burned + asum_sel true r outs al.
Proof. exact store_outputs_split. Qed.

(* cenotaph: no output receives anything; the input balances plus a successful mint (never a
   premine) are burned.  (Edicts of a cenotaph do not exist in the artifact: decipher drops them.) *)
Theorem C09_cenotaph_burns_everything : forall height time minimum txi u tx et m u',
  tx_art tx = Some (Cenotaph et m) ->
  index_runes height time minimum txi u tx = Ok u' ->
  exists bt un st1 un1,
    unallocated (tx_ins tx) (s_balances (u_st u)) [] = Ok (bt, un) /\
    mint_phase height (set_balances (u_st u) bt) un (Cenotaph et m) = Ok (st1, un1) /\
    s_balances (u_st u') = bt /\
    forall r, msum r (u_burned u') = msum r (u_burned u) + msum r un1.
Proof. exact cenotaph_burns_all. Qed.

(* Non-vacuity: balance 10 of rune (5,0), outputs [plain; OP_RETURN; plain; plain]: a split with
   amount 0 gives 4,3,3 to outputs 0,2,3; a split with amount 4 gives 4,4,2. *)
Example C09_nonvacuous :
  let outs := [false; true; false; false] in
  let un := [((5, 0), 10)] in let al := repeat [] 4 in
  (exists un' al', apply_edict outs None un al (mkEdict (5, 0) 0 4) = Ok (un', al') /\
     [cell (5, 0) 0 al'; cell (5, 0) 1 al'; cell (5, 0) 2 al'; cell (5, 0) 3 al'] = [4; 0; 3; 3] /\
     getd (5, 0) un' = 0) /\
  (exists un' al', apply_edict outs None un al (mkEdict (5, 0) 4 4) = Ok (un', al') /\
     [cell (5, 0) 0 al'; cell (5, 0) 1 al'; cell (5, 0) 2 al'; cell (5, 0) 3 al'] = [4; 0; 4; 2]).
Proof. vm_compute. split; eexists; eexists; repeat split. Qed.

Print Assumptions C09_edicts_in_order.
Print Assumptions C09_edict_to_one_output.
Print Assumptions C09_destinations.
Print Assumptions C09_split_even.
Print Assumptions C09_split_amount.
Print Assumptions C09_edict_id_zero.
Print Assumptions C09_edict_skipped.
Print Assumptions C09_leftovers.
Print Assumptions C09_op_return_allocations_burned.
Print Assumptions C09_cenotaph_burns_everything.
