(* C12 — Index content does not depend on how indexing was scheduled.
   Two models:
   (1) Index/Cache.v: the write-back UTXO cache discipline of the updater
       (cache-first reads, inserts into the cache, special-outpoint appends,
       flush with merge at commit), for EVERY block program that follows the
       access discipline;
   (2) Index/Sched.v: when commits happen (commit interval, savepoint rule),
       resume height from the stored headers, reopen. *)
From OrdV Require Import Base.Prelude Index.Cache Index.Sched Proofs.Cache_proofs Proofs.Sched_proofs.
From OrdV Require Index.SatIndex Index.SatCache Properties.C01.

(* (1) For every entry type, every merge operation that is associative with
   [empty] as left unit (what UtxoEntryBuf::merged is on special outpoints),
   every list of block programs obeying the access discipline, and any two
   placements of commits: the final UTXO table and every directly written
   table are the same, provided the chain never re-creates an unspent outpoint
   (BIP 30). *)
Theorem C12_cache_schedule_independent :
  forall (E A : Type) (merged : E -> E -> E) (empty : E) (special : N -> bool),
  (forall a b c, merged (merged a b) c = merged a (merged b c)) ->
  (forall a, merged empty a = a) ->
  forall bs1 bs2 c0 s0 s',
    progs E A bs1 = progs E A bs2 ->
    Forall (fun b => wf E A special (fst b)) bs1 -> Forall (fun b => wf E A special (fst b)) bs2 ->
    R E A merged special c0 s0 ->
    run_s E A merged empty (progs E A bs1) s0 = Some s' ->
    caux E A (run_c E A merged empty special bs1 c0) = caux E A (run_c E A merged empty special bs2 c0) /\
    forall o, table E A (run_c E A merged empty special bs1 c0) o =
              table E A (run_c E A merged empty special bs2 c0) o.
Proof. exact schedule_independent. Qed.

(* (2) Whatever the commit interval, savepoint parameters, number of update
   calls and reopen points so far (any two reachable stores that hold a prefix
   of the node's chain), the next update leaves exactly the node's chain
   indexed: which blocks are indexed never depends on the schedule. *)
Theorem C12_blocks_schedule_independent : forall p1 p2 nd s1 s2 f1 f2 o1 o2 t1 t2 fl1 fl2 r1 r2,
  params_ok p1 -> params_ok p2 -> fixed p1 = true -> fixed p2 = true ->
  (2 <= f1)%nat -> (2 <= f2)%nat ->
  Inv s1 -> Inv s2 -> prefix (blocks (cur s1)) (chain nd) -> prefix (blocks (cur s2)) (chain nd) ->
  update f1 p1 nd s1 [] = (o1, t1, fl1, r1) ->
  update f2 p2 nd s2 [] = (o2, t2, fl2, r2) ->
  o1 = UOk /\ o2 = UOk /\ blocks (cur t1) = blocks (cur t2).
Proof.
  intros p1 p2 nd s1 s2 f1 f2 o1 o2 t1 t2 fl1 fl2 r1 r2 P1 P2 F1 F2 G1 G2 I1 I2 Q1 Q2 U1 U2.
  destruct (resume_after_crash p1 nd s1 f1 o1 t1 fl1 r1 P1 F1 G1 I1 Q1 U1) as [A1 B1].
  destruct (resume_after_crash p2 nd s2 f2 o2 t2 fl2 r2 P2 F2 G2 I2 Q2 U2) as [A2 B2].
  repeat split; congruence.
Qed.

(* (3) The same statement on a concrete index model: the sat index with the code's utxo_cache +
   table split (Index/SatCache.v), for ANY two commit schedules of the same chain.  Outside the
   recorded class dup-spent-before-commit (a duplicate txid whose re-created output is spent before
   the next commit), both runs hold for every outpoint the same sats in the same order, and the
   same lost sats — because each equals the BIP's assignment (C01_except). *)
Theorem C12_sat_index_schedule_independent : forall sched1 sched2 c s1 s2,
  SatCache.run2 sched1 c = Ok s1 -> SatCache.run2 sched2 c = Ok s2 ->
  SatCache.c_shadow (SatCache.s_c s1) = false -> SatCache.c_shadow (SatCache.s_c s2) = false ->
  (forall o, option_map SatIndex.flatten (SatCache.view (SatCache.s_c s1) o) =
             option_map SatIndex.flatten (SatCache.view (SatCache.s_c s2) o)) /\
  SatIndex.flatten (SatCache.s_lost s1) = SatIndex.flatten (SatCache.s_lost s2).
Proof.
  intros sched1 sched2 c s1 s2 R1 R2 F1 F2.
  destruct (C01.C01_except sched1 c s1 R1 F1) as [U1 L1].
  destruct (C01.C01_except sched2 c s2 R2 F2) as [U2 L2].
  split; [intros o; rewrite U1, U2; reflexivity|congruence].
Qed.

(* Non-vacuity of (1): a two-block run where the second block spends an output
   of the first and appends to a special outpoint, committed after the first
   block or only at the end, gives the same table. *)
Example C12_nonvacuous :
  let E := list N in
  let merged := @app N in
  let special := fun o => N.eqb o 0 in
  let b1 : prog E unit := Put E unit 7 [1;2] (Append E unit 0 [9] (Ret E unit)) in
  let b2 : prog E unit := Take E unit 7 (fun r => Append E unit 0 (match r with Some e => e | None => [] end) (Ret E unit)) in
  let c0 := mkC E unit (fun _ => None) (fun _ => None) tt in
  let t1 := table E unit (run_c E unit merged [] special [(b1, true); (b2, false)] c0) in
  let t2 := table E unit (run_c E unit merged [] special [(b1, false); (b2, false)] c0) in
  t1 0 = Some [9;1;2] /\ t2 0 = Some [9;1;2] /\ t1 7 = None /\ t2 7 = None.
Proof. vm_compute. repeat split. Qed.

Print Assumptions C12_cache_schedule_independent.
Print Assumptions C12_blocks_schedule_independent.
Print Assumptions C12_sat_index_schedule_independent.
