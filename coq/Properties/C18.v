(* C18 — Explorer JSON and recursive endpoints agree with the index.   (PARTIAL)

   Full statement (properties.jsonl): for every inscription, output, sat, block and rune in the index the
   JSON API and the recursive endpoints report the same facts as the index.  What is proved here is the
   list / pagination / signed-index algebra the handlers compute with, and the consistency of the views
   (children vs parents, output vs satpoints, listing by block) under the table invariants of C04/C07,
   for ALL tables, lists, page sizes and page numbers.  That the handlers compute these functions of the
   tables (routing, JSON encoding, table look-ups, node look-ups for output values, rune balances) is
   tied by the correspondence run only; the table invariants are evaluated on every generated state by
   the harness oracle, not proved here.  Hence every theorem below carries the suffix _partial where it
   stands for a part of the property, and props/C18.json says so. *)
From OrdV Require Import Base.Prelude Generated Server.Content Server.Api Proofs.Content_proofs Proofs.Api_proofs.
From OrdV Require Index.Inscr Proofs.Inscr_c04 Proofs.Inscr_c18.

(* pages: position j of page i is position i*size+j of the stored list; concatenating pages 0..k-1 gives
   the first k*size elements (the whole list once k*size >= length); [more] holds exactly when a later
   page is non-empty; no element of a duplicate-free list is on two pages *)
Theorem C18_pages_partial : forall A (l : list A) size,
  (forall i j, nth_error (page_items l size i) j =
               if N.of_nat j <? size then nth_error l (N.to_nat (i * size) + j) else None) /\
  (forall k, concat (map (fun i => page_items l size (N.of_nat i)) (seq 0 k)) = firstn (k * N.to_nat size) l) /\
  (forall k, (length l <= k * N.to_nat size)%nat ->
             concat (map (fun i => page_items l size (N.of_nat i)) (seq 0 k)) = l) /\
  (forall i, page_more l size i = true <-> (i + 1) * size < len l) /\
  (forall i, 0 < size -> (page_more l size i = true <-> page_items l size (i + 1) <> [])) /\
  (forall i j x, NoDup l -> i <> j -> In x (page_items l size i) -> ~ In x (page_items l size j)).
Proof.
  intros A l size. repeat split.
  - apply page_nth.
  - apply pages_concat.
  - apply pages_cover.
  - apply page_more_spec.
  - apply page_more_spec.
  - apply page_more_next_nonempty; assumption.
  - apply page_more_next_nonempty; assumption.
  - intros i j x. apply pages_disjoint.
Qed.

(* the paging the (repaired) index getters implement — skip(saturating_mul).take(size+1), pop — is that
   specification for every page number, including those whose offset exceeds u64; no listing handler panics *)
Theorem C18_paging_implemented_partial :
  (forall A (l : list A) size i, len l <= U64_MAX -> size < U64_MAX -> page_impl l size i = page l size i) /\
  (forall t size s pg, children_page true t size s pg <> RPanic /\ children_inscriptions true t s pg <> RPanic /\
                       parents_page true t s pg <> RPanic /\ parent_inscriptions true t s pg <> RPanic).
Proof. split; [exact page_impl_correct | exact fixed_never_panics]. Qed.

(* ... which the pinned commit a57bfc1 did not: a large page number panicked the handler *)
Theorem C18_pinned_commit_page_overflow : forall t s e, entry_of t s = Some e ->
  children_page false t PAGE s U64_MAX = RPanic.
Proof. exact pinned_children_page_panics. Qed.

(* the listing handlers return exactly those pages of the stored lists *)
Theorem C18_listings_partial : forall t,
  (forall size s pg e, len (children_of t s) <= U64_MAX -> size < U64_MAX -> entry_of t s = Some e ->
     children_page true t size s pg =
     RPage (page_items (children_of t s) size pg) (page_more (children_of t s) size pg) pg) /\
  (forall s pg e, len (e_parents e) <= U64_MAX -> pg <= U32_MAX -> entry_of t s = Some e ->
     parents_page true t s pg = RPage (page_items (e_parents e) PAGE pg) (page_more (e_parents e) PAGE pg) pg) /\
  (forall sat pg, len (on_sat t sat) <= U64_MAX -> t_index_sats t = true ->
     sat_page t sat pg = RPage (page_items (on_sat t sat) PAGE pg) (page_more (on_sat t sat) PAGE pg) pg) /\
  (forall h pg, len (in_block t h) <= U64_MAX ->
     block_page t h pg =
     RPage (page_items (in_block t h) SERVER_PAGE_SIZE pg) (page_more (in_block t h) SERVER_PAGE_SIZE pg) pg).
Proof.
  intro t. repeat split.
  - intros. eapply children_page_spec; eauto.
  - intros. eapply parents_page_spec; eauto.
  - apply sat_page_spec.
  - apply block_page_spec.
Qed.

(* signed index on a sat: i >= 0 counts from the oldest, -k is the k-th newest (len - k) *)
Theorem C18_signed_index_partial : forall A (l : list A),
  (forall i, (0 <= i)%Z -> nth_signed l i = nth_error l (Z.to_nat i)) /\
  (forall k, (1 <= k)%nat ->
     nth_signed l (- Z.of_nat k) = if (k <=? length l)%nat then nth_error l (length l - k) else None).
Proof. intros A l. split; [apply nth_signed_nonneg | apply nth_signed_negative]. Qed.

(* listing by block: the ascending interval of sequence numbers between the entries of
   HEIGHT_TO_LAST_SEQUENCE_NUMBER for h-1 and h *)
Theorem C18_block_listing_partial : forall t h newest, assoc_N h (t_heights t) = Some newest ->
  let oldest := match assoc_N (h - 1) (t_heights t) with Some x => x | None => 0 end in
  (forall x, In x (in_block t h) <-> oldest <= x < newest) /\
  (forall j, (j < N.to_nat (newest - oldest))%nat -> nth_error (in_block t h) j = Some (oldest + N.of_nat j)).
Proof. exact in_block_spec. Qed.

(* views are consistent, given the table invariants of C07 / C04 (checked on every generated state by
   the harness): c is on some children page of p iff p is on some parents page of c; the output view
   lists, in creation order, exactly the inscriptions whose satpoint is in that output *)
Theorem C18_views_consistent_partial : forall t,
  (parents_consistent t -> forall p c,
     (exists i, In c (page_items (children_of t p) PAGE i)) <->
     (exists e, entry_of t c = Some e /\ exists j, In p (page_items (e_parents e) PAGE j))) /\
  (outputs_consistent t -> forall o x v, op_of t o = Some x -> o_kind x = 0 -> o_value x = Some v ->
     exists ins, output_json t o = ROutput (Some ins) v /\ ascending ins /\
       forall s, In s ins <-> exists e, entry_of t s = Some e /\ e_op e = o).
Proof.
  intro t. split.
  - intros H p c. apply children_parents_inverse. assumption.
  - intros H o x v. apply output_view_exact. assumption.
Qed.

(* ... and those two table invariants hold for the tables read off any state of the inscription indexer model
   (Index/Inscr.v, C03-C07): Inscr_c18.tables_of projects a model state onto [tables] the way the harness
   projects verif_dump() (inscriptions = sequence numbers, outpoints = indexes into the UTXO keys).
   parents_consistent: for every chain the model indexes (from C07_tables, no validity assumption);
   outputs_consistent: for chains with pairwise distinct non-zero txids and coinbase-first blocks (from C04's census).
   So for model tables the view consistency holds without hypotheses (Inscr_c18.views_statement spelled out there).
   Still partial: that the real dump projected by the server harness equals tables_of of the model state is tied
   by the two correspondence runs (C03-C07: model state = dump; C18: handlers = functions of the projected dump),
   not by a theorem. *)
Theorem C18_model_tables_consistent_partial : forall cfg c st,
  Inscr.index_chain cfg 0 c Inscr.empty_state = Ok st ->
  parents_consistent (Inscr_c18.tables_of cfg st) /\
  (Inscr_c04.chain_ok c -> outputs_consistent (Inscr_c18.tables_of cfg st)).
Proof.
  intros cfg c st H. split.
  - eapply Inscr_c18.model_parents_consistent; eauto.
  - intro OK. eapply Inscr_c18.model_outputs_consistent; eauto.
Qed.

Theorem C18_model_views_consistent_partial : Inscr_c18.views_statement.
Proof. exact Inscr_c18.model_views_consistent. Qed.

(* the inscription view reports the stored entry; Lost is added exactly for the null outpoint, value is
   the value of the output the satpoint names (none for unbound / lost), previous / next are the
   neighbouring sequence numbers, at most four children and parents are shown *)
Theorem C18_inscription_view_partial : forall t s e v, entry_of t s = Some e ->
  (op_kind t (e_op e) = 0 /\ output_value t (e_op e) = Some v \/
   (op_kind t (e_op e) = 1 \/ op_kind t (e_op e) = 2) /\ v = None) ->
  exists charms next prev,
    inscription_json t (Some s) =
      RInscription e charms (len (children_of t s)) (firstN 4 (children_of t s)) next (firstN 4 (e_parents e)) prev v /\
    charms = N.land (if op_kind t (e_op e) =? 2 then N.lor (e_charms e) LOST_FLAG else e_charms e) CHARM_MASK /\
    prev = (if s =? 0 then None else Some (s - 1)) /\
    next = match entry_of t (s + 1) with Some n => Some (e_seq n) | None => None end.
Proof. exact inscription_view. Qed.

(* /outputs/<address>?type=: every output of the address is in at least one class; `inscribed` / `runic` are
   exactly the outputs holding inscriptions / rune balances (an output holding both is in both, see the
   example), `cardinal` those holding neither, no type / `any` all of them; every listed output is reported
   with exactly the inscriptions of its UTXO entry and the rune balances the index stores for it *)
Theorem C18_output_classes_partial : forall (t : tables) (h : holdings) (a : N),
  (forall o, orb (in_class t h TCardinal o) (orb (in_class t h TInscribed o) (in_class t h TRunic o)) = true) /\
  (forall ty o, In o (class_list t h a ty) <-> In o (address_ops h a) /\ in_class t h ty o = true) /\
  class_list t h a TAny = address_ops h a /\
  (forall o, in_class t h TInscribed o = true <-> exists x, op_of t o = Some x /\ inscriptions_on_output x <> []) /\
  (forall o, in_class t h TRunic o = true <-> rune_balances h o <> []) /\
  (forall o, in_class t h TCardinal o = true <-> in_class t h TInscribed o = false /\ in_class t h TRunic o = false) /\
  (forall ty vs, h_index h = true -> outputs_address t h a (Some ty) = ROutputs vs ->
     map fst vs = class_list t h a ty /\
     forall o ins v rs, In (o, (ins, (v, rs))) vs ->
       output_json t o = ROutput ins v /\ rs = Some (rune_balances h o)).
Proof.
  intros t h a.
  split; [intro o; apply classes_cover|].
  split; [intros ty o; apply class_list_spec|].
  split; [apply class_list_any|].
  split; [intro o; apply holds_inscriptions_spec|].
  split; [intro o; apply holds_runes_spec|].
  split.
  - intro o. split; [apply cardinal_exclusive|].
    intros [H1 H2]. cbn [in_class] in *. rewrite H1, H2. reflexivity.
  - intros ty vs Hi H. eapply outputs_address_spec; eauto.
Qed.

(* an output holding an inscription and runes is listed under both `inscribed` and `runic`, not under `cardinal` *)
Example C18_output_in_two_classes :
  let t := mkT false [] [] [] [] [mkO 0 (Some 10) (Some (10, [(7, 0)]))] [] in
  let h := mkH true [[0]] [(0, [(0, 600)])] in
  class_list t h 0 TInscribed = [0] /\ class_list t h 0 TRunic = [0] /\ class_list t h 0 TCardinal = [] /\
  outputs_address t h 0 (Some TInscribed) = ROutputs [(0, (Some [7], (10, Some [(0, 600)])))].
Proof. vm_compute. repeat split. Qed.

(* Non-vacuity: 250 children, pages of 100: [0..99] more, [100..199] more, [200..249] no more, then empty;
   -1 is the newest *)
Example C18_nonvacuous :
  let l := range_from 0 250 in
  page l 100 1 = (range_from 100 100, true) /\ page l 100 2 = (range_from 200 50, false) /\
  page l 100 3 = ([], false) /\ page_impl l 100 U64_MAX = ([], false) /\
  nth_signed l (-1) = Some 249 /\ nth_signed l (-250) = Some 0 /\ nth_signed l (-251) = None.
Proof. vm_compute. repeat split. Qed.

Print Assumptions C18_pages_partial.
Print Assumptions C18_paging_implemented_partial.
Print Assumptions C18_views_consistent_partial.
Print Assumptions C18_model_tables_consistent_partial.
Print Assumptions C18_model_views_consistent_partial.
