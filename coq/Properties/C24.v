(* C24 — Accepting an offer only signs the advertised trade.
   Model: Wallet/Offer.v (Accept::run of src/subcommand/wallet/offer/accept.rs).
   Only statements, closed by [exact]/short glue, a non-vacuity Example, Print Assumptions. *)
From OrdV Require Import Base.Prelude Wallet.Offer Proofs.Offer_proofs.

(* The wallet signs and broadcasts (verdict [Signed], only possible without --dry-run)
   exactly when every advertised clause holds:
     PreClauses : exactly one input spends a wallet output; that output holds exactly the
                  named inscription and no runes (no runes as far as the ord server can tell:
                  [o_runes = None] is a server without rune index); the node-simulated balance
                  change equals the named amount; the seller input is unsigned and every other
                  input already carries a script_sig or a witness (not both);
     PostClauses: the finalized transaction has as many inputs, the seller input is now signed,
                  and every other input's signature data is identical to what was presented. *)
Theorem C24_signs_iff_advertised : forall ins amount want bc post,
  accept ins amount want bc false post = Signed <->
  exists i, PreClauses ins amount want bc i /\ PostClauses ins post i.
Proof. exact accept_signed_iff. Qed.

(* Decision-table completeness: any violated clause gives a rejection (never a silent pass). *)
Theorem C24_violation_rejected : forall ins amount want bc post,
  ~ (exists i, PreClauses ins amount want bc i /\ PostClauses ins post i) ->
  exists r, accept ins amount want bc false post = Reject r.
Proof. exact accept_reject_complete. Qed.

(* The node is asked to sign (prechecks pass) exactly when the pre-signing clauses hold;
   --dry-run reports success under exactly the same clauses and never signs. *)
Theorem C24_sign_request_iff : forall ins amount want bc i,
  prechecks ins amount want bc = inr i <-> PreClauses ins amount want bc i.
Proof. exact prechecks_ok_iff. Qed.

Theorem C24_dry_run : forall ins amount want bc post,
  (accept ins amount want bc true post = DryOk <-> exists i, PreClauses ins amount want bc i) /\
  accept ins amount want bc true post <> Signed.
Proof.
  intros. split; [exact (accept_dry_iff ins amount want bc post)|exact (accept_dry_never_signs ins amount want bc post)].
Qed.

(* Non-vacuity: a well-formed offer (buyer input signed, seller input holding inscription 7)
   is signed; the same offer is rejected when the seller output also holds a rune, when the
   amount differs, or when a buyer signature changes. *)
Example C24_nonvacuous :
  let seller r := {| owned := Some {| o_runes := Some r; o_insc := Some [7] |}; pre := SNone |} in
  let buyer := {| owned := None; pre := SWitness 1 |} in
  accept [buyer; seller []] 100 7 100 false [SWitness 1; SWitness 2] = Signed /\
  accept [buyer; seller [5]] 100 7 100 false [SWitness 1; SWitness 2] = Reject HasRunes /\
  accept [buyer; seller []] 100 7 99 false [SWitness 1; SWitness 2] = Reject BalanceChange /\
  accept [buyer; seller []] 100 7 100 false [SWitness 3; SWitness 2] = Reject Changed /\
  accept [buyer; seller []; seller []] 100 7 100 false [] = Reject MultipleOwned.
Proof. vm_compute. repeat split. Qed.

Print Assumptions C24_signs_iff_advertised.
Print Assumptions C24_violation_rejected.
Print Assumptions C24_sign_request_iff.
Print Assumptions C24_dry_run.
