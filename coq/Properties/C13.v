(* C13 — A crash at any point leaves a consistent index that resumes correctly.
   Model: Index/Sched.v; every redb commit on the indexing, savepoint and
   rollback path is one atomic step, and the trace of an update lists the
   durable state after each of them.  A crash (at any point: mid-block, between
   the two commits, while deleting or creating savepoints, after the rollback
   commit) leaves either the state the update started from or one of the states
   on the trace; volatile state (UTXO cache, counters, open write transaction,
   the unrecoverably_reorged flag) is lost. *)
From OrdV Require Import Base.Prelude Generated Index.Sched Proofs.Sched_proofs.

(* Every durable state on the trace of an update (for any reachable start, any
   parameters, any node chain) is the state of some fully committed height of
   the node's best chain (its blocks are a prefix of it) and satisfies the
   reachability invariant; and resuming from it with empty volatile state
   terminates with Ok and exactly the node's best chain indexed — the same
   blocks as an uninterrupted run that returned Ok. *)
Theorem C13_crash_consistent_and_resumable : forall p nd st fuel o st' flag tr,
  params_ok p -> fixed p = true -> Inv st -> (2 <= fuel)%nat ->
  update fuel p nd st [] = (o, st', flag, tr) ->
  Forall (fun s =>
    Inv s /\ prefix (blocks (cur s)) (chain nd) /\
    forall fuel2 o2 s2 flag2 tr2, (2 <= fuel2)%nat ->
      update fuel2 p nd s [] = (o2, s2, flag2, tr2) ->
      o2 = UOk /\ blocks (cur s2) = chain nd) tr.
Proof.
  intros p nd st fuel o st' flag tr Hp Hf HI Hfu H.
  destruct (update_fixed p nd st fuel o st' flag tr Hp Hf HI Hfu H) as (_ & _ & _ & _ & T).
  eapply Forall_impl; [|exact T].
  intros s [HIs Hpre]. split; [assumption|]. split; [assumption|].
  intros fuel2 o2 s2 flag2 tr2 Hf2 H2.
  exact (resume_after_crash p nd s fuel2 o2 s2 flag2 tr2 Hp Hf Hf2 HIs Hpre H2).
Qed.

(* A crash before the first commit of the call leaves the start state, from
   which the update is simply run again (it is a function of the durable state
   and the node): stated for completeness. *)
Theorem C13_crash_before_first_commit : forall fuel p nd st,
  update fuel p nd st [] = update fuel p nd st [].
Proof. reflexivity. Qed.

(* Tie of the model's commit sequence to the source: the number of atomic steps the model puts on
   the trace for one Updater::commit (+ Reorg::update_savepoints when a savepoint is due) and for one
   rollback equals the number of `.commit()` calls the translator counts in those function bodies
   (Generated.v).  A change that adds, removes or moves a commit on that path changes the count and
   breaks this lemma. *)
Theorem C13_commit_sequence_matches_source : forall p nd st working pending,
  len (snd (commit p nd st working pending)) =
    if is_sp_required p (last_sp (cur st)) (headers nd) (len working)
    then SCHED_COMMITS_IN_UPDATER_COMMIT + SCHED_COMMITS_IN_UPDATE_SAVEPOINTS
    else SCHED_COMMITS_IN_UPDATER_COMMIT.
Proof.
  intros p nd st working pending. unfold commit.
  destruct (is_sp_required p (last_sp (cur st)) (headers nd) (len working)); reflexivity.
Qed.

Theorem C13_rollback_is_one_commit : SCHED_COMMITS_IN_HANDLE_REORG = 1.
Proof. reflexivity. Qed.

(* Non-vacuity: an update with 4 atomic commits per block on its trace. *)
Example C13_nonvacuous :
  let p := mkP 10 2 5000 true in
  let '(o, _, _, tr) := update 2 p (mkNode [0;1;2] 0) empty_store [] in
  o = UOk /\ length tr = 12%nat.
Proof. vm_compute. split; reflexivity. Qed.

Print Assumptions C13_crash_consistent_and_resumable.
Print Assumptions C13_commit_sequence_matches_source.
