(* C11 — Only valid etchings create runes; names, ids and numbers are unique.
   Model: Index/Runes.v (RuneUpdater::{etched, tx_commits_to_rune, create_rune_entry}, the height gate
   of Updater::index_block, Rune::{reserved, minimum_at_height, commitment}).
   [commits h c i]: input i reveals a tapscript push of c and spends a p2tr output with
   h - height(spent) + 1 >= COMMIT_CONFIRMATIONS (the node's answers are fields of the input). *)
From OrdV Require Import Base.Prelude Generated Index.Runes Proofs.Runes_proofs Proofs.Runes_alloc
  Proofs.Runes_supply Proofs.Runes_etch.

(* Before the first rune height a block changes nothing. *)
Theorem C11_nothing_before_activation : forall first height st b,
  height < first -> index_block first height st b = Ok st.
Proof. exact index_block_before_activation. Qed.

(* RuneUpdater::etched, both directions.  No etching in the artifact (in particular an unnamed
   etching in a cenotaph: Cenotaph.etching = None) creates nothing; a named etching succeeds iff
   name >= minimum, not reserved, not taken, and the commitment search succeeds; an unnamed etching
   in a runestone always yields the reserved name of (height, tx index); the id is (height, tx index). *)
Theorem C11_etched : forall height txi minimum st tx art st' et,
  etched height txi minimum st tx art = Ok (st', et) ->
  match art_etching_rune art with
  | None => st' = st /\ et = None
  | Some (Some rune) =>
    st' = st /\
    ((et = None /\
      (rune < minimum \/ RU_RESERVED <= rune \/ alookup N.eqb rune (s_rune_to_id st) <> None \/
       tx_commits height (commitment rune) (tx_ins tx) = Ok false)) \/
     (et = Some ((height, txi), rune) /\ minimum <= rune /\ rune < RU_RESERVED /\
      alookup N.eqb rune (s_rune_to_id st) = None /\
      tx_commits height (commitment rune) (tx_ins tx) = Ok true))
  | Some None =>
    st' = set_reserved st (s_reserved st + 1) /\
    exists res, reserved_name height txi = Ok res /\ et = Some ((height, txi), res)
  end.
Proof. exact etched_spec. Qed.

(* the commitment search: true iff some input reveals the commitment while spending a taproot
   output with at least COMMIT_CONFIRMATIONS (= 6) confirmations *)
Theorem C11_commitment : forall height c ins,
  (tx_commits height c ins = Ok true -> exists i, In i ins /\ commits height c i) /\
  (tx_commits height c ins = Ok false -> forall i, In i ins -> ~ commits height c i).
Proof. intros. split; [apply tx_commits_true|apply tx_commits_false]. Qed.

(* A rune entry appears only at id (height, tx index) of a transaction whose artifact has an etching
   that satisfies the conditions ([etch_ok]); the entry, the name table and the counter are then
   extended together, the entry getting number = old counter. *)
Theorem C11_entry_only_by_valid_etching : forall height time minimum txi u tx u' r,
  index_runes height time minimum txi u tx = Ok u' ->
  has_entry r (s_entries (u_st u')) -> ~ has_entry r (s_entries (u_st u)) ->
  r = (height, txi) /\
  exists art rune, tx_art tx = Some art /\
    etch_ok height txi minimum (s_rune_to_id (u_st u)) tx art rune /\
    (exists es1, s_entries (u_st u') =
       aupd id_eqb (height, txi) (new_entry art (tx_id tx) (height, txi) rune (s_runes (u_st u)) time) es1) /\
    s_rune_to_id (u_st u') = aupd N.eqb rune (height, txi) (s_rune_to_id (u_st u)) /\
    s_runes (u_st u') = s_runes (u_st u) + 1.
Proof. exact index_runes_new_entries. Qed.

(* Chain level: in every state after every block of every chain (blocks of at most 2^32
   transactions) indexed from the empty index:
   - RUNE_TO_RUNE_ID and the entries' names are inverse bijections (names <-> ids one-to-one);
   - every id is (etching height, tx index) of an earlier position, e_block = ... is by new_entry;
   - numbers are below the counter, the counter is the number of entries, and numbers increase
     strictly with the id, i.e. they are 0..k-1 in etching order;
   - reserved-range names are exactly the reserved name of their own id. *)
Theorem C11_names_ids_numbers : forall first height bs sts,
  index_chain first height empty_state bs = Ok sts ->
  Forall (fun b => N.of_nat (length (b_txs b)) <= 4294967296) bs ->
  Forall (fun st =>
    (forall rune r, alookup N.eqb rune (s_rune_to_id st) = Some r <->
                    exists e, alookup id_eqb r (s_entries st) = Some e /\ e_rune e = rune) /\
    s_runes st = N.of_nat (length (s_entries st)) /\
    (forall r e, alookup id_eqb r (s_entries st) = Some e -> e_number e < s_runes st) /\
    (forall r1 r2 e1 e2, alookup id_eqb r1 (s_entries st) = Some e1 ->
       alookup id_eqb r2 (s_entries st) = Some e2 -> id_ltb r1 r2 = true -> e_number e1 < e_number e2) /\
    (forall r e, alookup id_eqb r (s_entries st) = Some e -> RU_RESERVED <= e_rune e ->
       e_rune e = RU_RESERVED + (fst r * 4294967296 + snd r))) sts.
Proof.
  intros first height bs sts Q Hb.
  apply index_chain_etchinv in Q; [|exact Hb|apply etchinv_empty].
  eapply Forall_impl; [|exact Q]. intros st [h [I1 I2 I3 I4 I5 I6]]. auto 6.
Qed.

(* Non-vacuity: at height 1 tx 0 etches name 10 with a valid commitment of depth 6 (minimum 5):
   entry (1,0) number 0; tx 1 tries the same name: nothing; tx 2 etches unnamed: reserved name,
   number 1. *)
Example C11_nonvacuous :
  let named r := Runestone [] (Some (mkEtching None None (Some r) None None None false)) None None in
  let unnamed := Runestone [] (Some (mkEtching None None None None None None false)) None None in
  let i := mkIn 7 0 true 0 [[10]] in
  let tx0 := mkTx 100 [i] [false] (Some (named 10)) in
  let tx1 := mkTx 101 [mkIn 7 1 true 0 [[10]]] [false] (Some (named 10)) in
  let tx2 := mkTx 102 [] [false] (Some unnamed) in
  exists u, index_txs 5 0 5 0 (mkUpd empty_state []) [tx0; tx1; tx2] = Ok u /\
    map fst (s_entries (u_st u)) = [(5, 0); (5, 2)] /\
    map (fun x => e_number (snd x)) (s_entries (u_st u)) = [0; 1] /\
    s_rune_to_id (u_st u) = [(10, (5, 0)); (RU_RESERVED + (5 * 4294967296 + 2), (5, 2))] /\
    s_runes (u_st u) = 2 /\ s_reserved (u_st u) = 1.
Proof. vm_compute. eexists. repeat split. Qed.

Print Assumptions C11_nothing_before_activation.
Print Assumptions C11_etched.
Print Assumptions C11_commitment.
Print Assumptions C11_entry_only_by_valid_etching.
Print Assumptions C11_names_ids_numbers.
