(* C27 — Inscription envelopes round-trip and envelope parsing is total.
   Only statements, closed by [exact], with Print Assumptions. *)
From OrdV Require Import Base.Prelude Generated Codec.EnvScript Codec.Envelope Proofs.Envelope_proofs.

(* Parsing any transaction's witnesses never panics (and has no error path): for every list
   of witnesses — arbitrary byte strings — with at most 2^32 inputs and leaf scripts of at
   most 2^32 bytes, from_transaction returns a list of envelopes.  (Beyond those sizes the
   code's `try_into().unwrap()` to u32 does panic; [number_envs_panics] shows the model keeps
   that behaviour, so the bound is part of the statement, not an artefact.) *)
Theorem C27_parse_total : forall ws : list (list bytes),
  lenN ws <= U32_MAX + 1 ->
  Forall (fun w => forall s, tapscript w = Some s -> lenN s <= U32_MAX + 1) ws ->
  exists envs, from_transaction ws = Ok envs.
Proof. exact parse_total. Qed.

(* pointer(pointer_value p) = Some p for every u64, and the encoding is compact *)
Theorem C27_pointer_roundtrip : forall p, p <= U64_MAX ->
  pointer_of (pointer_value p) = Some p /\
  (length (pointer_value p) <= 8)%nat /\ Forall (fun b => b < 256) (pointer_value p) /\
  (pointer_value p <> [] -> last (pointer_value p) 1 <> 0).
Proof. intros p H. split; [exact (pointer_roundtrip p H)|exact (pointer_value_compact p H)]. Qed.

(* pointer() of arbitrary bytes: None exactly when a byte beyond the 8th is non-zero, otherwise
   the little-endian value of the first 8 bytes (a u64) *)
Theorem C27_pointer_decode : forall v, Forall (fun b => b < 256) v ->
  match pointer_of v with
  | None => exists b, In b (skipn 8 v) /\ b <> 0
  | Some p => Forall (fun b => b = 0) (skipn 8 v) /\ p = le_value (firstn 8 v) /\ p <= U64_MAX
  end.
Proof. exact pointer_of_spec. Qed.

(* from_value (value id) = Some id, the 4-byte-index form is accepted too, and nothing else is *)
Theorem C27_id_roundtrip : forall txid index, length txid = TXID_LEN -> index <= U32_MAX ->
  id_from_value (id_value txid index) = Some (txid, index) /\
  id_from_value (txid ++ le4 index) = Some (txid, index).
Proof. intros t i Ht Hi. split; [exact (id_roundtrip t i Ht Hi)|exact (id_fixed_accepted t i Ht Hi)]. Qed.

Theorem C27_id_accepts_exactly : forall v txid index, Forall (fun b => b < 256) v ->
  id_from_value v = Some (txid, index) ->
  length txid = TXID_LEN /\ index <= U32_MAX /\ (v = id_value txid index \/ v = txid ++ le4 index).
Proof. exact id_from_value_forms. Qed.

Print Assumptions C27_parse_total.
Print Assumptions C27_pointer_roundtrip.
Print Assumptions C27_pointer_decode.
Print Assumptions C27_id_roundtrip.
Print Assumptions C27_id_accepts_exactly.
