(* C27 — Inscription envelopes round-trip and envelope parsing is total.
   Only statements, closed by [exact], with Print Assumptions. *)
From OrdV Require Import Base.Prelude Generated Codec.EnvScript Codec.Envelope Proofs.Envelope_proofs
  Proofs.Envelope_build_proofs Proofs.Envelope_roundtrip_proofs.

(* Parsing any transaction's witnesses never panics (and has no error path): for every list
   of witnesses — arbitrary byte strings — with at most 2^32 inputs and leaf scripts of at
   most 2^32 bytes, from_transaction returns a list of envelopes.  (Beyond those sizes the
   code's `try_into().unwrap()` to u32 does panic; [number_envs_panics] shows the model keeps
   that behaviour, so the bound is part of the statement, not an artefact.) *)
Theorem C27_parse_total : forall ws : list (list bytes),
  lenN ws <= U32_MAX + 1 ->
  Forall (fun w => forall s, tapscript w = Some s -> lenN s <= U32_MAX + 1) ws ->
  exists envs, from_transaction ws = Ok envs.
Proof. exact parse_total. Qed.

(* pointer(pointer_value p) = Some p for every u64, and the encoding is compact *)
Theorem C27_pointer_roundtrip : forall p, p <= U64_MAX ->
  pointer_of (pointer_value p) = Some p /\
  (length (pointer_value p) <= 8)%nat /\ Forall (fun b => b < 256) (pointer_value p) /\
  (pointer_value p <> [] -> last (pointer_value p) 1 <> 0).
Proof. intros p H. split; [exact (pointer_roundtrip p H)|exact (pointer_value_compact p H)]. Qed.

(* pointer() of arbitrary bytes: None exactly when a byte beyond the 8th is non-zero, otherwise
   the little-endian value of the first 8 bytes (a u64) *)
Theorem C27_pointer_decode : forall v, Forall (fun b => b < 256) v ->
  match pointer_of v with
  | None => exists b, In b (skipn 8 v) /\ b <> 0
  | Some p => Forall (fun b => b = 0) (skipn 8 v) /\ p = le_value (firstn 8 v) /\ p <= U64_MAX
  end.
Proof. exact pointer_of_spec. Qed.

(* from_value (value id) = Some id, the 4-byte-index form is accepted too, and nothing else is *)
Theorem C27_id_roundtrip : forall txid index, length txid = TXID_LEN -> index <= U32_MAX ->
  id_from_value (id_value txid index) = Some (txid, index) /\
  id_from_value (txid ++ le4 index) = Some (txid, index).
Proof. intros t i Ht Hi. split; [exact (id_roundtrip t i Ht Hi)|exact (id_fixed_accepted t i Ht Hi)]. Qed.

Theorem C27_id_accepts_exactly : forall v txid index, Forall (fun b => b < 256) v ->
  id_from_value v = Some (txid, index) ->
  length txid = TXID_LEN /\ index <= U32_MAX /\ (v = id_value txid index \/ v = txid ++ le4 index).
Proof. exact id_from_value_forms. Qed.

(* ---- builder -> parser round trip -------------------------------------------------------

   [parsed_of i] (Proofs/Envelope_roundtrip_proofs.v) is inscription [i] as the parser returns it:
   every content field unchanged, except that a chunked field (metadata, properties) holding the
   empty string is written as zero chunks and comes back absent ([norm]); the flags are the
   ones the code computes: incomplete_field = unrecognized_even_field = false, and
   duplicate_field = [dup_of i] — set when there is more than one parent or when metadata /
   properties span more than one 520-byte chunk (chunked fields repeat their tag, and the
   parser's duplicate test looks at every key).  [expect_envs input 0 is] numbers them
   0, 1, 2, … within the input, pushnum = stutter = false. *)

Theorem C27_parsed_fields : forall i,
  let p := parsed_of i in
  i_body p = i_body i /\ i_content_encoding p = i_content_encoding i /\
  i_content_type p = i_content_type i /\ i_delegate p = i_delegate i /\
  i_metaprotocol p = i_metaprotocol i /\ i_parents p = i_parents i /\ i_pointer p = i_pointer i /\
  i_property_encoding p = i_property_encoding i /\ i_rune p = i_rune i /\
  (i_metadata i <> Some [] -> i_metadata p = i_metadata i) /\
  (i_properties i <> Some [] -> i_properties p = i_properties i) /\
  i_incomplete_field p = false /\ i_unrecognized_even_field p = false /\
  i_duplicate_field p =
    orb (1 <? length (i_parents i))%nat
      (orb (match i_metadata i with Some v => (CHUNK <? length v)%nat | None => false end)
           (match i_properties i with Some v => (CHUNK <? length v)%nat | None => false end)).
Proof.
  intros i. cbn. repeat split.
  - intros H. destruct (i_metadata i) as [[|x v]|] eqn:E; try reflexivity. exfalso. apply H. reflexivity.
  - intros H. destruct (i_properties i) as [[|x v]|] eqn:E; try reflexivity. exfalso. apply H. reflexivity.
  - unfold dup_of. f_equal. f_equal.
    + destruct (i_metadata i); [apply chunks_many; apply chunk_pos|reflexivity].
    + destruct (i_properties i); [apply chunks_many; apply chunk_pos|reflexivity].
Qed.

(* One input: for every prefix script [pre] without an empty push (decoded as [pi]), every
   list of inscriptions, every witness whose tapscript position holds the built script. *)
Theorem C27_parse_build : forall input w pre pi is script,
  input <= U32_MAX -> lenN is <= U32_MAX + 1 ->
  decode_script pre = Some pi -> Forall (fun x => is_empty_push x = false) pi ->
  batch_reveal_script pre is = Ok script ->
  tapscript w = Some script ->
  input_envelopes input w = Ok (expect_envs input 0 is).
Proof. exact parse_build. Qed.

(* The builder succeeds on every inscription whose unchunked values are shorter than 2^32
   bytes (beyond that rust-bitcoin's push panics; body, metadata and properties of any length). *)
Theorem C27_build_ok : forall pre is, Forall buildable is -> exists script, batch_reveal_script pre is = Ok script.
Proof. exact batch_ok. Qed.

(* End to end, as the wallet does it: witness [script; control block] (optionally followed by
   an annex), single-input transaction. *)
Theorem C27_roundtrip : forall pre pi is cb,
  decode_script pre = Some pi -> Forall (fun x => is_empty_push x = false) pi ->
  Forall buildable is -> lenN is <= U32_MAX + 1 -> starts_with_annex cb = false ->
  exists script, batch_reveal_script pre is = Ok script /\
    from_transaction [[script; cb]] = Ok (expect_envs 0 0 is) /\
    (forall annex, starts_with_annex annex = true ->
       from_transaction [[script; cb; annex]] = Ok (expect_envs 0 0 is)) /\
    from_transaction [[script]] = Ok [].
Proof.
  intros pre pi is cb Hp Hpi Hb Hn Hcb. destruct (batch_ok pre is Hb) as [script Hs]. exists script.
  split; [exact Hs|]. split; [|split].
  - rewrite from_transaction_single.
    apply (parse_build 0 _ pre pi is script); try assumption; [discriminate|apply tapscript_two; exact Hcb].
  - intros annex Ha. rewrite from_transaction_single.
    apply (parse_build 0 _ pre pi is script); try assumption; [discriminate|apply tapscript_annex; exact Ha].
  - reflexivity.
Qed.

(* Non-vacuity: two inscriptions with a 521-byte metadata after `<key> OP_CHECKSIG`. *)
Example C27_nonvacuous :
  let i := mk_insc (Some [1; 2; 3]) None (Some [116]) None false false (Some (repeat 7 521)) None [[9]] (Some [5]) None None None false in
  let pre := 32 :: repeat 1 32 ++ [172] in
  exists script, batch_reveal_script pre [i; i] = Ok script /\
    from_transaction [[script; []]] = Ok (expect_envs 0 0 [i; i]) /\
    i_duplicate_field (parsed_of i) = true /\ i_metadata (parsed_of i) = i_metadata i.
Proof. vm_compute. eexists. repeat split. Qed.

Print Assumptions C27_parse_total.
Print Assumptions C27_pointer_roundtrip.
Print Assumptions C27_pointer_decode.
Print Assumptions C27_id_roundtrip.
Print Assumptions C27_id_accepts_exactly.
Print Assumptions C27_parsed_fields.
Print Assumptions C27_parse_build.
Print Assumptions C27_build_ok.
Print Assumptions C27_roundtrip.
