(* C04 — Inscriptions are never duplicated or dropped.
   Model: Index/Inscr.v.  held_u lists the sequence numbers of the (sequence number, offset) pairs of every
   UTXO entry, the two pseudo-outputs (null outpoint = lost, unbound outpoint) included.

   Validity of a chain (chain_ok): transaction ids pairwise distinct (BIP 30) and different from the
   all-zero txid; in every block the first transaction is a coinbase (its inputs are null outpoints) and no
   other transaction has a null input. *)
From OrdV Require Import Base.Prelude Generated Index.Inscr Proofs.Inscr_tables Proofs.Inscr_proofs Proofs.Inscr_c04 Proofs.Inscr_c04off.
From Coq Require Import Permutation Lia.

(* After every block of every valid chain, for every configuration (sat index on/off, any first inscription
   height): the sequence numbers held by all outputs and pseudo-outputs together are exactly 0..n-1, each
   exactly once (a permutation of that list), where n = number of inscription entries. *)
Theorem C04_census : forall cfg c st,
  chain_ok c -> index_chain cfg 0 c empty_state = Ok st ->
  let n := next_seq_of (s_entries st) in
  Permutation (held_u (s_utxo st)) (nlist n) /\
  (forall s, tget N.eqb s (s_entries st) <> None <-> s < n).
Proof. intros cfg c st OK H. exact (census_invariant cfg c st OK H). Qed.

(* consequences in the words of the property: no sequence number is held twice, every inscription is held,
   nothing is held that is not an inscription *)
Corollary C04_exactly_once : forall cfg c st,
  chain_ok c -> index_chain cfg 0 c empty_state = Ok st ->
  NoDup (held_u (s_utxo st)) /\
  (forall s, In s (held_u (s_utxo st)) <-> tget N.eqb s (s_entries st) <> None).
Proof.
  intros cfg c st OK H. destruct (census_invariant cfg c st OK H) as [P D]. split.
  - eapply Permutation_NoDup; [apply Permutation_sym, P | apply nlist_NoDup].
  - intro s. rewrite (D s), <- nlist_In. split; intro Hs.
    + eapply Permutation_in; [exact P | exact Hs].
    + eapply Permutation_in; [apply Permutation_sym; exact P | exact Hs].
Qed.

(* the satpoint table written at commit is derived from the entries, so each inscription has exactly one row *)
Corollary C04_satpoints : forall cfg c st,
  chain_ok c -> index_chain cfg 0 c empty_state = Ok st ->
  Permutation (map fst (satpoints (s_utxo st))) (nlist (next_seq_of (s_entries st))).
Proof.
  intros cfg c st OK H. destruct (census_invariant cfg c st OK H) as [P _].
  assert (Q : map fst (satpoints (s_utxo st)) = held_u (s_utxo st)).
  { unfold satpoints, held_u, seqs_of. generalize (s_utxo st). intro U. induction U as [|kv r IH]; auto.
    cbn [map concat]. rewrite map_app, IH, map_map. reflexivity. }
  rewrite Q. exact P.
Qed.

(* Every (sequence number, offset) pair stored with a real output (txid not all-zero) has an offset below the
   output's value (ParsedUtxoEntry::total_value: the stored value, or the total size of its sat ranges when
   the sat index is on).  No validity assumption is needed for this one. *)
Theorem C04_offsets : forall cfg c st,
  index_chain cfg 0 c empty_state = Ok st ->
  forall op u, In (op, u) (s_utxo st) -> fst op <> 0 ->
    Forall (fun so => snd so < total_value cfg u) (u_insc u).
Proof.
  intros cfg c st H. apply (offsets_invariant cfg c 0 empty_state st); auto. intros op u [].
Qed.

(* The number of inscriptions is the number of envelopes of the non-coinbase transactions (tl of each
   block) in blocks at or after the first inscription height - provided the parser's envelopes come in input
   order and name existing inputs (envelopes_ok; what RawEnvelope::from_transaction does, re-checked by the
   oracle on every transaction). *)
Theorem C04_count : forall cfg c st,
  chain_ok c -> envelopes_ok c -> index_chain cfg 0 c empty_state = Ok st ->
  next_seq_of (s_entries st) = count_chain cfg 0 c.
Proof. exact count_invariant. Qed.

(* count_chain spelled out on an example: 2 envelopes in the only non-coinbase transaction *)
Example C04_count_example : count_chain (cfg_of 0 false) 0
  [ [mkTx 1 [null_op] [] []]; [mkTx 3 [null_op] [] []; mkTx 4 [(1, 0)] []
      [mkEnv 0 0 false false false false false false None false []; mkEnv 0 1 false false false false false false None false []]] ] = 2.
Proof. reflexivity. Qed.

(* Non-vacuity: the chain of C05's example is valid and ends with two inscriptions in one output *)
Definition c04_env (off : N) : envelope := mkEnv 0 off false false false false false false None false [].
Definition c04_chain : list block :=
  [ [mkTx 1 [null_op] [mkOut 5000000000 false] []];
    [mkTx 2 [null_op] [mkOut 5000000000 false] []];
    [mkTx 3 [null_op] [mkOut 5000000000 false] [];
     mkTx 4 [(2, 0)] [mkOut 5000000000 false] [c04_env 0; c04_env 1]] ].

Example C04_nonvacuous :
  chain_ok c04_chain /\
  exists st, index_chain (cfg_of 0 false) 0 c04_chain empty_state = Ok st /\ held_u (s_utxo st) = [0; 1].
Proof.
  split.
  - split; [|split].
    + repeat constructor; cbn; intuition discriminate.
    + cbn. intuition discriminate.
    + repeat constructor; cbn; try discriminate; auto.
  - eexists. split; [vm_compute; reflexivity|]. reflexivity.
Qed.

Example C04_count_nonvacuous : envelopes_ok c04_chain /\ count_chain (cfg_of 0 false) 0 c04_chain = 2.
Proof.
  split; [|reflexivity]. unfold envelopes_ok, c04_chain. repeat constructor; cbn; unfold le_input; cbn; lia.
Qed.

Print Assumptions C04_census.
Print Assumptions C04_exactly_once.
Print Assumptions C04_satpoints.
Print Assumptions C04_count.
Print Assumptions C04_offsets.
