(* C29 — sat numbering matches block heights and derived attributes. *)
From OrdV Require Import Base.Prelude Generated Ord.Sat Proofs.Sat_proofs.

Theorem C29_table_is_cumulative_subsidy : STARTING_SATS = cumulative 34 0 0.
Proof. exact starting_sats_cumulative. Qed.

Print Assumptions C29_table_is_cumulative_subsidy.
