(* C29 — Sat numbering matches block heights and derived attributes.
   "Sat numbers below the supply correspond one-to-one to (block height, offset below that
   block's subsidy), numbered consecutively in mining order from zero; the epoch, cycle,
   period, degree, decimal form, rarity and charms ord reports for a sat are those implied by
   its height and offset, and the rarity supply table equals the actual counts."

   Only statements, closed by [exact] / a few lines of glue.  Heights and sats are N; the
   statements hold for all of them (u32 / u64 bounds are not needed). *)
From OrdV Require Import Base.Prelude Generated Ord.Sat Proofs.Sat_proofs Proofs.Sat_count Proofs.Sat_palindrome Proofs.Sat_charms.

(* The epoch table of the code is the cumulative subsidy: entry e = sum of 210000 * (50 coins >> i), i < e. *)
Theorem C29_table_is_cumulative_subsidy : STARTING_SATS = cumulative 34 0 0.
Proof. exact starting_sats_cumulative. Qed.

(* Numbering is consecutive in mining order from zero: block 0 starts at sat 0, block h+1
   starts where block h ends, for every height (also beyond the last subsidy, where it stays
   at the supply); equivalently the first sat of block h is the sum of all earlier subsidies,
   the subsidy being 50 coins halved every 210000 blocks. *)
Theorem C29_consecutive_numbering :
  height_starting_sat 0 = 0 /\
  (forall h, height_starting_sat (h + 1) = height_starting_sat h + height_subsidy h) /\
  (forall h, height_subsidy h = N.shiftr 5000000000 (h / 210000)) /\
  (forall h, height_starting_sat h = sum_below subsidy h) /\
  (forall h, 0 < height_subsidy h <-> h < 6930000) /\
  height_starting_sat 6930000 = SAT_SUPPLY.
Proof.
  split; [exact height_starting_sat_0|]. split; [exact height_starting_sat_succ|].
  split; [exact height_subsidy_spec|]. split; [exact height_starting_sat_sum|].
  split; [exact height_subsidy_pos_iff|exact height_starting_sat_last].
Qed.

(* One-to-one correspondence.  (a) every sat below the supply is the o-th sat of the block
   Sat::height reports, o = Sat::third below that block's subsidy; (b) every pair (h, o) with
   o below the subsidy of h is a sat below the supply whose height/third are (h, o);
   (c) the correspondence is strictly increasing for the lexicographic order (mining order). *)
Theorem C29_sat_height_offset_bijection :
  (forall n, n < SAT_SUPPLY ->
     exists h o, sat_height n = Ok h /\ sat_third n = Ok o /\
       h < 6930000 /\ o < height_subsidy h /\ n = height_starting_sat h + o) /\
  (forall h o, o < height_subsidy h ->
     height_starting_sat h + o < SAT_SUPPLY /\
     sat_height (height_starting_sat h + o) = Ok h /\ sat_third (height_starting_sat h + o) = Ok o) /\
  (forall h o h' o', o < height_subsidy h -> o' < height_subsidy h' ->
     (h < h' \/ (h = h' /\ o < o')) -> height_starting_sat h + o < height_starting_sat h' + o').
Proof.
  split; [|split].
  - intros n Hn. destruct (sat_decompose n Hn) as (h & o & A & B & C & D & E & _).
    exists h, o. repeat split; assumption.
  - exact sat_of_inverse.
  - exact sat_of_lex_mono.
Qed.

(* Outside the supply the code does not answer: Sat::height / Sat::third panic (division by the
   zero subsidy of epoch 33) — the property's domain is sats below the supply. *)
Theorem C29_beyond_supply_panics : forall n, SAT_SUPPLY <= n ->
  sat_height n = Panic 1 /\ sat_third n = Panic 4.
Proof. exact sat_height_beyond. Qed.

(* Derived attributes are the stated functions of (height, offset). *)
Theorem C29_attributes : forall n, n < SAT_SUPPLY ->
  exists h o, sat_height n = Ok h /\ sat_third n = Ok o /\
    epoch_of_sat n = h / 210000 /\
    sat_cycle n = h / 1260000 /\
    sat_period n = Ok (h / 2016) /\
    sat_epoch_position n = n - height_starting_sat (h / 210000 * 210000) /\
    sat_decimal n = Ok (h, o) /\
    sat_degree n = Ok (mkDegree (h / 1260000) (h mod 210000) (h mod 2016) o) /\
    sat_rarity n = Ok (rarity_spec h o).
Proof. exact sat_attributes_full. Qed.

(* rarity_spec spelled out: common unless first sat of its block; then mythic for block 0,
   legendary at cycle starts, epic at halvings, rare at difficulty adjustments, else uncommon *)
Theorem C29_rarity_classification : forall h o,
  rarity_spec h o =
  if negb (o =? 0) then R_COMMON
  else if h =? 0 then R_MYTHIC
  else if h mod 1260000 =? 0 then R_LEGENDARY
  else if h mod 210000 =? 0 then R_EPIC
  else if h mod 2016 =? 0 then R_RARE
  else R_UNCOMMON.
Proof. reflexivity. Qed.

(* The fast path of Sat::common agrees with the full classification. *)
Theorem C29_common_iff_rarity_common : forall n, n < SAT_SUPPLY ->
  (sat_common n = true <-> sat_rarity n = Ok R_COMMON).
Proof. exact sat_common_iff. Qed.

(* Charms derived from the sat: nineball = mined in block 9, coin = multiple of COIN_VALUE,
   exactly the charm of its rarity (none for common), palindrome = the decimal digits of the sat
   number (decimal_digits_le: n mod 10, n / 10 mod 10, ... until 0) read the same backwards;
   Sat::palindrome does not overflow below the supply. *)
Theorem C29_charms : forall n, n < SAT_SUPPLY ->
  exists h o p, sat_height n = Ok h /\ sat_third n = Ok o /\ sat_palindrome n = Ok p /\
    (p = true <-> decimal_digits_le n = rev (decimal_digits_le n)) /\
    sat_nineball n = (h =? 9) /\
    sat_coin n = (n mod 100000000 =? 0) /\
    sat_charms n = Ok (charms_spec (h =? 9) p (n mod 100000000 =? 0) (rarity_spec h o)).
Proof. exact sat_charms_spec. Qed.

(* The Rarity::supply table equals the number of sats of each rarity below the supply. *)
Theorem C29_rarity_supply_counts : forall r, r < 6 ->
  count_below (rarity_is r) SAT_SUPPLY = nth (N.to_nat r) RARITY_SUPPLY 0.
Proof. exact rarity_supply_counts. Qed.

(* Non-vacuity: the last sat is the last sat of the last subsidy block; the table really has
   the six rows 2099999990760000 / 6926535 / 3432 / 27 / 5 / 1. *)
Example C29_nonvacuous :
  sat_height (SAT_SUPPLY - 1) = Ok 6929999 /\ sat_third (SAT_SUPPLY - 1) = Ok 0 /\
  sat_rarity 0 = Ok R_MYTHIC /\ sat_common 1 = true /\
  RARITY_SUPPLY = [2099999990760000; 6926535; 3432; 27; 5; 1].
Proof. vm_compute. repeat split. Qed.

Print Assumptions C29_table_is_cumulative_subsidy.
Print Assumptions C29_consecutive_numbering.
Print Assumptions C29_sat_height_offset_bijection.
Print Assumptions C29_beyond_supply_panics.
Print Assumptions C29_attributes.
Print Assumptions C29_rarity_classification.
Print Assumptions C29_common_iff_rarity_common.
Print Assumptions C29_charms.
Print Assumptions C29_rarity_supply_counts.
