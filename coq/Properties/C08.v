(* C08 — Rune supply is conserved.
   Model: Index/Runes.v.  Sums: [msum r m] = amount of rune r in a balance map, [tsum r bt] = sum over
   the OUTPOINT_TO_RUNE_BALANCES table, [supply r es] = premine + mints * amount of r's entry (0 if
   none; a cenotaph etching creates an entry with premine 0 and no terms), [eburned] = entry.burned. *)
From OrdV Require Import Base.Prelude Index.Runes Proofs.Runes_proofs Proofs.Runes_alloc
  Proofs.Runes_supply Proofs.Runes_shape.

(* One transaction (any inputs, artifact, outputs): for every rune, what the balance table and the
   block's burned map gain is exactly what the entry's supply gains (mint amount, premine), given
   the position (height, tx index) has no entry yet and the txid is not a key of the table. *)
Theorem C08_tx_conserves : forall height time minimum txi u tx u' r,
  index_runes height time minimum txi u tx = Ok u' ->
  ~ has_entry (height, txi) (s_entries (u_st u)) ->
  (forall v, alookup op_eqb (tx_id tx, v) (s_balances (u_st u)) = None) ->
  tsum r (s_balances (u_st u')) + msum r (u_burned u') + supply r (s_entries (u_st u)) =
  tsum r (s_balances (u_st u)) + msum r (u_burned u) + supply r (s_entries (u_st u')).
Proof. intros. eapply index_runes_conserves; eassumption. Qed.

(* Chain level: for every chain of blocks with pairwise distinct txids indexed from the empty index
   (any first rune height, any start height), after every block and for every rune id:
   sum of balances over all outputs + burned = premine + mints * amount. *)
Theorem C08_supply_conserved : forall first height bs sts,
  index_chain first height empty_state bs = Ok sts -> NoDup (txids bs) ->
  Forall (fun st => forall r,
            tsum r (s_balances st) + eburned r (s_entries st) = supply r (s_entries st)) sts.
Proof. exact chain_conserved_from_empty. Qed.

(* the same from any conserved state whose entries are older than the start height *)
Theorem C08_supply_conserved_from : forall first bs height st sts,
  index_chain first height st bs = Ok sts ->
  NoDup (txids bs) -> fresh_txids (txids bs) (s_balances st) ->
  (forall r, has_entry r (s_entries st) -> fst r < height) -> Conserved st ->
  Forall Conserved sts.
Proof. exact chain_conserved. Qed.

(* No output holds a zero balance or an empty list, in every state of every chain. *)
Theorem C08_no_zero_balances : forall first height bs sts,
  index_chain first height empty_state bs = Ok sts ->
  Forall (fun st => forall k m, In (k, m) (s_balances st) ->
            m <> [] /\ forall r v, In (r, v) m -> 0 < v) sts.
Proof.
  intros first height bs sts Q. apply index_chain_tpos in Q; [|intros k m []].
  eapply Forall_impl; [|exact Q]. intros st H k m Hin. destruct (H k m Hin) as [P N]. split; [exact N|exact P].
Qed.

(* No output holds an unknown rune: in a conserved state with positive balances every id that
   occurs in a balance list has an entry. *)
Theorem C08_no_unknown_rune : forall st k m r v,
  Conserved st -> tpos (s_balances st) -> In (k, m) (s_balances st) -> In (r, v) m ->
  has_entry r (s_entries st).
Proof. exact conserved_known. Qed.

(* OP_RETURN outputs never hold runes: a transaction only adds balance keys (txid, vout) whose
   output is not OP_RETURN (and never changes other keys except removing its inputs). *)
Theorem C08_only_non_op_return_outputs_receive : forall height time minimum txi u tx u',
  index_runes height time minimum txi u tx = Ok u' -> tpos (s_balances (u_st u)) ->
  forall k, alookup op_eqb k (s_balances (u_st u')) <> None ->
    alookup op_eqb k (s_balances (u_st u)) <> None \/
    (fst k = tx_id tx /\ nth (N.to_nat (snd k)) (tx_outs tx) true = false).
Proof. intros. eapply index_runes_shape; eassumption. Qed.

(* Chain level: after every block, every key (txid, vout) of the balance table is output vout of an
   indexed transaction with that txid, and that output is not OP_RETURN ([keys_ok_chain] walks
   blocks and states together, [seen] = the transactions indexed so far). *)
Theorem C08_no_op_return_outpoint_holds_runes : forall first height bs sts,
  index_chain first height empty_state bs = Ok sts -> keys_ok_chain [] bs sts.
Proof.
  intros first height bs sts Q. eapply index_chain_keys; [exact Q|intros k m []|].
  intros k H. exfalso. apply H. reflexivity.
Qed.

(* Non-vacuity: block 1 etches an unnamed rune (premine 100, terms amount 7 cap 2) into output 0;
   block 2 mints once and sends 30 to an OP_RETURN output: 77 + 30 burned = 100 + 1 * 7. *)
Example C08_nonvacuous :
  let et := mkEtching None (Some 100) None None None (Some (mkTerms (Some 7) (Some 2) None None None None)) false in
  let tx0 := mkTx 1 [] [false] (Some (Runestone [] (Some et) None None)) in
  let tx1 := mkTx 2 [mkIn 1 0 false 0 []] [false; true]
               (Some (Runestone [mkEdict (1, 0) 30 1] None (Some (1, 0)) None)) in
  exists s0 s1, index_chain 0 1 empty_state [mkBlock 0 [tx0]; mkBlock 1 [tx1]] = Ok [s0; s1] /\
    tsum (1, 0) (s_balances s1) = 77 /\ eburned (1, 0) (s_entries s1) = 30 /\ supply (1, 0) (s_entries s1) = 107.
Proof. vm_compute. eexists; eexists; repeat split. Qed.

Print Assumptions C08_tx_conserves.
Print Assumptions C08_supply_conserved.
Print Assumptions C08_supply_conserved_from.
Print Assumptions C08_no_zero_balances.
Print Assumptions C08_no_unknown_rune.
Print Assumptions C08_only_non_op_return_outputs_receive.
Print Assumptions C08_no_op_return_outpoint_holds_runes.
