(* C17 — The address index lists exactly the unspent outputs of each script.
   Statements only; proofs in Proofs/Address_proofs.v.
   [a_run] is the address-index model (Index/Address.v: cache + table + multimap, one commit per
   block); [u_run] is the plain set of unspent outputs of the chain (spent inputs leave, outputs
   enter, an equal outpoint is replaced); [listed st s] are the outpoints the multimap lists under
   script s.  [outs_of] expresses that a txid determines the transaction's outputs (txids are
   hashes): every transaction t of the chain has outs t = outs_of (txid t).
   The null-outpoint pseudo entry (listed under the empty script when sats are indexed and some
   were lost) is not an output and is left out of the model and of the comparison. *)
From OrdV Require Import Base.Prelude Index.SatIndex Index.Address Proofs.SatIndex_proofs Proofs.Address_proofs.

(* After every block of every chain: the multimap lists o under s iff the table holds o with
   script s (no stale and no missing pair), and every table entry's value and script are those of
   output i of the transaction with that txid. *)
Theorem C17_multimap_matches_table : forall outs_of c st,
  chain_wf outs_of c -> a_run c = Ok st ->
  (forall s o, In o (listed st s) <-> exists v, aget op_eqb o (table st) = Some (v, s)) /\
  (forall t i e, aget op_eqb (t, i) (table st) = Some e -> nth_error (outs_of t) (N.to_nat i) = Some e).
Proof.
  intros outs_of c st F H. destruct (address_invariant outs_of c st F H) as [O M]. split.
  - intros s o. rewrite listed_In. apply M.
  - exact O.
Qed.

(* Known finding dup-spent-before-commit is the class [shadowed st = true]: some spent input was
   found in the cache while the table also held an entry for the same outpoint (needs a duplicate
   txid).  Outside that class the table is exactly the set of unspent outputs, hence: *)
Theorem C17_except : forall outs_of c st,
  chain_wf outs_of c -> a_run c = Ok st -> shadowed st = false ->
  forall s o, In o (listed st s) <-> exists v, aget op_eqb o (u_run c) = Some (v, s).
Proof.
  intros outs_of c st F H N s o.
  destruct (C17_multimap_matches_table outs_of c st F H) as [M _].
  rewrite M, (table_is_utxo_set c st H N o). reflexivity.
Qed.

(* ... and inside the class the statement fails: transaction 5 is mined twice (blocks 1 and 2), its
   second copy is spent in block 2 while the first copy's output is in the table; the table keeps
   5:0 and the multimap lists it under script 4 although it is spent. *)
Definition shadow_chain : list (list tx) :=
  [ [mkTx 1 [] [(5000000000, 3)]];
    [mkTx 2 [] [(5000000000, 6)]; mkTx 5 [(1, 0)] [(5000000000, 4)]];
    [mkTx 3 [] [(5000000000, 7)]; mkTx 5 [(2, 0)] [(5000000000, 4)]; mkTx 6 [(5, 0)] [(5000000000, 8)]] ].
Definition shadow_outs_of (t : N) : list (N * N) :=
  match t with
  | 1 => [(5000000000, 3)] | 2 => [(5000000000, 6)] | 3 => [(5000000000, 7)]
  | 5 => [(5000000000, 4)] | 6 => [(5000000000, 8)] | _ => []
  end.

Lemma C17_known_refuted :
  chain_wf shadow_outs_of shadow_chain /\
  exists st, a_run shadow_chain = Ok st /\ shadowed st = true /\
    In (5, 0) (listed st 4) /\ aget op_eqb (5, 0) (u_run shadow_chain) = None.
Proof.
  split; [repeat constructor|].
  destruct (a_run shadow_chain) as [st| |] eqn:E; [|vm_compute in E; discriminate|vm_compute in E; discriminate].
  exists st. split; [reflexivity|]. vm_compute in E. inversion E; subst. vm_compute. repeat split. left. reflexivity.
Qed.

(* The panic site "script pubkey entry ... not found" is unreachable. *)
Theorem C17_no_missing_pair_panic : forall outs_of c, chain_wf outs_of c -> a_run c <> Panic 5.
Proof. exact no_missing_pair_panic. Qed.

(* Non-vacuity: a chain with a reused script, a same-block spend and a spend across blocks. *)
Definition addr_chain : list (list tx) :=
  [ [mkTx 1 [] [(5000000000, 3)]];
    [mkTx 2 [] [(3000000000, 4); (2000000000, 4)]; mkTx 3 [(1, 0)] [(1000, 4); (4999999000, 5)]; mkTx 4 [(3, 1)] [(4999999000, 1)]];
    [mkTx 5 [] [(5000000000, 0)]; mkTx 6 [(2, 1)] [(2000000000, 5)]] ].

Example C17_nonvacuous :
  match a_run addr_chain with
  | Ok st => shadowed st = false /\
             isort op_le (listed st 4) = [(2, 0); (3, 0)] /\ listed st 5 = [(6, 0)] /\ listed st 3 = []
  | _ => False
  end.
Proof. vm_compute. repeat split. Qed.

Print Assumptions C17_multimap_matches_table.
Print Assumptions C17_except.
Print Assumptions C17_known_refuted.
Print Assumptions C17_no_missing_pair_panic.
