(* C17 — The address index lists exactly the unspent outputs of each script.
   Statements only; proofs in Proofs/Address_proofs.v.
   [a_run sched] is the address-index model (Index/Address.v: cache + table + multimap, commits
   after an arbitrary subset [sched] of the blocks; the empty schedule commits after every block); [u_run] is the plain set of unspent outputs of the chain (spent inputs leave, outputs
   enter, an equal outpoint is replaced); [listed st s] are the outpoints the multimap lists under
   script s.  [outs_of] expresses that a txid determines the transaction's outputs (txids are
   hashes): every transaction t of the chain has outs t = outs_of (txid t).
   The null-outpoint pseudo entry (listed under the empty script when sats are indexed and some
   were lost) is not an output and is left out of the model and of the comparison. *)
From OrdV Require Import Base.Prelude Index.SatIndex Index.Address Proofs.SatIndex_proofs Proofs.Address_proofs.

(* After every block of every chain, whatever the commit schedule: the multimap lists o under s iff
   the table holds o with script s (no stale and no missing pair), and every table entry's value
   and script are those of output i of the transaction with that txid. *)
Theorem C17_multimap_matches_table : forall outs_of sched c st,
  chain_wf outs_of c -> a_run sched c = Ok st ->
  (forall s o, In o (listed st s) <-> exists v, aget op_eqb o (table st) = Some (v, s)) /\
  (forall t i e, aget op_eqb (t, i) (table st) = Some e -> nth_error (outs_of t) (N.to_nat i) = Some e).
Proof.
  intros outs_of sched c st F H. destruct (address_invariant outs_of sched c st F H) as [_ [O [M _]]]. split.
  - intros s o. rewrite listed_In. apply M.
  - exact O.
Qed.

(* Known finding dup-spent-before-commit is the class [shadowed st = true]: some spent input was
   found in the cache while the table also held an entry for the same outpoint (needs a duplicate
   txid).  Outside that class, for every commit schedule, right after a commit (empty cache; ord
   commits at the end of every update) the table is exactly the set of unspent outputs, hence the
   outputs listed for a script are exactly the unspent outputs paying to it: *)
Theorem C17_except : forall outs_of sched c st,
  chain_wf outs_of c -> a_run sched c = Ok st -> shadowed st = false -> cache st = [] ->
  forall s o, In o (listed st s) <-> exists v, aget op_eqb o (u_run c) = Some (v, s).
Proof.
  intros outs_of sched c st F H N C s o.
  destruct (C17_multimap_matches_table outs_of sched c st F H) as [M _].
  rewrite M, (table_is_utxo_set sched c st H N C o). reflexivity.
Qed.

(* ... and inside the class the statement fails: identical coinbases (txid 2) in blocks 1 and 2,
   commit after block 1, blocks 2 and 3 in one batch, block 3 spends 2:0.  The table keeps 2:0 and
   the multimap lists it under script 4 although it is spent. *)
Definition shadow_chain : list (list tx) :=
  [ [mkTx 1 [] [(5000000000, 3)]]; [mkTx 2 [] [(5000000000, 4)]]; [mkTx 2 [] [(5000000000, 4)]];
    [mkTx 3 [] [(0, 0)]; mkTx 4 [(2, 0)] [(5000000000, 5)]] ].
Definition shadow_outs_of (t : N) : list (N * N) :=
  match t with
  | 1 => [(5000000000, 3)] | 2 => [(5000000000, 4)] | 3 => [(0, 0)] | 4 => [(5000000000, 5)] | _ => []
  end.

Lemma C17_known_refuted :
  chain_wf shadow_outs_of shadow_chain /\
  exists st, a_run [true; true; false; true] shadow_chain = Ok st /\ shadowed st = true /\ cache st = [] /\
    In (2, 0) (listed st 4) /\ aget op_eqb (2, 0) (u_run shadow_chain) = None.
Proof.
  split; [repeat constructor|].
  destruct (a_run [true; true; false; true] shadow_chain) as [st| |] eqn:E; [|vm_compute in E; discriminate|vm_compute in E; discriminate].
  exists st. split; [reflexivity|]. vm_compute in E. inversion E; subst. vm_compute. repeat split. left. reflexivity.
Qed.

(* The panic site "script pubkey entry ... not found" is unreachable. *)
Theorem C17_no_missing_pair_panic : forall outs_of sched c, chain_wf outs_of c -> a_run sched c <> Panic 5.
Proof. exact no_missing_pair_panic. Qed.

(* Non-vacuity: a chain with a reused script, a same-block spend and a spend across blocks. *)
Definition addr_chain : list (list tx) :=
  [ [mkTx 1 [] [(5000000000, 3)]];
    [mkTx 2 [] [(3000000000, 4); (2000000000, 4)]; mkTx 3 [(1, 0)] [(1000, 4); (4999999000, 5)]; mkTx 4 [(3, 1)] [(4999999000, 1)]];
    [mkTx 5 [] [(5000000000, 0)]; mkTx 6 [(2, 1)] [(2000000000, 5)]] ].

Example C17_nonvacuous :
  match a_run [] addr_chain with
  | Ok st => shadowed st = false /\ cache st = [] /\
             isort op_le (listed st 4) = [(2, 0); (3, 0)] /\ listed st 5 = [(6, 0)] /\ listed st 3 = []
  | _ => False
  end.
Proof. vm_compute. repeat split. Qed.

Print Assumptions C17_multimap_matches_table.
Print Assumptions C17_except.
Print Assumptions C17_known_refuted.
Print Assumptions C17_no_missing_pair_panic.
