(* C06 — Reinscriptions are always flagged and clean first inscriptions are blessed.
   Model: Index/Inscr.v, floating_of = first half of InscriptionUpdater::index_inscriptions (floating
   inscriptions of one transaction in the order the code builds them: for each input its old inscriptions,
   then its envelopes), update_location = update_inscription_location.

   Inscriptions are labels on offsets of the concatenated input values (C03), so "the sat already carries an
   inscription" is, inside the reveal transaction: an OLD inscription of any input sits at the same offset,
   or a NEW inscription revealed EARLIER in the same transaction was put on that offset.

   KNOWN FINDING (class fwd-pointer-reinscription): inscribed_offsets is filled input by input, so an
   envelope of input i whose pointer lands on an inscribed sat of a LATER input j > i is classified
   before the old inscription of input j has been recorded and gets no Reinscription charm.  Changing this
   would renumber inscriptions (protocol level): recorded, not repaired. *)
From OrdV Require Import Base.Prelude Generated Index.Inscr Proofs.Inscr_tables Proofs.Inscr_proofs Proofs.Inscr_c06 Proofs.Inscr_c04 Proofs.Inscr_satinv Proofs.Inscr_c06b Proofs.Inscr_c07c Proofs.Inscr_disj.

(* the sat (offset) of the new inscription at position i of the floating list already carries an inscription *)
Definition carried_before (F : list flotsam) (i : nat) (o : N) : Prop :=
  exists j g, j <> i /\ nth_error F j = Some g /\ f_offset g = o /\ (is_new g = false \/ (j < i)%nat).

Definition C06_flagged (F : list flotsam) (i : nat) (f : flotsam) : Prop :=
  carried_before F i (f_offset f) -> f_reinscr f = true.

(* class predicate: an old inscription listed AFTER f (the list is in input order, so it belongs to a later
   input) sits at the offset f was put on (which can only happen through a pointer) *)
Definition Known_fwd_pointer (F : list flotsam) (i : nat) (f : flotsam) : Prop :=
  exists j g, (i < j)%nat /\ nth_error F j = Some g /\ is_new g = false /\ f_offset g = f_offset f.

(* exact characterisation of the flag: set iff something earlier in the list has the same offset *)
Theorem C06_flag_exact : forall cfg st h t ents F tiv i f,
  floating_of cfg st h t ents = Ok (F, tiv) -> nth_error F i = Some f -> is_new f = true ->
  (f_reinscr f = true <-> exists j g, (j < i)%nat /\ nth_error F j = Some g /\ f_offset g = f_offset f).
Proof. intros cfg st h t ents F tiv i f H. exact (reinscription_flag_exact _ _ _ _ _ _ _ H i f). Qed.

(* (a) outside the known class every reinscription is flagged *)
Theorem C06_except : forall cfg st h t ents F tiv i f,
  floating_of cfg st h t ents = Ok (F, tiv) -> nth_error F i = Some f -> is_new f = true ->
  ~ Known_fwd_pointer F i f -> C06_flagged F i f.
Proof.
  intros cfg st h t ents F tiv i f H Hi Hn Hk (j & g & J1 & J2 & J3 & J4).
  destruct (Nat.lt_ge_cases j i) as [L|L].
  - apply (reinscription_flag_exact _ _ _ _ _ _ _ H i f Hi Hn). exists j, g. auto.
  - exfalso. apply Hk. exists j, g. destruct J4 as [J4|J4]; [|lia]. repeat split; auto. lia.
Qed.

(* ... and the class is real: input 0 (value 100, nothing inscribed) carries an envelope with pointer 100,
   the first sat of input 1, which holds inscription 0 *)
Definition c06_st : state :=
  mkSt [] [(0, mkI 0 0 1 false (9, 0) 0%Z [] None 0)] [((9, 0), 0)] [(0%Z, 0)] [] [] [] [] [] 1 0 0 0.
Definition c06_tx : tx :=
  mkTx 5 [(1, 0); (2, 0)] [mkOut 200 false]
       [mkEnv 0 0 false false false false false true (Some 100) false []].
Definition c06_ents : list uentry := [mkU 100 [] []; mkU 100 [] [(0, 0)]].

Lemma C06_known_refuted : exists cfg st h t ents F tiv i f,
  floating_of cfg st h t ents = Ok (F, tiv) /\ nth_error F i = Some f /\ is_new f = true /\
  Known_fwd_pointer F i f /\ ~ C06_flagged F i f.
Proof.
  exists (cfg_of 0 false), c06_st, 5, c06_tx, c06_ents.
  eexists. eexists. exists 0%nat. eexists.
  split; [vm_compute; reflexivity|]. split; [reflexivity|]. split; [reflexivity|]. split.
  - exists 1%nat. eexists. split; [lia|]. split; [reflexivity|]. split; reflexivity.
  - intro P. assert (Q : false = true); [|discriminate]. apply P.
    exists 1%nat. eexists. split; [lia|]. split; [reflexivity|]. split; [reflexivity|]. left. reflexivity.
Qed.

(* (a) at the level the property is worded (sats), sat index on.  [b] is the indexer state right before the reveal
   transaction t; it satisfies the sat invariant of C03 (EntInv / KeyU: every listed inscription sits on its
   sat - a theorem for every reachable state of a valid chain, C03_location_is_sat_location).  ASSUMED from
   C02: the sat ranges of the outputs t spends are pairwise disjoint (Disj).  Then: if the sat n that
   calculate_sat gives the new inscription f already carries an inscription - an old one held by an input of t,
   or a new one revealed earlier in t - then f is flagged as a reinscription, unless f is in the recorded class
   (an old inscription of a LATER input sits on the offset f's pointer selects). *)
Theorem C06_sat_level_except : forall cfg h t b ents U1 st' F tiv i f n,
  c_sats cfg = true ->
  EntInv (s_entries (b_st b)) (s_utxo (b_st b)) [] -> KeyU (s_entries (b_st b)) (s_utxo (b_st b)) ->
  tx_plain t -> ins_real t ->
  take_inputs (t_ins t) (s_utxo (b_st b)) = Ok (ents, U1) ->
  Disj (concat (map u_ranges ents)) ->
  s_entries st' = s_entries (b_st b) ->
  floating_of cfg st' h t ents = Ok (F, tiv) ->
  nth_error F i = Some f -> is_new f = true ->
  calc_sat_in (concat (map u_ranges ents)) 0 (f_offset f) = Ok n ->
  ((exists j g seq e, nth_error F j = Some g /\ f_origin g = OOld seq /\
      tget N.eqb seq (s_entries (b_st b)) = Some e /\ i_sat e = Some n) \/
   (exists j g, (j < i)%nat /\ nth_error F j = Some g /\ is_new g = true /\
      calc_sat_in (concat (map u_ranges ents)) 0 (f_offset g) = Ok n)) ->
  ~ Known_fwd_pointer F i f -> f_reinscr f = true.
Proof.
  intros cfg h t b ents U1 st' F tiv i f n HS HE HK HP HR ET HD HEq EF Hi Hn Hsat Hcar Hk.
  apply (C06_except cfg st' h t ents F tiv i f EF Hi Hn Hk).
  pose proof (floating_flinv cfg h t b ents U1 st' F tiv HS HE HK HP HR ET HEq EF) as FL.
  destruct Hcar as [(j & g & seq & e & G1 & G2 & G3 & G4)|(j & g & J1 & G1 & G2 & G3)].
  - exists j, g. assert (Hg : In g F) by (eapply nth_error_In; eauto).
    destruct (FL g seq Hg G2) as [_ SA]. specialize (SA e n G3 G4).
    split; [|split; [exact G1|split]].
    + intro. subst j. rewrite Hi in G1. inv G1. unfold is_new in Hn. rewrite G2 in Hn. discriminate.
    + eapply calc_inj; eauto.
    + left. unfold is_new. rewrite G2. reflexivity.
  - exists j, g. split; [lia|]. split; [exact G1|]. split; [eapply calc_inj; eauto|]. right. exact J1.
Qed.

(* (a) at the sat level WITHOUT those assumptions, for valid chains.  chain_log cfg 0 c empty_state (Inscr_c07c) lists,
   for the run index_chain cfg 0 c empty_state, every transaction together with the indexer state it is applied to
   (C06_log_complete: no transaction of an indexed chain is missing).  Hypotheses: sat index on; every block is a
   coinbase (null inputs, non-zero txid) followed by non-coinbase transactions with non-null inputs from non-zero
   txids and a non-zero txid (block_ok3).  No distinct-txid assumption.  For every logged non-coinbase transaction t
   with state b: the sat invariant of C03 holds in b, and no sat occurs twice in the ranges of the outputs t spends
   (Inscr_disj: mid-block invariant "no sat twice in UTXO ranges + ranges owed to the coinbase + lost ranges",
   sats below the next block's first sat) - so the conclusion of C06_sat_level_except holds: a new inscription whose
   sat already carries an inscription is flagged, unless it is in the recorded class. *)
Theorem C06_sat_level : forall cfg c t b h ents U1 st' F tiv i f n,
  c_sats cfg = true -> Forall block_ok3 c ->
  In (t, b) (chain_log cfg 0 c empty_state) -> tx_plain t ->
  take_inputs (t_ins t) (s_utxo (b_st b)) = Ok (ents, U1) ->
  s_entries st' = s_entries (b_st b) ->
  floating_of cfg st' h t ents = Ok (F, tiv) ->
  nth_error F i = Some f -> is_new f = true ->
  calc_sat_in (concat (map u_ranges ents)) 0 (f_offset f) = Ok n ->
  ((exists j g seq e, nth_error F j = Some g /\ f_origin g = OOld seq /\
      tget N.eqb seq (s_entries (b_st b)) = Some e /\ i_sat e = Some n) \/
   (exists j g, (j < i)%nat /\ nth_error F j = Some g /\ is_new g = true /\
      calc_sat_in (concat (map u_ranges ents)) 0 (f_offset g) = Ok n)) ->
  ~ Known_fwd_pointer F i f -> f_reinscr f = true.
Proof.
  intros cfg c t b h ents U1 st' F tiv i f n HS BO Hin HP ET HEq EF Hi Hn Hsat Hcar Hk.
  destruct (sat_level_premises cfg c t b HS BO Hin HP) as (HE & HK & HR & HD).
  exact (C06_sat_level_except cfg h t b ents U1 st' F tiv i f n HS HE HK HP HR ET (HD ents U1 ET) HEq EF Hi Hn Hsat Hcar Hk).
Qed.

Theorem C06_log_complete : forall cfg c st,
  index_chain cfg 0 c empty_state = Ok st ->
  forall blk t, In blk c -> In t blk -> exists b, In (t, b) (chain_log cfg 0 c empty_state).
Proof. intros cfg c st H. exact (chain_log_complete cfg c 0 empty_state st H). Qed.

(* Non-vacuity of C06_sat_level: block 2 reveals inscription 0 on the first sat of (2,0); block 3 spends (4,0) and
   reveals again on offset 0: the logged state of that transaction, its floating list [old 0; new], the sat
   5000000000 carried by both, and the flag. *)
Definition c06_env0 : envelope := mkEnv 0 0 false false false false false false None false [].
Definition c06_tx6 : tx := mkTx 6 [(4, 0)] [mkOut 5000000000 false] [c06_env0].
Definition c06_chain : list block :=
  [ [mkTx 1 [null_op] [mkOut 5000000000 false] []];
    [mkTx 2 [null_op] [mkOut 5000000000 false] []];
    [mkTx 3 [null_op] [mkOut 5000000000 false] []; mkTx 4 [(2, 0)] [mkOut 5000000000 false] [c06_env0]];
    [mkTx 5 [null_op] [mkOut 5000000000 false] []; c06_tx6] ].

Example C06_sat_level_nonvacuous :
  Forall block_ok3 c06_chain /\ tx_plain c06_tx6 /\
  exists b ents U1 F tiv g f e,
    In (c06_tx6, b) (chain_log (cfg_of 0 true) 0 c06_chain empty_state) /\
    take_inputs (t_ins c06_tx6) (s_utxo (b_st b)) = Ok (ents, U1) /\
    floating_of (cfg_of 0 true) (b_st b) 3 c06_tx6 ents = Ok (F, tiv) /\ F = [g; f] /\
    f_origin g = OOld 0 /\ tget N.eqb 0 (s_entries (b_st b)) = Some e /\ i_sat e = Some 5000000000 /\
    is_new f = true /\ calc_sat_in (concat (map u_ranges ents)) 0 (f_offset f) = Ok 5000000000 /\
    ~ Known_fwd_pointer F 1 f /\ f_reinscr f = true.
Proof.
  split; [|split].
  - repeat constructor; vm_compute; auto; try discriminate; intuition discriminate.
  - reflexivity.
  - eexists. eexists. eexists. eexists. eexists. eexists. eexists. eexists.
    split; [vm_compute; right; right; right; right; left; reflexivity|].
    split; [vm_compute; reflexivity|]. split; [vm_compute; reflexivity|]. split; [reflexivity|].
    split; [reflexivity|]. split; [vm_compute; reflexivity|]. split; [reflexivity|]. split; [reflexivity|].
    split; [vm_compute; reflexivity|]. split; [|reflexivity].
    intros (j & g' & Hlt & Hnth & _). destruct j as [|[|j]]; try lia. cbn in Hnth. destruct j; discriminate.
Qed.

(* the Reinscription / Cursed / Vindicated charms and the sign of the number are the flags *)
Theorem C06_charms_are_flags : forall h rg f sp o b b' c fee hid ps re ub vi,
  f_origin f = ONew c fee hid ps re ub vi ->
  update_location h rg f sp o b = Ok b' ->
  exists e, tget N.eqb (b_next b) (s_entries (b_st b')) = Some e /\ i_id e = f_id f /\
    has CHARM_REINSCRIPTION (i_charms e) = re /\ has CHARM_CURSED (i_charms e) = c /\
    has CHARM_VINDICATED (i_charms e) = vi /\ ((i_number e < 0)%Z <-> c = true).
Proof.
  intros h rg f sp o b b' c fee hid ps re ub vi Ho H.
  destruct (new_entry_charms _ _ _ _ _ _ _ _ _ _ _ _ _ _ Ho H) as (e & A & B & C & D & E & _ & _ & _ & F).
  exists e. repeat split; try assumption; apply F.
Qed.

(* (b) a bound inscription whose envelope is the first one of the first input, without pointer, pushnum,
   stutter, duplicate / incomplete / unrecognized even field, on an offset that carries nothing yet:
   not cursed, not vindicated, not a reinscription (and bound) *)
Theorem C06_clean_first_blessed : forall st txid jubilant tov offset iv v a a',
  clean v = true -> iv <> 0 ->
  IOk (a_float a) (a_io a) -> (forall g, In g (a_float a) -> f_offset g <> offset) ->
  news st txid jubilant tov offset iv [v] a = Ok a' ->
  exists f, a_float a' = a_float a ++ [f] /\ is_new f = true /\ f_offset f = offset /\
            f_cursed f = false /\ f_vindicated f = false /\ f_reinscr f = false.
Proof.
  intros st txid jubilant tov offset iv v a a' H1 H2 H3 H4 H5.
  destruct (clean_first _ _ _ _ _ _ _ _ _ H1 H2 H3 H4 H5) as (f & A & B & C & D & E & F & _).
  exists f. repeat split; assumption.
Qed.

Print Assumptions C06_flag_exact.
Print Assumptions C06_except.
Print Assumptions C06_known_refuted.
Print Assumptions C06_charms_are_flags.
Print Assumptions C06_clean_first_blessed.
Print Assumptions C06_sat_level_except.
Print Assumptions C06_sat_level.
Print Assumptions C06_log_complete.
