(* C31 — Text parsers are total and never accept by overflow.
   For each parser: it never panics on any string (the model returns Ok or Err; every Rust
   arithmetic operation on the parsing path is modelled with its overflow behaviour) and an
   accepted string denotes the returned value, where "denotes" is the reading of the notation
   over unbounded naturals (the predicates *_denotes; their definitions are in Proofs/).
   The parsers are the repaired ones (known_findings.txt lists the seven fix commits).
   Only statements, closed by [exact]/glue, with Print Assumptions. *)
From OrdV Require Import Base.Prelude Generated Ord.Rune Ord.Decimal Ord.SatParse Ord.TextParse
  Proofs.Rune_proofs Proofs.Spaced_proofs Proofs.Decimal_proofs Proofs.DecimalParse_proofs
  Proofs.SatParse_proofs Proofs.TextParse_proofs Proofs.SpacedSound_proofs.

(* Sat::from_str, all notations.  [fc] is the classification by Rust's own f64 parser of the
   text before a final '%' (f64 is trusted, not modelled): the theorem holds for every value
   of it; a percentile is accepted only for FVal n (finite, not negative) with n <= LAST, so
   NaN, infinities and negative numbers are rejected.  Accepted sats are always <= Sat::LAST. *)
Theorem C31_sat : forall fc s,
  (forall t, sat_from_str fc s <> Panic t) /\
  (forall n, sat_from_str fc s = Ok n -> sat_denotes fc s n /\ n <= LAST).
Proof.
  intros fc s. split; [intro t; apply sat_from_str_total|exact (sat_from_str_sound fc s)].
Qed.

Theorem C31_sat_nonfinite_rejected : forall s n,
  sat_from_str FNan s <> Ok n \/ existsb is_lower s = true \/ contains C_DEGREE s = true \/ contains C_PERCENT s = false.
Proof.
  intros s n. unfold sat_from_str.
  destruct (existsb is_lower s); [right; left; reflexivity|].
  destruct (contains C_DEGREE s); [right; right; left; reflexivity|].
  destruct (contains C_PERCENT s); [|right; right; right; reflexivity].
  left. unfold from_percentile. destruct (last_char s); [|discriminate].
  destruct (negb _); discriminate.
Qed.

(* Rune::from_str: an accepted string is exactly the printed name of the returned rune. *)
Theorem C31_rune : forall s,
  (forall t, parse s <> Panic t) /\
  (forall n, parse s = Ok n -> n < P128 /\ show n = s).
Proof. intro s. split; [intro t; apply parse_total|exact (show_parse s)]. Qed.

(* SpacedRune::from_str: an accepted string, reading '.' as the bullet, is exactly the printed
   form of the returned spaced rune (so no leading, doubled or trailing spacers, no spacer bit
   at or above the last letter, and the letters are the rune's name). *)
Theorem C31_spaced_rune : forall s,
  (forall t, spaced_parse s <> Panic t) /\
  (forall n sp, spaced_parse s = Ok (n, sp) ->
     n < P128 /\ sp < P32 /\ map norm s = spaced_show n sp /\ spaced_denotes s n sp).
Proof.
  intro s. split; [intro t; apply spaced_parse_total|].
  intros n sp H. destruct (spaced_parse_display s n sp H) as (A & B & C).
  destruct (spaced_parse_sound s n sp H) as [D _]. auto.
Qed.

(* RuneId::from_str *)
Theorem C31_rune_id : forall s,
  (forall t, rune_id_from_str s <> Panic t) /\
  (forall b tx, rune_id_from_str s = Ok (b, tx) -> rune_id_denotes s b tx /\ b < P64 /\ tx < P32).
Proof. intro s. split; [intro t; apply rune_id_total|exact (rune_id_sound s)]. Qed.

(* Decimal::from_str *)
Theorem C31_decimal : forall s,
  (forall t, dec_from_str s <> Panic t) /\
  (forall value scale, dec_from_str s = Ok (value, scale) ->
     dec_denotes s value scale /\ value < P128 /\ scale <= 255).
Proof.
  intro s. split; [intro t; apply dec_from_str_total|].
  intros v sc H. destruct (dec_from_str_sound _ _ _ H) as (A & _ & B & C). auto.
Qed.

(* InscriptionId::from_str (Txid hex parsing of rust-bitcoin modelled by hand) *)
Theorem C31_inscription_id : forall s,
  (forall t, inscription_id_from_str s <> Panic t) /\
  (forall txid i, inscription_id_from_str s = Ok (txid, i) -> inscription_id_denotes s txid i).
Proof. intro s. split; [intro t; apply inscription_id_total|exact (inscription_id_sound s)]. Qed.

(* SatPoint::from_str (OutPoint::from_str of rust-bitcoin modelled by hand) *)
Theorem C31_satpoint : forall s,
  (forall t, satpoint_from_str s <> Panic t) /\
  (forall txid v o, satpoint_from_str s = Ok (txid, v, o) -> satpoint_denotes s txid v o).
Proof. intro s. split; [intro t; apply satpoint_total|exact (satpoint_sound s)]. Qed.

(* Outgoing::from_str; the Amount branch only records the dispatch (bitcoin::Amount::from_str
   is not modelled) *)
Theorem C31_outgoing : forall s,
  (forall t, outgoing_from_str s <> Panic t) /\
  (forall o, outgoing_from_str s = Ok o -> outgoing_denotes s o).
Proof. intro s. split; [intro t; apply outgoing_total|exact (outgoing_sound s)]. Qed.

(* explorer queries query::{Block, Inscription, Rune} *)
Theorem C31_queries : forall fc s,
  (forall t, query_block s <> Panic t) /\ (forall q, query_block s = Ok q -> qblock_denotes s q) /\
  (forall t, query_inscription fc s <> Panic t) /\
  (forall q, query_inscription fc s = Ok q -> qinscription_denotes s q) /\
  (forall t, query_rune s <> Panic t) /\ (forall q, query_rune s = Ok q -> qrune_denotes s q).
Proof.
  intros fc s. split; [intro t; apply query_block_total|]. split; [exact (query_block_sound s)|].
  split; [intro t; apply query_inscription_total|]. split; [exact (query_inscription_sound fc s)|].
  split; [intro t; apply query_rune_total|exact (query_rune_sound s)].
Qed.

(* Non-vacuity: each parser accepts something, and the former failing inputs are now errors. *)
Example C31_nonvacuous :
  sat_from_str FErr [48;176;49;8242;49;8243;48;8244] = Ok 5000000000 /\          (* 0°1′1″0‴ *)
  sat_from_str FNan [78;65;78;37] = Err SE_PERCENTILE /\                           (* NAN% *)
  sat_from_str FErr [55;49;53;56;50;55;56;56;51;176;48;8242;48;8243;48;8244] = Err SE_INTEGER_RANGE /\
  parse [] = Err E_RANGE /\
  spaced_parse (repeat 65 33 ++ [46; 65]) = Err E_RANGE /\
  rune_id_from_str [49;58;50] = Ok (1, 2) /\
  dec_from_str [49;46;43;53] = Err E_PARSEINT /\                                   (* 1.+5 *)
  outgoing_from_str [49;46;53;32;58;65;8226;66] = Ok (ORune 15 1 27 1) /\          (* "1.5 :A•B" *)
  query_rune [45;53] = Err E_PARSEINT.
Proof. vm_compute. repeat split. Qed.

Print Assumptions C31_sat.
Print Assumptions C31_sat_nonfinite_rejected.
Print Assumptions C31_rune.
Print Assumptions C31_spaced_rune.
Print Assumptions C31_rune_id.
Print Assumptions C31_decimal.
Print Assumptions C31_inscription_id.
Print Assumptions C31_satpoint.
Print Assumptions C31_outgoing.
Print Assumptions C31_queries.
