(* C31 — Text parsers are total and never accept by overflow.  (preliminary: extended below) *)
From OrdV Require Import Base.Prelude Generated Ord.Rune Ord.Decimal Ord.SatParse Ord.TextParse
  Proofs.Rune_proofs Proofs.Spaced_proofs Proofs.Decimal_proofs Proofs.DecimalParse_proofs.

Theorem C31_decimal : forall s,
  (forall t, dec_from_str s <> Panic t) /\
  (forall value scale, dec_from_str s = Ok (value, scale) ->
     dec_denotes s value scale /\ value < P128 /\ scale <= 255).
Proof.
  intro s. split; [intro t; apply dec_from_str_total|].
  intros v sc H. destruct (dec_from_str_sound _ _ _ H) as (A & _ & B & C). auto.
Qed.

Print Assumptions C31_decimal.
