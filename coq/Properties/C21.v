(* C21 — Batch inscribing produces exactly the inscriptions and locations it reports.
   Model: Wallet/Batch.v (File::inscriptions pointers and postages, the value shape of the reveal
   transaction built by Plan::create_batch_transactions, the (vout, offset) reported by
   Plan::output) and the commit transaction built by the TransactionBuilder (Wallet/Builder.v).

   ASSUMED INDEXER FACTS (subject of C03/C05/C09, proved elsewhere, not here): (I1) the i-th
   envelope of a transaction gets the id (txid, i); (I2) a new inscription whose pointer p is
   below the total output value is bound to the sat at position p of the output stream,
   [locate outputs p]; (I3) an inscription on the sat at position q of the input stream moves
   to [locate outputs q]; (I4) a premine goes to the non-OP_RETURN output the runestone points
   to.  The theorems below are the planner's half: what it reports equals what (I1)-(I4) yield
   on the transaction shape it builds.
   (I1)-(I3) are proved for the inscription indexer model of C03-C07 (Index/Inscr.v) at the end of this file
   (C21_indexer_I1/I2/I3, C21_indexer_located) and composed with the planner's half in C21_reveal_located;
   statements in Proofs/Inscr_c21.v.  (I4), the rune premise, stays assumed here (C09's subject). *)
From OrdV Require Import Base.Prelude Generated Wallet.Batch Proofs.Batch_proofs
  Wallet.Builder Wallet.BuilderSpec Proofs.Builder_proofs.
From OrdV Require Index.Inscr Proofs.Inscr_c21.

(* For every batch accepted by the planner (BatchOK: at least one inscription, positive postage,
   in satpoints mode a positive-valued satpoint per entry - what File::load and the dust check
   on the reveal outputs enforce), in all four modes, with any parents and with or without an
   etching: the pointer written into inscription i selects, in the output values of the reveal
   transaction, exactly the (vout, offset) that Plan::output reports for inscription i. *)
Theorem C21_reported_is_located : forall b, BatchOK b ->
  map (locate (reveal_outputs b)) (pointers b) = map Some (reported b).
Proof. exact reported_is_located. Qed.

(* Parents return to the wallet: parent j, at offset off of an input worth v, is carried to
   output j (the return output, same value) at the same offset. *)
Theorem C21_parents_return : forall b j v off,
  nth_error (b_parents b) j = Some (v, off) -> off < v ->
  locate (reveal_outputs b) (sum (firstn j (map fst (b_parents b))) + off) = Some (N.of_nat j, off).
Proof. exact parents_return. Qed.

(* The same with the position read off the reveal inputs (parents first, then the satpoints'
   outputs, then the commit output at index `commit_input`), whatever the commit output is worth. *)
Theorem C21_parents_return_fifo : forall b c j v off,
  nth_error (b_parents b) j = Some (v, off) -> off < v ->
  nth_error (reveal_input_values b c) j = Some v /\
  locate (reveal_outputs b) (sum (firstn j (reveal_input_values b c)) + off) = Some (N.of_nat j, off).
Proof. exact parents_return_fifo. Qed.

Theorem C21_commit_input_position : forall b c,
  nth_error (reveal_input_values b c) (N.to_nat (commit_input b)) = Some c /\
  (N.to_nat (commit_input b) + 1 = length (reveal_input_values b c))%nat.
Proof. exact commit_input_position. Qed.

(* Etching with a premine: the reported rune output is the output the runestone points to; it
   is the TARGET_POSTAGE change output and it is followed only by the runestone output. *)
Theorem C21_rune_output : forall b v, rune_vout b = Some v ->
  runestone_pointer b = Some v /\
  nth_error (reveal_outputs b) (N.to_nat v) = Some TB_TARGET_POSTAGE /\
  (N.to_nat v + 2 = length (reveal_outputs b))%nat.
Proof. exact rune_output. Qed.

(* The commit transaction is built by the TransactionBuilder with Target::Value: besides the
   output holding the sat to inscribe it spends only cardinal outputs (no other inscribed,
   runic or locked output), and the commit output receives at least the requested value
   (reveal fee + postages), so the reveal transaction's outputs are funded. *)
Theorem C21_commit_spends_only_cardinal : forall fee w v inputs outs,
  w_target w = TValue v ->
  build_transaction fee w = Ok (inputs, outs) ->
  (forall i, In i inputs -> i <> w_out_id w -> is_cardinal w i) /\
  exists rv, In (w_recipient w, rv) outs /\ v <= rv.
Proof.
  intros fee w v inputs outs Ht H. apply build_ok_implies_spec in H.
  destruct H as [_ [_ [Hc [before [after [pre [rv [post [_ [_ [Ho [_ [_ [_ [_ [_ [Htc _]]]]]]]]]]]]]]]]].
  split; [exact Hc|]. exists rv. split.
  - rewrite Ho. apply in_or_app. right. left. reflexivity.
  - unfold target_clause in Htc. rewrite Ht in Htc. exact (proj1 Htc).
Qed.

(* Non-vacuity: a shared-output batch of three inscriptions with two parents and an etching. *)
Example C21_nonvacuous :
  let b := mkBatch SharedOutput [(10000, 0); (546, 100)] 3 330 [] true true in
  BatchOK b /\ reveal_outputs b = [10000; 546; 990; 10000; 0] /\
  pointers b = [10546; 10876; 11206] /\ reported b = [(2, 0); (2, 330); (2, 660)] /\
  rune_vout b = Some 3.
Proof. cbv zeta. split; [split; [cbn; lia|reflexivity]|]. vm_compute. repeat split; reflexivity. Qed.

(* ---- the indexer's half, on the inscription indexer model (Index/Inscr.v), one non-coinbase transaction:
   floating_of = the flotsam of the transaction, assign = its distribution over the outputs; statements spelled
   out in Proofs/Inscr_c21.v (I1_statement, I2_statement, I3_statement, located_statement, reveal_statement).
   (I1) the new inscriptions get the ids (txid,0), (txid,1), ... one per envelope, in envelope order
        (envelopes sorted by input, as the parser delivers them);
   (I2) a new inscription floats on its pointer p when p < total output value (else on the first offset of the
        input its envelope is in);
   (I3) an inscription at offset off of input i floats at (value of inputs 0..i-1) + off;
   located: a flotsam at offset q < total output value is handed to update_inscription_location with the
        satpoint (txid, k):o where locate (output values) q = Some (k, o)  [same locate as above]. *)
Theorem C21_indexer_I1 : forall cfg, Inscr_c21.I1_statement cfg.
Proof. exact Inscr_c21.indexer_I1. Qed.
Theorem C21_indexer_I2 : forall cfg, Inscr_c21.I2_statement cfg.
Proof. exact Inscr_c21.indexer_I2. Qed.
Theorem C21_indexer_I3 : forall cfg, Inscr_c21.I3_statement cfg.
Proof. exact Inscr_c21.indexer_I3. Qed.
Theorem C21_indexer_located : Inscr_c21.located_statement.
Proof. exact Inscr_c21.indexer_located. Qed.

(* planner + indexer: in a transaction whose output values are reveal_outputs b of an accepted batch, the flotsam
   whose offset is the i-th pointer is handed over with exactly (vout, offset) = the i-th reported location. *)
Theorem C21_reveal_located : Inscr_c21.reveal_statement.
Proof. exact Inscr_c21.reveal_located. Qed.

Print Assumptions C21_reported_is_located.
Print Assumptions C21_parents_return.
Print Assumptions C21_parents_return_fifo.
Print Assumptions C21_commit_input_position.
Print Assumptions C21_rune_output.
Print Assumptions C21_commit_spends_only_cardinal.
Print Assumptions C21_indexer_I1.
Print Assumptions C21_indexer_I2.
Print Assumptions C21_indexer_I3.
Print Assumptions C21_indexer_located.
Print Assumptions C21_reveal_located.
