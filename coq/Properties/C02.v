(* C02 — Every mined sat is in exactly one place and all sat lookups agree.
   Statements only; proofs in Proofs/SatIndex_partition.v and Proofs/SatIndex_proofs.v.
   [run] is the sat-index model of Index/SatIndex.v (one UTXO map; by cache_split_unobservable the
   cache/table index of Index/SatCache.v has the same UTXO content, lost ranges, LostSats and
   SAT_TO_SATPOINT for every commit schedule unless a spent input is shadowed, see C01_except);
   [all_sats st] = the sats of all unspent
   outputs followed by the lost sats; [destroyed st] = ranges dropped by duplicate txids. *)
From OrdV Require Import Base.Prelude Generated Index.SatIndex Proofs.SatIndex_proofs Proofs.SatIndex_partition Proofs.SatIndex_rare Properties.C01.
From Coq Require Import Permutation.

(* At every indexed height of every chain the model indexes (every valid chain: next theorem),
   the sats in unspent outputs, the lost sats and the sats destroyed by duplicate txids are exactly
   the sats mined so far, [0, starting_sat(height)), each exactly once; no outpoint is stored twice. *)
Theorem C02_partition : forall c st,
  nonempty_blocks c -> run c = Ok st ->
  Permutation (all_sats st ++ flatten (destroyed st)) (nseq 0 (N.to_nat (starting_sat (height st)))) /\
  NoDup (all_sats st ++ flatten (destroyed st)) /\
  NoDup (map fst (utxo st)).
Proof.
  intros c st NE H. destruct (partition c st NE H) as [P K].
  split; [exact P|]. split; [exact (no_sat_twice c st NE H)|exact K].
Qed.

(* Valid chains are indexed, have a coinbase in every block, and each output's ranges add up to
   its value: the map outpoint -> sum of range lengths is the value-only UTXO set of the chain. *)
Theorem C02_values : forall c,
  valid c = true ->
  nonempty_blocks c /\ exists st, run c = Ok st /\ v_run 0 [] c = Some (vabs (utxo st)).
Proof. intros c H. split; [exact (valid_nonempty c H)|exact (valid_chain_indexed c H)]. Qed.

(* Stored ranges are never empty, and every stored sat is below the indexed supply and Sat::SUPPLY. *)
Theorem C02_ranges_wellformed : forall c st,
  run c = Ok st ->
  Forall (fun kv => Forall (fun r => fst r < snd r) (snd kv)) (utxo st) /\
  Forall (fun r => fst r < snd r) (lost st) /\
  (nonempty_blocks c -> forall s, In s (all_sats st) -> s < starting_sat (height st) /\ s < SI_SUPPLY).
Proof.
  intros c st H. destruct (ranges_nonempty c st H) as [A B]. split; [exact A|]. split; [exact B|].
  intros NE s I. exact (stored_sats_below_supply c st s NE H I).
Qed.

(* Index::find, for every sat below Sat::SUPPLY: a sat of a block that is not indexed is not found;
   a sat of an indexed block is looked up in the table, a reported location really holds the sat
   (entry o, offset k), and "not found" means the sat is in no output and not lost — by the
   partition it was then destroyed by a duplicate txid. *)
Theorem C02_find : forall c st s,
  nonempty_blocks c -> run c = Ok st -> s < SI_SUPPLY ->
  (starting_sat (height st) <= s -> find st s = Ok None) /\
  (s < starting_sat (height st) ->
     exists r, find st s = Ok r /\
       match r with
       | Some (o, k) => sat_at (entries st) o k s
       | None => ~ In s (all_sats st) /\ In s (flatten (destroyed st))
       end).
Proof.
  intros c st s NE H S. split.
  - intros L. exact (find_unindexed st s L S).
  - intros L. exists (find_scan s (entries st)). split; [exact (find_indexed st s L S)|].
    destruct (find_scan_correct st s) as [F1 F2].
    destruct (find_scan s (entries st)) as [[o k]|] eqn:E.
    + apply F1. reflexivity.
    + split; [apply F2; reflexivity|].
      destruct (proj2 (every_mined_sat_somewhere c st s NE H) L) as [I|I]; [|exact I].
      exfalso. exact (F2 eq_refl I).
Qed.

(* Index::find_range on a non-empty window [a, b): every reported piece (start, size, outpoint,
   offset) is non-empty, inside the window, and sat start+j is at outpoint:offset+j for j < size;
   every stored sat of the window is covered by a piece.  (Pieces are disjoint because no sat is
   stored twice, C02_partition.) *)
Theorem C02_find_range : forall c st a b,
  run c = Ok st -> a < b ->
  (forall os sz o k, In (os, sz, (o, k)) (find_range_scan a b (entries st)) ->
     0 < sz /\ a <= os /\ os + sz <= b /\ forall j, j < sz -> sat_at (entries st) o (k + j) (os + j)) /\
  (forall x, a <= x < b -> In x (all_sats st) ->
     exists os sz sp, In (os, sz, sp) (find_range_scan a b (entries st)) /\ os <= x < os + sz).
Proof.
  intros c st a b H AB. split.
  - intros os sz o k I.
    exact (find_range_scan_sound _ _ _ _ _ _ _ AB (wf_entries st (ranges_nonempty c st H)) I).
  - intros x W I. apply find_range_scan_complete; [exact W|]. apply usats_entries. exact I.
Qed.

(* Index::list returns the stored entry (the lost sats under the null outpoint). *)
Theorem C02_list : forall st o, list_ranges st o = aget op_eqb o (entries st).
Proof. exact list_is_entry. Qed.

(* The rare-sat table SAT_TO_SATPOINT, at every indexed height.
   Complete: every stored range (of an unspent output or of the lost sats) whose first sat is not
   common has an entry giving its outpoint and the offset of the range inside it; the LostSats
   statistic is the size of the null-outpoint entry.
   Sound: whatever the table reports for a sat is a non-common sat that starts a stored range at
   exactly that outpoint and offset -- except for sats that started a range destroyed by a
   duplicate txid, whose entries are never removed (known finding displaced-rare-sat, witness
   below). *)
Theorem C02_rare_table : forall c st,
  nonempty_blocks c -> run c = Ok st ->
  (forall o rs i s e, aget op_eqb o (utxo st) = Some rs -> nth_error rs i = Some (s, e) -> common s = false ->
     rare st s = Some (o, total (firstn i rs))) /\
  (forall i s e, nth_error (lost st) i = Some (s, e) -> common s = false ->
     rare st s = Some (NULL_OP, total (firstn i (lost st)))) /\
  lost_sats st = total (lost st) /\
  (forall s o k, rare st s = Some (o, k) ->
     common s = false /\
     ((exists rs i e, aget op_eqb o (utxo st) = Some rs /\ nth_error rs i = Some (s, e) /\ k = total (firstn i rs)) \/
      (o = NULL_OP /\ exists i e, nth_error (lost st) i = Some (s, e) /\ k = total (firstn i (lost st))) \/
      In s (starts (destroyed st)))).
Proof.
  intros c st NE H. destruct (rare_table_invariant c st NE H) as [RM [RL LS]].
  split; [|split; [|split; [exact LS|]]].
  - intros o rs i s e G Hi Hc. unfold rare. rewrite (RM o rs G i s e Hi Hc). reflexivity.
  - intros i s e Hi Hc. unfold rare. rewrite (RL i s e Hi Hc). reflexivity.
  - intros s o k R. exact (rare_table_sound c st s o k NE H R).
Qed.

(* Known finding displaced-rare-sat, in the model (which mirrors the code: SAT_TO_SATPOINT entries
   are never deleted): blocks 1 and 2 have the same coinbase txid; the first sat of block 1 is
   destroyed, find does not find it, the rare-sat table still reports it at 2:0 offset 0, where
   the first sat of block 2 lives. *)
Definition dup_chain : list (list tx) :=
  [ [mkTx 1 [] [(5000000000, 3)]]; [mkTx 2 [] [(5000000000, 4)]]; [mkTx 2 [] [(5000000000, 4)]] ].

Lemma C02_known_displaced_rare_sat :
  valid dup_chain = true /\
  match run dup_chain with
  | Ok st => rare st 5000000000 = Some ((2, 0), 0) /\ find st 5000000000 = Ok None /\
             find st 10000000000 = Ok (Some ((2, 0), 0)) /\ destroyed st = [(5000000000, 10000000000)]
  | _ => False
  end.
Proof. vm_compute. repeat split. Qed.

(* Non-vacuity: the example chain of C01 is valid, has lost sats, and its state satisfies the
   hypotheses above. *)
Example C02_nonvacuous :
  valid Properties.C01.ex_chain = true /\ nonempty_blocks Properties.C01.ex_chain /\
  match run Properties.C01.ex_chain with
  | Ok st => height st = 3 /\ find st 8400000000 = Ok (Some ((4, 0), 3400000000)) /\
             find st 15000000000 = Ok None
  | _ => False
  end.
Proof. split; [vm_compute; reflexivity|]. split; [repeat constructor; discriminate|]. vm_compute. repeat split. Qed.

Print Assumptions C02_partition.
Print Assumptions C02_values.
Print Assumptions C02_ranges_wellformed.
Print Assumptions C02_find.
Print Assumptions C02_find_range.
Print Assumptions C02_list.
Print Assumptions C02_rare_table.
Print Assumptions C02_known_displaced_rare_sat.
